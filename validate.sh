#!/bin/bash
# validates MANIFEST.json and every evidence file against the schemas
python3-vt - <<'PY'
import json,jsonschema,glob,sys
ok=True
try:
    jsonschema.validate(json.load(open('/verif/MANIFEST.json')),json.load(open('/root/.vp/MANIFEST.schema.json')))
except Exception as e:
    print('MANIFEST invalid:',e); ok=False
es=json.load(open('/root/.vp/EVIDENCE.schema.json'))
for f in sorted(glob.glob('/verif/evidence/*.json')):
    try:
        jsonschema.validate(json.load(open(f)),es)
    except Exception as e:
        print(f,'invalid:',str(e)[:300]); ok=False
print('valid' if ok else 'INVALID')
sys.exit(0 if ok else 1)
PY
