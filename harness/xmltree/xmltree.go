// Package xmltree re-parses bytes with an independent encoding/xml decoder into
// canonical trees.  All "same element" comparisons of the monitors are made on
// these trees, never on strings, so attribute order, prefix choice,
// self-closing form and the spelling of namespace declarations cannot cause
// alarms.
package xmltree

import (
	"bytes"
	"encoding/xml"
	"fmt"
	"io"
	"sort"
	"strings"
)

// Node is an element.
type Node struct {
	Name  xml.Name
	Attrs map[xml.Name]string // without namespace declarations
	Items []Item              // children and character data in document order
	// Offset/End: byte offsets of the element in the parsed input.
	Offset, End int64
}

// Item is a child element or a run of character data.
type Item struct {
	El   *Node
	Text string
}

func isNSDecl(a xml.Attr) bool {
	return a.Name.Space == "xmlns" || (a.Name.Space == "" && a.Name.Local == "xmlns") ||
		// re-encoded spelling produced by encoding/xml when prefix declarations
		// are passed through an Encoder again
		a.Name.Space == "_xmlns" || a.Name.Local == "_xmlns"
}

// FromStart makes a childless node from a start element.
func FromStart(se xml.StartElement) *Node {
	n := &Node{Name: se.Name, Attrs: map[xml.Name]string{}}
	for _, a := range se.Attr {
		if isNSDecl(a) {
			continue
		}
		n.Attrs[a.Name] = a.Value
	}
	return n
}

// Attr returns the value of the attribute with the given local name in no
// namespace.
func (n *Node) Attr(local string) string {
	return n.Attrs[xml.Name{Local: local}]
}

// HasAttr reports whether the un-namespaced attribute is present.
func (n *Node) HasAttr(local string) bool {
	_, ok := n.Attrs[xml.Name{Local: local}]
	return ok
}

// Children returns the child elements.
func (n *Node) Children() []*Node {
	var out []*Node
	for _, it := range n.Items {
		if it.El != nil {
			out = append(out, it.El)
		}
	}
	return out
}

// Child returns the first child with the given local name (any namespace if
// space is "*").
func (n *Node) Child(space, local string) *Node {
	for _, c := range n.Children() {
		if c.Name.Local == local && (space == "*" || c.Name.Space == space) {
			return c
		}
	}
	return nil
}

// Text returns the concatenated character data directly inside n.
func (n *Node) Text() string {
	var sb strings.Builder
	for _, it := range n.Items {
		if it.El == nil {
			sb.WriteString(it.Text)
		}
	}
	return sb.String()
}

// DeepText returns all character data below n.
func (n *Node) DeepText() string {
	var sb strings.Builder
	for _, it := range n.Items {
		if it.El == nil {
			sb.WriteString(it.Text)
		} else {
			sb.WriteString(it.El.DeepText())
		}
	}
	return sb.String()
}

// Find returns the first descendant (or n itself) for which f is true.
func (n *Node) Find(f func(*Node) bool) *Node {
	if f(n) {
		return n
	}
	for _, c := range n.Children() {
		if m := c.Find(f); m != nil {
			return m
		}
	}
	return nil
}

func (n *Node) appendText(s string) {
	if s == "" {
		return
	}
	if l := len(n.Items); l > 0 && n.Items[l-1].El == nil {
		n.Items[l-1].Text += s
		return
	}
	n.Items = append(n.Items, Item{Text: s})
}

// String renders a canonical form: {space}local, attributes sorted.
func (n *Node) String() string {
	var sb strings.Builder
	n.write(&sb)
	return sb.String()
}

func nameStr(x xml.Name) string {
	if x.Space == "" {
		return x.Local
	}
	return "{" + x.Space + "}" + x.Local
}

func (n *Node) write(sb *strings.Builder) {
	sb.WriteString("<" + nameStr(n.Name))
	keys := make([]xml.Name, 0, len(n.Attrs))
	for k := range n.Attrs {
		keys = append(keys, k)
	}
	sort.Slice(keys, func(i, j int) bool { return nameStr(keys[i]) < nameStr(keys[j]) })
	for _, k := range keys {
		fmt.Fprintf(sb, " %s=%q", nameStr(k), n.Attrs[k])
	}
	if len(n.Items) == 0 {
		sb.WriteString("/>")
		return
	}
	sb.WriteString(">")
	for _, it := range n.Items {
		if it.El != nil {
			it.El.write(sb)
		} else {
			fmt.Fprintf(sb, "%q", it.Text)
		}
	}
	sb.WriteString("</>")
}

// Options for comparisons.
type Options struct {
	IgnoreWhitespaceText bool // drop text items that are all XML whitespace
	IgnoreAttrs          map[xml.Name]bool
}

func wsOnly(s string) bool { return strings.Trim(s, " \t\r\n") == "" }

func items(n *Node, o Options) []Item {
	if !o.IgnoreWhitespaceText {
		return n.Items
	}
	var out []Item
	for _, it := range n.Items {
		if it.El == nil && wsOnly(it.Text) {
			continue
		}
		out = append(out, it)
	}
	return out
}

// Diff returns "" when the trees are equal, else a description of the first
// difference.
func Diff(a, b *Node, o Options) string {
	return diff(a, b, o, nameStr(a.Name))
}

func diff(a, b *Node, o Options, path string) string {
	if a.Name != b.Name {
		return fmt.Sprintf("%s: name %s vs %s", path, nameStr(a.Name), nameStr(b.Name))
	}
	for k, v := range a.Attrs {
		if o.IgnoreAttrs[k] {
			continue
		}
		w, ok := b.Attrs[k]
		if !ok {
			return fmt.Sprintf("%s: attribute %s=%q missing on the right", path, nameStr(k), v)
		}
		if v != w {
			return fmt.Sprintf("%s: attribute %s: %q vs %q", path, nameStr(k), v, w)
		}
	}
	for k, w := range b.Attrs {
		if o.IgnoreAttrs[k] {
			continue
		}
		if _, ok := a.Attrs[k]; !ok {
			return fmt.Sprintf("%s: attribute %s=%q missing on the left", path, nameStr(k), w)
		}
	}
	ai, bi := items(a, o), items(b, o)
	for i := 0; i < len(ai) && i < len(bi); i++ {
		x, y := ai[i], bi[i]
		switch {
		case x.El == nil && y.El == nil:
			if x.Text != y.Text {
				return fmt.Sprintf("%s: text %q vs %q", path, x.Text, y.Text)
			}
		case x.El != nil && y.El != nil:
			if d := diff(x.El, y.El, o, path+"/"+nameStr(x.El.Name)); d != "" {
				return d
			}
		default:
			return fmt.Sprintf("%s: item %d: element vs text", path, i)
		}
	}
	if len(ai) != len(bi) {
		return fmt.Sprintf("%s: %d vs %d child items", path, len(ai), len(bi))
	}
	return ""
}

// Equal reports tree equality under o.
func Equal(a, b *Node, o Options) bool { return Diff(a, b, o) == "" }

// Stream is the result of parsing a (possibly unfinished) XMPP byte stream.
type Stream struct {
	Decl       bool     // an XML declaration was present
	Header     *Node    // the stream:stream (or first open) element; nil if none
	Elems      []*Node  // complete top-level elements inside the header
	TopText    string   // character data seen between top-level elements
	Closed     bool     // the header's end tag was seen
	Other      []string // comments / PIs / directives at top level
	Consumed   int64    // offset after the last complete construct
	Err        error    // syntax error, or nil (io.EOF and truncated input are not errors)
	Trailing   bool     // input ends inside an unfinished construct
	AfterClose []byte   // bytes after the closing tag
}

// ParseStream parses bytes that start with a stream header (depth-1 element
// left open) followed by top-level elements.  When framed is false the input
// is parsed as a sequence of top-level elements with no enclosing header
// (WebSocket framing, or a single document).
func ParseStream(b []byte, framed bool) *Stream {
	st := &Stream{}
	d := xml.NewDecoder(bytes.NewReader(b))
	d.Strict = true
	var stack []*Node
	base := 0
	if framed {
		base = 1
	}
	for {
		off := d.InputOffset()
		tok, err := d.Token()
		if err != nil {
			if err == io.EOF {
				st.Trailing = len(stack) > base && !(framed && st.Header == nil)
				if len(stack) > base {
					st.Trailing = true
				}
				return st
			}
			if se, ok := err.(*xml.SyntaxError); ok && strings.Contains(se.Msg, "unexpected EOF") {
				st.Trailing = true
				return st
			}
			st.Err = err
			return st
		}
		switch t := tok.(type) {
		case xml.ProcInst:
			if t.Target == "xml" && len(stack) == 0 && st.Header == nil && len(st.Elems) == 0 {
				st.Decl = true
			} else if len(stack) <= base {
				st.Other = append(st.Other, "procinst:"+t.Target)
			}
		case xml.Comment:
			if len(stack) <= base {
				st.Other = append(st.Other, "comment")
			}
		case xml.Directive:
			if len(stack) <= base {
				st.Other = append(st.Other, "directive")
			}
		case xml.StartElement:
			n := FromStart(t)
			n.Offset = off
			if framed && len(stack) == 0 {
				if st.Header != nil {
					st.Err = fmt.Errorf("second root element %s", nameStr(t.Name))
					return st
				}
				st.Header = n
				st.Consumed = d.InputOffset()
			} else if len(stack) > base {
				p := stack[len(stack)-1]
				p.Items = append(p.Items, Item{El: n})
			}
			stack = append(stack, n)
		case xml.EndElement:
			if len(stack) == 0 {
				st.Err = fmt.Errorf("unbalanced end element")
				return st
			}
			n := stack[len(stack)-1]
			n.End = d.InputOffset()
			stack = stack[:len(stack)-1]
			if len(stack) == base {
				st.Elems = append(st.Elems, n)
				st.Consumed = d.InputOffset()
			}
			if framed && len(stack) == 0 {
				st.Closed = true
				st.Consumed = d.InputOffset()
				st.AfterClose = append([]byte(nil), b[d.InputOffset():]...)
				return st
			}
		case xml.CharData:
			if len(stack) > base {
				stack[len(stack)-1].appendText(string(t))
			} else if len(stack) == base {
				st.TopText += string(t)
			}
		}
	}
}

// ParseOne parses exactly one element (a document).
func ParseOne(b []byte) (*Node, error) {
	st := ParseStream(b, false)
	if st.Err != nil {
		return nil, st.Err
	}
	if st.Trailing {
		return nil, fmt.Errorf("truncated XML")
	}
	if len(st.Elems) != 1 {
		return nil, fmt.Errorf("%d top-level elements", len(st.Elems))
	}
	if !wsOnly(st.TopText) {
		return nil, fmt.Errorf("text outside the element: %q", st.TopText)
	}
	return st.Elems[0], nil
}

// FromTokens builds trees from a token reader (used to compute the expected
// tree of what a call was asked to send).
func FromTokens(r xml.TokenReader) ([]*Node, error) {
	var stack []*Node
	var out []*Node
	for {
		tok, err := r.Token()
		if tok != nil {
			switch t := tok.(type) {
			case xml.StartElement:
				n := FromStart(t)
				if len(stack) > 0 {
					p := stack[len(stack)-1]
					p.Items = append(p.Items, Item{El: n})
				}
				stack = append(stack, n)
			case xml.EndElement:
				if len(stack) == 0 {
					return out, fmt.Errorf("unbalanced end")
				}
				n := stack[len(stack)-1]
				stack = stack[:len(stack)-1]
				if len(stack) == 0 {
					out = append(out, n)
				}
			case xml.CharData:
				if len(stack) > 0 {
					stack[len(stack)-1].appendText(string(t))
				}
			}
		}
		if err == io.EOF {
			if len(stack) != 0 {
				return out, fmt.Errorf("unfinished element")
			}
			return out, nil
		}
		if err != nil {
			return out, err
		}
	}
}

// Clone deep-copies a node.
func (n *Node) Clone() *Node {
	m := &Node{Name: n.Name, Attrs: map[xml.Name]string{}, Offset: n.Offset, End: n.End}
	for k, v := range n.Attrs {
		m.Attrs[k] = v
	}
	for _, it := range n.Items {
		if it.El != nil {
			m.Items = append(m.Items, Item{El: it.El.Clone()})
		} else {
			m.Items = append(m.Items, it)
		}
	}
	return m
}

// DuplicateAttr returns the qualified name (as written) of an attribute that
// occurs twice in one start tag of b ("" if none).  encoding/xml's decoder
// does not check this well-formedness constraint (XML 1.0 WFC: Unique Att
// Spec); every conforming parser does.
func DuplicateAttr(b []byte) string {
	d := xml.NewDecoder(bytes.NewReader(b))
	for {
		tok, err := d.RawToken()
		if err != nil {
			return ""
		}
		if se, ok := tok.(xml.StartElement); ok {
			seen := map[xml.Name]bool{}
			for _, a := range se.Attr {
				if seen[a.Name] {
					if a.Name.Space != "" {
						return a.Name.Space + ":" + a.Name.Local
					}
					return a.Name.Local
				}
				seen[a.Name] = true
			}
		}
	}
}
