// Package hspeer holds what the negotiation checks (C04, C12) share: raw
// stream headers for both framings, a demand-driven scripted peer that answers
// the library step by step (and gives up — ends its stream — as soon as the
// library asks for input without having sent a complete request), instrumented
// stream features that log what every negotiation step returned, and small
// custom features that negotiate with one request/response pair.
//
// Nothing here uses the library under test for the peer's own encoding or
// parsing: the peer side is encoding/xml (RawToken) and fmt.
package hspeer

import (
	"bytes"
	"context"
	"encoding/xml"
	"errors"
	"fmt"
	"io"
	"strings"
	"sync"

	"mellium.im/xmlstream"
	"mellium.im/xmpp"

	"mellium.im/xmpp/verifharness/bufconn"
)

// Namespaces.
const (
	NSStream    = "http://etherx.jabber.org/streams"
	NSClient    = "jabber:client"
	NSServer    = "jabber:server"
	NSFraming   = "urn:ietf:params:xml:ns:xmpp-framing"
	NSSASL      = "urn:ietf:params:xml:ns:xmpp-sasl"
	NSBind      = "urn:ietf:params:xml:ns:xmpp-bind"
	NSTLS       = "urn:ietf:params:xml:ns:xmpp-tls"
	NSStreamErr = "urn:ietf:params:xml:ns:xmpp-streams"
	NSComponent = "jabber:component:accept"
)

// Esc escapes s for use inside a single- or double-quoted attribute value or
// as character data.
func Esc(s string) string {
	var sb strings.Builder
	for _, r := range s {
		switch r {
		case '&':
			sb.WriteString("&amp;")
		case '<':
			sb.WriteString("&lt;")
		case '>':
			sb.WriteString("&gt;")
		case '\'':
			sb.WriteString("&apos;")
		case '"':
			sb.WriteString("&quot;")
		case '\t':
			sb.WriteString("&#x9;")
		case '\n':
			sb.WriteString("&#xA;")
		case '\r':
			sb.WriteString("&#xD;")
		default:
			sb.WriteRune(r)
		}
	}
	return sb.String()
}

// HeaderOpts describe a stream header the peer sends.
type HeaderOpts struct {
	WS        bool
	NS        string // content namespace (TCP framing); default jabber:client
	To, From  string
	ID        string
	Lang      string
	Version   string // default "1.0"; "-" for no version attribute
	NoDecl    bool   // omit the XML declaration (TCP framing)
	ExtraAttr string // raw text inserted into the start tag
}

// Header renders the peer's stream header: an XML declaration plus an open
// stream:stream start tag, or a complete <open/> element in WebSocket framing.
func Header(o HeaderOpts) string {
	var sb strings.Builder
	if o.WS {
		sb.WriteString(`<open xmlns='` + NSFraming + `'`)
	} else {
		if !o.NoDecl {
			sb.WriteString(`<?xml version='1.0'?>`)
		}
		ns := o.NS
		if ns == "" {
			ns = NSClient
		}
		sb.WriteString(`<stream:stream xmlns='` + Esc(ns) + `' xmlns:stream='` + NSStream + `'`)
	}
	switch o.Version {
	case "":
		sb.WriteString(` version='1.0'`)
	case "-":
	default:
		sb.WriteString(` version='` + Esc(o.Version) + `'`)
	}
	if o.ID != "" {
		sb.WriteString(` id='` + Esc(o.ID) + `'`)
	}
	if o.From != "" {
		sb.WriteString(` from='` + Esc(o.From) + `'`)
	}
	if o.To != "" {
		sb.WriteString(` to='` + Esc(o.To) + `'`)
	}
	if o.Lang != "" {
		sb.WriteString(` xml:lang='` + Esc(o.Lang) + `'`)
	}
	sb.WriteString(o.ExtraAttr)
	if o.WS {
		sb.WriteString(`/>`)
	} else {
		sb.WriteString(`>`)
	}
	return sb.String()
}

// Features renders a features element for the framing.
func Features(ws bool, inner string) string {
	if ws {
		return `<stream:features xmlns:stream='` + NSStream + `'>` + inner + `</stream:features>`
	}
	return `<stream:features>` + inner + `</stream:features>`
}

// Units parses bytes written by the library and returns the local names of the
// complete top-level units in them: "stream" for an open stream:stream start
// tag, "/stream" for its end tag, and the local name of every complete element
// outside/after it.  complete is false when the input ends inside a construct,
// is not well-formed, or has non-whitespace text at the top level.
func Units(b []byte) (names []string, complete bool) {
	d := xml.NewDecoder(bytes.NewReader(b))
	depth := 0
	var cur string
	for {
		tok, err := d.RawToken()
		if err != nil {
			if err == io.EOF {
				return names, depth == 0
			}
			return names, false
		}
		switch t := tok.(type) {
		case xml.StartElement:
			if depth == 0 && t.Name.Local == "stream" && t.Name.Space == "stream" {
				names = append(names, "stream")
				continue
			}
			if depth == 0 {
				cur = t.Name.Local
			}
			depth++
		case xml.EndElement:
			if depth == 0 {
				if t.Name.Local == "stream" {
					names = append(names, "/stream")
					continue
				}
				return names, false
			}
			depth--
			if depth == 0 {
				names = append(names, cur)
			}
		case xml.CharData:
			if depth == 0 && len(bytes.TrimSpace(t)) != 0 {
				return names, false
			}
		}
	}
}

// Attr returns the value of attribute attr (local name, any prefix) on the
// first element with local name elem in b, scanning raw tokens.
func Attr(b []byte, elem, attr string) (string, bool) {
	d := xml.NewDecoder(bytes.NewReader(b))
	for {
		tok, err := d.RawToken()
		if err != nil {
			return "", false
		}
		if se, ok := tok.(xml.StartElement); ok && se.Name.Local == elem {
			for _, a := range se.Attr {
				if a.Name.Local == attr && a.Name.Space == "" {
					return a.Value, true
				}
			}
			return "", false
		}
	}
}

// Text returns the character data directly inside the first element with
// local name elem in b.
func Text(b []byte, elem string) (string, bool) {
	d := xml.NewDecoder(bytes.NewReader(b))
	for {
		tok, err := d.RawToken()
		if err != nil {
			return "", false
		}
		if se, ok := tok.(xml.StartElement); ok && se.Name.Local == elem {
			var sb strings.Builder
			for {
				tok, err = d.RawToken()
				if err != nil {
					return sb.String(), true
				}
				switch t := tok.(type) {
				case xml.CharData:
					sb.Write(t)
				case xml.StartElement, xml.EndElement:
					return sb.String(), true
				}
			}
		}
	}
}

// Step is one exchange of a scripted peer: when the library asks for input
// and what it has written since the previous exchange consists of exactly the
// units Want, the peer answers with Reply.
type Step struct {
	Want  []string
	Reply func(chunk []byte) string
	// Match, when set, replaces the Want comparison: it is given everything the
	// library wrote since the previous exchange (complete or not) and reports
	// whether the peer has seen enough to answer.  It models a peer that parses
	// incrementally and acts on a complete child element without waiting for
	// its parent's end tag.
	Match func(pending []byte) bool
}

// Say is a Step reply that does not depend on what the library wrote.
func Say(s string) func([]byte) string { return func([]byte) string { return s } }

// Peer is a demand-driven scripted peer.  It runs on the library's reading
// goroutine (see bufconn.NewScripted).  When the library reads without having
// written the complete request the current step waits for, or after the last
// step, the peer gives up and ends its stream: in a single-threaded negotiation
// nothing more can arrive, so a real peer would time out and hang up.
type Peer struct {
	mu     sync.Mutex
	steps  []Step
	i      int
	acc    []byte
	Chunks [][]byte // what the library wrote before each answered step
	gaveUp bool
	calls  int
	// Lenient makes the peer answer the current step even when what the library
	// wrote is not the complete request the step waits for: a peer on a
	// half-dead connection whose own view is that everything arrived (its
	// answers were already on their way, or it does not depend on the request).
	Lenient     bool
	lenientUsed int
	// Silent, when it returns true, makes the peer stay silent (the read
	// blocks) instead of answering or giving up.
	Silent func() bool
	// OnCall is invoked at the start of every script call with its 1-based
	// number (a script call is a read that found no buffered input).
	OnCall func(n int)
}

// NewPeer builds a peer from its steps.
func NewPeer(steps ...Step) *Peer { return &Peer{steps: steps} }

// GaveUp reports whether the peer ended its stream because the library asked
// for input it had not earned.
func (p *Peer) GaveUp() bool { p.mu.Lock(); defer p.mu.Unlock(); return p.gaveUp }

// AnsweredUnearned is the number of steps a lenient peer answered without
// having received the complete request.
func (p *Peer) AnsweredUnearned() int { p.mu.Lock(); defer p.mu.Unlock(); return p.lenientUsed }

// Steps is the number of steps of the peer's script.
func (p *Peer) Steps() int { return len(p.steps) }

// Done reports how many steps were answered.
func (p *Peer) Done() int { p.mu.Lock(); defer p.mu.Unlock(); return p.i }

// Calls is the number of script calls so far.
func (p *Peer) Calls() int { p.mu.Lock(); defer p.mu.Unlock(); return p.calls }

// Consumed is the number of bytes the library had written when the last
// answered step was answered.
func (p *Peer) Consumed() int {
	p.mu.Lock()
	defer p.mu.Unlock()
	n := 0
	for _, c := range p.Chunks {
		n += len(c)
	}
	return n
}

// Pending returns what the library wrote since the last answered step.
func (p *Peer) Pending() []byte {
	p.mu.Lock()
	defer p.mu.Unlock()
	return append([]byte(nil), p.acc...)
}

// Script is the bufconn script of the peer.
func (p *Peer) Script() bufconn.Script {
	return func(written []byte) ([]byte, bool) {
		p.mu.Lock()
		p.calls++
		n := p.calls
		p.acc = append(p.acc, written...)
		on := p.OnCall
		p.mu.Unlock()
		if on != nil {
			on(n)
		}
		if p.Silent != nil && p.Silent() {
			return nil, false
		}
		p.mu.Lock()
		defer p.mu.Unlock()
		if p.i >= len(p.steps) {
			p.gaveUp = true
			return nil, true
		}
		st := p.steps[p.i]
		ok := false
		if st.Match != nil {
			ok = st.Match(p.acc)
		} else {
			names, complete := Units(p.acc)
			ok = complete && sameNames(names, st.Want)
		}
		if !ok {
			if !p.Lenient {
				p.gaveUp = true
				return nil, true
			}
			p.lenientUsed++
		}
		chunk := p.acc
		p.acc = nil
		p.i++
		p.Chunks = append(p.Chunks, chunk)
		return []byte(st.Reply(chunk)), false
	}
}

func sameNames(a, b []string) bool {
	if len(a) != len(b) {
		return false
	}
	for i := range a {
		if a[i] != b[i] {
			return false
		}
	}
	return true
}

// ---------------------------------------------------------------------------
// instrumented features

// Rec is what one negotiation step returned.
type Rec struct {
	Feature string `json:"feature"` // local name
	Kind    string `json:"kind"`    // list | parse | negotiate
	Err     string `json:"err,omitempty"`
	Failed  bool   `json:"failed,omitempty"`
	Mask    uint8  `json:"mask,omitempty"`
	Restart bool   `json:"restart,omitempty"`
	Req     bool   `json:"req,omitempty"`
	State   uint8  `json:"state"` // session state when the step started (negotiate only)
}

// Log collects step records.
type Log struct {
	mu   sync.Mutex
	Recs []Rec
}

func (l *Log) add(r Rec) {
	l.mu.Lock()
	l.Recs = append(l.Recs, r)
	l.mu.Unlock()
}

// All returns a copy of the records.
func (l *Log) All() []Rec {
	l.mu.Lock()
	defer l.mu.Unlock()
	return append([]Rec(nil), l.Recs...)
}

// Failed returns the records of steps that returned an error.
func (l *Log) Failed() []Rec {
	var out []Rec
	for _, r := range l.All() {
		if r.Failed {
			out = append(out, r)
		}
	}
	return out
}

// Required reports whether the feature was listed/parsed as mandatory.
func (l *Log) Required(feature string) bool {
	for _, r := range l.All() {
		if r.Feature == feature && (r.Kind == "list" || r.Kind == "parse") && r.Req {
			return true
		}
	}
	return false
}

// Negotiated counts negotiate steps.
func (l *Log) Negotiated() int {
	n := 0
	for _, r := range l.All() {
		if r.Kind == "negotiate" {
			n++
		}
	}
	return n
}

// ErrText returns err.Error(), surviving error values whose Error method
// panics (a nil pointer of a type with a value-receiver Error method stored in
// a non-nil error interface).
func ErrText(err error) (s string, panicked bool) {
	if err == nil {
		return "", false
	}
	defer func() {
		if v := recover(); v != nil {
			s, panicked = fmt.Sprintf("(%T whose Error method panics: %v)", err, v), true
		}
	}()
	return err.Error(), false
}

func errStr(err error) string {
	if err == nil {
		return ""
	}
	s, _ := ErrText(err)
	if len(s) > 120 {
		s = s[:120]
	}
	return s
}

// Instrument wraps the public callbacks of f so that every call's result is
// recorded in l.  Behaviour is unchanged.
func Instrument(f xmpp.StreamFeature, l *Log) xmpp.StreamFeature {
	name := f.Name.Local
	g := f
	if f.List != nil {
		g.List = func(ctx context.Context, e xmlstream.TokenWriter, start xml.StartElement) (bool, error) {
			req, err := f.List(ctx, e, start)
			l.add(Rec{Feature: name, Kind: "list", Err: errStr(err), Failed: err != nil, Req: req})
			return req, err
		}
	}
	if f.Parse != nil {
		g.Parse = func(ctx context.Context, d *xml.Decoder, start *xml.StartElement) (bool, interface{}, error) {
			req, data, err := f.Parse(ctx, d, start)
			l.add(Rec{Feature: name, Kind: "parse", Err: errStr(err), Failed: err != nil, Req: req})
			return req, data, err
		}
	}
	if f.Negotiate != nil {
		g.Negotiate = func(ctx context.Context, s *xmpp.Session, data interface{}) (xmpp.SessionState, io.ReadWriter, error) {
			st := s.State()
			mask, rw, err := f.Negotiate(ctx, s, data)
			l.add(Rec{Feature: name, Kind: "negotiate", Err: errStr(err), Failed: err != nil, Mask: uint8(mask), Restart: rw != nil, State: uint8(st)})
			return mask, rw, err
		}
	}
	return g
}

// InstrumentAll instruments every feature.
func InstrumentAll(l *Log, fs ...xmpp.StreamFeature) []xmpp.StreamFeature {
	out := make([]xmpp.StreamFeature, len(fs))
	for i, f := range fs {
		out[i] = Instrument(f, l)
	}
	return out
}

// ---------------------------------------------------------------------------
// custom features

// CustomCfg configures a one-round-trip feature.  The initiator selects it by
// sending <select xmlns=NS/>; the receiver answers <ok xmlns=NS/> or
// <fail xmlns=NS/>.
type CustomCfg struct {
	NS, Local  string
	Req        bool
	Necessary  xmpp.SessionState
	Prohibited xmpp.SessionState
	OKMask     xmpp.SessionState // returned on success
	Restart    bool              // on success return the session's connection (stream restart)
	Refuse     bool              // receiver role: answer <fail/> and return an error
	FailMask   xmpp.SessionState // returned together with the error
	// FailWithRW: a refused negotiation returns the session's connection
	// together with its error (a layering feature that had built its layer
	// before it failed).
	FailWithRW bool
	// ListErr makes List return ErrList: "clean" before writing anything,
	// "partial" after having written the start tag of its element.
	ListErr string
	// ParseErr makes Parse return ErrParse: "clean" without touching the
	// decoder, "consumed" after having decoded the advertised element.
	ParseErr string
}

// Errors of the failing List / Parse callbacks.
var (
	ErrList  = errors.New("hspeer: custom feature cannot be listed")
	ErrParse = errors.New("hspeer: custom feature cannot be parsed")
)

// ErrRefused is returned by a custom feature whose negotiation was refused.
var ErrRefused = errors.New("hspeer: custom feature refused")

// Custom builds the feature.
func Custom(c CustomCfg) xmpp.StreamFeature {
	return xmpp.StreamFeature{
		Name:       xml.Name{Space: c.NS, Local: c.Local},
		Necessary:  c.Necessary,
		Prohibited: c.Prohibited,
		List: func(ctx context.Context, e xmlstream.TokenWriter, start xml.StartElement) (bool, error) {
			if c.ListErr == "clean" {
				return c.Req, ErrList
			}
			if err := e.EncodeToken(start); err != nil {
				return c.Req, err
			}
			if c.ListErr == "partial" {
				return c.Req, ErrList
			}
			if c.Req {
				r := xml.StartElement{Name: xml.Name{Local: "required"}}
				if err := e.EncodeToken(r); err != nil {
					return c.Req, err
				}
				if err := e.EncodeToken(r.End()); err != nil {
					return c.Req, err
				}
			}
			return c.Req, e.EncodeToken(start.End())
		},
		Parse: func(ctx context.Context, d *xml.Decoder, start *xml.StartElement) (bool, interface{}, error) {
			if c.ParseErr == "clean" {
				return c.Req, nil, ErrParse
			}
			v := struct {
				XMLName  xml.Name
				Required *struct{} `xml:"required"`
			}{}
			err := d.DecodeElement(&v, start)
			if err == nil && c.ParseErr == "consumed" {
				return v.Required != nil, nil, ErrParse
			}
			return v.Required != nil, nil, err
		},
		Negotiate: func(ctx context.Context, s *xmpp.Session, data interface{}) (xmpp.SessionState, io.ReadWriter, error) {
			r := s.TokenReader()
			defer r.Close()
			d := xml.NewTokenDecoder(r)
			w := s.TokenWriter()
			defer w.Close()
			put := func(local string) error {
				st := xml.StartElement{Name: xml.Name{Space: c.NS, Local: local}}
				if err := w.EncodeToken(st); err != nil {
					return err
				}
				if err := w.EncodeToken(st.End()); err != nil {
					return err
				}
				return w.Flush()
			}
			get := func() (string, error) {
				tok, err := d.Token()
				if err != nil {
					return "", err
				}
				st, ok := tok.(xml.StartElement)
				if !ok {
					return "", fmt.Errorf("hspeer: expected an element, got %T", tok)
				}
				if st.Name.Space != c.NS {
					return "", fmt.Errorf("hspeer: element %v outside the feature namespace", st.Name)
				}
				return st.Name.Local, d.Skip()
			}
			ok := func() (xmpp.SessionState, io.ReadWriter, error) {
				if c.Restart {
					return c.OKMask, s.Conn(), nil
				}
				return c.OKMask, nil, nil
			}
			refused := func() (xmpp.SessionState, io.ReadWriter, error) {
				if c.FailWithRW {
					return c.FailMask, s.Conn(), ErrRefused
				}
				return c.FailMask, nil, ErrRefused
			}
			if s.State()&xmpp.Received != 0 {
				name, err := get()
				if err != nil {
					return c.FailMask, nil, err
				}
				if name != "select" {
					return c.FailMask, nil, fmt.Errorf("hspeer: unexpected selection %q", name)
				}
				if c.Refuse {
					if err := put("fail"); err != nil {
						return c.FailMask, nil, err
					}
					return refused()
				}
				if err := put("ok"); err != nil {
					return c.FailMask, nil, err
				}
				return ok()
			}
			if err := put("select"); err != nil {
				return c.FailMask, nil, err
			}
			name, err := get()
			if err != nil {
				return c.FailMask, nil, err
			}
			switch name {
			case "ok":
				return ok()
			case "fail":
				return refused()
			}
			return c.FailMask, nil, fmt.Errorf("hspeer: unexpected answer %q", name)
		},
	}
}

// Advert is the advertisement element of a custom feature as a peer writes it.
func Advert(ns, local string, req bool) string {
	if req {
		return `<` + local + ` xmlns='` + ns + `'><required/></` + local + `>`
	}
	return `<` + local + ` xmlns='` + ns + `'/>`
}

// El is a childless element in ns as a peer writes it.
func El(ns, local string) string { return `<` + local + ` xmlns='` + ns + `'/>` }
