// Package stall implements the quiescent-stall rule (DESIGN.md 2.7): when every
// harness actor is done and nothing can arrive any more, a library goroutine
// that is parked at the same library frame in a channel operation, select or
// mutex across several samples of runtime.Stack is permanently blocked.  The
// verdict is logical (same goroutine, same frame, no possible waker), the
// pauses between samples only give a runnable goroutine time to move.
package stall

import (
	"regexp"
	"runtime"
	"strings"
	"time"
)

// Parked describes one goroutine found parked in library code.
type Parked struct {
	ID    string
	State string // chan send, chan receive, select, sync.Mutex.Lock, ...
	Func  string // innermost mellium.im/xmpp function (harness frames skipped)
	Stack string
}

var hdrRe = regexp.MustCompile(`^goroutine (\d+) \[([^\],]+)`)

var blockingStates = map[string]bool{
	"chan send": true, "chan receive": true, "select": true, "select (no cases)": true,
	"sync.Mutex.Lock": true, "sync.RWMutex.Lock": true, "sync.RWMutex.RLock": true, "semacquire": true,
	"sync.Cond.Wait": true, "chan send (nil chan)": true, "chan receive (nil chan)": true, "sync.WaitGroup.Wait": true,
}

// Snapshot returns the goroutines currently parked in a blocking state whose
// innermost non-runtime frame (ignoring sync and the harness's transport) is a
// library function accepted by match (nil = any library function).
func Snapshot(match func(fn string) bool) map[string]Parked {
	buf := make([]byte, 8<<20)
	n := runtime.Stack(buf, true)
	out := map[string]Parked{}
	for _, g := range strings.Split(string(buf[:n]), "\n\n") {
		lines := strings.Split(g, "\n")
		m := hdrRe.FindStringSubmatch(lines[0])
		if m == nil || !blockingStates[m[2]] {
			continue
		}
		fn := ""
		for _, l := range lines[1:] {
			if strings.HasPrefix(l, "\t") || strings.HasPrefix(l, "created by") {
				continue
			}
			if strings.HasPrefix(l, "runtime.") || strings.HasPrefix(l, "sync.") || strings.HasPrefix(l, "internal/") {
				continue
			}
			// first non-runtime frame decides whose wait this is
			if strings.HasPrefix(l, "mellium.im/xmpp/verifharness") {
				fn = "" // parked in harness code (e.g. the transport): not a library wait
			} else if strings.HasPrefix(l, "mellium.im/xmpp") {
				if i := strings.LastIndex(l, "("); i > 0 {
					l = l[:i]
				}
				fn = strings.TrimPrefix(strings.TrimPrefix(l, "mellium.im/xmpp"), "/")
				fn = strings.TrimPrefix(fn, ".")
			}
			break
		}
		if fn == "" || (match != nil && !match(fn)) {
			continue
		}
		out[m[1]] = Parked{ID: m[1], State: m[2], Func: fn, Stack: g}
	}
	return out
}

// Check samples three times, pause apart, and returns the goroutines parked at
// the same library function in all samples.
func Check(match func(fn string) bool, pause time.Duration) []Parked {
	if pause == 0 {
		pause = 150 * time.Millisecond
	}
	a := Snapshot(match)
	if len(a) == 0 {
		return nil
	}
	time.Sleep(pause)
	b := Snapshot(match)
	time.Sleep(pause)
	c := Snapshot(match)
	var out []Parked
	for id, p := range a {
		if q, ok := b[id]; ok && q.Func == p.Func && q.State == p.State {
			if r, ok := c[id]; ok && r.Func == p.Func && r.State == p.State {
				out = append(out, r)
			}
		}
	}
	return out
}

// Key builds the class key stall:<func>:<state>.
func Key(p Parked) string {
	st := strings.ReplaceAll(p.State, " ", "-")
	return "stall:" + p.Func + ":" + st
}

// WaitDone waits for done to be closed, for at most grace; it reports whether
// it was.  Callers use it before applying the stall rule so that a goroutine
// that is merely slow is not sampled too early.
func WaitDone(done <-chan struct{}, grace time.Duration) bool {
	select {
	case <-done:
		return true
	case <-time.After(grace):
		return false
	}
}

// MaxScale multiplies the wall-clock limit of AwaitQuiet (the limit whose
// expiry is inconclusive; the quiet period that decides a stall is not
// scaled).  The engine sets it per tier in every child.
var MaxScale = 1.0

// AwaitQuiet waits for done.  It returns (true, _) when done was closed.
// Otherwise it watches progress(), a monotone counter of logical events
// (calls, returns, bytes moved, stanzas seen by the peer): when the counter
// has not moved for the whole quiet period the system is quiescent with work
// outstanding — returns (false, true), and the caller may apply Check — and
// when max elapses while events still happen it returns (false, false), which
// is inconclusive (slow machine), never a stall.
func AwaitQuiet(done <-chan struct{}, progress func() int64, quiet, max time.Duration) (finished, quiescent bool) {
	deadline := time.Now().Add(time.Duration(float64(max) * MaxScale))
	last := progress()
	lastChange := time.Now()
	tick := time.NewTicker(200 * time.Millisecond)
	defer tick.Stop()
	for {
		select {
		case <-done:
			return true, false
		case <-tick.C:
		}
		if p := progress(); p != last {
			last, lastChange = p, time.Now()
		} else if time.Since(lastChange) >= quiet {
			return false, true
		}
		if time.Now().After(deadline) {
			return false, false
		}
	}
}
