// Package bufconn is the in-memory transport of the harness: a full-duplex
// net.Conn with unbounded buffers (a writer never blocks, so scripted peers
// cannot deadlock the way net.Pipe does), deadline semantics copied from
// net/pipe.go, byte recorders, fault plans, read chunking, and a
// demand-driven "script" mode in which the peer's next bytes are computed on
// the reading goroutine from what the library has written so far.
package bufconn

import (
	"errors"
	"io"
	"net"
	"os"
	"sync"
	"sync/atomic"
	"time"
)

// ---- deadline (from net/pipe.go, BSD licence)

type deadline struct {
	mu     sync.Mutex
	timer  *time.Timer
	cancel chan struct{}
	sets   int
}

func makeDeadline() deadline { return deadline{cancel: make(chan struct{})} }

func (d *deadline) set(t time.Time) {
	d.mu.Lock()
	defer d.mu.Unlock()
	d.sets++
	if d.timer != nil && !d.timer.Stop() {
		<-d.cancel // wait for the timer callback to finish and close cancel
	}
	d.timer = nil
	closed := isClosedChan(d.cancel)
	if t.IsZero() {
		if closed {
			d.cancel = make(chan struct{})
		}
		return
	}
	if dur := time.Until(t); dur > 0 {
		if closed {
			d.cancel = make(chan struct{})
		}
		d.timer = time.AfterFunc(dur, func() { close(d.cancel) })
		return
	}
	if !closed {
		close(d.cancel)
	}
}

func (d *deadline) wait() chan struct{} {
	d.mu.Lock()
	defer d.mu.Unlock()
	return d.cancel
}

func (d *deadline) armed() bool {
	d.mu.Lock()
	defer d.mu.Unlock()
	return d.timer != nil || isClosedChan(d.cancel)
}

func isClosedChan(c <-chan struct{}) bool {
	select {
	case <-c:
		return true
	default:
		return false
	}
}

// ---- one direction

type queue struct {
	mu       sync.Mutex
	buf      []byte
	eof      bool          // writer side closed: reader gets EOF after draining
	notify   chan struct{} // closed and replaced on every change
	consumed chan struct{} // closed and replaced whenever the reader took bytes
}

func newQueue() *queue {
	return &queue{notify: make(chan struct{}), consumed: make(chan struct{})}
}

func (q *queue) put(p []byte) {
	q.mu.Lock()
	q.buf = append(q.buf, p...)
	close(q.notify)
	q.notify = make(chan struct{})
	q.mu.Unlock()
}

func (q *queue) closeWrite() {
	q.mu.Lock()
	if !q.eof {
		q.eof = true
		close(q.notify)
		q.notify = make(chan struct{})
	}
	q.mu.Unlock()
}

// Addr is the net.Addr of harness connections.
type Addr string

func (a Addr) Network() string { return "bufconn" }
func (a Addr) String() string  { return string(a) }

// Fault describes what happens at one operation or byte offset.
type Fault struct {
	// ReadEOFAfter >= 0: the library's read side reports io.EOF once that many
	// bytes have been delivered (the peer's stream "ends" there).
	ReadEOFAfter int
	// FailRead / FailWrite >= 1: the k-th Read / Write call returns Err.
	FailRead, FailWrite int
	// ReadDataErr >= 1: the k-th Read call delivers its bytes as usual and
	// returns Err together with them, once (io.Reader allows a non-nil error
	// with n > 0; a transient condition reported this way is not repeated).
	ReadDataErr int
	// WriteBreakAfter >= 0: writes succeed until that many bytes were accepted;
	// the write that crosses the limit is cut short and fails with Err.
	WriteBreakAfter int
	// ShortWriteAt > 0: the one write that crosses that many accepted bytes is
	// cut short there and returns io.ErrShortWrite; later writes are accepted
	// again (a transport that takes only part of a write, once).
	ShortWriteAt int
	// Err is the injected error (default io.ErrUnexpectedEOF-like net error).
	Err error
	// OnOp >= 1: Action is invoked (once) at the start of the k-th Read/Write.
	OnOp   int
	Action func()
}

// NoFault is the zero plan.
func NoFault() Fault {
	return Fault{ReadEOFAfter: -1, WriteBreakAfter: -1}
}

var errInjected = &net.OpError{Op: "io", Net: "bufconn", Err: errors.New("injected fault")}

// ErrInjected is the default injected error.
func ErrInjected() error { return errInjected }

// Script computes the peer's next bytes.  It is called on the goroutine that
// reads from the connection when no input is buffered, with everything the
// library wrote since the previous call.  Returning eof=true ends the peer's
// stream after the returned bytes; returning no bytes and eof=false means the
// peer stays silent (the read then blocks until a deadline or Close).
type Script func(written []byte) (reply []byte, eof bool)

// Conn is one end of a connection.
type Conn struct {
	in, out *queue // in: what this end reads; out: what this end writes
	rd, wd  deadline

	local, remote Addr

	closeOnce  sync.Once
	closed     chan struct{}
	peerClosed <-chan struct{} // the other end's closed channel (Pipe only)

	mu         sync.Mutex
	script     Script
	scriptDone bool
	pending    []byte // written since last script call (script mode)
	recIn      []byte // bytes delivered to Read
	recOut     []byte // bytes accepted by Write
	outMarks   []int  // recOut length after every Write call
	fault      Fault
	nRead      int
	nWrite     int
	nOps       int
	delivered  int
	chunk      func(avail int) int
	afterWrite func(n int)
	writeHook  func(p []byte)
	syncWrites bool
	syncOff    chan struct{} // closed when synchronous writes are turned off
	stall      chan struct{}

	blockedNoDeadline atomic.Int32
	stalledNoDeadline atomic.Int32
	blockedReads      atomic.Int32
	blockedWrites     atomic.Int32
}

func newConn(in, out *queue, l, r Addr) *Conn {
	return &Conn{in: in, out: out, rd: makeDeadline(), wd: makeDeadline(), local: l, remote: r,
		closed: make(chan struct{}), fault: NoFault()}
}

// Pipe returns two connected ends.
func Pipe() (*Conn, *Conn) {
	ab, ba := newQueue(), newQueue()
	a, b := newConn(ba, ab, "a", "b"), newConn(ab, ba, "b", "a")
	a.peerClosed, b.peerClosed = b.closed, a.closed
	return a, b
}

// NewScripted returns the library's end of a connection whose peer is s.
func NewScripted(s Script) *Conn {
	c := newConn(newQueue(), newQueue(), "lib", "script")
	c.script = s
	return c
}

// SetFault installs a fault plan (before use).
func (c *Conn) SetFault(f Fault) {
	c.mu.Lock()
	c.fault = f
	c.mu.Unlock()
}

// SetChunker makes Read return at most f(available) bytes (at least 1).
func (c *Conn) SetChunker(f func(avail int) int) {
	c.mu.Lock()
	c.chunk = f
	c.mu.Unlock()
}

// SetAfterWrite installs a callback run after every successful Write (used to
// inject yields/sleeps that deschedule a writer mid-element).
func (c *Conn) SetAfterWrite(f func(n int)) {
	c.mu.Lock()
	c.afterWrite = f
	c.mu.Unlock()
}

// SetWriteHook installs a callback that runs on the writing goroutine after
// every successful Write, with the bytes written.  A workload uses it to hold
// a sender right after its request reached the wire (a fast peer: the reply
// is processed before the sender gets to run again).
func (c *Conn) SetWriteHook(f func(p []byte)) {
	c.mu.Lock()
	c.writeHook = f
	c.mu.Unlock()
}

// StallWrites(true) makes every Write wait, before it accepts anything, like a
// connection whose peer has stopped reading and whose buffers are full: until
// StallWrites(false), the end of the connection, or the write deadline (the
// write then fails with a timeout and nothing written).
func (c *Conn) StallWrites(on bool) {
	c.mu.Lock()
	defer c.mu.Unlock()
	if on && c.stall == nil {
		c.stall = make(chan struct{})
	} else if !on && c.stall != nil {
		close(c.stall)
		c.stall = nil
	}
}

// SetSyncWrites makes Write block, like net.Pipe, until the peer has read
// everything that was written (or the connection is closed or the write
// deadline passes).
// Turning it off also releases the writes that are waiting at that moment:
// their bytes are in the peer's input buffer, the mode of a buffered
// connection.
func (c *Conn) SetSyncWrites(on bool) {
	c.mu.Lock()
	c.syncWrites = on
	if on {
		c.syncOff = make(chan struct{})
	} else if c.syncOff != nil {
		close(c.syncOff)
		c.syncOff = nil
	}
	c.mu.Unlock()
}

// StalledNoDeadline reports how many Write calls are waiting on a stalled
// connection (StallWrites) that had no write deadline armed when they began to
// wait.
func (c *Conn) StalledNoDeadline() int { return int(c.stalledNoDeadline.Load()) }

// BlockedWrites reports how many Write calls are waiting for the peer to read
// (synchronous-write mode only).
func (c *Conn) BlockedWrites() int { return int(c.blockedWrites.Load()) }

// Written returns a copy of everything accepted by Write so far.
func (c *Conn) Written() []byte {
	c.mu.Lock()
	defer c.mu.Unlock()
	return append([]byte(nil), c.recOut...)
}

// WrittenFrom returns a copy of the bytes accepted by Write from offset off on.
func (c *Conn) WrittenFrom(off int) []byte {
	c.mu.Lock()
	defer c.mu.Unlock()
	if off > len(c.recOut) {
		off = len(c.recOut)
	}
	return append([]byte(nil), c.recOut[off:]...)
}

// WrittenLen returns the number of bytes accepted by Write so far.
func (c *Conn) WrittenLen() int {
	c.mu.Lock()
	defer c.mu.Unlock()
	return len(c.recOut)
}

// WriteMarks returns the cumulative length of Written after each Write call.
func (c *Conn) WriteMarks() []int {
	c.mu.Lock()
	defer c.mu.Unlock()
	return append([]int(nil), c.outMarks...)
}

// Delivered returns a copy of everything returned by Read so far.
func (c *Conn) Delivered() []byte {
	c.mu.Lock()
	defer c.mu.Unlock()
	return append([]byte(nil), c.recIn...)
}

// Ops returns the number of Read, Write and total calls started so far.
func (c *Conn) Ops() (reads, writes, total int) {
	c.mu.Lock()
	defer c.mu.Unlock()
	return c.nRead, c.nWrite, c.nOps
}

// DeadlineSets returns how often Set*Deadline was called (read, write).
func (c *Conn) DeadlineSets() (int, int) {
	c.rd.mu.Lock()
	r := c.rd.sets
	c.rd.mu.Unlock()
	c.wd.mu.Lock()
	w := c.wd.sets
	c.wd.mu.Unlock()
	return r, w
}

// BlockedNoDeadline reports how many Read calls are currently blocked with no
// deadline armed: nothing but new input or Close can wake them.
func (c *Conn) BlockedNoDeadline() int { return int(c.blockedNoDeadline.Load()) }

// BlockedReads reports how many Read calls are currently blocked.
func (c *Conn) BlockedReads() int { return int(c.blockedReads.Load()) }

// Inject appends bytes to this end's input (as if the peer had written them).
func (c *Conn) Inject(p []byte) { c.in.put(p) }

// InjectEOF ends this end's input stream.
func (c *Conn) InjectEOF() { c.in.closeWrite() }

type timeoutError struct{}

func (timeoutError) Error() string   { return "bufconn: i/o timeout" }
func (timeoutError) Timeout() bool   { return true }
func (timeoutError) Temporary() bool { return true }
func (timeoutError) Is(err error) bool {
	return err == os.ErrDeadlineExceeded
}

func (c *Conn) opStart() (act func()) {
	c.nOps++
	if c.fault.OnOp > 0 && c.nOps == c.fault.OnOp && c.fault.Action != nil {
		act = c.fault.Action
		c.fault.Action = nil
	}
	return act
}

func (c *Conn) faultErr() error {
	if c.fault.Err != nil {
		return c.fault.Err
	}
	return errInjected
}

// Read implements net.Conn.
func (c *Conn) Read(p []byte) (int, error) {
	c.mu.Lock()
	c.nRead++
	k := c.nRead
	act := c.opStart()
	failAt := c.fault.FailRead
	dataErrAt := c.fault.ReadDataErr
	c.mu.Unlock()
	if act != nil {
		act()
	}
	if failAt > 0 && k == failAt {
		return 0, c.faultErr()
	}
	if len(p) == 0 {
		return 0, nil
	}
	for {
		select {
		case <-c.closed:
			return 0, io.ErrClosedPipe
		default:
		}
		if isClosedChan(c.rd.wait()) {
			return 0, &net.OpError{Op: "read", Net: "bufconn", Err: timeoutError{}}
		}
		// Taken before any state is examined so that a Write racing with the
		// checks below is never missed.
		wake := c.wakeOnWrite()
		c.mu.Lock()
		eofAfter := c.fault.ReadEOFAfter
		if eofAfter >= 0 && c.delivered >= eofAfter {
			c.mu.Unlock()
			return 0, io.EOF
		}
		c.in.mu.Lock()
		if len(c.in.buf) > 0 {
			n := len(c.in.buf)
			if n > len(p) {
				n = len(p)
			}
			if c.chunk != nil {
				if m := c.chunk(n); m >= 1 && m < n {
					n = m
				}
			}
			if eofAfter >= 0 && c.delivered+n > eofAfter {
				n = eofAfter - c.delivered
			}
			copy(p, c.in.buf[:n])
			c.in.buf = c.in.buf[n:]
			close(c.in.consumed)
			c.in.consumed = make(chan struct{})
			c.in.mu.Unlock()
			c.delivered += n
			c.recIn = append(c.recIn, p[:n]...)
			c.mu.Unlock()
			if dataErrAt > 0 && k == dataErrAt {
				return n, c.faultErr()
			}
			return n, nil
		}
		if c.in.eof {
			c.in.mu.Unlock()
			c.mu.Unlock()
			return 0, io.EOF
		}
		notify := c.in.notify
		c.in.mu.Unlock()
		if c.script != nil && !c.scriptDone {
			w := c.pending
			c.pending = nil
			s := c.script
			c.mu.Unlock()
			reply, eof := s(w)
			if len(reply) > 0 {
				c.in.put(reply)
			}
			if eof {
				c.in.closeWrite()
			}
			if len(reply) == 0 && !eof {
				// silent peer: block below until deadline/close; do not call the
				// script again until the library writes something
				c.mu.Lock()
				if len(c.pending) == 0 {
					c.mu.Unlock()
					if err := c.block(notify, wake); err != nil {
						return 0, err
					}
				} else {
					c.mu.Unlock()
				}
			}
			continue
		}
		c.mu.Unlock()
		if err := c.block(notify, wake); err != nil {
			return 0, err
		}
	}
}

func (c *Conn) block(notify chan struct{}, wake <-chan struct{}) error {
	c.blockedReads.Add(1)
	noDl := !c.rd.armed()
	if noDl {
		c.blockedNoDeadline.Add(1)
	}
	defer func() {
		c.blockedReads.Add(-1)
		if noDl {
			c.blockedNoDeadline.Add(-1)
		}
	}()
	// In script mode a library write may enable the script again: poll the
	// pending buffer through a wake channel.
	select {
	case <-notify:
		return nil
	case <-c.closed:
		return io.ErrClosedPipe
	case <-c.rd.wait():
		return &net.OpError{Op: "read", Net: "bufconn", Err: timeoutError{}}
	case <-wake:
		return nil
	}
}

// wakeOnWrite returns a channel closed at the next Write on a scripted conn.
func (c *Conn) wakeOnWrite() <-chan struct{} {
	if c.script == nil {
		return nil
	}
	return c.out.waitChan()
}

func (q *queue) waitChan() <-chan struct{} {
	q.mu.Lock()
	defer q.mu.Unlock()
	return q.notify
}

// Write implements net.Conn.  It never blocks.
func (c *Conn) Write(p []byte) (int, error) {
	c.mu.Lock()
	c.nWrite++
	k := c.nWrite
	act := c.opStart()
	failAt := c.fault.FailWrite
	stall := c.stall
	c.mu.Unlock()
	if act != nil {
		act()
	}
	if stall != nil {
		noDl := !c.wd.armed()
		if noDl {
			c.stalledNoDeadline.Add(1)
		}
		unblock := func() {
			if noDl {
				c.stalledNoDeadline.Add(-1)
			}
		}
		select {
		case <-stall:
			unblock()
		case <-c.closed:
			unblock()
			return 0, io.ErrClosedPipe
		case <-c.wd.wait():
			unblock()
			return 0, &net.OpError{Op: "write", Net: "bufconn", Err: timeoutError{}}
		}
	}
	select {
	case <-c.closed:
		return 0, io.ErrClosedPipe
	default:
	}
	if isClosedChan(c.wd.wait()) {
		return 0, &net.OpError{Op: "write", Net: "bufconn", Err: timeoutError{}}
	}
	if failAt > 0 && k == failAt {
		return 0, c.faultErr()
	}
	c.mu.Lock()
	n := len(p)
	var err error
	if b := c.fault.WriteBreakAfter; b >= 0 && len(c.recOut)+n > b {
		n = b - len(c.recOut)
		if n < 0 {
			n = 0
		}
		err = c.faultErr()
	}
	if b := c.fault.ShortWriteAt; b > 0 && err == nil && len(c.recOut) <= b && len(c.recOut)+n > b {
		n = b - len(c.recOut)
		err = io.ErrShortWrite
		c.fault.ShortWriteAt = 0
	}
	c.recOut = append(c.recOut, p[:n]...)
	c.outMarks = append(c.outMarks, len(c.recOut))
	if c.script != nil {
		c.pending = append(c.pending, p[:n]...)
	}
	aw := c.afterWrite
	wh := c.writeHook
	syncW := c.syncWrites
	syncOff := c.syncOff
	c.mu.Unlock()
	c.out.put(p[:n])
	if syncW && err == nil {
		c.blockedWrites.Add(1)
		for {
			c.out.mu.Lock()
			empty := len(c.out.buf) == 0
			ch := c.out.consumed
			c.out.mu.Unlock()
			if empty {
				break
			}
			select {
			case <-ch:
				continue
			case <-syncOff:
				// the connection is a buffered one from now on
			case <-c.closed:
				err = io.ErrClosedPipe
			case <-c.peerClosed:
				err = io.ErrClosedPipe
			case <-c.wd.wait():
				// A write whose bytes the peer has taken is complete, whatever
				// happens to the deadline before this goroutine gets to run again
				// (both channels may be ready; select would pick either).
				c.out.mu.Lock()
				empty = len(c.out.buf) == 0
				c.out.mu.Unlock()
				if !empty {
					err = &net.OpError{Op: "write", Net: "bufconn", Err: timeoutError{}}
				}
			}
			break
		}
		c.blockedWrites.Add(-1)
	}
	if aw != nil && err == nil {
		aw(n)
	}
	if wh != nil && err == nil {
		wh(p[:n])
	}
	return n, err
}

// Close closes this end: its own blocked operations fail, the peer reads EOF.
func (c *Conn) Close() error {
	c.closeOnce.Do(func() {
		close(c.closed)
		c.out.closeWrite()
	})
	return nil
}

// CloseWrite ends only the outgoing direction (the peer reads EOF).
func (c *Conn) CloseWrite() { c.out.closeWrite() }

func (c *Conn) LocalAddr() net.Addr  { return c.local }
func (c *Conn) RemoteAddr() net.Addr { return c.remote }

func (c *Conn) SetDeadline(t time.Time) error {
	c.rd.set(t)
	c.wd.set(t)
	return nil
}
func (c *Conn) SetReadDeadline(t time.Time) error  { c.rd.set(t); return nil }
func (c *Conn) SetWriteDeadline(t time.Time) error { c.wd.set(t); return nil }

var _ net.Conn = (*Conn)(nil)

// NoDeadline wraps a Conn hiding its deadline methods (an io.ReadWriter only),
// for the "transports that do not support deadlines" cases.
type NoDeadline struct{ C *Conn }

func (n NoDeadline) Read(p []byte) (int, error)  { return n.C.Read(p) }
func (n NoDeadline) Write(p []byte) (int, error) { return n.C.Write(p) }
