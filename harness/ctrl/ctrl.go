// Package ctrl is the yield-point controller.  Under -tags verif the library
// calls verifhook.Yield(point, key) at a few places that sit after a mutex was
// released or before a channel operation; a scenario installs rules that park
// the calling goroutine there until the harness releases it, so that narrow
// interleavings are forced instead of hoped for.
package ctrl

import (
	"sync"
	"time"

	"mellium.im/xmpp/internal/verifhook"
)

// Controller holds the rules of one scenario.
type Controller struct {
	mu      sync.Mutex
	rules   []*Rule
	reached map[string]int
	log     []string
}

// Rule parks goroutines reaching Point (with Key, "" = any).
type Rule struct {
	Point, Key string
	Times      int // how many arrivals to park (0 = all while installed)
	arrived    chan struct{}
	release    chan struct{}
	once       sync.Once
	hits       int
	action     func() // not nil: run on the arriving goroutine instead of parking it
}

// New installs a fresh controller as the process-wide yield callback.
func New() *Controller {
	c := &Controller{reached: map[string]int{}}
	verifhook.Set(c.yield)
	return c
}

// Close removes the controller and releases every parked goroutine.
func (c *Controller) Close() {
	verifhook.Set(nil)
	c.mu.Lock()
	for _, r := range c.rules {
		r.Release()
	}
	c.rules = nil
	c.mu.Unlock()
}

// Park adds a rule: the next goroutine reaching point (and key, if not empty)
// blocks until Release is called.
func (c *Controller) Park(point, key string) *Rule {
	r := &Rule{Point: point, Key: key, Times: 1, arrived: make(chan struct{}), release: make(chan struct{})}
	c.mu.Lock()
	c.rules = append(c.rules, r)
	c.mu.Unlock()
	return r
}

// Do adds a rule whose action runs once, on the goroutine that reaches point
// (and key, if not empty), which then continues: an event placed exactly at a
// step of the library, with nothing scheduled in between.
func (c *Controller) Do(point, key string, action func()) *Rule {
	r := c.Park(point, key)
	c.mu.Lock()
	r.action = action
	c.mu.Unlock()
	return r
}

// Arrived is closed when a goroutine is parked by the rule.
func (r *Rule) Arrived() <-chan struct{} { return r.arrived }

// WaitArrived waits for a goroutine to be parked; false on timeout.
func (r *Rule) WaitArrived(d time.Duration) bool {
	select {
	case <-r.arrived:
		return true
	case <-time.After(d):
		return false
	}
}

// Release lets the parked goroutine (or a future arrival) continue.
func (r *Rule) Release() { r.once.Do(func() { close(r.release) }) }

func (c *Controller) yield(point, key string) {
	c.mu.Lock()
	c.reached[point]++
	var hit *Rule
	for _, r := range c.rules {
		if r.Point == point && (r.Key == "" || r.Key == key) && (r.Times == 0 || r.hits < r.Times) {
			r.hits++
			hit = r
			break
		}
	}
	c.mu.Unlock()
	if hit == nil {
		return
	}
	if hit.action != nil {
		hit.action()
		close(hit.arrived)
		return
	}
	if hit.hits == 1 {
		close(hit.arrived)
	}
	<-hit.release
}

// Reached returns how often each point was passed.
func (c *Controller) Reached() map[string]int {
	c.mu.Lock()
	defer c.mu.Unlock()
	out := map[string]int{}
	for k, v := range c.reached {
		out[k] = v
	}
	return out
}
