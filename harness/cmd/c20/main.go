package main

import (
	"mellium.im/xmpp/verifharness/core"
	"mellium.im/xmpp/verifharness/props/c20"
)

func main() { core.Main(c20.Prop()) }
