package main

import (
	"mellium.im/xmpp/verifharness/core"
	"mellium.im/xmpp/verifharness/props/c17"
)

func main() { core.Main(c17.Prop()) }
