package main

import (
	"mellium.im/xmpp/verifharness/core"
	"mellium.im/xmpp/verifharness/props/c16"
)

func main() { core.Main(c16.Prop()) }
