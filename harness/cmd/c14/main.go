package main

import (
	"mellium.im/xmpp/verifharness/core"
	"mellium.im/xmpp/verifharness/props/c14"
)

func main() { core.Main(c14.Prop()) }
