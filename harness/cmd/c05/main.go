package main

import (
	"mellium.im/xmpp/verifharness/core"
	"mellium.im/xmpp/verifharness/props/c05"
)

func main() { core.Main(c05.Prop()) }
