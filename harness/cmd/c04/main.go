package main

import (
	"mellium.im/xmpp/verifharness/core"
	"mellium.im/xmpp/verifharness/props/c04"
)

func main() { core.Main(c04.Prop()) }
