package main

import (
	"mellium.im/xmpp/verifharness/core"
	"mellium.im/xmpp/verifharness/props/c19"
)

func main() { core.Main(c19.Prop()) }
