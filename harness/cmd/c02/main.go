package main

import (
	"mellium.im/xmpp/verifharness/core"
	"mellium.im/xmpp/verifharness/props/c02"
)

func main() { core.Main(c02.Prop()) }
