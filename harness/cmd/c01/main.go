package main

import (
	"mellium.im/xmpp/verifharness/core"
	"mellium.im/xmpp/verifharness/props/c01"
)

func main() { core.Main(c01.Prop()) }
