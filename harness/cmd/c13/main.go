package main

import (
	"mellium.im/xmpp/verifharness/core"
	"mellium.im/xmpp/verifharness/props/c13"
)

func main() { core.Main(c13.Prop()) }
