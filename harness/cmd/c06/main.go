package main

import (
	"mellium.im/xmpp/verifharness/core"
	"mellium.im/xmpp/verifharness/props/c06"
)

func main() { core.Main(c06.Prop()) }
