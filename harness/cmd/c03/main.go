package main

import (
	"mellium.im/xmpp/verifharness/core"
	"mellium.im/xmpp/verifharness/props/c03"
)

func main() { core.Main(c03.Prop()) }
