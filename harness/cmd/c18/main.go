package main

import (
	"mellium.im/xmpp/verifharness/core"
	"mellium.im/xmpp/verifharness/props/c18"
)

func main() { core.Main(c18.Prop()) }
