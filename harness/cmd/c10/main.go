package main

import (
	"mellium.im/xmpp/verifharness/core"
	"mellium.im/xmpp/verifharness/props/c10"
)

func main() { core.Main(c10.Prop()) }
