package main

import (
	"mellium.im/xmpp/verifharness/core"
	"mellium.im/xmpp/verifharness/props/c15"
)

func main() { core.Main(c15.Prop()) }
