package main

import (
	"mellium.im/xmpp/verifharness/core"
	"mellium.im/xmpp/verifharness/props/c11"
)

func main() { core.Main(c11.Prop()) }
