package main

import (
	"mellium.im/xmpp/verifharness/core"
	"mellium.im/xmpp/verifharness/props/c08"
)

func main() { core.Main(c08.Prop()) }
