package main

import (
	"mellium.im/xmpp/verifharness/core"
	"mellium.im/xmpp/verifharness/props/c09"
)

func main() { core.Main(c09.Prop()) }
