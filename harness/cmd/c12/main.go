package main

import (
	"mellium.im/xmpp/verifharness/core"
	"mellium.im/xmpp/verifharness/props/c12"
)

func main() { core.Main(c12.Prop()) }
