package main

import (
	"mellium.im/xmpp/verifharness/core"
	"mellium.im/xmpp/verifharness/props/c07"
)

func main() { core.Main(c07.Prop()) }
