// Package tlspeer is the harness side of TLS: a self-signed ECDSA identity
// generated at child start-up, a crypto/tls server configuration that records
// the server name of every ClientHello it sees, and a way to make the identity
// the process's system root so that a client running with crypto/tls defaults
// (no RootCAs) can complete a handshake with it.
//
// crypto/tls works on any net.Conn, so the peers run it over bufconn.Pipe on
// their own goroutine.
package tlspeer

import (
	"crypto/ecdsa"
	"crypto/elliptic"
	"crypto/rand"
	"crypto/tls"
	"crypto/x509"
	"crypto/x509/pkix"
	"encoding/pem"
	"math/big"
	"os"
	"sync"
	"time"
)

// Identity is a self-signed certificate (also its own CA) with its key.
type Identity struct {
	Cert tls.Certificate
	Pool *x509.CertPool // contains only this certificate
	PEM  []byte
}

// NewIdentity generates a P-256 identity valid for the given DNS names.
func NewIdentity(names ...string) (*Identity, error) {
	key, err := ecdsa.GenerateKey(elliptic.P256(), rand.Reader)
	if err != nil {
		return nil, err
	}
	tmpl := &x509.Certificate{
		SerialNumber:          big.NewInt(0x5eed),
		Subject:               pkix.Name{CommonName: "verif harness peer"},
		NotBefore:             time.Now().Add(-24 * time.Hour),
		NotAfter:              time.Now().Add(10 * 365 * 24 * time.Hour),
		KeyUsage:              x509.KeyUsageDigitalSignature | x509.KeyUsageCertSign,
		ExtKeyUsage:           []x509.ExtKeyUsage{x509.ExtKeyUsageServerAuth},
		BasicConstraintsValid: true,
		IsCA:                  true,
		DNSNames:              names,
	}
	der, err := x509.CreateCertificate(rand.Reader, tmpl, tmpl, &key.PublicKey, key)
	if err != nil {
		return nil, err
	}
	leaf, err := x509.ParseCertificate(der)
	if err != nil {
		return nil, err
	}
	pool := x509.NewCertPool()
	pool.AddCert(leaf)
	return &Identity{
		Cert: tls.Certificate{Certificate: [][]byte{der}, PrivateKey: key, Leaf: leaf},
		Pool: pool,
		PEM:  pem.EncodeToMemory(&pem.Block{Type: "CERTIFICATE", Bytes: der}),
	}, nil
}

// TrustAsSystemRoot makes id the only system root of this process: the
// certificate is written to a temporary file named by SSL_CERT_FILE, the
// system pool is forced to load (it is loaded once per process and cached),
// and the file is removed again.  It must run before anything in the process
// verifies a certificate against the system roots.
func (id *Identity) TrustAsSystemRoot() error {
	f, err := os.CreateTemp("", "verif-root-*.pem")
	if err != nil {
		return err
	}
	name := f.Name()
	defer os.Remove(name)
	if _, err = f.Write(id.PEM); err != nil {
		f.Close()
		return err
	}
	if err = f.Close(); err != nil {
		return err
	}
	os.Setenv("SSL_CERT_FILE", name)
	os.Setenv("SSL_CERT_DIR", "/nonexistent-verif-cert-dir")
	_, err = x509.SystemCertPool() // forces the one-time load
	return err
}

// Hello records the ClientHello messages a server configuration has seen.
type Hello struct {
	mu    sync.Mutex
	names []string
	seen  int
}

// ServerNames returns the server names of the ClientHellos seen so far ("" for
// a hello without the extension).
func (h *Hello) ServerNames() []string {
	h.mu.Lock()
	defer h.mu.Unlock()
	return append([]string(nil), h.names...)
}

// Seen is the number of ClientHellos seen.
func (h *Hello) Seen() int {
	h.mu.Lock()
	defer h.mu.Unlock()
	return h.seen
}

// ServerConfig returns a server configuration presenting id that records every
// ClientHello in h.  maxVersion 0 means the crypto/tls default.
func (id *Identity) ServerConfig(h *Hello, maxVersion uint16) *tls.Config {
	base := &tls.Config{
		Certificates: []tls.Certificate{id.Cert},
		MinVersion:   tls.VersionTLS12,
		MaxVersion:   maxVersion,
	}
	cfg := base.Clone()
	cfg.GetConfigForClient = func(chi *tls.ClientHelloInfo) (*tls.Config, error) {
		h.mu.Lock()
		h.names = append(h.names, chi.ServerName)
		h.seen++
		h.mu.Unlock()
		return nil, nil // keep using cfg
	}
	return cfg
}

// ClientConfig returns an explicit client configuration that trusts id and
// names serverName.
func (id *Identity) ClientConfig(serverName string) *tls.Config {
	return &tls.Config{
		ServerName: serverName,
		RootCAs:    id.Pool,
		MinVersion: tls.VersionTLS12,
	}
}

// SplitRecords splits b at the first byte that starts a well-formed TLS record
// header (content type 20–23, major version 3, minor version 0–4, length ≤
// 2^14+2048) and reports whether everything from there on is a sequence of
// such records (the last one possibly truncated).  clear is the prefix before
// the first record; n is the number of record headers found.
func SplitRecords(b []byte) (clear []byte, n int, wellFormed bool) {
	start := -1
	for i := 0; i+5 <= len(b); i++ {
		if isRecordHeader(b[i:]) {
			start = i
			break
		}
	}
	if start < 0 {
		return b, 0, true
	}
	clear = b[:start]
	rest := b[start:]
	for len(rest) > 0 {
		if len(rest) < 5 {
			return clear, n, true // truncated header at the very end
		}
		if !isRecordHeader(rest) {
			return clear, n, false
		}
		n++
		l := int(rest[3])<<8 | int(rest[4])
		if 5+l >= len(rest) {
			return clear, n, true
		}
		rest = rest[5+l:]
	}
	return clear, n, true
}

func isRecordHeader(b []byte) bool {
	if len(b) < 5 {
		return false
	}
	if b[0] < 20 || b[0] > 23 || b[1] != 3 || b[2] > 4 {
		return false
	}
	l := int(b[3])<<8 | int(b[4])
	return l <= 1<<14+2048
}
