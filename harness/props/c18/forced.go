package c18

import (
	"fmt"
	"strings"
	"sync"
	"sync/atomic"
	"time"

	"mellium.im/xmpp/muc"

	"mellium.im/xmpp/verifharness/core"
	"mellium.im/xmpp/verifharness/ctrl"
	"mellium.im/xmpp/verifharness/stall"
)

// forcedCase is one of M1–M3 of DESIGN.md appendix C, or M4/M5: the caller of
// Join/Leave is held at its yield point until the room's error reply has been
// processed by the request goroutine, and must still get the room's error.
type forcedCase struct {
	Kind     string `json:"kind"`
	Scenario string `json:"scenario"`
}

func runForced(c *core.Case) {
	fc := &forcedCase{Kind: "forced", Scenario: []string{"M1", "M2", "M3", "M4", "M5", "M6", "M7", "M8", "M9", "M10"}[(c.Index/8)%10]}
	c.Sample(fc)
	execForced(c, fc)
}

func execForced(c *core.Case, fc *forcedCase) {
	base := stall.Snapshot(nil)
	w, err := newWorld()
	if err != nil {
		c.Count("setup_failures", 1)
		return
	}
	defer w.shutdown()
	ctl := ctrl.New()
	defer ctl.Close()
	mc := &muCase{Kind: "forced-" + fc.Scenario, Rooms: []string{roomNames[0]}, shape: fc.Scenario}
	addr := mc.Rooms[0]
	d := &driver{c: c, w: w, mc: mc, base: base, calls: map[string]*call{}, chans: map[string]*muc.Channel{}, allChans: map[string][]*muc.Channel{}, occ: map[string]string{}, pending: map[string]int{}}
	do := func(st step) bool {
		st.Room = 1
		mc.Steps = append(mc.Steps, st)
		d.exec(st)
		return !d.aborted
	}
	finish := func() {
		for _, cl := range d.order {
			if cl.n > 0 {
				select {
				case <-cl.done:
				default:
					w.log.add(event{Ev: "cancel", Ctx: cl.ctxN})
					cl.cancel()
					select {
					case <-cl.done:
					case <-time.After(hardLimit):
					}
				}
			}
		}
		log := w.log.snapshot()
		c.Extra(log)
		if d.dead {
			return
		}
		judge(c, mc, d, log)
	}
	joinNormally := func() bool {
		return do(step{Op: "join", Label: "j"}) && do(step{Op: "seen", Label: "j"}) && do(step{Op: "self"}) && do(step{Op: "await", Label: "j", Must: true})
	}

	switch fc.Scenario {
	case "M1":
		// Leave has sent its request and is about to wait; the room's answer is
		// processed in that window.
		if !joinNormally() {
			break
		}
		rule := ctl.Park("muc.leave.wait", addr)
		do(step{Op: "leave", Label: "l"})
		if !rule.WaitArrived(grace) {
			c.Notef("M1: Leave never reached muc.leave.wait")
			break
		}
		c.Count("forced_M1_reached", 1)
		if !do(step{Op: "seen", Label: "l"}) || !do(step{Op: "unavail"}) || !do(step{Op: "barrier"}) {
			break
		}
		rule.Release()
		do(step{Op: "await", Label: "l", Must: true})
		do(step{Op: "barrier"})
	case "M2":
		// Join is about to wait; the room's self-presence arrives.
		rule := ctl.Park("muc.join.wait", addr)
		do(step{Op: "join", Label: "j"})
		if !rule.WaitArrived(grace) {
			c.Notef("M2: Join never reached muc.join.wait")
			break
		}
		c.Count("forced_M2_reached", 1)
		if !do(step{Op: "seen", Label: "j"}) || !do(step{Op: "self"}) {
			break
		}
		time.Sleep(2 * time.Millisecond) // let the handler reach the hand-off
		rule.Release()
		do(step{Op: "await", Label: "j", Must: true})
		do(step{Op: "barrier"})
	case "M3":
		// The handler is about to signal the departure; Leave is cancelled and
		// returns first.
		if !joinNormally() {
			break
		}
		rule := ctl.Park("muc.depart.notify", addr)
		do(step{Op: "leave", Label: "l"})
		if !do(step{Op: "seen", Label: "l"}) {
			break
		}
		do(step{Op: "unavail"})
		if !rule.WaitArrived(grace) {
			// Leave may have been waiting already and taken the signal: then the
			// handler passed the point before the rule could matter
			c.Notef("M3: handler never parked at muc.depart.notify")
			break
		}
		c.Count("forced_M3_reached", 1)
		do(step{Op: "cancel", Label: "l"})
		do(step{Op: "await", Label: "l", Must: true})
		rule.Release()
		do(step{Op: "barrier"}) // the serve loop must still be alive: no panic, no stall
	case "M4", "M5":
		// The caller is held just before its final select while the room
		// answers the request with an error for its id.  Only when that reply has
		// been taken in by the library as far as it goes without the caller — the
		// serve loop answers a following ping (the request goroutine is done), or
		// the request goroutine is parked handing the error over — is the caller
		// released.  Its context is never cancelled: the room's stanza error is
		// the only legal result.  Repeated, so that a result that depends on a
		// coin flip in a select does not slip through.
		point, op := "muc.join.wait", "join"
		if fc.Scenario == "M5" {
			point, op = "muc.leave.wait", "leave"
			if !joinNormally() {
				break
			}
		}
		for k := 0; k < refusalsPerForcedCase && !d.aborted; k++ {
			label := fmt.Sprintf("%s%d", op[:1], k)
			rule := ctl.Park(point, addr)
			do(step{Op: op, Label: label})
			if !rule.WaitArrived(grace) {
				c.Notef("%s: caller never reached %s", fc.Scenario, point)
				rule.Release()
				break
			}
			if !do(step{Op: "seen", Label: label}) {
				rule.Release()
				break
			}
			do(step{Op: "error", Label: label, Cond: roomErrors[k%len(roomErrors)][1]})
			d.nbar++
			bk := d.nbar
			bid := w.barrierSend(bk)
			answered := false
			for try := 0; try < 100 && !answered; try++ {
				if answered = w.barrierWait(bk, bid, 2*time.Millisecond); answered {
					break
				}
				handingOver := false
				for _, p := range stall.Snapshot(isMucWait) {
					if _, old := base[p.ID]; !old && p.ID != d.calls[label].gid && strings.Contains(p.Func, "Presence.func") {
						handingOver = true
					}
				}
				if handingOver {
					break
				}
			}
			if answered {
				c.Count("forced_"+fc.Scenario+"_reply_processed_before_release", 1)
			} else {
				c.Count("forced_"+fc.Scenario+"_request_goroutine_waiting_for_caller", 1)
			}
			c.Count("forced_"+fc.Scenario+"_reached", 1)
			rule.Release()
			do(step{Op: "await", Label: label, Must: true})
			if !answered && !d.aborted && !w.barrierWait(bk, bid, hardLimit) {
				select {
				case <-w.served:
					d.sessionEnded()
				default:
					c.Inconclusive("%s: the ping sent after the error reply was never answered", fc.Scenario)
				}
				d.aborted = true
			}
		}
		do(step{Op: "barrier"})
	case "M9":
		// Late answers of the other kind, with the callers' contexts alive: an
		// error carrying the id of a join that succeeded, of a leave that was
		// confirmed; a self-presence carrying the id of a join that was refused.
		// After each of them the serve loop must answer the barrier.
		if !joinNormally() {
			break
		}
		if !do(step{Op: "late-error", Label: "j", Cond: "conflict"}) || !do(step{Op: "barrier"}) {
			break
		}
		do(step{Op: "leave", Label: "l"})
		if !do(step{Op: "seen", Label: "l"}) || !do(step{Op: "unavail"}) || !do(step{Op: "await", Label: "l", Must: true}) {
			break
		}
		if !do(step{Op: "late-error", Label: "l", Cond: "not-allowed"}) || !do(step{Op: "barrier"}) {
			break
		}
		do(step{Op: "join", Label: "j2"})
		if !do(step{Op: "seen", Label: "j2"}) || !do(step{Op: "error", Label: "j2", Cond: "forbidden"}) || !do(step{Op: "await", Label: "j2", Must: true}) {
			break
		}
		if !do(step{Op: "late-self", Label: "j2"}) || !do(step{Op: "barrier"}) {
			break
		}
		// and the next call still works
		do(step{Op: "kick"})
		do(step{Op: "barrier"})
		do(step{Op: "join", Label: "j3"})
		if do(step{Op: "seen", Label: "j3"}) && do(step{Op: "self"}) {
			do(step{Op: "await", Label: "j3", Must: true})
		}
		do(step{Op: "barrier"})
		c.Count("forced_M9_reached", 1)
	case "M10":
		// Other goroutines of the application keep asking Joined() (every such
		// call takes the client's lock) while the occupant leaves and joins the
		// same address again as soon as Leave has returned.  What Join and Leave
		// report and what Joined() says must agree at once, on the caller's own
		// goroutine: joined from a successful join on, not joined once Leave has
		// returned for the occupant's departure; and the join that follows a
		// completed leave is a join like any other.
		d.sampleAtReturn = true
		if !joinNormally() {
			break
		}
		var stop atomic.Bool
		var hw sync.WaitGroup
		first := d.chans[addr]
		for k := 0; k < 6 && first != nil; k++ {
			hw.Add(1)
			go func() {
				defer hw.Done()
				for !stop.Load() {
					first.Joined()
				}
			}()
		}
		for k := 0; k < 25 && !d.aborted; k++ {
			l, j := fmt.Sprintf("l%d", k), fmt.Sprintf("j%d", k)
			do(step{Op: "leave", Label: l})
			if !do(step{Op: "seen", Label: l}) || !do(step{Op: "unavail"}) || !do(step{Op: "await", Label: l, Must: true}) {
				break
			}
			if cl := d.calls[l]; cl != nil && cl.joinedAtRet != nil && *cl.joinedAtRet {
				c.Violate("muc:leave:returned-while-still-reported-joined", "round %d: Leave returned nil for the occupant's departure, and Joined(), asked on the same goroutine right afterwards, still said true", k)
				break
			}
			do(step{Op: "join", Label: j})
			if !do(step{Op: "seen", Label: j}) || !do(step{Op: "self"}) || !do(step{Op: "await", Label: j, Must: true}) {
				break
			}
			if cl := d.calls[j]; cl != nil && cl.joinedAtRet != nil && !*cl.joinedAtRet {
				c.Violate("muc:join:returned-while-not-yet-reported-joined", "round %d: Join returned nil, and Joined(), asked on the same goroutine right afterwards, said false", k)
				break
			}
			c.Count("leave_join_rounds_under_contention_for_the_client_lock", 1)
		}
		stop.Store(true)
		hw.Wait()
		do(step{Op: "barrier"})
		c.Count("forced_M10_reached", 1)
	case "M6", "M7", "M8":
		// The room's answer to a join arrives in two transport writes and the
		// caller gives up in between: M6 the error reply for the request id (its
		// start tag is matched with the request and handed to the request
		// goroutine, which then waits for the rest), M7 the self-presence.  When
		// the rest has arrived the serve loop must go on: the barrier behind it
		// is answered.  The call itself may return the context's error (it was
		// cancelled) or the room's answer.
		// M8 is M6 for Leave: the room refuses the leave request with an error
		// presence that arrives in two pieces around the caller's cancellation.
		for k := 0; k < 4 && !d.aborted; k++ {
			label := fmt.Sprintf("j%d", k)
			do(step{Op: "join", Label: label})
			if fc.Scenario == "M8" {
				if !do(step{Op: "seen", Label: label}) || !do(step{Op: "self"}) || !do(step{Op: "await", Label: label, Must: true}) {
					break
				}
				label = fmt.Sprintf("l%d", k)
				do(step{Op: "leave", Label: label})
			}
			cl := d.calls[label]
			if cl == nil || !do(step{Op: "seen", Label: label}) {
				break
			}
			var first, rest string
			if fc.Scenario == "M6" || fc.Scenario == "M8" {
				cond := roomErrors[k%len(roomErrors)]
				first, rest = errorPieces(addr, cl.reqID, cond[0], cond[1])
				rule := ctl.Park("serve.handoff", cl.reqID)
				w.log.add(event{Ev: "presence", Addr: addr, Typ: "error", ID: cl.reqID, Cond: cond[1], Self: true})
				w.send(first)
				if !rule.WaitArrived(grace) {
					c.Notef("%s: the start tag of the error reply was never handed to the request", fc.Scenario)
					rule.Release()
					w.send(rest)
					break
				}
				rule.Release()
			} else {
				first = "<presence from='" + addr + "' to='" + libAddr + "' id='" + cl.reqID + "'>"
				rest = "<x xmlns='" + nsMUCUser + "'><item affiliation='member' role='participant'/><status code='110'/></x></presence>"
				w.log.add(event{Ev: "presence", Addr: addr, Typ: "available", ID: cl.reqID, Self: true})
				w.send(first)
				time.Sleep(2 * time.Millisecond) // let the serve loop start on it
			}
			c.Count("forced_"+fc.Scenario+"_reached", 1)
			do(step{Op: "cancel", Label: label})
			do(step{Op: "await", Label: label, Must: true})
			w.send(rest)
			if !do(step{Op: "barrier"}) {
				break
			}
			// out again, so that the next round starts from the same state
			do(step{Op: "kick"})
			do(step{Op: "barrier"})
		}
	}
	finish()
	c.Count("forced_scenarios", 1)
}

// refusalsPerForcedCase: refused calls per M4/M5 case.
const refusalsPerForcedCase = 16
