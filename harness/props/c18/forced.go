package c18

import (
	"time"

	"mellium.im/xmpp/muc"

	"mellium.im/xmpp/verifharness/core"
	"mellium.im/xmpp/verifharness/ctrl"
	"mellium.im/xmpp/verifharness/stall"
)

// forcedCase is one of M1–M3 of DESIGN.md appendix C.
type forcedCase struct {
	Kind     string `json:"kind"`
	Scenario string `json:"scenario"`
}

func runForced(c *core.Case) {
	fc := &forcedCase{Kind: "forced", Scenario: []string{"M1", "M2", "M3"}[(c.Index/8)%3]}
	c.Sample(fc)
	execForced(c, fc)
}

func execForced(c *core.Case, fc *forcedCase) {
	base := stall.Snapshot(nil)
	w, err := newWorld()
	if err != nil {
		c.Count("setup_failures", 1)
		return
	}
	defer w.shutdown()
	ctl := ctrl.New()
	defer ctl.Close()
	mc := &muCase{Kind: "forced-" + fc.Scenario, Rooms: []string{roomNames[0]}, shape: fc.Scenario}
	addr := mc.Rooms[0]
	d := &driver{c: c, w: w, mc: mc, base: base, calls: map[string]*call{}, chans: map[string]*muc.Channel{}, pending: map[string]int{}}
	do := func(st step) bool {
		st.Room = 1
		mc.Steps = append(mc.Steps, st)
		d.exec(st)
		return !d.aborted
	}
	finish := func() {
		for _, cl := range d.order {
			if cl.n > 0 {
				select {
				case <-cl.done:
				default:
					w.log.add(event{Ev: "cancel", Ctx: cl.ctxN})
					cl.cancel()
					select {
					case <-cl.done:
					case <-time.After(hardLimit):
					}
				}
			}
		}
		log := w.log.snapshot()
		c.Extra(log)
		if d.dead {
			return
		}
		judge(c, mc, d, log)
	}
	joinNormally := func() bool {
		return do(step{Op: "join", Label: "j"}) && do(step{Op: "seen", Label: "j"}) && do(step{Op: "self"}) && do(step{Op: "await", Label: "j", Must: true})
	}

	switch fc.Scenario {
	case "M1":
		// Leave has sent its request and is about to wait; the room's answer is
		// processed in that window.
		if !joinNormally() {
			break
		}
		rule := ctl.Park("muc.leave.wait", addr)
		do(step{Op: "leave", Label: "l"})
		if !rule.WaitArrived(grace) {
			c.Notef("M1: Leave never reached muc.leave.wait")
			break
		}
		c.Count("forced_M1_reached", 1)
		if !do(step{Op: "seen", Label: "l"}) || !do(step{Op: "unavail"}) || !do(step{Op: "barrier"}) {
			break
		}
		rule.Release()
		do(step{Op: "await", Label: "l", Must: true})
		do(step{Op: "barrier"})
	case "M2":
		// Join is about to wait; the room's self-presence arrives.
		rule := ctl.Park("muc.join.wait", addr)
		do(step{Op: "join", Label: "j"})
		if !rule.WaitArrived(grace) {
			c.Notef("M2: Join never reached muc.join.wait")
			break
		}
		c.Count("forced_M2_reached", 1)
		if !do(step{Op: "seen", Label: "j"}) || !do(step{Op: "self"}) {
			break
		}
		time.Sleep(2 * time.Millisecond) // let the handler reach the hand-off
		rule.Release()
		do(step{Op: "await", Label: "j", Must: true})
		do(step{Op: "barrier"})
	case "M3":
		// The handler is about to signal the departure; Leave is cancelled and
		// returns first.
		if !joinNormally() {
			break
		}
		rule := ctl.Park("muc.depart.notify", addr)
		do(step{Op: "leave", Label: "l"})
		if !do(step{Op: "seen", Label: "l"}) {
			break
		}
		do(step{Op: "unavail"})
		if !rule.WaitArrived(grace) {
			// Leave may have been waiting already and taken the signal: then the
			// handler passed the point before the rule could matter
			c.Notef("M3: handler never parked at muc.depart.notify")
			break
		}
		c.Count("forced_M3_reached", 1)
		do(step{Op: "cancel", Label: "l"})
		do(step{Op: "await", Label: "l", Must: true})
		rule.Release()
		do(step{Op: "barrier"}) // the serve loop must still be alive: no panic, no stall
	}
	finish()
	c.Count("forced_scenarios", 1)
}
