package c18

import (
	"fmt"
	"math/rand"
)

// step is one action of the driver: a library call started on its own
// goroutine, something the scripted room sends, or a synchronisation.
type step struct {
	Op    string      `json:"op"`
	Room  int         `json:"room,omitempty"`  // 1-based room number
	Label string      `json:"label,omitempty"` // names the call started by join/rejoin/leave; await/cancel/seen/error refer to it
	N     int         `json:"n,omitempty"`
	Cond  string      `json:"cond,omitempty"`
	Must  bool        `json:"must,omitempty"` // await: by then the answer was sent, the call has to return
	Inv   *inviteSpec `json:"invite,omitempty"`
	// join / rejoin: the options passed to the call
	Opts *joinOpts `json:"options,omitempty"`
	// presences from the room: the <item/> attributes and status codes
	Aff   string `json:"affiliation,omitempty"`
	Role  string `json:"role,omitempty"`
	Codes []int  `json:"status,omitempty"`
}

// joinOpts are the muc.Option values of a join.
type joinOpts struct {
	Nick     string `json:"nick,omitempty"` // same | different (from the address's resourcepart)
	Password string `json:"password,omitempty"`
	History  string `json:"history,omitempty"` // max | bytes | since | duration
}

func genOpts(r *rand.Rand) *joinOpts {
	if r.Intn(3) != 0 {
		return nil
	}
	o := &joinOpts{}
	switch r.Intn(4) {
	case 0:
		o.Nick = "same"
	case 1, 2:
		o.Nick = "different"
	}
	if r.Intn(3) == 0 {
		o.Password = "cauldronburn"
	}
	if r.Intn(3) == 0 {
		o.History = []string{"max", "bytes", "since", "duration"}[r.Intn(4)]
	}
	if *o == (joinOpts{}) {
		o.Password = "cauldronburn"
	}
	return o
}

var (
	affiliations = []string{"owner", "admin", "member", "none", "outcast"}
	roles        = []string{"moderator", "participant", "visitor", "none"}
	// how a room takes an occupant out: ban, kick, affiliation change,
	// members-only, shutdown
	removals = []int{301, 307, 321, 322, 332}
)

// dress gives a presence step its <item/> attributes and status codes: every
// affiliation × role combination occurs on joins, changes and departures; the
// occupant model follows the presence type whatever they are.
func dress(r *rand.Rand, st *step) {
	switch st.Op {
	case "self", "self-unsolicited", "self-again", "other", "foreign", "late-self":
		st.Aff, st.Role = affiliations[r.Intn(len(affiliations))], roles[r.Intn(len(roles))]
		if r.Intn(2) == 0 {
			// the plausible ones more often
			st.Aff, st.Role = affiliations[r.Intn(4)], roles[r.Intn(3)]
		}
		if st.Op != "other" {
			st.Codes = []int{110}
			if r.Intn(4) == 0 {
				st.Codes = append(st.Codes, []int{100, 170, 201, 210}[r.Intn(4)])
			}
		}
	case "kick", "other-removed":
		code := removals[r.Intn(len(removals))]
		st.Aff, st.Role = affiliations[r.Intn(len(affiliations))], "none"
		switch code {
		case 301:
			st.Aff = "outcast"
		case 321, 322:
			st.Aff = "none"
		}
		if r.Intn(6) == 0 {
			st.Role = roles[r.Intn(len(roles))]
		}
		st.Codes = []int{code}
		if st.Op == "kick" {
			st.Codes = append(st.Codes, 110)
		}
	case "unavail", "other-leaves", "foreign-unavailable":
		st.Aff, st.Role = affiliations[r.Intn(len(affiliations))], roles[r.Intn(len(roles))]
		if r.Intn(2) == 0 {
			st.Role = "none"
		}
		if st.Op != "other-leaves" {
			st.Codes = []int{110}
		}
	}
}

type muCase struct {
	Kind  string   `json:"kind"`
	Rooms []string `json:"rooms"` // occupant addresses
	Steps []step   `json:"steps"`
	shape string
}

var roomErrors = [][2]string{
	{"auth", "not-authorized"}, {"auth", "forbidden"}, {"cancel", "item-not-found"}, {"cancel", "conflict"},
	{"wait", "service-unavailable"}, {"modify", "jid-malformed"}, {"auth", "registration-required"}, {"cancel", "not-allowed"},
}

func errTypeOf(cond string) string {
	for _, e := range roomErrors {
		if e[1] == cond {
			return e[0]
		}
	}
	return "cancel"
}

// story writes the life of one occupant: a few episodes of joining, being
// in the room and going out again.
type story struct {
	r      *rand.Rand
	room   int
	steps  []step
	nreq   int // requests the library will have sent for this address so far
	ncall  int
	shape  []byte
	hasCh  bool // a Client.Join for this address has been awaited
	noises *int
}

// malformedErrors: answers of type error whose <error/> is missing or cannot
// be decoded.  The call reports that somehow; what matters is that the session
// goes on serving afterwards (the steps that follow show it).
var malformedErrors = []string{"!no-error-element", "!undecodable-by", "!empty-error-element"}

func (s *story) add(st step) {
	st.Room = s.room
	if st.Op == "error" && s.r.Intn(6) == 0 {
		st.Cond = malformedErrors[s.r.Intn(len(malformedErrors))]
	}
	dress(s.r, &st)
	s.steps = append(s.steps, st)
}

// late: after a call has returned (its context lives on: it is never
// cancelled), the room sends a late or duplicate answer of the other kind with
// the same id — an error after the success, a self-presence after the
// refusal.  Nobody waits for it any more; the serve loop has to get past it,
// which the barrier shows.
func (s *story) late(label, kind string) {
	if s.r.Intn(3) != 0 {
		return
	}
	s.shape = append(s.shape, '+')
	if kind == "error" {
		s.add(step{Op: "late-error", Label: label, Cond: roomErrors[s.r.Intn(len(roomErrors))][1]})
	} else {
		s.add(step{Op: "late-self", Label: label})
	}
	s.add(step{Op: "barrier"})
}

func (s *story) launch(op string) string {
	s.ncall++
	s.nreq++
	l := fmt.Sprintf("r%dc%d", s.room, s.ncall)
	st := step{Op: op, Label: l}
	if op != "leave" {
		st.Opts = genOpts(s.r)
	}
	s.add(st)
	return l
}

// joinPhase returns whether the occupant is in the room afterwards (as far as
// the generator can tell) — it only steers what is generated next, the oracle
// never uses it.
func (s *story) joinPhase(op string) (in bool) {
	r := s.r
	if r.Intn(12) == 0 {
		// the room answers the request by removing the occupant (kick, ban,
		// shutdown): an unavailable presence, no self-presence.  The call may only
		// end with its context's error.
		s.shape = append(s.shape, 'U')
		l := s.launch(op)
		s.add(step{Op: "seen", Label: l})
		s.add(step{Op: "kick"})
		if r.Intn(2) == 0 {
			s.add(step{Op: "barrier"})
		}
		s.add(step{Op: "cancel", Label: l})
		s.add(step{Op: "await", Label: l, Must: true})
		s.add(step{Op: "barrier"})
		return false
	}
	switch v := r.Intn(20); {
	case v < 8: // the room answers with the self-presence
		s.shape = append(s.shape, 'J')
		l := s.launch(op)
		s.add(step{Op: "seen", Label: l})
		if r.Intn(2) == 0 {
			// other occupants first, as a real room does; the join must stay pending
			for k := 0; k <= r.Intn(3); k++ {
				if r.Intn(4) == 0 {
					s.add(step{Op: "other-malformed", N: r.Intn(2 * len(malformedPayloads))})
					continue
				}
				s.add(step{Op: "other"})
			}
			if r.Intn(2) == 0 {
				s.add(step{Op: "barrier"})
			}
		}
		s.add(step{Op: "self"})
		if r.Intn(4) == 0 {
			// kicked at once: the unavailable presence follows the self-presence
			s.shape = append(s.shape, 'k')
			s.add(step{Op: "kick"})
			s.add(step{Op: "await", Label: l, Must: true})
			return false
		}
		s.add(step{Op: "await", Label: l, Must: true})
		s.late(l, "error")
		return true
	case v < 10: // a self-presence that nobody asked for yet, then the join
		s.shape = append(s.shape, 'E')
		s.add(step{Op: "self-unsolicited"})
		if r.Intn(2) == 0 {
			s.add(step{Op: "barrier"})
		}
		l := s.launch(op)
		s.add(step{Op: "seen", Label: l})
		s.add(step{Op: "self"})
		s.add(step{Op: "await", Label: l, Must: true})
		return true
	case v < 13: // the room refuses
		s.shape = append(s.shape, 'X')
		l := s.launch(op)
		s.add(step{Op: "seen", Label: l})
		if r.Intn(3) == 0 {
			s.add(step{Op: "other"})
		}
		s.add(step{Op: "error", Label: l, Cond: roomErrors[r.Intn(len(roomErrors))][1]})
		s.add(step{Op: "await", Label: l, Must: true})
		s.late(l, "self")
		return false
	case v < 16: // the caller gives up
		s.shape = append(s.shape, 'C')
		l := s.launch(op)
		if r.Intn(2) == 0 {
			s.add(step{Op: "seen", Label: l})
		}
		if r.Intn(3) == 0 {
			s.add(step{Op: "other"})
		}
		s.add(step{Op: "cancel", Label: l})
		s.add(step{Op: "await", Label: l, Must: true})
		if r.Intn(2) == 0 {
			// the room lets us in after all: too late for the call
			s.add(step{Op: "seen", Label: l})
			s.add(step{Op: "self"})
		}
		return false
	case v < 18: // cancellation and self-presence race
		s.shape = append(s.shape, 'R')
		l := s.launch(op)
		s.add(step{Op: "seen", Label: l})
		if r.Intn(2) == 0 {
			s.add(step{Op: "self"})
			s.add(step{Op: "cancel", Label: l})
		} else {
			s.add(step{Op: "cancel", Label: l})
			s.add(step{Op: "self"})
		}
		s.add(step{Op: "await", Label: l, Must: true})
		// either outcome is legal; put the occupant out for sure before going on
		s.add(step{Op: "kick"})
		s.add(step{Op: "barrier"})
		return false
	case v < 19: // the room refuses and the caller gives up at the same moment
		s.shape = append(s.shape, 'Y')
		l := s.launch(op)
		s.add(step{Op: "seen", Label: l})
		s.add(step{Op: "error", Label: l, Cond: roomErrors[r.Intn(len(roomErrors))][1]})
		s.add(step{Op: "cancel", Label: l})
		s.add(step{Op: "await", Label: l, Must: true})
		s.add(step{Op: "barrier"}) // the serve loop must have got rid of the reply
		return false
	default: // error and self-presence both arrive
		s.shape = append(s.shape, 'B')
		l := s.launch(op)
		s.add(step{Op: "seen", Label: l})
		if r.Intn(2) == 0 {
			s.add(step{Op: "error", Label: l, Cond: roomErrors[r.Intn(len(roomErrors))][1]})
			s.add(step{Op: "self"})
		} else {
			s.add(step{Op: "self"})
			s.add(step{Op: "error", Label: l, Cond: roomErrors[r.Intn(len(roomErrors))][1]})
		}
		s.add(step{Op: "await", Label: l, Must: true})
		s.add(step{Op: "kick"})
		s.add(step{Op: "barrier"})
		return false
	}
}

func (s *story) inRoom() (stillIn bool) {
	r := s.r
	if r.Intn(2) == 0 {
		s.add(step{Op: "barrier"})
	}
	for k := r.Intn(3); k > 0; k-- {
		switch r.Intn(5) {
		case 4:
			s.add(step{Op: "other-malformed", N: r.Intn(2 * len(malformedPayloads))})
			s.add(step{Op: "barrier"})
		case 0:
			s.add(step{Op: "other"})
		case 1:
			if s.r.Intn(2) == 0 {
				s.add(step{Op: "other-removed"}) // somebody else is banned, kicked, …
				break
			}
			s.add(step{Op: "other-leaves"})
		case 2:
			s.add(step{Op: "self-again"}) // e.g. a role change: presence for our own address, no call pending
		default:
			s.add(step{Op: "foreign"})
		}
	}
	if r.Intn(5) == 0 {
		// Two or three Channel.Join calls on the one channel overlap (different
		// goroutines).  The room answers each request by its id, in the order
		// it saw them or the other way round; every call whose request was
		// answered has to come back with nil.
		s.shape = append(s.shape, 'O')
		n := 2 + r.Intn(2)
		var ls []string
		for k := 0; k < n; k++ {
			l := s.launch("rejoin")
			s.steps[len(s.steps)-1].Opts = nil // (options would make the requests differ in address)
			ls = append(ls, l)
			s.add(step{Op: "seen", Label: l})
		}
		order := append([]string(nil), ls...)
		if r.Intn(2) == 0 {
			for i, j := 0, len(order)-1; i < j; i, j = i+1, j-1 {
				order[i], order[j] = order[j], order[i]
			}
		}
		// first answer whatever has been seen, in the chosen order …
		for _, l := range order {
			s.add(step{Op: "self", Label: l})
		}
		// … then see every call through: a request that only goes out once the
		// call before it has finished is answered when it appears
		for _, l := range ls {
			s.add(step{Op: "seen", Label: l})
			s.add(step{Op: "self", Label: l})
			s.add(step{Op: "await", Label: l, Must: true})
		}
		s.add(step{Op: "barrier"})
	} else if r.Intn(4) == 0 {
		// re-synchronise while in the room
		s.shape = append(s.shape, 'r')
		if in := s.joinPhaseRejoin(); !in {
			// a failed or cancelled rejoin does not take us out of the room
		}
		if r.Intn(2) == 0 {
			s.add(step{Op: "barrier"})
		}
	}
	switch v := r.Intn(12); {
	case v < 4: // leave, the room confirms
		s.shape = append(s.shape, 'L')
		l := s.launch("leave")
		s.add(step{Op: "seen", Label: l})
		s.add(step{Op: "unavail"})
		s.add(step{Op: "await", Label: l, Must: true})
		s.late(l, "error")
		return false
	case v < 5: // leave, the room answers with an error
		s.shape = append(s.shape, 'l')
		l := s.launch("leave")
		s.add(step{Op: "seen", Label: l})
		s.add(step{Op: "error", Label: l, Cond: roomErrors[r.Intn(len(roomErrors))][1]})
		s.add(step{Op: "await", Label: l, Must: true})
		return true
	case v < 7: // leave refused while the caller gives up
		s.shape = append(s.shape, 'y')
		l := s.launch("leave")
		s.add(step{Op: "seen", Label: l})
		s.add(step{Op: "error", Label: l, Cond: roomErrors[r.Intn(len(roomErrors))][1]})
		s.add(step{Op: "cancel", Label: l})
		s.add(step{Op: "await", Label: l, Must: true})
		s.add(step{Op: "barrier"})
		return true
	case v < 8: // leave, given up
		s.shape = append(s.shape, 'c')
		l := s.launch("leave")
		if r.Intn(2) == 0 {
			s.add(step{Op: "seen", Label: l})
		}
		s.add(step{Op: "cancel", Label: l})
		s.add(step{Op: "await", Label: l, Must: true})
		return true
	case v < 10: // kicked
		s.shape = append(s.shape, 'K')
		s.add(step{Op: "kick"})
		return false
	}
	s.shape = append(s.shape, 'S')
	return true
}

// joinPhaseRejoin is a Channel.Join on the existing channel.
func (s *story) joinPhaseRejoin() bool { return s.joinPhase("rejoin") }

func genStory(r *rand.Rand, room int) *story {
	s := &story{r: r, room: room}
	episodes := 1 + r.Intn(2)
	for e := 0; e < episodes; e++ {
		in := s.joinPhase("join")
		s.hasCh = true
		if in && r.Intn(4) == 0 {
			// Client.Join again (and again) for the occupant that is in the room:
			// every call returns its own Channel value for the same address.  Then
			// the occupant goes out and another join is refused or abandoned: all
			// the channels ever returned must report not joined.
			s.shape = append(s.shape, 'D')
			for k := 0; k <= r.Intn(2); k++ {
				l := s.launch("join")
				s.add(step{Op: "seen", Label: l})
				s.add(step{Op: "self"})
				s.add(step{Op: "await", Label: l, Must: true})
				if r.Intn(2) == 0 {
					s.add(step{Op: "barrier"})
				}
			}
			if r.Intn(2) == 0 {
				l := s.launch("leave")
				s.add(step{Op: "seen", Label: l})
				s.add(step{Op: "unavail"})
				s.add(step{Op: "await", Label: l, Must: true})
			} else {
				s.add(step{Op: "kick"})
			}
			s.add(step{Op: "barrier"})
			l := s.launch("join")
			s.add(step{Op: "seen", Label: l})
			if r.Intn(2) == 0 {
				s.add(step{Op: "barrier"}) // sampled while the new join is merely requested
			}
			if r.Intn(2) == 0 {
				s.add(step{Op: "error", Label: l, Cond: roomErrors[r.Intn(len(roomErrors))][1]})
			} else {
				s.add(step{Op: "cancel", Label: l})
			}
			s.add(step{Op: "await", Label: l, Must: true})
			s.add(step{Op: "barrier"})
			in = false
		}
		if in {
			// round runs one round of what occupants do; a re-synchronisation inside
			// it may have ended with the room removing the occupant, after which a
			// Channel.Join is not expected to work any more (see 'o' below)
			round := func() bool {
				from := len(s.steps)
				still := s.inRoom()
				for _, st := range s.steps[from:] {
					if st.Op == "kick" {
						return false
					}
				}
				return still
			}
			in = round()
			// an occupant that is still in the room (the leave was refused or given
			// up, or nothing was tried) goes on, e.g. with a second Leave, which the
			// room confirms this time
			for k := r.Intn(3); in && k > 0; k-- {
				s.shape = append(s.shape, '+')
				s.add(step{Op: "barrier"})
				in = round()
			}
		}
		s.add(step{Op: "barrier"})
		if !in && r.Intn(5) == 0 {
			// Channel.Join after having left: the caller gives up after a while
			s.shape = append(s.shape, 'o')
			l := s.launch("rejoin")
			s.add(step{Op: "seen", Label: l})
			if r.Intn(2) == 0 {
				s.add(step{Op: "self"})
				s.add(step{Op: "barrier"})
			}
			s.add(step{Op: "cancel", Label: l})
			s.add(step{Op: "await", Label: l, Must: true})
			s.add(step{Op: "kick"})
			s.add(step{Op: "barrier"})
		}
		if in {
			break // still in the room: a second Client.Join for the same address is not generated
		}
	}
	return s
}

var roomNames = []string{"coven@chat.example.net/thirdwitch", "darkcave@chat.example.net/me", "heath@conf.example.org/Hecate"}

func genCase(r *rand.Rand) *muCase {
	mc := &muCase{Kind: "sequence"}
	nrooms := 1 + r.Intn(3)
	if r.Intn(3) == 0 {
		nrooms = 1
	}
	var stories []*story
	for i := 0; i < nrooms; i++ {
		mc.Rooms = append(mc.Rooms, roomNames[i])
		stories = append(stories, genStory(r, i+1))
	}
	// interleave the stories, keeping each one's order
	idx := make([]int, nrooms)
	left := 0
	for _, s := range stories {
		left += len(s.steps)
	}
	inv := 0
	noise := func() {
		switch r.Intn(6) {
		case 0, 1:
			inv++
			iv := &inviteSpec{Marker: fmt.Sprintf("inv%d-%d", inv, r.Intn(100000)), ToForm: r.Intn(2) == 0, Typed: r.Intn(2) == 0,
				Before: r.Intn(3), After: r.Intn(3), Continue: r.Intn(3) == 0}
			iv.Room = []string{"coven@chat.example.net", "elsewhere@chat.example.net", "darkcave@chat.example.net"}[r.Intn(3)]
			if r.Intn(2) == 0 {
				iv.Password = "cauldronburn"
			}
			if iv.Continue && r.Intn(2) == 0 {
				iv.Thread = "e0ffe42b"
			}
			if r.Intn(5) == 0 {
				iv.Bare, iv.Password, iv.Continue, iv.Thread, iv.ToForm = true, "", false, "", false
			}
			mc.Steps = append(mc.Steps, step{Op: "invite", Inv: iv})
		case 2:
			if r.Intn(2) == 0 {
				// an undecodable muc#user payload from a room nobody joined; the
				// barrier behind it shows whether the session survived
				mc.Steps = append(mc.Steps, step{Op: "foreign-malformed", N: r.Intn(2 * len(malformedPayloads))}, step{Op: "barrier"})
				break
			}
			st := step{Op: "foreign"}
			dress(r, &st)
			mc.Steps = append(mc.Steps, st)
		case 3:
			st := step{Op: "foreign-unavailable"}
			dress(r, &st)
			mc.Steps = append(mc.Steps, st)
		case 4:
			mc.Steps = append(mc.Steps, step{Op: "unrelated", N: r.Intn(len(unrelated))})
		default:
			mc.Steps = append(mc.Steps, step{Op: "barrier"})
		}
	}
	for left > 0 {
		if r.Intn(5) == 0 {
			noise()
		}
		k := r.Intn(nrooms)
		for idx[k] >= len(stories[k].steps) {
			k = (k + 1) % nrooms
		}
		mc.Steps = append(mc.Steps, stories[k].steps[idx[k]])
		idx[k]++
		left--
	}
	mc.Steps = append(mc.Steps, step{Op: "barrier"})
	for _, s := range stories {
		mc.shape += string(s.shape) + "/"
	}
	if inv > 0 {
		mc.shape += "i"
	}
	return mc
}
