package c18

import (
	"context"
	"errors"
	"fmt"
	"strings"
	"sync"
	"sync/atomic"
	"time"

	"mellium.im/xmpp/muc"
	"mellium.im/xmpp/mux"
	"mellium.im/xmpp/ping"
	"mellium.im/xmpp/stanza"

	"mellium.im/xmpp/verifharness/sess"
	"mellium.im/xmpp/verifharness/xmltree"
)

const (
	libAddr   = "me@example.net/lib"
	nsMUC     = "http://jabber.org/protocol/muc"
	nsMUCUser = "http://jabber.org/protocol/muc#user"
	nsStanzas = "urn:ietf:params:xml:ns:xmpp-stanzas"
)

// ---------------------------------------------------------------------------
// event log (DESIGN.md appendix A, MUC log): one logical clock for everything

type event struct {
	T    int64  `json:"t"`
	Ev   string `json:"ev"`             // call | ret | cancel | presence | invite | barrier | barrier-done | cb | joined? | seen
	Op   string `json:"op,omitempty"`   // join | rejoin | leave
	Call int    `json:"call,omitempty"` // call number (1-based)
	Addr string `json:"addr,omitempty"` // occupant address room@service/nick
	Ctx  int    `json:"ctx,omitempty"`
	Err  string `json:"err,omitempty"`  // nil | stanza | ctx | other
	Cond string `json:"cond,omitempty"` // stanza error condition
	Typ  string `json:"typ,omitempty"`  // available | unavailable | error
	ID   string `json:"id,omitempty"`
	Self bool   `json:"self,omitempty"`
	M    string `json:"m,omitempty"` // invitation marker
	K    int    `json:"k,omitempty"` // barrier number
	Val  string `json:"val,omitempty"`
	Text string `json:"text,omitempty"`
}

type evlog struct {
	clock atomic.Int64
	mu    sync.Mutex
	evs   []event
}

func (l *evlog) add(e event) int64 {
	l.mu.Lock()
	e.T = l.clock.Add(1)
	l.evs = append(l.evs, e)
	l.mu.Unlock()
	return e.T
}

func (l *evlog) snapshot() []event {
	l.mu.Lock()
	defer l.mu.Unlock()
	return append([]event(nil), l.evs...)
}

// ---------------------------------------------------------------------------
// the served session and the scripted room service

type request struct {
	ID   string
	Typ  string // "" (join) | unavailable (leave)
	Addr string // the to attribute: where the request was actually sent
	El   *xmltree.Node
}

type world struct {
	p      *sess.Pair
	client *muc.Client
	log    *evlog
	served chan struct{}
	srvErr error
	loop   *sess.PeerLoop
	// extraX decides, presence by presence, whether another <x/> follows the
	// muc#user one (nil: never)
	extraX func() bool
	// noInviteCB: the client has no HandleInvite callback
	noInviteCB bool
	// known: the channels the application holds; its invitation callback asks
	// each of them whether it is joined (an application deciding what to do
	// with an invitation).  The answers are not judged here, the callback has
	// to come back.
	knownMu sync.Mutex
	known   []*muc.Channel
	asked   atomic.Int64

	mu        sync.Mutex
	queue     []*xmltree.Node
	notify    chan struct{}
	reqNotify chan struct{}
	backlog   []*xmltree.Node
	reqs      map[string]request // requests seen by the room, by stanza id
	nextID    int
}

func newWorld() (*world, error) { return newWorldOpt(false) }

// newWorldOpt: noInviteCB leaves Client.HandleInvite unset (the callback is
// optional: invitations are then dropped).
func newWorldOpt(noInviteCB bool) (*world, error) {
	p, err := sess.NewPair(sess.Opts{Local: libAddr, Remote: "example.net"})
	if err != nil {
		return nil, err
	}
	w := &world{p: p, log: &evlog{}, served: make(chan struct{}), notify: make(chan struct{}, 1), reqNotify: make(chan struct{}, 1), reqs: map[string]request{}}
	w.client = &muc.Client{
		HandleInvite: func(i muc.Invitation) {
			w.log.add(event{Ev: "cb", Op: "invite", M: i.Reason, Text: fmt.Sprintf("jid=%s password=%q continue=%v thread=%q", i.JID, i.Password, i.Continue, i.Thread)})
			w.knownMu.Lock()
			known := append([]*muc.Channel{}, w.known...)
			w.knownMu.Unlock()
			for _, ch := range known {
				ch.Joined()
				w.asked.Add(1)
			}
		},
		HandleUserPresence: func(p stanza.Presence, it muc.Item) {
			w.log.add(event{Ev: "cb", Op: "userpresence", Addr: p.From.String(), Typ: string(p.Type)})
		},
	}
	if noInviteCB {
		w.client.HandleInvite = nil
		w.noInviteCB = true
	}
	m := mux.New(stanza.NSClient, muc.HandleClient(w.client), ping.Handle())
	go func() {
		w.srvErr = p.S.Serve(m)
		close(w.served)
	}()
	w.loop = sess.RunPeerLoop(p.Peer, func(n *xmltree.Node) {
		w.mu.Lock()
		if n.Name.Local == "presence" && n.Attr("to") != "" && n.Attr("type") != "error" {
			r := request{ID: n.Attr("id"), Typ: n.Attr("type"), Addr: n.Attr("to"), El: n}
			w.reqs[r.ID] = r
			w.mu.Unlock()
			w.log.add(event{Ev: "seen", Addr: r.Addr, ID: r.ID, Typ: r.Typ})
			select {
			case w.reqNotify <- struct{}{}:
			default:
			}
			w.mu.Lock()
		}
		w.queue = append(w.queue, n)
		w.mu.Unlock()
		select {
		case w.notify <- struct{}{}:
		default:
		}
	})
	return w, nil
}

func (w *world) shutdown() {
	done := make(chan struct{})
	go func() { w.p.S.Close(); close(done) }()
	select {
	case <-done:
	case <-time.After(2 * time.Second):
	}
	w.p.ClosePeer()
	select {
	case <-w.served:
	case <-time.After(2 * time.Second):
	}
	w.p.Lib.Close()
	w.p.Peer.Close()
}

func (w *world) send(s string) { w.p.Send(s) }

// expect returns the first element from the library satisfying pred.
func (w *world) expect(pred func(*xmltree.Node) bool, d time.Duration) *xmltree.Node {
	for i, n := range w.backlog {
		if pred(n) {
			w.backlog = append(w.backlog[:i:i], w.backlog[i+1:]...)
			return n
		}
	}
	dl := time.After(d)
	for {
		w.mu.Lock()
		q := w.queue
		w.queue = nil
		w.mu.Unlock()
		for i, n := range q {
			if pred(n) {
				w.backlog = append(w.backlog, q[i+1:]...)
				return n
			}
			w.backlog = append(w.backlog, n)
		}
		// the backlog is only searched for replies: keep it short
		if len(w.backlog) > 256 {
			w.backlog = w.backlog[len(w.backlog)-256:]
		}
		select {
		case <-w.notify:
		case <-w.loop.Done():
			w.mu.Lock()
			left := len(w.queue)
			w.mu.Unlock()
			if left == 0 {
				return nil
			}
		case <-dl:
			return nil
		}
	}
}

// requestSeen waits until the room has seen the request with the given id.
func (w *world) requestSeen(id string, d time.Duration) (request, bool) {
	dl := time.After(d)
	for {
		w.mu.Lock()
		r, ok := w.reqs[id]
		w.mu.Unlock()
		if ok {
			return r, true
		}
		select {
		case <-w.reqNotify:
		case <-w.loop.Done():
			w.mu.Lock()
			r, ok := w.reqs[id]
			w.mu.Unlock()
			return r, ok
		case <-dl:
			return request{}, false
		}
	}
}

// barrier: a ping from the peer answered by the session.  Everything the peer
// sent before it has then been processed by the serve loop.  barrierSend
// writes the ping, barrierWait waits for the answer.
func (w *world) barrierSend(k int) string {
	w.nextID++
	id := fmt.Sprintf("bar%d", w.nextID)
	w.log.add(event{Ev: "barrier", K: k})
	w.send(fmt.Sprintf(`<iq type='get' id='%s' from='example.net' to='%s'><ping xmlns='urn:xmpp:ping'/></iq>`, id, libAddr))
	return id
}

func (w *world) barrierWait(k int, id string, d time.Duration) bool {
	rep := w.expect(func(n *xmltree.Node) bool { return n.Name.Local == "iq" && n.Attr("id") == id }, d)
	if rep == nil {
		return false
	}
	w.log.add(event{Ev: "barrier-done", K: k})
	return true
}

// ---- what the room sends

func (w *world) presence(addr, typ, id string, self bool, status ...int) {
	w.presenceItem(addr, typ, id, self, "", "", status...)
}

// presenceItem is presence with the <item/> attributes chosen by the caller
// ("" = member / participant, or role none on departures).
func (w *world) presenceItem(addr, typ, id string, self bool, aff, role string, status ...int) {
	var sb strings.Builder
	sb.WriteString("<presence from='" + addr + "' to='" + libAddr + "'")
	if typ == "unavailable" {
		sb.WriteString(" type='unavailable'")
	}
	if id != "" {
		sb.WriteString(" id='" + id + "'")
	}
	if role == "" {
		role = "participant"
		if typ == "unavailable" {
			role = "none"
		}
	}
	if aff == "" {
		aff = "member"
	}
	sb.WriteString("><x xmlns='" + nsMUCUser + "'><item affiliation='" + aff + "' role='" + role + "'/>")
	for _, s := range status {
		fmt.Fprintf(&sb, "<status code='%d'/>", s)
	}
	sb.WriteString("</x>")
	if w.extraX != nil && w.extraX() {
		// what clients add to their presence and rooms pass on: another element
		// called x, in another namespace, after the muc#user one
		sb.WriteString("<x xmlns='vcard-temp:x:update'><photo>sha1-hash-of-image</photo></x>")
	}
	sb.WriteString("</presence>")
	t := "available"
	if typ == "unavailable" {
		t = "unavailable"
	}
	w.log.add(event{Ev: "presence", Addr: addr, Typ: t, ID: id, Self: self})
	w.send(sb.String())
}

// malformedPayloads are muc#user payloads that are well-formed XML but not
// what the typed decoder of the package expects: unknown affiliation / role
// values, non-numeric status codes, wrong nesting, character data.
var malformedPayloads = []string{
	"<item affiliation='superuser' role='participant'/>",
	"<item affiliation='member' role='ghost'/>",
	"<item affiliation='member' role='participant'/><status code='x110'/>",
	"<status code=''/>",
	"<status code='99999999999999999999'/>",
	"<item><item affiliation='owner' role='moderator'/></item><status><status code='110'/></status>",
	"some text<item affiliation='member' role='none'>more text</item>",
	"<item affiliation='' role='' jid='not a jid@@'/>",
}

// foreignMalformed sends a presence with such a payload from an address that
// is not ours (another occupant, or a room nobody asked to join).
func (w *world) foreignMalformed(addr, typ string, variant int) {
	t := ""
	if typ == "unavailable" {
		t = " type='unavailable'"
	}
	w.log.add(event{Ev: "presence", Addr: addr, Typ: map[string]string{"": "available", "unavailable": "unavailable"}[typ], Text: "malformed"})
	w.send("<presence from='" + addr + "' to='" + libAddr + "'" + t + "><x xmlns='" + nsMUCUser + "'>" + malformedPayloads[variant%len(malformedPayloads)] + "</x></presence>")
}

// errorPieces returns the room's error presence for a request in two parts:
// the start tag, and everything after it.
func errorPieces(addr, id, etype, cond string) (string, string) {
	return fmt.Sprintf(`<presence from='%s' to='%s' id='%s' type='error'>`, addr, libAddr, id),
		fmt.Sprintf(`<x xmlns='%s'/><error type='%s' by='%s'><%s xmlns='%s'/></error></presence>`, nsMUC, etype, strings.SplitN(addr, "/", 2)[0], cond, nsStanzas)
}

func (w *world) errorPresence(addr, id, etype, cond string) {
	w.log.add(event{Ev: "presence", Addr: addr, Typ: "error", ID: id, Cond: cond, Self: true})
	switch cond {
	case "!no-error-element": // only the echoed request
		w.send(fmt.Sprintf(`<presence from='%s' to='%s' id='%s' type='error'><x xmlns='%s'/></presence>`, addr, libAddr, id, nsMUC))
		return
	case "!empty-error-element":
		w.send(fmt.Sprintf(`<presence from='%s' to='%s' id='%s' type='error'><x xmlns='%s'/><error/></presence>`, addr, libAddr, id, nsMUC))
		return
	case "!undecodable-by":
		w.send(fmt.Sprintf(`<presence from='%s' to='%s' id='%s' type='error'><x xmlns='%s'/><error type='cancel' by='@@'><conflict xmlns='%s'/></error></presence>`, addr, libAddr, id, nsMUC, nsStanzas))
		return
	}
	w.send(fmt.Sprintf(`<presence from='%s' to='%s' id='%s' type='error'><x xmlns='%s'/><error type='%s' by='%s'><%s xmlns='%s'/></error></presence>`,
		addr, libAddr, id, nsMUC, etype, strings.SplitN(addr, "/", 2)[0], cond, nsStanzas))
}

type inviteSpec struct {
	Marker   string `json:"marker"`
	Room     string `json:"room"`
	ToForm   bool   `json:"invite_to_attr"` // <invite to=…/> (the form the library itself emits) instead of from=…
	Password string `json:"password,omitempty"`
	Thread   string `json:"thread,omitempty"`
	Continue bool   `json:"continue,omitempty"`
	Typed    bool   `json:"type_normal_attr,omitempty"`
	Before   int    `json:"children_before"`
	After    int    `json:"children_after"`
	// Bare: the invitation names its inviter and nothing else (no reason, no
	// password, no continue): <invite from='…'/>.  It cannot carry a marker, so
	// bare invitations are counted.
	Bare bool `json:"bare,omitempty"`
}

var noiseChildren = []string{
	"<body>You have been invited</body>",
	"<x xmlns='jabber:x:conference' jid='darkcave@chat.example.net'/>",
	"<delay xmlns='urn:xmpp:delay' stamp='2002-10-13T23:58:37Z'/>",
	"<thread>e0ffe42b28561960c6b12b944a092794b9683a38</thread>",
	"<subject>invitation</subject>",
}

func (w *world) invite(iv inviteSpec) {
	var sb strings.Builder
	sb.WriteString("<message from='" + iv.Room + "' to='" + libAddr + "' id='inv-" + iv.Marker + "'")
	if iv.Typed {
		sb.WriteString(" type='normal'")
	}
	sb.WriteString(">")
	for i := 0; i < iv.Before; i++ {
		sb.WriteString(noiseChildren[i%len(noiseChildren)])
	}
	if iv.Bare {
		sb.WriteString("<x xmlns='" + nsMUCUser + "'><invite from='crone1@example.net/desktop'/></x>")
		for i := 0; i < iv.After; i++ {
			sb.WriteString(noiseChildren[(i+2)%len(noiseChildren)])
		}
		sb.WriteString("</message>")
		w.log.add(event{Ev: "invite", M: iv.Marker})
		w.send(sb.String())
		return
	}
	sb.WriteString("<x xmlns='" + nsMUCUser + "'><invite ")
	if iv.ToForm {
		sb.WriteString("to='hecate@example.net'>")
	} else {
		sb.WriteString("from='crone1@example.net/desktop'>")
	}
	sb.WriteString("<reason>" + iv.Marker + "</reason>")
	if iv.Continue {
		if iv.Thread != "" {
			sb.WriteString("<continue thread='" + iv.Thread + "'/>")
		} else {
			sb.WriteString("<continue/>")
		}
	}
	sb.WriteString("</invite>")
	if iv.Password != "" {
		sb.WriteString("<password>" + iv.Password + "</password>")
	}
	sb.WriteString("</x>")
	for i := 0; i < iv.After; i++ {
		sb.WriteString(noiseChildren[(i+2)%len(noiseChildren)])
	}
	sb.WriteString("</message>")
	w.log.add(event{Ev: "invite", M: iv.Marker})
	w.send(sb.String())
}

func (iv inviteSpec) wantText() string {
	jid := ""
	if iv.ToForm {
		jid = "hecate@example.net"
	}
	th := ""
	if iv.Continue {
		th = iv.Thread
	}
	return fmt.Sprintf("jid=%s password=%q continue=%v thread=%q", jid, iv.Password, iv.Continue, th)
}

var unrelated = []string{
	"<message from='friend@example.net/x' to='" + libAddr + "' type='chat'><body>hello</body></message>",
	"<presence from='friend@example.net/x' to='" + libAddr + "'/>",
	"<presence from='friend@example.net/x' to='" + libAddr + "'><show>away</show></presence>",
	"<iq type='get' id='v1' from='example.net' to='" + libAddr + "'><query xmlns='jabber:iq:version'/></iq>",
	"<message from='coven@chat.example.net/thirdwitch' to='" + libAddr + "' type='groupchat'><body>Harpier cries</body></message>",
	"<message from='coven@chat.example.net' to='" + libAddr + "'><x xmlns='" + nsMUCUser + "'><status code='104'/></x></message>",
}

// ---------------------------------------------------------------------------
// calls

type call struct {
	n        int
	op       string
	addr     string
	ctxN     int
	cancel   context.CancelFunc
	done     chan struct{}
	err      error
	ch       *muc.Channel // the channel the call ran on / returned
	gid      string       // goroutine running the call
	reqID    string       // id given to the call's presence: identifies its request at the room
	opts     *joinOpts
	checked  bool
	answered bool // the room has sent the self-presence for this call's request
	// joinedAtRet (forced scenario M10): what Joined() said on the call's own
	// goroutine right after the call had returned nil
	joinedAtRet *bool
}

func classifyErr(err error) (class, cond string) {
	var se stanza.Error
	switch {
	case err == nil:
		return "nil", ""
	case errors.As(err, &se):
		return "stanza", string(se.Condition)
	case errors.Is(err, context.Canceled), errors.Is(err, context.DeadlineExceeded):
		return "ctx", ""
	}
	return "other", ""
}
