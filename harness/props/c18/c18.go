// Package c18 monitors the MUC client (mellium.im/xmpp/muc): a served session
// with muc.HandleClient talks to a scripted room service; a model of one
// occupant (out → in → out) evaluated over the event log decides the results of
// Join/Leave, Channel.Joined() at synchronisation barriers, foreign presence
// and invitation delivery; forced interleavings at the muc.* yield points
// decide lost wake-ups with the stall rule.
package c18

import (
	"os"

	"mellium.im/xmpp/verifharness/core"
)

func run(c *core.Case) {
	if w := os.Getenv("C18_WITNESS"); w != "" {
		// debugging aid: run a pinned witness as the case
		if f := witnesses()[w]; f != nil {
			f(c)
		}
		return
	}
	if c.Index%8 == 7 {
		runForced(c)
		return
	}
	runCase(c)
}

func witnesses() map[string]func(*core.Case) {
	forced := func(sc string) func(*core.Case) {
		return func(c *core.Case) {
			fc := &forcedCase{Kind: "forced", Scenario: sc}
			c.Sample(fc)
			execForced(c, fc)
		}
	}
	seq := func(steps ...step) func(*core.Case) {
		return func(c *core.Case) {
			mc := &muCase{Kind: "sequence", Rooms: []string{roomNames[0]}, shape: "witness"}
			for _, st := range steps {
				if st.Op != "invite" && st.Op != "barrier" && st.Op != "foreign" && st.Op != "unrelated" {
					st.Room = 1
				}
				mc.Steps = append(mc.Steps, st)
			}
			c.Sample(mc)
			execCase(c, mc)
		}
	}
	return map[string]func(*core.Case){
		// join, the room confirms, a barrier: Joined() must be true
		"muc:joined:false-while-in": seq(step{Op: "join", Label: "j"}, step{Op: "seen", Label: "j"}, step{Op: "self"}, step{Op: "await", Label: "j", Must: true}, step{Op: "barrier"}),
		// M1: the unavailable presence is processed between Leave's request and its wait
		"stall:muc.(*Channel).LeavePresence:select": forced("M1"),
	}
}

// Prop returns the C18 check.
func Prop() *core.Prop {
	return &core.Prop{
		ID:    "C18",
		Level: core.Exploration,
		Race:  true,
		Rule: "case i: (7/8) a PRNG sequence over 1-3 rooms: per occupant 1-2 episodes of Client.Join (answered by the self-presence, an unsolicited early self-presence, an error for the request id, a cancellation, a cancellation racing the self-presence, error and self-presence both), time in the room (other occupants, repeated self-presence, Channel.Join re-sync) and going out (Leave confirmed / refused / cancelled, kick, kick right behind the self-presence, Channel.Join after leaving), stories interleaved with each other and with mediated invitations (unique reasons, 0-2 other children on either side, with and without type attribute), presence for a never-joined room, unrelated stanzas and barriers (peer ping answered by the session; Channel.Joined() sampled for every occupant without a call in flight); (1/8) forced scenarios M1-M3 at muc.leave.wait / muc.join.wait / muc.depart.notify, and M4/M5: 16 times per case the caller of Join (Leave) is held at muc.join.wait (muc.leave.wait) until the room's error reply for its request has been taken in by the library, then released; its context is never cancelled, so only the room's stanza error is legal; M6/M7: the room's error reply (self-presence) for a join arrives in two transport writes with the caller's cancellation in between, and the barrier behind it must be answered; M8 is M6 for Leave. Presences with undecodable muc#user payloads (unknown affiliation/role, non-numeric status code, wrong nesting, text) from a never-joined room or another occupant are mixed in, each followed by a barrier: the session must survive them. " +
			"Oracle over the event log: Join=nil needs an own self-presence sent before the return and not processed before the call; a stanza error needs the room's error for that request id; any other error needs a cancelled context; Joined() at a barrier equals the occupant model when the log determines it; Leave likewise; no user-presence callback for rooms never joined; every invitation marker delivered exactly once with equal fields; calls whose answer was processed but that stay parked are decided by the stall rule. distinct = (story shapes, outcome vector).",
		Assumptions: []string{
			"the serve loop handles stanzas in order, so a ping answered by the session means everything sent before it was processed",
			"Joined() is asked of every channel value a Client.Join ever returned for the address; the latest one, with no call on the address in flight, is judged in both directions, replaced ones only once the model says the occupant is out (then they must all say so, also while a fresh Client.Join is merely pending); samples the log does not determine are skipped, as are all samples of an occupant whose join request the library sent to another nick",
			"the room answers a join at the address the request was actually sent to",
			"a Leave that returns nil is justified by any unavailable self-presence sent before it returned",
		},
		Cases: func(tier string) int {
			if tier == "thorough" {
				return 60000
			}
			return 960
		},
		Run:           run,
		ReplayRepeats: 20,
		Witnesses:     witnesses(),
		Require: []string{
			"sequences", "join_success", "joined_sampled_while_in", "joined_sampled_while_out", "join_room_error_returned", "join_cancelled",
			"leave_success", "kicks", "foreign_presences", "invites_delivered_once", "membership_questions_asked_from_inside_the_invitation_callback", "barriers",
			"forced_M1_reached", "forced_M2_reached", "forced_M3_reached", "overlapping_rejoin_answers", "calls_with_nick_same", "calls_with_nick_different", "calls_with_password", "calls_with_history_option", "replaced_channels_sampled_while_out",
			"own_removal_301", "own_removal_307", "own_removal_321", "own_removal_322", "own_removal_332", "own_departure_affiliation_outcast", "others_removal_301",
			"forced_M4_reached", "forced_M5_reached", "forced_M6_reached", "forced_M7_reached", "forced_M8_reached", "forced_M9_reached", "forced_M10_reached", "cases_whose_client_has_no_invitation_callback", "late_answers_of_the_other_kind", "stories_error_then_cancel", "foreign_malformed_payloads",
		},
	}
}
