package c18

import (
	"bytes"
	"context"
	"fmt"
	"runtime"
	"sort"
	"strings"
	"time"

	"mellium.im/xmpp/jid"
	"mellium.im/xmpp/muc"
	"mellium.im/xmpp/stanza"

	"mellium.im/xmpp/verifharness/core"
	"mellium.im/xmpp/verifharness/stall"
)

const (
	grace     = 1 * time.Second  // before the stall rule is consulted
	hardLimit = 20 * time.Second // beyond this a wait is undecided
)

func isMucWait(fn string) bool {
	return strings.HasPrefix(fn, "muc.(*Channel).JoinPresence") || strings.HasPrefix(fn, "muc.(*Channel).LeavePresence")
}

// driver executes a case and records the event log.
type driver struct {
	c     *core.Case
	w     *world
	mc    *muCase
	base  map[string]stall.Parked
	calls map[string]*call
	order []*call
	// latest channel per occupant address whose Client.Join has returned
	chans map[string]*muc.Channel
	// every channel a Client.Join has ever returned for the address, in order
	allChans map[string][]*muc.Channel
	// occ: the address under which the room currently knows the occupant (the
	// to address of the join request it last admitted)
	occ     map[string]string
	pending map[string]int // calls in flight per address
	nbar    int
	nctx    int
	invites []*inviteSpec
	aborted bool
	dead    bool // the session ended under the script: nothing more can be judged
	// malformedSent counts foreign presences with undecodable payloads,
	// malformedPending those after which no barrier has been answered yet
	malformedSent    int
	malformedPending int
	// sampleAtReturn (M10): calls ask Joined() on their own goroutine as soon
	// as they have returned nil
	sampleAtReturn bool
}

func (d *driver) addr(room int) string { return d.mc.Rooms[room-1] }

// sessionEnded is called when Serve has returned in the middle of a case.
func (d *driver) sessionEnded() {
	d.dead = true
	err := d.w.srvErr
	if err != nil && strings.Contains(err.Error(), "i/o timeout") {
		// Not this property's business: the session arms a write deadline in
		// the past when a sender's context ends (setWriteDeadline) and a write
		// of the serve loop that happens to be in progress fails with it.  The
		// case cannot be judged; it is counted and reported to the owners of the
		// transmit properties (C05/C10).
		d.c.Count("session_lost_to_cancelled_senders_write_deadline", 1)
		d.c.Notef("Serve returned %v", err)
		return
	}
	if d.malformedPending > 0 {
		// (no barrier has been answered since the last of them was sent)
		// presences for addresses that were never joined are to be ignored,
		// whatever they carry
		d.c.Violate("muc:foreign:malformed-payload-ends-session", "after %d presence(s) with an undecodable muc#user payload from addresses that are not ours (another occupant / a room never joined) the session ended: Serve returned %v", d.malformedPending, err)
		return
	}
	d.c.Violate("muc:session-ended", "the session ended in the middle of the script: Serve returned %v", err)
}

// checkRequest: what went out on the wire for a join.  Without a Nick option
// (or with the nick the address already has) the request goes to the
// channel's address; the options that were given are in it.
func (d *driver) checkRequest(cl *call, rq request) {
	if cl.op == "leave" || cl.checked {
		return
	}
	cl.checked = true
	if (cl.opts == nil || cl.opts.Nick != "different") && rq.Addr != cl.addr {
		d.c.Violate("muc:join:request-address", "%s for %s (options %+v) sent its request to %q", cl.op, cl.addr, cl.opts, rq.Addr)
	}
	if rq.Addr != cl.addr {
		d.c.Count("requests_sent_to_another_nick", 1)
	}
	if cl.opts == nil {
		return
	}
	x := rq.El.Child(nsMUC, "x")
	if x == nil {
		d.c.Violate("muc:join:request-options", "%s request carries no <x xmlns='%s'/>: %v", cl.op, nsMUC, rq.El)
		return
	}
	if cl.opts.Password != "" {
		if pw := x.Child("*", "password"); pw == nil || pw.Text() != cl.opts.Password {
			d.c.Violate("muc:join:request-options", "%s with Password(%q) sent %v", cl.op, cl.opts.Password, rq.El)
		}
	}
	if cl.opts.History != "" {
		attr := map[string]string{"max": "maxstanzas", "bytes": "maxchars", "since": "since", "duration": "seconds"}[cl.opts.History]
		if h := x.Child("*", "history"); h == nil || !h.HasAttr(attr) {
			d.c.Violate("muc:join:request-options", "%s with history option %s sent %v", cl.op, cl.opts.History, rq.El)
		}
	}
}

// options turns a step's description into muc.Option values.
func options(o *joinOpts, addr string) []muc.Option {
	if o == nil {
		return nil
	}
	var out []muc.Option
	switch o.Nick {
	case "same":
		out = append(out, muc.Nick(strings.SplitN(addr, "/", 2)[1]))
	case "different":
		out = append(out, muc.Nick("Hecate-the-second"))
	}
	if o.Password != "" {
		out = append(out, muc.Password(o.Password))
	}
	switch o.History {
	case "max":
		out = append(out, muc.MaxHistory(3))
	case "bytes":
		out = append(out, muc.MaxBytes(1000))
	case "since":
		out = append(out, muc.Since(time.Date(2002, 10, 13, 23, 58, 37, 0, time.UTC)))
	case "duration":
		out = append(out, muc.Duration(3*time.Minute))
	}
	return out
}

func (d *driver) start(st step) {
	addr := d.addr(st.Room)
	d.nctx++
	ctx, cancel := context.WithCancel(context.Background())
	cl := &call{n: len(d.order) + 1, op: st.Op, addr: addr, ctxN: d.nctx, cancel: cancel, done: make(chan struct{}), opts: st.Opts}
	if st.Opts != nil {
		d.c.Count("calls_with_options", 1)
		if st.Opts.Nick != "" {
			d.c.Count("calls_with_nick_"+st.Opts.Nick, 1)
		}
		if st.Opts.History != "" {
			d.c.Count("calls_with_history_option", 1)
		}
		if st.Opts.Password != "" {
			d.c.Count("calls_with_password", 1)
		}
	}
	if st.Op != "join" {
		cl.ch = d.chans[addr]
		if cl.ch == nil {
			// nothing to call it on (the generator only does this after a Client.Join returned)
			cancel()
			close(cl.done)
			d.calls[st.Label] = cl
			return
		}
	}
	d.calls[st.Label] = cl
	d.order = append(d.order, cl)
	d.pending[addr]++
	// every request carries a unique id, so the room (and the oracle) can tell
	// whose it is however late it arrives
	cl.reqID = fmt.Sprintf("call%d", cl.n)
	d.w.log.add(event{Ev: "call", Op: st.Op, Call: cl.n, Addr: addr, Ctx: cl.ctxN})
	gidCh := make(chan string, 1)
	go func() {
		defer close(cl.done)
		gidCh <- goroutineID()
		d.c.Guard("muc."+st.Op, func() {
			switch st.Op {
			case "join":
				cl.ch, cl.err = d.w.client.JoinPresence(ctx, stanza.Presence{To: jid.MustParse(addr), ID: cl.reqID}, d.w.p.S, options(st.Opts, addr)...)
			case "rejoin":
				cl.err = cl.ch.JoinPresence(ctx, stanza.Presence{ID: cl.reqID}, options(st.Opts, addr)...)
			case "leave":
				cl.err = cl.ch.LeavePresence(ctx, "", stanza.Presence{ID: cl.reqID})
			}
		})
		if d.sampleAtReturn && cl.err == nil && cl.ch != nil {
			j := cl.ch.Joined()
			cl.joinedAtRet = &j
		}
		class, cond := classifyErr(cl.err)
		text := ""
		if cl.err != nil {
			text = cl.err.Error()
		}
		d.w.log.add(event{Ev: "ret", Op: st.Op, Call: cl.n, Addr: addr, Err: class, Cond: cond, Text: text})
	}()
	cl.gid = <-gidCh
}

func goroutineID() string {
	buf := make([]byte, 64)
	buf = buf[:runtime.Stack(buf, false)]
	f := strings.Fields(string(buf)) // "goroutine 123 [running]:"
	if len(f) >= 2 {
		return f[1]
	}
	return ""
}

// answeredAfterSeen: did the room send an answer to the call (self-presence
// or unavailable presence for its occupant, or an error for its id) after it
// had seen the call's request?
func (d *driver) answeredAfterSeen(cl *call) bool {
	var tSeen int64
	rq, ok := d.w.requestSeen(cl.reqID, 0)
	if !ok {
		return false
	}
	for _, e := range d.w.log.snapshot() {
		switch {
		case e.Ev == "seen" && e.ID == cl.reqID:
			tSeen = e.T
		case e.Ev == "presence" && tSeen != 0 && e.T > tSeen:
			if e.Typ == "error" && e.ID == cl.reqID {
				return true
			}
			want := "available"
			if cl.op == "leave" {
				want = "unavailable"
			}
			if e.Self && e.Typ == want && (e.Addr == cl.addr || e.Addr == rq.Addr) {
				return true
			}
		}
	}
	return false
}

// parkedCall returns the stack of cl's goroutine if it is parked in the
// library's Join/Leave wait (three samples when confirm is set).
func (d *driver) parkedCall(cl *call, confirm bool) *stall.Parked {
	var found map[string]stall.Parked
	if confirm {
		found = map[string]stall.Parked{}
		for _, p := range stall.Check(isMucWait, 0) {
			found[p.ID] = p
		}
	} else {
		found = stall.Snapshot(isMucWait)
	}
	if p, ok := found[cl.gid]; ok {
		return &p
	}
	return nil
}

// finish books a returned call.
func (d *driver) finish(cl *call) {
	if cl.n <= 0 {
		return // a dummy, or booked already
	}
	d.pending[cl.addr]--
	if cl.op == "join" && cl.ch != nil {
		d.chans[cl.addr] = cl.ch
		d.allChans[cl.addr] = append(d.allChans[cl.addr], cl.ch)
		d.w.knownMu.Lock()
		d.w.known = append(d.w.known, cl.ch)
		d.w.knownMu.Unlock()
		if cl.err == nil {
			// the occupant is in under the address the request went to
			want := cl.addr
			if rq, ok := d.w.requestSeen(cl.reqID, 0); ok {
				want = rq.Addr
			}
			me, bare := cl.ch.Me().String(), cl.ch.Addr().String()
			if me != want || bare != strings.SplitN(cl.addr, "/", 2)[0] {
				d.c.Violate("muc:join:channel-address", "Join(%s) succeeded (request sent to %s); Channel.Me()=%q Addr()=%q", cl.addr, want, me, bare)
			}
		}
	}
	cl.n = -cl.n // booked
}

func (d *driver) await(st step) {
	cl := d.calls[st.Label]
	if cl == nil {
		return
	}
	select {
	case <-cl.done:
		d.finish(cl)
		return
	case <-time.After(grace):
	}
	// Not back yet.  Make sure the serve loop has processed everything the room
	// sent, then ask the stall rule whether the call is parked for good.
	if !d.barrier() {
		return
	}
	select {
	case <-cl.done:
		d.finish(cl)
		return
	default:
	}
	if pk := d.parkedCall(cl, true); pk != nil && st.Must && !d.answeredAfterSeen(cl) {
		// The script's claim does not hold for this run: the library sent the
		// request late (or not at all: an abandoned earlier join can occupy the
		// channel's slot) and the room's answer went out before it.  Nothing is
		// owed to the call; it is let go.
		d.c.Count("awaited_calls_whose_answer_preceded_the_request", 1)
		d.w.log.add(event{Ev: "cancel", Ctx: cl.ctxN})
		cl.cancel()
		select {
		case <-cl.done:
		case <-time.After(hardLimit):
		}
		d.finish(cl)
		return
	}
	if pk := d.parkedCall(cl, true); pk != nil && st.Must {
		what := "the room's answer was sent after it had seen the request and has been processed by the serve loop"
		d.c.Violate(stall.Key(*pk), "%s(%s) does not return although %s; its context is never cancelled:\n%s", cl.op, cl.addr, what, pk.Stack)
		d.c.Count("stalled_calls", 1)
		d.w.log.add(event{Ev: "cancel", Ctx: cl.ctxN})
		cl.cancel() // let it go so that the case can finish
		select {
		case <-cl.done:
		case <-time.After(hardLimit):
		}
		d.finish(cl)
		return
	}
	select {
	case <-cl.done:
		d.finish(cl)
	case <-time.After(hardLimit):
		d.c.Inconclusive("%s(%s) did not return and the stall rule does not apply", cl.op, cl.addr)
		d.aborted = true
	}
}

// mucGoroutineAlive reports whether any goroutine started by the MUC package
// (its request goroutines) exists, running or parked.
func mucGoroutineAlive() bool {
	buf := make([]byte, 8<<20)
	n := runtime.Stack(buf, true)
	return bytes.Contains(buf[:n], []byte("created by mellium.im/xmpp/muc."))
}

func (d *driver) barrier() bool {
	d.nbar++
	id := d.w.barrierSend(d.nbar)
	if !d.w.barrierWait(d.nbar, id, grace) {
		// Is the serve loop parked inside the MUC handler for good?
		for _, p := range stall.Check(func(fn string) bool { return strings.HasPrefix(fn, "muc.") }, 0) {
			// … or is a goroutine of the package parked in a plain channel send
			// (nothing in it is a legitimate place to wait for ever; the selects of
			// pending Join/Leave calls are, and are not looked at here) while the
			// serve loop waits for it to release a response?
			// (the handler may be further up the stack: an application callback
			// it invoked that asks the package something and waits for a lock)
			inHandler := strings.HasPrefix(p.Func, "muc.(*Client).Handle") || strings.Contains(p.Stack, "muc.(*Client).Handle")
			// … or a request goroutine parked in its own hand-over (not in the
			// session's wait for an answer): it has an answer in its hands, keeps
			// the response open, and nobody is going to take it
			handingOver := strings.Contains(p.Func, "Presence.func")
			if _, old := d.base[p.ID]; !old && (inHandler || p.State == "chan send" || handingOver) {
				d.c.Violate(stall.Key(p), "the serve loop no longer answers a ping; a goroutine of the MUC package is parked for good (in the handler, or holding a response the serve loop waits for):\n%s", p.Stack)
				d.aborted = true
				return false
			}
		}
		// … or does the serve loop wait for a response to be closed that nobody
		// holds any more?  Responses to the package's requests are held by its
		// request goroutines; when none of those is alive (before and after three
		// samples that find the serve loop at that wait), nobody can close it.
		answered := false
		if !mucGoroutineAlive() {
			if ps := stall.Check(func(fn string) bool { return fn == "handleInputStream" }, 0); len(ps) > 0 && ps[0].State == "chan receive" && !mucGoroutineAlive() {
				if answered = d.w.barrierWait(d.nbar, id, 0); answered {
					goto done
				}
				d.c.Violate("stall:handleInputStream:response-never-closed", "the serve loop no longer answers a ping: it waits for the response to one of the MUC package's requests to be closed, and no goroutine of the package is left that could close it\n%s", ps[0].Stack)
				d.aborted = true
				return false
			}
		}
		if !d.w.barrierWait(d.nbar, id, hardLimit) {
			select {
			case <-d.w.served:
				d.sessionEnded()
			default:
				d.c.Inconclusive("barrier %d was not answered", d.nbar)
			}
			d.aborted = true
			return false
		}
	}
done:
	d.c.Count("barriers", 1)
	d.malformedPending = 0
	// sample membership of every occupant that has a channel and no call in flight
	var addrs []string
	for a := range d.chans {
		addrs = append(addrs, a)
	}
	sort.Strings(addrs)
	for _, a := range addrs {
		// book calls that have returned meanwhile
		for _, cl := range d.order {
			if cl.n > 0 && cl.addr == a {
				select {
				case <-cl.done:
					d.finish(cl)
				default:
				}
			}
		}
		// Every channel value a Client.Join ever returned for the address is
		// asked.  The latest one, with no call in flight, is judged against the
		// occupant model in both directions; the others (replaced channels, and
		// all of them while a call is in flight) only in one: once the occupant
		// is out they must all say so.
		all := d.allChans[a]
		for i, ch := range all {
			var v bool
			d.c.Guard("muc.Channel.Joined", func() { v = ch.Joined() })
			ev := "joined-old?"
			if i == len(all)-1 && d.pending[a] == 0 {
				ev = "joined?"
			}
			d.w.log.add(event{Ev: ev, Addr: a, K: d.nbar, Val: fmt.Sprint(v), Call: i + 1})
		}
	}
	return true
}

// latestJoinRequest: id and to address of the latest join request the room
// has seen for the occupant (a room echoes the id in the self-presence).
func (d *driver) latestJoinRequest(addr string) (id, to string) {
	for i := len(d.order) - 1; i >= 0; i-- {
		cl := d.order[i]
		if cl.addr == addr && cl.op != "leave" {
			if rq, ok := d.w.requestSeen(cl.reqID, 0); ok {
				return cl.reqID, rq.Addr
			}
		}
	}
	return "", ""
}

// occupant: the address the room uses for our occupant of the room.
func (d *driver) occupant(room int) string {
	if a := d.occ[d.addr(room)]; a != "" {
		return a
	}
	return d.addr(room)
}

func (d *driver) exec(st step) {
	w := d.w
	switch st.Op {
	case "join", "rejoin", "leave":
		d.start(st)
	case "await":
		d.await(st)
	case "cancel":
		if cl := d.calls[st.Label]; cl != nil && cl.n != 0 {
			w.log.add(event{Ev: "cancel", Ctx: cl.ctxN})
			cl.cancel()
		}
	case "seen":
		cl := d.calls[st.Label]
		if cl == nil || cl.reqID == "" {
			break
		}
		if rq, ok := w.requestSeen(cl.reqID, 300*time.Millisecond); ok {
			d.checkRequest(cl, rq)
			break
		}
		// A Channel.Join can block before it sends anything (an abandoned earlier
		// join still occupies the channel's slot).  Nothing in the property says a
		// request must go out, so the script simply goes on; what follows does
		// not depend on the request having been seen.
		if d.parkedCall(cl, false) != nil {
			d.c.Count("requests_not_sent_while_call_parked", 1)
			break
		}
		returned := false
		select {
		case <-cl.done:
			returned = true // e.g. cancelled before it got round to sending
		default:
		}
		if returned {
			if _, ok := w.requestSeen(cl.reqID, 0); !ok {
				d.c.Count("requests_never_sent", 1)
				break
			}
		}
		if _, ok := w.requestSeen(cl.reqID, hardLimit); !ok {
			select {
			case <-w.served:
				d.sessionEnded()
			default:
				d.c.Inconclusive("the room never saw the request of %s(%s)", cl.op, cl.addr)
			}
			d.aborted = true
		}
	case "self":
		if st.Label != "" {
			// the answer to one particular call's request, once, if the room has
			// seen that request
			cl := d.calls[st.Label]
			if cl == nil || cl.answered {
				break
			}
			rq, ok := w.requestSeen(cl.reqID, 0)
			if !ok {
				break
			}
			cl.answered = true
			d.occ[d.addr(st.Room)] = rq.Addr
			w.presenceItem(rq.Addr, "", rq.ID, true, st.Aff, st.Role, codes(st, 110)...)
			d.countItem(st, "")
			d.c.Count("overlapping_rejoin_answers", 1)
			break
		}
		// the room answers at the address the request was actually sent to
		id, to := d.latestJoinRequest(d.addr(st.Room))
		if to == "" {
			to = d.occupant(st.Room)
		}
		d.occ[d.addr(st.Room)] = to
		w.presenceItem(to, "", id, true, st.Aff, st.Role, codes(st, 110)...)
		d.countItem(st, "")
	case "self-unsolicited", "self-again":
		w.presenceItem(d.occupant(st.Room), "", "", true, st.Aff, st.Role, codes(st, 110)...)
		d.countItem(st, "")
	case "late-error", "late-self":
		// a second answer, of the other kind, to a request whose call is back
		cl := d.calls[st.Label]
		if cl == nil || cl.reqID == "" {
			break
		}
		back := false
		select {
		case <-cl.done:
			back = true
		default:
		}
		rq, ok := w.requestSeen(cl.reqID, 0)
		if !back || !ok {
			break // (only after the call has returned, and if its request went out)
		}
		if st.Op == "late-error" {
			w.errorPresence(rq.Addr, rq.ID, errTypeOf(st.Cond), st.Cond)
		} else {
			w.presenceItem(rq.Addr, "", rq.ID, true, st.Aff, st.Role, 110)
		}
		d.c.Count("late_answers_of_the_other_kind", 1)
	case "error":
		if cl := d.calls[st.Label]; cl != nil && cl.reqID != "" {
			if rq, ok := w.requestSeen(cl.reqID, 0); ok {
				w.errorPresence(rq.Addr, rq.ID, errTypeOf(st.Cond), st.Cond)
			}
		}
	case "other":
		w.presenceItem(strings.SplitN(d.addr(st.Room), "/", 2)[0]+"/secondwitch", "", "", false, st.Aff, st.Role, st.Codes...)
	case "other-leaves", "other-removed":
		w.presenceItem(strings.SplitN(d.addr(st.Room), "/", 2)[0]+"/secondwitch", "unavailable", "", false, st.Aff, st.Role, st.Codes...)
		d.countItem(st, "others_")
	case "foreign-malformed":
		w.foreignMalformed("neverjoined@chat.example.net/somebody", []string{"", "unavailable"}[st.N%2], st.N/2)
		d.malformedSent++
		d.malformedPending++
	case "other-malformed":
		w.foreignMalformed(strings.SplitN(d.addr(st.Room), "/", 2)[0]+"/secondwitch", []string{"", "unavailable"}[st.N%2], st.N/2)
		d.malformedSent++
		d.malformedPending++
	case "foreign":
		w.presenceItem("neverjoined@chat.example.net/somebody", "", "", false, st.Aff, st.Role, codes(st, 110)...)
	case "foreign-unavailable":
		w.presenceItem("neverjoined@chat.example.net/somebody", "unavailable", "", false, st.Aff, st.Role, codes(st, 110)...)
	case "kick":
		w.presenceItem(d.occupant(st.Room), "unavailable", "", true, st.Aff, st.Role, codes(st, 307, 110)...)
		d.countItem(st, "own_")
	case "unavail":
		w.presenceItem(d.occupant(st.Room), "unavailable", "", true, st.Aff, st.Role, codes(st, 110)...)
		d.countItem(st, "own_")
	case "invite":
		d.invites = append(d.invites, st.Inv)
		w.invite(*st.Inv)
	case "unrelated":
		w.send(unrelated[st.N%len(unrelated)])
	case "barrier":
		d.barrier()
	}
}

// codes: the step's status codes, or the defaults of hand-written scenarios.
func codes(st step, def ...int) []int {
	if st.Codes != nil {
		return st.Codes
	}
	return def
}

// countItem books which item attributes and removal codes were sent.
func (d *driver) countItem(st step, prefix string) {
	if st.Aff == "outcast" && prefix != "" {
		d.c.Count(prefix+"departure_affiliation_outcast", 1)
	}
	for _, code := range st.Codes {
		switch code {
		case 301, 307, 321, 322, 332:
			d.c.Count(fmt.Sprintf("%sremoval_%d", prefix, code), 1)
		}
	}
	if prefix == "" && st.Aff != "" {
		d.c.Count("own_available_item_"+st.Aff+"_"+st.Role, 1)
	}
}

func runCase(c *core.Case) {
	mc := genCase(c.Rand)
	c.Sample(mc)
	execCase(c, mc)
}

func execCase(c *core.Case, mc *muCase) {
	base := stall.Snapshot(nil)
	w, err := newWorldOpt(c.Index%5 == 3)
	if err != nil {
		c.Count("setup_failures", 1)
		return
	}
	defer w.shutdown()
	if w.noInviteCB {
		c.Count("cases_whose_client_has_no_invitation_callback", 1)
	}
	// (deterministic in the case: the presences of every third case alternate)
	if c.Index%3 == 1 {
		n := 0
		w.extraX = func() bool { n++; c.Count("presences_with_a_second_x_element", n%2); return n%2 == 1 }
	}
	d := &driver{c: c, w: w, mc: mc, base: base, calls: map[string]*call{}, chans: map[string]*muc.Channel{}, allChans: map[string][]*muc.Channel{}, occ: map[string]string{}, pending: map[string]int{}}
	for _, st := range mc.Steps {
		d.exec(st)
		if d.aborted {
			break
		}
	}
	// let every call end
	for _, cl := range d.order {
		if cl.n > 0 {
			select {
			case <-cl.done:
			default:
				w.log.add(event{Ev: "cancel", Ctx: cl.ctxN})
				cl.cancel()
				select {
				case <-cl.done:
				case <-time.After(hardLimit):
				}
			}
		}
	}
	log := w.log.snapshot()
	c.Extra(log)
	if d.dead {
		return
	}
	select {
	case <-w.served:
		d.sessionEnded()
		return
	default:
	}
	if d.malformedSent > 0 {
		c.Count("foreign_malformed_payloads", d.malformedSent)
	}
	judge(c, mc, d, log)
}
