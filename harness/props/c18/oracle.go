package c18

import (
	"fmt"
	"sort"
	"strings"

	"mellium.im/xmpp/verifharness/core"
)

// The oracle is a model of one occupant (out → in → out) evaluated over the
// event log.  Logical times order what the harness did; overlapping
// operations may have taken effect in either order, and whenever the log does
// not determine the model's state the sample is skipped, never guessed.

type callRec struct {
	n          int
	op, addr   string
	ctx        int
	tCall      int64
	tRet       int64 // 0: never returned
	err, cond  string
	text       string
	reqID      string
	toAddr     string // where the request went (the address given to the call unless the wire says otherwise)
	reqTyp     string
	haveReq    bool
	candidates []int // indexes into presences
}

type presRec struct {
	t         int64
	addr, typ string
	id, cond  string
	self      bool
}

type barRec struct{ tSend, tDone int64 }

func bareOf(a string) string { return strings.SplitN(a, "/", 2)[0] }

func judge(c *core.Case, mc *muCase, d *driver, log []event) {
	calls := map[int]*callRec{}
	var order []*callRec
	var pres []presRec
	bars := map[int]*barRec{}
	cancels := map[int]int64{}
	seen := map[string][]event{}
	for _, e := range log {
		switch e.Ev {
		case "call":
			r := &callRec{n: e.Call, op: e.Op, addr: e.Addr, ctx: e.Ctx, tCall: e.T}
			calls[e.Call] = r
			order = append(order, r)
		case "ret":
			if r := calls[e.Call]; r != nil {
				r.tRet, r.err, r.cond, r.text = e.T, e.Err, e.Cond, e.Text
			}
		case "cancel":
			if _, ok := cancels[e.Ctx]; !ok {
				cancels[e.Ctx] = e.T
			}
		case "presence":
			pres = append(pres, presRec{t: e.T, addr: e.Addr, typ: e.Typ, id: e.ID, cond: e.Cond, self: e.Self})
		case "barrier":
			bars[e.K] = &barRec{tSend: e.T}
		case "barrier-done":
			if b := bars[e.K]; b != nil {
				b.tDone = e.T
			}
		case "seen":
			seen[e.ID] = append(seen[e.ID], e)
		}
	}
	// every request carries the id "call<n>"
	perAddr := map[string][]*callRec{}
	renamed := map[string]bool{}
	for _, r := range order {
		perAddr[r.addr] = append(perAddr[r.addr], r)
		r.reqID = fmt.Sprintf("call%d", r.n)
		r.toAddr = r.addr
		for _, e := range seen[r.reqID] {
			r.reqTyp, r.haveReq, r.toAddr = e.Typ, true, e.Addr
		}
		if r.toAddr != r.addr {
			// the library sent the request to another nick: the occupant may be
			// known to the room under that address from then on, which this
			// model of one fixed address does not follow
			renamed[r.addr] = true
		}
	}
	// processedBefore: a barrier sent after t was answered before u
	processedBefore := func(t, u int64) bool {
		for _, b := range bars {
			if b.tDone != 0 && b.tSend > t && b.tDone < u {
				return true
			}
		}
		return false
	}

	// ---- results of Join / rejoin / Leave
	var okJoins []*callRec
	for _, r := range order {
		if r.tRet == 0 {
			continue // still open when the history ended: may yet take effect, never judged
		}
		what := r.op
		kind := "join"
		if r.op == "leave" {
			kind = "leave"
		}
		c.Count("calls_"+r.op+"_"+r.err, 1)
		switch r.err {
		case "nil":
			wantTyp := "available"
			if kind == "leave" {
				wantTyp = "unavailable"
			}
			for i, p := range pres {
				// (a Leave may rightly return because the occupant is out already: any
				// unavailable self-presence sent before the return will do)
				if p.self && (p.addr == r.addr || p.addr == r.toAddr) && p.typ == wantTyp && p.t < r.tRet && (kind == "leave" || !processedBefore(p.t, r.tCall)) {
					r.candidates = append(r.candidates, i)
				}
			}
			if kind == "join" {
				okJoins = append(okJoins, r)
				if len(r.candidates) == 0 {
					c.Violate("muc:join:success-without-self-presence", "%s #%d for %s returned nil at t=%d (called t=%d) but the room sent no self-presence for that address that could have reached it\n%s", what, r.n, r.addr, r.tRet, r.tCall, around(log, r.tCall, r.tRet))
				}
			} else if len(r.candidates) == 0 {
				c.Violate("muc:leave:returned-without-unavailable", "leave #%d for %s returned nil at t=%d (called t=%d) but the room sent no unavailable self-presence that could have reached it\n%s", r.n, r.addr, r.tRet, r.tCall, around(log, r.tCall, r.tRet))
			}
		case "stanza":
			found, wrong := false, ""
			for _, p := range pres {
				if p.typ == "error" && r.haveReq && p.id == r.reqID && p.t < r.tRet {
					if p.cond == r.cond || strings.HasPrefix(p.cond, "!") {
						// (an answer whose <error/> is empty or undecodable may come back
						// as a stanza error without a condition)
						found = true
					} else {
						wrong = p.cond
					}
				}
			}
			if !found {
				if wrong != "" {
					c.Violate("muc:"+kind+":wrong-error", "%s #%d for %s returned <%s/>, the room had answered its request %q with <%s/>", what, r.n, r.addr, r.cond, r.reqID, wrong)
				} else {
					c.Violate("muc:"+kind+":error-not-sent", "%s #%d for %s returned the stanza error <%s/> (%s) but the room sent no error for its request %q\n%s", what, r.n, r.addr, r.cond, r.text, r.reqID, around(log, r.tCall, r.tRet))
				}
			} else {
				c.Count(kind+"_room_error_returned", 1)
			}
		case "ctx":
			if t, ok := cancels[r.ctx]; !ok || t > r.tRet {
				c.Violate("muc:"+kind+":context-error-without-cancel", "%s #%d for %s returned %q but its context was not cancelled before", what, r.n, r.addr, r.text)
			} else {
				c.Count(kind+"_cancelled", 1)
			}
		default:
			malformed := false
			for _, p := range pres {
				if p.typ == "error" && r.haveReq && p.id == r.reqID && p.t < r.tRet && strings.HasPrefix(p.cond, "!") {
					malformed = true
				}
			}
			if malformed {
				// the room's answer was an error that cannot be decoded: any error will do
				c.Count(kind+"_undecodable_room_error_reported", 1)
				break
			}
			c.Violate("muc:"+kind+":spurious-error", "%s #%d for %s returned %q: neither nil, nor the room's stanza error, nor the context's error", what, r.n, r.addr, r.text)
		}
	}
	// every successful join needs its own self-presence (Kuhn's matching)
	matchP := map[int]*callRec{}
	var try func(r *callRec, seenP map[int]bool) bool
	try = func(r *callRec, seenP map[int]bool) bool {
		for _, pi := range r.candidates {
			if seenP[pi] {
				continue
			}
			seenP[pi] = true
			if o := matchP[pi]; o == nil || try(o, seenP) {
				matchP[pi] = r
				return true
			}
		}
		return false
	}
	for _, r := range okJoins {
		if len(r.candidates) > 0 && !try(r, map[int]bool{}) {
			c.Violate("muc:join:self-presence-used-twice", "%s #%d for %s returned nil, but every self-presence that could have reached it is needed by another successful join", r.op, r.n, r.addr)
		}
	}
	if len(okJoins) > 0 {
		c.Count("join_success", len(okJoins))
	}

	// ---- Joined() at barriers
	for _, e := range log {
		if e.Ev != "joined?" && e.Ev != "joined-old?" {
			continue
		}
		old := e.Ev == "joined-old?"
		if renamed[e.Addr] {
			c.Count("joined_samples_skipped", 1)
			continue
		}
		b := bars[e.K]
		if b == nil || b.tDone == 0 {
			continue
		}
		a := e.Addr
		// a call in flight around the barrier leaves the state open
		open := false
		var last *callRec
		nOK := 0
		for _, r := range perAddr[a] {
			if r.tCall < e.T && (r.tRet == 0 || r.tRet > b.tSend) {
				// (a fresh Client.Join in flight can only ever make its own, not
				// yet returned, channel joined: replaced channels stay decidable)
				// … unless it came back between the ping and the sampling
				if !(old && r.op == "join" && (r.tRet == 0 || r.tRet > e.T)) {
					open = true
				}
			}
			if r.op != "leave" && r.err == "nil" && r.tRet != 0 && r.tRet < b.tSend {
				nOK++
				if last == nil || r.tRet > last.tRet {
					last = r
				}
			}
		}
		if open {
			c.Count("joined_samples_skipped", 1)
			continue
		}
		want := ""
		if last == nil {
			want = "false"
		} else if len(last.candidates) > 0 {
			lo, hi := int64(1<<62), int64(0)
			for _, pi := range last.candidates {
				if pres[pi].t < lo {
					lo = pres[pi].t
				}
				if pres[pi].t > hi {
					hi = pres[pi].t
				}
			}
			afterLo, afterHi := false, false
			for _, p := range pres {
				if p.self && p.addr == a && p.typ == "unavailable" && p.t < b.tSend {
					if p.t > lo {
						afterLo = true
					}
					if p.t > hi {
						afterHi = true
					}
				}
			}
			switch {
			case !afterLo:
				want = "true"
			case afterHi:
				want = "false"
			}
			// A Leave that came back with an error other than the context's leaves
			// the state open: no unavailable presence was processed, yet Leave is
			// documented (and tested by the package) to end membership.
			for _, r := range perAddr[a] {
				if r.op == "leave" && (r.err == "stanza" || r.err == "other") && r.tRet > lo && r.tRet < b.tSend && want == "true" {
					want = ""
				}
			}
			// two successful joins whose order is not fixed by a barrier: leave it
			if nOK > 1 {
				for _, r := range perAddr[a] {
					if r != last && r.op != "leave" && r.err == "nil" && !processedBefore(r.tRet, last.tCall) && r.tRet > last.tCall {
						want = ""
					}
				}
			}
		}
		if old {
			if want == "false" {
				c.Count("replaced_channels_sampled_while_out", 1)
				if e.Val != "false" {
					c.Violate("muc:joined:true-while-out", "barrier %d: the occupant %s is out (its unavailable presence was processed and no join has succeeded since), yet channel #%d returned for that address by an earlier Client.Join reports Joined() = true\n%s", e.K, a, e.Call, around(log, 0, e.T))
				}
			}
			continue
		}
		switch {
		case want == "":
			c.Count("joined_samples_skipped", 1)
		case want == "true":
			c.Count("joined_sampled_while_in", 1)
			if e.Val != "true" {
				c.Violate("muc:joined:false-while-in", "barrier %d: %s #%d for %s had returned nil and no unavailable self-presence was sent since, yet Channel.Joined() = false\n%s", e.K, last.op, last.n, a, around(log, last.tCall, e.T))
			}
		default:
			c.Count("joined_sampled_while_out", 1)
			if e.Val != "false" {
				why := "no join on this address has succeeded"
				if last != nil {
					why = "the unavailable self-presence sent after the last successful join has been processed"
				}
				c.Violate("muc:joined:true-while-out", "barrier %d: %s, yet Channel.Joined() = true for %s\n%s", e.K, why, a, around(log, 0, e.T))
			}
		}
	}

	// ---- callbacks
	joinedRooms := map[string]int64{} // bare room → time of the first call naming it
	for _, r := range order {
		if _, ok := joinedRooms[bareOf(r.addr)]; !ok {
			joinedRooms[bareOf(r.addr)] = r.tCall
		}
	}
	got := map[string][]event{}
	for _, e := range log {
		if e.Ev != "cb" {
			continue
		}
		switch e.Op {
		case "userpresence":
			c.Count("userpresence_callbacks", 1)
			if t, ok := joinedRooms[bareOf(e.Addr)]; !ok || t > e.T {
				c.Violate("muc:foreign:callback", "HandleUserPresence was called for %s, a room no join was ever requested for", e.Addr)
			}
		case "invite":
			got[e.M] = append(got[e.M], e)
		}
	}
	foreign := 0
	for _, p := range pres {
		if _, ok := joinedRooms[bareOf(p.addr)]; !ok {
			foreign++
		}
	}
	if foreign > 0 {
		c.Count("foreign_presences", foreign)
	}
	// the final barrier was answered ⇒ every invitation has been handled
	finalDone := false
	if b := bars[len(bars)]; b != nil && b.tDone != 0 {
		finalDone = true
	}
	known := map[string]bool{}
	nBare := 0
	c.Count("membership_questions_asked_from_inside_the_invitation_callback", int(d.w.asked.Load()))
	if d.w.noInviteCB {
		// nobody to deliver to: the invitations are dropped, and the session goes
		// on (the barriers and the calls after them show that)
		c.Count("invitations_sent_to_a_client_without_callback", len(d.invites))
		finalDone = false
	}
	for _, iv := range d.invites {
		if iv.Bare {
			nBare++
			continue
		}
		known[iv.Marker] = true
		evs := got[iv.Marker]
		switch {
		case len(evs) == 0 && finalDone:
			c.Violate("muc:invite:missing", "the mediated invitation with reason %q (type attr: %v, %d/%d other children around it) was never delivered to HandleInvite", iv.Marker, iv.Typed, iv.Before, iv.After)
		case len(evs) > 1:
			c.Violate("muc:invite:duplicate", "the mediated invitation with reason %q was delivered to HandleInvite %d times", iv.Marker, len(evs))
		case len(evs) == 1:
			c.Count("invites_delivered_once", 1)
			if evs[0].Text != iv.wantText() {
				c.Violate("muc:invite:fields", "invitation %q delivered with {%s}, sent {%s}", iv.Marker, evs[0].Text, iv.wantText())
			}
		}
	}
	if nBare > 0 {
		// bare invitations reach the callback with nothing but (at most) an
		// address: every one of them is a call with an empty reason
		c.Count("bare_invitations_sent", nBare)
		if finalDone && len(got[""]) < nBare {
			c.Violate("muc:invite:missing", "%d mediated invitation(s) naming only their inviter (<invite from='…'/>) were sent, HandleInvite was called %d time(s) with an empty reason", nBare, len(got[""]))
		}
	}
	var extra []string
	for m := range got {
		if !known[m] {
			extra = append(extra, m)
		}
	}
	sort.Strings(extra)
	for _, m := range extra {
		if m == "" {
			c.Count("non_invitation_x_delivered_to_HandleInvite", len(got[m]))
			continue
		}
		c.Violate("muc:invite:spurious", "HandleInvite was called with reason %q, which the room never sent", m)
	}

	// ---- signature
	var outc []string
	for _, r := range order {
		o := r.err
		if r.tRet == 0 {
			o = "open"
		}
		outc = append(outc, r.op[:1]+":"+o)
	}
	c.Sig("%s -> %s", mc.shape, strings.Join(outc, ","))
	for _, r := range order {
		if r.op == "leave" && r.err == "nil" {
			c.Count("leave_success", 1)
		}
	}
	kicks := 0
	for _, st := range mc.Steps {
		if st.Op == "kick" {
			kicks++
		}
	}
	if kicks > 0 {
		c.Count("kicks", kicks)
	}
	if n := strings.Count(mc.shape, "Y") + strings.Count(mc.shape, "y"); n > 0 {
		c.Count("stories_error_then_cancel", n)
	}
	c.Count("sequences", 1)
}

// around renders the log entries between two times for a report.
func around(log []event, from, to int64) string {
	var sb strings.Builder
	n := 0
	for _, e := range log {
		if e.T < from-6 || e.T > to+2 {
			continue
		}
		if n++; n > 60 {
			sb.WriteString("  …\n")
			break
		}
		fmt.Fprintf(&sb, "  t=%d %s", e.T, e.Ev)
		for _, kv := range [][2]string{{"op", e.Op}, {"addr", e.Addr}, {"typ", e.Typ}, {"id", e.ID}, {"err", e.Err}, {"cond", e.Cond}, {"m", e.M}, {"val", e.Val}} {
			if kv[1] != "" {
				fmt.Fprintf(&sb, " %s=%s", kv[0], kv[1])
			}
		}
		if e.Call != 0 {
			fmt.Fprintf(&sb, " call=%d", e.Call)
		}
		if e.Ctx != 0 {
			fmt.Fprintf(&sb, " ctx=%d", e.Ctx)
		}
		if e.K != 0 {
			fmt.Fprintf(&sb, " k=%d", e.K)
		}
		if e.Self {
			sb.WriteString(" self")
		}
		sb.WriteString("\n")
	}
	return sb.String()
}
