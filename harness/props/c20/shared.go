package c20

import (
	"fmt"
	"math/rand"

	"mellium.im/xmpp/disco"
)

// Values that share backing arrays.  disco.Info is a struct of slices, so two
// values can be views of one identities / features / forms array (a node's
// info and a prefix of it, a cached value and a trimmed copy).  Computing the
// verification string of one of them must leave everything the caller can see
// as it was - otherwise the string computed for another view of the same array
// changes - so after every hash the caller-visible content of the full value
// is read back through the accessors and compared with what was put in.

// sub returns the views of v used by the sharing laws: prefixes and a
// suffix-sharing sub-slice of every list, together with the model each view
// denotes.
func subViews(r *rand.Rand, v disco.Info, m model) ([]disco.Info, []model, []string) {
	var views []disco.Info
	var ms []model
	var names []string
	cut := func(n int) int {
		if n == 0 {
			return 0
		}
		return r.Intn(n + 1)
	}
	for k := 0; k < 3; k++ {
		ki, kf, kx := cut(len(m.Idents)), cut(len(m.Feats)), cut(len(m.Forms))
		fi, ff := 0, 0
		name := fmt.Sprintf("identities[:%d] features[:%d] forms[:%d]", ki, kf, kx)
		if k == 2 {
			// sub-slices that start inside the arrays
			if ki > 1 {
				fi = 1
			}
			if kf > 1 {
				ff = 1
			}
			name = fmt.Sprintf("identities[%d:%d] features[%d:%d] forms[:%d]", fi, ki, ff, kf, kx)
		}
		views = append(views, disco.Info{Identity: v.Identity[fi:ki], Features: v.Features[ff:kf], Form: v.Form[:kx]})
		ms = append(ms, model{Idents: m.Idents[fi:ki], Feats: m.Feats[ff:kf], Forms: m.Forms[:kx]})
		names = append(names, name)
	}
	return views, ms, names
}

// callerVisible reports the first list of v whose caller-visible content is
// not, element for element, what arrangement a put there.
func callerVisible(v disco.Info, a model) string {
	got := extract(v)
	if len(got.Idents) != len(a.Idents) {
		return "identities"
	}
	for i := range a.Idents {
		if got.Idents[i] != a.Idents[i] {
			return "identities"
		}
	}
	if len(got.Feats) != len(a.Feats) {
		return "features"
	}
	for i := range a.Feats {
		if got.Feats[i] != a.Feats[i] {
			return "features"
		}
	}
	if !sameContent(model{Forms: got.Forms}, model{Forms: a.Forms}) {
		return "forms"
	}
	return ""
}

// sharing is the sequential law: views of one set of arrays are hashed in
// turn; each keeps the string its content has (the same content built
// privately gives the expected string), before and after the others were
// hashed, and the arrays keep their content throughout.
func (mo *mon) sharing(r *rand.Rand, gen model) bool {
	c := mo.c
	a := gen.clone()
	a.Idents, a.Feats, a.Forms = shuffled(r, a.Idents), shuffled(r, a.Feats), shuffled(r, a.Forms)
	for fi := range a.Forms {
		a.Forms[fi].Fields = shuffled(r, a.Forms[fi].Fields)
		for di := range a.Forms[fi].Fields {
			if a.Forms[fi].Fields[di].Var != "FORM_TYPE" {
				a.Forms[fi].Fields[di].Vals = shuffled(r, a.Forms[fi].Fields[di].Vals)
			}
		}
	}
	v := direct(a)
	views, ms, names := subViews(r, v, a)
	views, ms, names = append(views, v), append(ms, a), append(names, "the whole value")
	c.Count("shared_backing_sequences", 1)
	if len(a.Feats) >= 2 {
		c.Count("shared_backing_sequences_with_unsorted_shared_features", 1)
	}
	want := make([]string, len(views))
	for k := range views {
		// the same content in arrays of its own
		h, alive := mo.hashOf(direct(ms[k].clone()), tcase{Hash: mo.hh.String(), Route: "direct", Arrangement: "private copy of the view " + names[k], Value: ms[k]})
		if !alive {
			return false
		}
		want[k] = h
	}
	for round := 0; round < 2; round++ {
		for k := range views {
			h, alive := mo.hashOf(views[k], tcase{Hash: mo.hh.String(), Route: "direct", Arrangement: "view " + names[k] + " of arrays shared with the other views", Value: ms[k]})
			if !alive {
				return false
			}
			c.Count("shared_view_hashes", 1)
			c.Count("caller_visible_rechecks", 1)
			if list := callerVisible(v, a); list != "" {
				mo.violate("caps:caller:"+list+"-changed", "%s: hashing the view %s changed the caller's %s: the value was built as %+v and now reads %+v", mo.hh, names[k], list, a, extract(v))
				return false
			}
			if h != want[k] {
				mo.violate("caps:shared:view-hash", "%s: the view %s of shared arrays hashes to %q (round %d, after the other views were hashed), the same content in arrays of its own to %q; full value %+v", mo.hh, names[k], h, round, want[k], a)
				return false
			}
		}
	}
	return true
}
