package c20

import (
	"encoding/xml"
	"io"
	"math/rand"

	"mellium.im/xmpp/disco"
	"mellium.im/xmpp/form"
)

// Lifetime sequences.  A disco.Info value lives on after its verification
// string was computed: it is encoded into replies, its forms are turned into
// token streams and submissions, it is copied.  None of that is an operation
// on its content, so the verification string stays what it was (and stays the
// XEP-0115 5.1 string of what was put into the value): the hash is taken
// before and after every interposed library operation on the same value.

func drain(r xml.TokenReader) (n int, err error) {
	for {
		tok, err := r.Token()
		if tok != nil {
			n++
		}
		if err == io.EOF {
			return n, nil
		}
		if err != nil {
			return n, err
		}
		if tok == nil {
			return n, nil
		}
	}
}

// lifetime runs the interposed operations on v, whose content is arrangement a.
func (mo *mon) lifetime(r *rand.Rand, v disco.Info, a model, route string, want string, haveWant bool) bool {
	c := mo.c
	s := tcase{Hash: mo.hh.String(), Route: route, Arrangement: "lifetime sequence", Value: a}
	h0, alive := mo.hashOf(v, s)
	if !alive {
		return false
	}
	if haveWant && h0 != want {
		mo.violate("caps:ref", "%s: Hash = %q on the %s value at the start of its lifetime sequence, XEP-0115 5.1 gives %q for S = %q; value %+v", mo.hh, h0, route, want, refString(a), a)
		return false
	}
	c.Count("lifetime_sequences", 1)
	for _, f := range a.Forms {
		for _, fd := range f.Fields {
			for i := 0; i+1 < len(fd.Vals); i++ {
				if fd.Vals[i] == "" && fd.Vals[i+1] != "" && fd.Var != "FORM_TYPE" {
					c.Count("lifetime_sequences_with_empty_value_before_nonempty_value", 1)
					i = len(fd.Vals)
				}
			}
		}
	}
	type op struct {
		name string
		run  func() error
	}
	ops := []op{
		{"xml.Marshal", func() error { _, err := xml.Marshal(v); return err }},
		{"Info.TokenReader", func() error { _, err := drain(v.TokenReader()); return err }},
		{"Info.WriteXML", func() error {
			e := xml.NewEncoder(io.Discard)
			if _, err := v.WriteXML(e); err != nil {
				return err
			}
			return e.Flush()
		}},
		{"copy", func() error { w := v; _ = w.Hash(mo.hh.New()); return nil }},
	}
	for fi := range v.Form {
		fi := fi
		ops = append(ops,
			op{"form.Data.TokenReader", func() error { _, err := drain(v.Form[fi].TokenReader()); return err }},
			op{"form.Data.Submit", func() error { tr, _ := v.Form[fi].Submit(); _, err := drain(tr); return err }},
			op{"xml.Marshal(form)", func() error { _, err := xml.Marshal(&v.Form[fi]); return err }},
			op{"form.Data.accessors", func() error {
				d := &v.Form[fi]
				d.ForFields(func(fd form.FieldData) {
					d.Get(fd.Var)
					d.GetString(fd.Var)
					d.Raw(fd.Var)
				})
				return nil
			}},
		)
	}
	r.Shuffle(len(ops), func(i, j int) { ops[i], ops[j] = ops[j], ops[i] })
	if len(ops) > 8 {
		ops = ops[:8]
	}
	for _, o := range ops {
		var err error
		if mo.guard(o.name, func() { err = o.run() }) {
			mo.dead = true
			return false
		}
		c.Count("lifetime_ops", 1)
		c.Count("lifetime_op_"+o.name, 1)
		if err != nil {
			c.Count("lifetime_op_errors", 1) // an encoder refusing some text is not this property's business
		}
		s.Arrangement = "lifetime sequence, after " + o.name
		h, alive := mo.hashOf(v, s)
		if !alive {
			return false
		}
		if h != h0 {
			mo.violate("caps:lifetime:"+o.name, "%s: Hash of the %s value was %q, after %s on the same value it is %q; value as built %+v, as it reads now %+v", mo.hh, route, h0, o.name, h, a, extract(v))
			return false
		}
		if list := callerVisible(v, a); list != "" {
			mo.violate("caps:lifetime:"+o.name, "%s: %s on the %s value changed its %s (the hash happens to be the same): built as %+v, now reads %+v", mo.hh, o.name, route, list, a, extract(v))
			return false
		}
	}
	// A form of the value came from a scratch form.Data the application decodes
	// into again and again (one <x/> after another into one variable): what was
	// copied into the info value earlier is the info value's.
	if len(a.Forms) > 0 {
		fi := r.Intn(len(a.Forms))
		var scratch form.Data
		if err := xml.Unmarshal([]byte(formXML(a.Forms[fi], fi, r, false)), &scratch); err == nil {
			v2 := v
			v2.Form = append([]form.Data(nil), v.Form...)
			v2.Form[fi] = scratch
			s.Arrangement = "one form decoded into a scratch form.Data and copied into the value"
			h1, alive := mo.hashOf(v2, s)
			if !alive {
				return false
			}
			other := genForm(r, map[string]bool{})
			var uerr error
			if mo.guard("xml.Unmarshal into the scratch form", func() { uerr = xml.Unmarshal([]byte(formXML(other, 1, r, false)), &scratch) }) {
				mo.dead = true
				return false
			}
			_ = uerr
			s.Arrangement += ", then another <x/> decoded into the same scratch variable"
			h2, alive := mo.hashOf(v2, s)
			if !alive {
				return false
			}
			c.Count("lifetime_scratch_form_reused_after_copy", 1)
			if h1 != h2 {
				mo.violate("caps:lifetime:scratch-form-reused", "%s: an info value holding a copy of a decoded form hashed to %q; after another <x/> was decoded into the variable the copy had been made from it hashes to %q (form %d of %+v, the other form %+v; the value now reads %+v)", mo.hh, h1, h2, fi, a, other, extract(v2))
				return false
			}
		}
	}
	return true
}
