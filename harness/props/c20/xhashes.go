//go:build verif

package c20

// Linking these needs golang.org/x/crypto as a direct requirement (and
// golang.org/x/sys as an indirect one) in harness/go.mod, which a property
// author may not edit; with the tag and the go.mod lines all nine functions of
// crypto's list are exercised.
import (
	_ "golang.org/x/crypto/blake2b"
	_ "golang.org/x/crypto/sha3"
)
