package c20

import (
	stdcrypto "crypto"
	"crypto/sha1"
	"crypto/sha256"
	"crypto/sha512"
	"hash"

	"mellium.im/xmpp/crypto"
)

// algo is one hash function of the library's list: the wire name, the
// library's value for it (what the library's users hand to Info.Hash after
// calling New on it), and the reference constructor, which is chosen here by
// algorithm name and never goes through the library's crypto package: the
// standard library's own constructors for the SHA-1/SHA-2 family, and for
// SHA-3 / BLAKE2b whatever implementation is registered with the standard
// library's crypto.RegisterHash table (the Go distribution's own sha3; the
// x/crypto blake2b when it is linked, see xhashes.go).
type algo struct {
	name string
	lib  crypto.Hash
	ref  func() hash.Hash
}

func registered(h stdcrypto.Hash) func() hash.Hash {
	return func() hash.Hash {
		if !h.Available() {
			return nil
		}
		return h.New()
	}
}

var algos = []algo{
	{"sha-1", crypto.SHA1, sha1.New},
	{"sha-224", crypto.SHA224, sha256.New224},
	{"sha-256", crypto.SHA256, sha256.New},
	{"sha-384", crypto.SHA384, sha512.New384},
	{"sha-512", crypto.SHA512, sha512.New},
	{"sha3-256", crypto.SHA3_256, registered(stdcrypto.SHA3_256)},
	{"sha3-512", crypto.SHA3_512, registered(stdcrypto.SHA3_512)},
	{"blake2b256", crypto.BLAKE2b_256, registered(stdcrypto.BLAKE2b_256)},
	{"blake2b512", crypto.BLAKE2b_512, registered(stdcrypto.BLAKE2b_512)},
}

// linked returns the algorithms whose implementation is in this binary.
func linked() []algo {
	var out []algo
	for _, a := range algos {
		if a.ref() != nil {
			out = append(out, a)
		}
	}
	return out
}
