package c20

import (
	_ "crypto/sha1"
	_ "crypto/sha256"
	_ "crypto/sha512"

	"mellium.im/xmpp/crypto"
)

// every hash function crypto names; the ones linked in are used
var allHashes = []crypto.Hash{
	crypto.SHA1, crypto.SHA224, crypto.SHA256, crypto.SHA384, crypto.SHA512,
	crypto.SHA3_256, crypto.SHA3_512, crypto.BLAKE2b_256, crypto.BLAKE2b_512,
}

func hashes() []crypto.Hash {
	var out []crypto.Hash
	for _, h := range allHashes {
		if h.Available() {
			out = append(out, h)
		}
	}
	return out
}
