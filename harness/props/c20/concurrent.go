package c20

import (
	"fmt"
	"math/rand"
	"runtime"
	"runtime/debug"
	"sync"
	"sync/atomic"

	"mellium.im/xmpp/disco"
	"mellium.im/xmpp/verifharness/core"
)

// Concurrent part.  Verification strings are computed wherever presence is
// handled, so several goroutines hash different info values at the same time,
// each value owned by its goroutine, and every result is compared with the
// XEP-0115 5.1 reference computed sequentially beforehand.  The children run
// under the race detector, which reports state shared between computations
// even when the outputs happen to come out right.

const concGoroutines = 8

// concModel draws a value whose forms all carry a FORM_TYPE and that has a
// form with several other fields, with field names that differ from goroutine
// to goroutine.
func concModel(r *rand.Rand, g int) model {
	for {
		m := genModel(r)
		if ok, allTyped := m.wellDefined(); !ok || !allTyped {
			continue
		}
		f := frm{Fields: []fld{{Var: "FORM_TYPE", Typ: "hidden", Vals: []string{fmt.Sprintf("urn:verif:form:%d", g)}}}}
		for k, n := 0, 2+r.Intn(4); k < n; k++ {
			fd := fld{Var: fmt.Sprintf("g%d-%s-%d", g, pick(r, []string{"os", "software", "ip_version", "z", "a"}), k), Typ: pick(r, fieldTypes)}
			for v, nv := 0, 1+r.Intn(3); v < nv; v++ {
				fd.Vals = append(fd.Vals, txt(r, vals))
			}
			f.Fields = append(f.Fields, fd)
		}
		f.Fields = shuffled(r, f.Fields)
		m.Forms = append(m.Forms, f)
		m.Forms = shuffled(r, m.Forms)
		if ok, allTyped := m.wellDefined(); ok && allTyped {
			return m
		}
	}
}

func (mo *mon) concurrentCase(r *rand.Rand) {
	c := mo.c
	const reps = 120
	models := make([]model, concGoroutines)
	want := make([]string, concGoroutines)
	decoded := make([]disco.Info, concGoroutines)
	for g := range models {
		models[g] = concModel(r, g)
		want[g] = refHash(models[g], mo.ref())
		// sequentially the library agrees with the reference (otherwise this is
		// not a matter of concurrency and the ordinary cases report it)
		h, alive := mo.hashOf(direct(models[g]), tcase{Hash: mo.hh.String(), Route: "direct", Arrangement: "as generated (before the concurrent part)", Value: models[g]})
		if !alive {
			return
		}
		if h != want[g] {
			mo.violate("caps:ref", "%s: Hash = %q, XEP-0115 5.1 gives %q for S = %q; value %+v", mo.hh, h, want[g], refString(models[g]), models[g])
			return
		}
		v, ok := mo.unmarshal(document(models[g], r, false))
		if mo.dead {
			return
		}
		if ok {
			decoded[g] = v
		} else {
			decoded[g] = direct(models[g])
		}
	}
	// one more value that all goroutines hash, whole and through views of its
	// arrays (unsorted, so that any in-place reordering is visible)
	sharedM := concModel(r, concGoroutines)
	for len(sharedM.Feats) < 4 {
		sharedM.Feats = append(sharedM.Feats, txt(r, feats))
	}
	sharedM.Feats = shuffled(r, sharedM.Feats)
	sharedM.Idents = shuffled(r, sharedM.Idents)
	sharedV := direct(sharedM)
	views, viewMs, viewNames := subViews(r, sharedV, sharedM)
	views, viewMs, viewNames = append(views, sharedV), append(viewMs, sharedM), append(viewNames, "the whole value")
	viewWant := make([]string, len(views))
	for k := range views {
		viewWant[k] = refHash(viewMs[k], mo.ref())
		if h, alive := mo.hashOf(direct(viewMs[k].clone()), tcase{Hash: mo.hh.String(), Route: "direct", Arrangement: "private copy of the shared view " + viewNames[k], Value: viewMs[k]}); !alive {
			return
		} else if h != viewWant[k] {
			mo.violate("caps:ref", "%s: Hash = %q, XEP-0115 5.1 gives %q for S = %q; value %+v", mo.hh, h, viewWant[k], refString(viewMs[k]), viewMs[k])
			return
		}
	}
	sharedHashes := make([]int, concGoroutines)
	c.Sample(map[string]any{"kind": "concurrent", "shared_value": sharedM, "hash": mo.hh.String(), "goroutines": concGoroutines, "hashes_per_goroutine": reps, "values": models})
	c.Count("concurrent_cases", 1)
	if runtime.GOMAXPROCS(0) >= 4 {
		c.Count("concurrent_cases_with_gomaxprocs_ge_4", 1)
	}
	var (
		wg       sync.WaitGroup
		start    = make(chan struct{})
		active   int32
		maxAct   int32
		problems [concGoroutines][][2]string
		done     [concGoroutines]int
	)
	for g := 0; g < concGoroutines; g++ {
		wg.Add(1)
		go func(g int) {
			defer wg.Done()
			add := func(key, format string, a ...any) {
				if len(problems[g]) < 3 {
					problems[g] = append(problems[g], [2]string{key, fmt.Sprintf(format, a...)})
				}
			}
			defer func() {
				if rec := recover(); rec != nil {
					st := string(debug.Stack())
					add(core.PanicKey("concurrent", rec, st), "panic in goroutine %d: %v\n%s", g, rec, core.TrimStack(st))
				}
			}()
			<-start
			a := atomic.AddInt32(&active, 1)
			for {
				m := atomic.LoadInt32(&maxAct)
				if a <= m || atomic.CompareAndSwapInt32(&maxAct, m, a) {
					break
				}
			}
			defer atomic.AddInt32(&active, -1)
			for rep := 0; rep < reps; rep++ {
				var got string
				switch rep % 5 {
				case 3, 4:
					k := (rep/5 + g) % len(views)
					if rep%5 == 3 {
						k = len(views) - 1
					}
					got = views[k].Hash(mo.hh.New())
					sharedHashes[g]++
					if got != viewWant[k] {
						add("caps:concurrent:shared", "goroutine %d, hash %d: Hash = %q on %s of the value all goroutines share, XEP-0115 5.1 gives %q; shared value %+v", g, rep, got, viewNames[k], viewWant[k], sharedM)
					}
				case 0:
					got = direct(models[g]).Hash(mo.hh.New())
					if got != want[g] {
						add("caps:concurrent:Hash", "goroutine %d, hash %d: Hash = %q on a value built for this goroutine while %d others were hashing theirs, sequentially and by XEP-0115 5.1 it is %q; value %+v", g, rep, got, concGoroutines-1, want[g], models[g])
					}
				case 1:
					got = string(direct(models[g]).AppendHash(nil, mo.hh.New()))
					if got != want[g] {
						add("caps:concurrent:AppendHash", "goroutine %d, hash %d: AppendHash = %q while others were hashing, sequentially and by XEP-0115 5.1 it is %q; value %+v", g, rep, got, want[g], models[g])
					}
				default:
					got = decoded[g].Hash(mo.hh.New())
					if got != want[g] {
						add("caps:concurrent:Hash", "goroutine %d, hash %d: Hash = %q on this goroutine's decoded value while others were hashing, sequentially and by XEP-0115 5.1 it is %q; value %+v", g, rep, got, want[g], models[g])
					}
				}
				done[g]++
				if rep%8 == 7 {
					runtime.Gosched()
				}
			}
		}(g)
	}
	close(start)
	wg.Wait()
	total := 0
	for g := range done {
		total += done[g]
	}
	c.Count("concurrent_hashes", total)
	nshared := 0
	for g := range sharedHashes {
		nshared += sharedHashes[g]
	}
	c.Count("concurrent_shared_value_hashes", nshared/2)
	c.Count("concurrent_shared_view_hashes", nshared-nshared/2)
	c.Count("caller_visible_rechecks", 1)
	if list := callerVisible(sharedV, sharedM); list != "" {
		mo.violate("caps:caller:"+list+"-changed", "%s: after %d concurrent hashes of the shared value and its views the caller's %s changed: built as %+v, now reads %+v", mo.hh, nshared, list, sharedM, extract(sharedV))
	}
	if atomic.LoadInt32(&maxAct) >= 2 {
		c.Count("concurrent_cases_with_overlapping_goroutines", 1)
	}
	if atomic.LoadInt32(&maxAct) >= 4 {
		c.Count("concurrent_cases_with_4_or_more_goroutines_at_once", 1)
	}
	c.Sig("concurrent:%d", atomic.LoadInt32(&maxAct))
	for g := range problems {
		for _, p := range problems[g] {
			mo.violate(p[0], "%s", p[1])
		}
	}
}
