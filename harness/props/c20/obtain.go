package c20

import (
	"bytes"
	"encoding/xml"
	"math/rand"
	"strings"

	"mellium.im/xmpp/crypto"
	"mellium.im/xmpp/disco"
	"mellium.im/xmpp/verifharness/core"
)

// obtainHash gets the library's crypto.Hash for algorithm a the way the
// library's users do - the exported constant, crypto.Parse of the wire name,
// or the hash attribute of a decoded <c xmlns='http://jabber.org/protocol/caps'/>
// element - and checks that what its New method returns computes the function
// of that name (digest of fixed probes against the reference constructor).
// It returns nil when the case cannot go on.
func obtainHash(c *core.Case, r *rand.Rand, a algo) *mon {
	mo := &mon{c: c, hh: a.lib, ref: a.ref}
	c.Count("hash:"+a.name, 1)
	route := []string{"constant", "crypto.Parse", "caps-element"}[r.Intn(3)]
	c.Sample(tcase{Hash: a.name, Route: "obtaining the hash function: " + route})
	switch route {
	case "crypto.Parse":
		var h crypto.Hash
		var err error
		if mo.guard("crypto.Parse", func() { h, err = crypto.Parse(a.name) }) {
			return nil
		}
		if err != nil {
			mo.violate("caps:hash-name:"+a.name, "crypto.Parse(%q) fails: %v", a.name, err)
			return nil
		}
		mo.hh = h
	case "caps-element":
		doc := "<c xmlns='http://jabber.org/protocol/caps' hash='" + a.name + "' node='http://code.google.com/p/exodus' ver='QgayPKawpkPSDYmwT/WM94uAlu0='/>"
		var caps disco.Caps
		var err error
		if mo.guard("xml.Unmarshal(disco.Caps)", func() { err = xml.Unmarshal([]byte(doc), &caps) }) {
			return nil
		}
		if err != nil {
			mo.violate("caps:hash-name:"+a.name, "decoding %s fails: %v", doc, err)
			return nil
		}
		mo.hh = caps.Hash
	}
	c.Count("hash_obtained_from:"+route, 1)
	if got := mo.hh.String(); got != a.name {
		mo.violate("caps:hash-name:"+a.name, "the hash obtained from %s for %q calls itself %q", route, a.name, got)
		return nil
	}
	// the function itself
	probes := [][]byte{nil, []byte("client/pc//Exodus 0.9.1<http://jabber.org/protocol/caps<"), bytes.Repeat([]byte{0xa5, '<'}, 150)}
	for _, p := range probes {
		var got []byte
		if mo.guard("crypto.Hash.New", func() {
			h := mo.hh.New()
			h.Write(p)
			got = h.Sum(nil)
		}) {
			return nil
		}
		rh := a.ref()
		rh.Write(p)
		c.Count("hash_function_checks:"+a.name, 1)
		if want := rh.Sum(nil); !bytes.Equal(got, want) {
			mo.violate("caps:hash-function:"+a.name, "the hash.Hash that crypto.Hash.New returns for %q (obtained from %s) gives digest %x for %q, the %s of the standard library gives %x", a.name, route, got, p, strings.ToUpper(a.name), want)
			return nil
		}
	}
	if got, want := mo.hh.Size(), a.ref().Size(); got != want {
		mo.violate("caps:hash-function:"+a.name, "crypto.Hash.Size() = %d for %q, the digest has %d bytes", got, a.name, want)
		return nil
	}
	return mo
}

// countPercent records in which text positions a '%' entered the hash.
func countPercent(c *core.Case, m model) {
	has := func(s string) bool { return strings.Contains(s, "%") }
	for _, i := range m.Idents {
		if has(i.Cat) {
			c.Count("percent_in_identity_category", 1)
		}
		if has(i.Typ) {
			c.Count("percent_in_identity_type", 1)
		}
		if has(i.Lang) {
			c.Count("percent_in_identity_lang", 1)
		}
		if has(i.Name) {
			c.Count("percent_in_identity_name", 1)
		}
	}
	for _, f := range m.Feats {
		if has(f) {
			c.Count("percent_in_feature", 1)
		}
	}
	for _, f := range m.Forms {
		for _, fd := range f.Fields {
			switch {
			case fd.Var == "FORM_TYPE":
				for _, v := range fd.Vals {
					if has(v) {
						c.Count("percent_in_form_type", 1)
					}
				}
			default:
				if has(fd.Var) {
					c.Count("percent_in_field_var", 1)
				}
				for _, v := range fd.Vals {
					if has(v) {
						c.Count("percent_in_field_value", 1)
					}
				}
			}
		}
	}
}
