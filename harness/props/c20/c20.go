// Package c20 monitors disco.Info.Hash / AppendHash (XEP-0115 verification
// strings) against an independent implementation of XEP-0115 section 5.1 and
// under permutations of every list the input contains, on values built
// directly and on values decoded from generated <query/> documents.
package c20

import (
	"bytes"
	"crypto/sha1"
	"encoding/base64"
	"encoding/xml"
	"fmt"
	"hash"
	"math/rand"
	"runtime/debug"
	"sort"
	"strings"
	"sync"
	"sync/atomic"

	"mellium.im/xmpp/crypto"
	"mellium.im/xmpp/disco"
	"mellium.im/xmpp/disco/info"
	"mellium.im/xmpp/form"
	"mellium.im/xmpp/verifharness/core"
)

// ---------------------------------------------------------------------------
// model of an info value

type ident struct {
	Cat  string `json:"category"`
	Typ  string `json:"type"`
	Lang string `json:"lang"`
	Name string `json:"name"`
}

type fld struct {
	Var  string   `json:"var"`
	Typ  string   `json:"type"`
	Vals []string `json:"values"`
}

type frm struct {
	Fields []fld `json:"fields"`
}

type model struct {
	Idents []ident  `json:"identities"`
	Feats  []string `json:"features"`
	Forms  []frm    `json:"forms"`
}

func (m model) clone() model {
	n := model{Idents: append([]ident(nil), m.Idents...), Feats: append([]string(nil), m.Feats...)}
	for _, f := range m.Forms {
		nf := frm{}
		for _, fd := range f.Fields {
			nf.Fields = append(nf.Fields, fld{Var: fd.Var, Typ: fd.Typ, Vals: append([]string(nil), fd.Vals...)})
		}
		n.Forms = append(n.Forms, nf)
	}
	return n
}

// formType returns the FORM_TYPE of a form in the sense of XEP-0115/XEP-0128:
// ok is true when there is exactly one FORM_TYPE field, it is hidden, and it
// has exactly one value; absent is true when there is no such field at all.
func (f frm) formType() (v string, ok, absent bool) {
	n := 0
	for _, fd := range f.Fields {
		if fd.Var == "FORM_TYPE" {
			n++
			ok = fd.Typ == "hidden" && len(fd.Vals) == 1
			if len(fd.Vals) > 0 {
				v = fd.Vals[0]
			}
		}
	}
	if n == 0 {
		return "", false, true
	}
	return v, ok && n == 1, false
}

func distinctVars(f frm) bool {
	seen := map[string]bool{}
	for _, fd := range f.Fields {
		if seen[fd.Var] {
			return false
		}
		seen[fd.Var] = true
	}
	return true
}

// wellDefined reports whether the value is a set of identities, features and
// forms in the sense of the property: identities distinct in
// (category, type, lang), field names distinct inside a form, every FORM_TYPE
// field hidden and single-valued, and forms distinguishable by FORM_TYPE
// (a form without one counts as ""), so that every sort key of XEP-0115 5.1
// is total on it.  allTyped additionally says every form carries a FORM_TYPE,
// which is what section 5.1 presupposes.
func (m model) wellDefined() (ok, allTyped bool) {
	seen := map[[3]string]bool{}
	for _, i := range m.Idents {
		k := [3]string{i.Cat, i.Typ, i.Lang}
		if seen[k] {
			return false, false
		}
		seen[k] = true
	}
	allTyped = true
	keys := map[string]bool{}
	for _, f := range m.Forms {
		if !distinctVars(f) {
			return false, false
		}
		v, good, absent := f.formType()
		if !good && !absent {
			return false, false
		}
		if absent {
			allTyped = false
		}
		if keys[v] {
			return false, false
		}
		keys[v] = true
	}
	return true, allTyped
}

// ---------------------------------------------------------------------------
// reference: XEP-0115 section 5.1, i;octet ordering

func refString(m model) string {
	m = m.clone()
	var s bytes.Buffer
	sort.Slice(m.Idents, func(a, b int) bool {
		x, y := m.Idents[a], m.Idents[b]
		if c := strings.Compare(x.Cat, y.Cat); c != 0 {
			return c < 0
		}
		if c := strings.Compare(x.Typ, y.Typ); c != 0 {
			return c < 0
		}
		return strings.Compare(x.Lang, y.Lang) < 0
	})
	for _, i := range m.Idents {
		s.WriteString(i.Cat + "/" + i.Typ + "/" + i.Lang + "/" + i.Name + "<")
	}
	sort.Strings(m.Feats)
	for _, f := range m.Feats {
		s.WriteString(f + "<")
	}
	ft := func(f frm) string { v, _, _ := f.formType(); return v }
	sort.SliceStable(m.Forms, func(a, b int) bool { return ft(m.Forms[a]) < ft(m.Forms[b]) })
	for _, f := range m.Forms {
		s.WriteString(ft(f) + "<")
		sort.Slice(f.Fields, func(a, b int) bool { return f.Fields[a].Var < f.Fields[b].Var })
		for _, fd := range f.Fields {
			if fd.Var == "FORM_TYPE" {
				continue
			}
			s.WriteString(fd.Var + "<")
			sort.Strings(fd.Vals)
			for _, v := range fd.Vals {
				s.WriteString(v + "<")
			}
		}
	}
	return s.String()
}

func refHash(m model, h hash.Hash) string {
	h.Write([]byte(refString(m)))
	return base64.StdEncoding.EncodeToString(h.Sum(nil))
}

// the two worked examples of XEP-0115 (sections 5.2 and 5.3)
var xepSimple = model{
	Idents: []ident{{"client", "pc", "", "Exodus 0.9.1"}},
	Feats:  []string{"http://jabber.org/protocol/muc", "http://jabber.org/protocol/disco#items", "http://jabber.org/protocol/disco#info", "http://jabber.org/protocol/caps"},
}

var xepComplex = model{
	Idents: []ident{{"client", "pc", "en", "Psi 0.11"}, {"client", "pc", "el", "\u03a8 0.11"}},
	Feats:  []string{"http://jabber.org/protocol/muc", "http://jabber.org/protocol/disco#items", "http://jabber.org/protocol/disco#info", "http://jabber.org/protocol/caps"},
	Forms: []frm{{Fields: []fld{
		{"software_version", "text-single", []string{"0.11"}},
		{"FORM_TYPE", "hidden", []string{"urn:xmpp:dataforms:softwareinfo"}},
		{"ip_version", "list-multi", []string{"ipv6", "ipv4"}},
		{"os", "text-single", []string{"Mac"}},
		{"os_version", "text-single", []string{"10.5.1"}},
		{"software", "text-single", []string{"Psi"}},
	}}},
}

var (
	selfOnce sync.Once
	selfOK   bool
)

func referenceSelfTest() bool {
	selfOnce.Do(func() {
		selfOK = refHash(xepSimple, sha1.New()) == "QgayPKawpkPSDYmwT/WM94uAlu0=" &&
			refHash(xepComplex, sha1.New()) == "q07IKJEyjvHSyhy//CH0CxmKi8w="
	})
	return selfOK
}

// ---------------------------------------------------------------------------
// building real values

var fieldCtor = map[string]func(string, ...form.Option) form.Field{
	"hidden":       form.Hidden,
	"text-single":  form.Text,
	"text-multi":   form.TextMulti,
	"text-private": form.TextPrivate,
	"list-multi":   form.ListMulti,
	"list-single":  form.List,
	"jid-multi":    form.JIDMulti,
	"jid-single":   form.JID,
	"boolean":      form.Boolean,
}

var fieldTypes = []string{"hidden", "text-single", "text-multi", "text-private", "list-multi", "list-single", "jid-multi", "jid-single", "boolean"}

// direct builds the value through the exported constructors.
func direct(m model) disco.Info {
	var v disco.Info
	for _, i := range m.Idents {
		v.Identity = append(v.Identity, info.Identity{Category: i.Cat, Type: i.Typ, Lang: i.Lang, Name: i.Name})
	}
	for _, f := range m.Feats {
		v.Features = append(v.Features, info.Feature{Var: f})
	}
	for k, f := range m.Forms {
		var fs []form.Field
		if k%2 == 1 {
			fs = append(fs, form.Result)
		}
		for _, fd := range f.Fields {
			var opts []form.Option
			for _, val := range fd.Vals {
				opts = append(opts, form.Value(val))
			}
			ctor := fieldCtor[fd.Typ]
			if ctor == nil {
				ctor = form.Text
			}
			fs = append(fs, ctor(fd.Var, opts...))
		}
		if k%2 == 0 {
			// the field values are applications' to keep: one form has been built
			// from them before (what becomes of it does not matter)
			_ = form.New(fs...)
			formsFromReusedFields.Add(1)
		}
		v.Form = append(v.Form, *form.New(fs...))
	}
	return v
}

func esc(s string) string {
	var b strings.Builder
	for _, c := range s {
		switch c {
		case '&':
			b.WriteString("&amp;")
		case '<':
			b.WriteString("&lt;")
		case '>':
			b.WriteString("&gt;")
		case '"':
			b.WriteString("&quot;")
		case '\'':
			b.WriteString("&apos;")
		case '\t', '\n', '\r':
			fmt.Fprintf(&b, "&#x%X;", c)
		default:
			b.WriteRune(c)
		}
	}
	return b.String()
}

func formXML(f frm, k int, r *rand.Rand, noise bool) string {
	var b strings.Builder
	typ := []string{"result", "form", "submit", ""}[k%4]
	if typ == "" {
		b.WriteString("<x xmlns='jabber:x:data'>")
	} else {
		b.WriteString("<x xmlns='jabber:x:data' type='" + typ + "'>")
	}
	if noise && r.Intn(3) == 0 {
		b.WriteString("<title>t</title>\n  <instructions>do &amp; don't</instructions>")
	}
	for _, fd := range f.Fields {
		b.WriteString("<field")
		if fd.Var != "" || r.Intn(2) == 0 {
			b.WriteString(" var='" + esc(fd.Var) + "'")
		}
		if fd.Typ != "" {
			b.WriteString(" type='" + esc(fd.Typ) + "'")
		}
		b.WriteString(">")
		if noise && r.Intn(4) == 0 {
			b.WriteString("<desc>d</desc><required/>")
		}
		for _, v := range fd.Vals {
			if v == "" && r.Intn(2) == 0 {
				b.WriteString("<value/>")
			} else {
				b.WriteString("<value>" + esc(v) + "</value>")
			}
		}
		if noise && r.Intn(4) == 0 && strings.HasPrefix(fd.Typ, "list") {
			b.WriteString("<option label='o'><value>ov</value></option>")
		}
		b.WriteString("</field>")
		if noise && r.Intn(4) == 0 {
			b.WriteString("\n  ")
		}
	}
	b.WriteString("</x>")
	return b.String()
}

// document writes the value as a disco#info result payload with the three
// kinds of children interleaved at random (each list keeps its order).
func document(m model, r *rand.Rand, noise bool) string {
	var ids, fts, fms []string
	for _, i := range m.Idents {
		s := "<identity category='" + esc(i.Cat) + "' type='" + esc(i.Typ) + "'"
		if i.Name != "" || r.Intn(4) == 0 {
			s += " name=\"" + esc(i.Name) + "\""
		}
		if i.Lang != "" {
			s += " xml:lang='" + esc(i.Lang) + "'"
		}
		ids = append(ids, s+"/>")
	}
	for _, f := range m.Feats {
		fts = append(fts, "<feature var='"+esc(f)+"'/>")
	}
	for k, f := range m.Forms {
		fms = append(fms, formXML(f, k, r, noise))
	}
	var b strings.Builder
	b.WriteString("<query xmlns='http://jabber.org/protocol/disco#info'")
	if r.Intn(3) == 0 {
		b.WriteString(" node='http://code.google.com/p/exodus#QgayPKawpkPSDYmwT/WM94uAlu0='")
	}
	b.WriteString(">")
	lists := [][]string{ids, fts, fms}
	for len(lists[0])+len(lists[1])+len(lists[2]) > 0 {
		k := r.Intn(3)
		if r.Intn(4) != 0 { // mostly grouped
			for k = 0; len(lists[k]) == 0; k++ {
			}
		}
		if len(lists[k]) == 0 {
			continue
		}
		b.WriteString(lists[k][0])
		lists[k] = lists[k][1:]
		if noise && r.Intn(5) == 0 {
			b.WriteString("\n ")
		}
	}
	b.WriteString("</query>")
	return b.String()
}

// extract reads a real value back through the exported accessors.
func extract(v disco.Info) model {
	var m model
	for _, i := range v.Identity {
		m.Idents = append(m.Idents, ident{i.Category, i.Type, i.Lang, i.Name})
	}
	for _, f := range v.Features {
		m.Feats = append(m.Feats, f.Var)
	}
	for k := range v.Form {
		f := frm{}
		v.Form[k].ForFields(func(fd form.FieldData) {
			f.Fields = append(f.Fields, fld{Var: fd.Var, Typ: string(fd.Type), Vals: append([]string(nil), fd.Raw...)})
		})
		m.Forms = append(m.Forms, f)
	}
	return m
}

// sameContent compares two models list by list, in order, ignoring the field
// type of fields other than FORM_TYPE (the decoder defaults a missing type).
func sameContent(a, b model) bool {
	if len(a.Idents) != len(b.Idents) || len(a.Feats) != len(b.Feats) || len(a.Forms) != len(b.Forms) {
		return false
	}
	for i := range a.Idents {
		if a.Idents[i] != b.Idents[i] {
			return false
		}
	}
	for i := range a.Feats {
		if a.Feats[i] != b.Feats[i] {
			return false
		}
	}
	for i := range a.Forms {
		x, y := a.Forms[i].Fields, b.Forms[i].Fields
		if len(x) != len(y) {
			return false
		}
		for j := range x {
			if x[j].Var != y[j].Var || len(x[j].Vals) != len(y[j].Vals) {
				return false
			}
			if x[j].Var == "FORM_TYPE" && (x[j].Typ == "hidden") != (y[j].Typ == "hidden") {
				return false
			}
			for k := range x[j].Vals {
				if x[j].Vals[k] != y[j].Vals[k] {
					return false
				}
			}
		}
	}
	return true
}

// ---------------------------------------------------------------------------
// generator

var (
	cats   = []string{"client", "client", "account", "conference", "pubsub", "gateway", "a", "\u00c9", "client "}
	typs   = []string{"pc", "pc", "bot", "web", "text", "irc", "registered", "", "p", "pc-"}
	langs  = []string{"", "", "en", "de", "el", "en-US", "e"}
	names  = []string{"", "Exodus 0.9.1", "Psi 0.11", "\u03a8 0.11", "a<b", "x/y", "\u540d\u524d", "Tkabber & Co", "\U0001f600"}
	feats  = []string{"http://jabber.org/protocol/caps", "http://jabber.org/protocol/disco#info", "http://jabber.org/protocol/disco#items", "http://jabber.org/protocol/muc", "urn:xmpp:ping", "urn:xmpp:time", "jabber:iq:version", "a", "ab", "a<", "a ", "A", "\u00e9", "e\u0301", "", "urn:xmpp:x", "jid\\20escaping", "Z", "\uff21"}
	ftypes = []string{"urn:xmpp:dataforms:softwareinfo", "http://jabber.org/network/serverinfo", "a", "ab", "a ", "a<", "Z", "\u00e9", "urn:x"}
	vars   = []string{"os", "os_version", "software", "software_version", "ip_version", "a", "ab", "a<", "a ", "Z", "\u00e9", "x y", "abuse-addresses", ""}
	vals   = []string{"Mac", "10.5.1", "Psi", "0.11", "ipv4", "ipv6", "", "a", "ab", "a<b", "a ", "\u00e9", "\u4e2d", "mailto:abuse@shakespeare.lit", "xmpp:abuse@shakespeare.lit", "true", "Z", "<"}
)

func pick(r *rand.Rand, l []string) string { return l[r.Intn(len(l))] }

// longTokens counts the texts of 255 bytes and more that were generated.
var longTokens atomic.Int64

// formsFromReusedFields counts the forms built from form.Field values that had
// been given to form.New before.
var formsFromReusedFields atomic.Int64

// printf verbs and other escape-ish metacharacters that must go into the
// hashed string verbatim
var spices = []string{"%", "%s", "%d", "%v", "%%", "%!", "%20", "100%", "%!s(MISSING)", "%x", "%+v", "%[1]s", "%*d", "%q", "\\", "\\n", "\t", "\n", "<", "&", "/", "'", "\"", ">", "%"}

// txt picks a text from the pool and, one time in four, inserts a
// metacharacter sequence at a random position.
func txt(r *rand.Rand, l []string) string {
	s := pick(r, l)
	if r.Intn(60) == 0 {
		// a long token: around the sizes at which small buffers overflow, and far beyond
		n := []int{255, 256, 257, 511, 512, 513, 600, 1023, 1025, 4097, 70000}[r.Intn(11)]
		s += strings.Repeat("L", n-len(s)%7)
		longTokens.Add(1)
	}
	if r.Intn(4) == 0 {
		rs := []rune(s)
		i := r.Intn(len(rs) + 1)
		s = string(rs[:i]) + pick(r, spices) + string(rs[i:])
	}
	return s
}

func genForm(r *rand.Rand, used map[string]bool) frm {
	f := frm{}
	if r.Intn(12) == 0 && !used[""] {
		used[""] = true
		return f // the empty form
	}
	nf := r.Intn(5)
	seen := map[string]bool{"FORM_TYPE": true}
	for i := 0; i < nf; i++ {
		v := txt(r, vars)
		if seen[v] {
			continue
		}
		seen[v] = true
		fd := fld{Var: v, Typ: pick(r, fieldTypes)}
		for k, n := 0, []int{0, 1, 1, 1, 2, 2, 3, 4}[r.Intn(8)]; k < n; k++ {
			fd.Vals = append(fd.Vals, txt(r, vals))
		}
		f.Fields = append(f.Fields, fd)
	}
	key := ""
	typed := r.Intn(6) != 0
	if typed {
		key = txt(r, ftypes)
	}
	if used[key] {
		// keep forms distinguishable: retry the key, else leave the form as it is
		for _, k := range ftypes {
			if !used[k] {
				key, typed = k, true
				break
			}
		}
	}
	used[key] = true
	if typed {
		ft := fld{Var: "FORM_TYPE", Typ: "hidden", Vals: []string{key}}
		i := r.Intn(len(f.Fields) + 1)
		f.Fields = append(f.Fields[:i], append([]fld{ft}, f.Fields[i:]...)...)
	}
	return f
}

func genModel(r *rand.Rand) model {
	var m model
	seen := map[[3]string]bool{}
	for i, n := 0, []int{0, 1, 1, 2, 2, 3, 4, 5, 6, 9, 17}[r.Intn(11)]; i < n; i++ {
		id := ident{txt(r, cats), txt(r, typs), txt(r, langs), txt(r, names)}
		if len(m.Idents) > 0 && r.Intn(2) == 0 {
			// share a prefix of the sort key with an earlier identity
			p := m.Idents[r.Intn(len(m.Idents))]
			id.Cat = p.Cat
			if r.Intn(2) == 0 {
				id.Typ = p.Typ
			}
		}
		k := [3]string{id.Cat, id.Typ, id.Lang}
		if seen[k] {
			continue
		}
		seen[k] = true
		m.Idents = append(m.Idents, id)
	}
	for i, n := 0, []int{0, 1, 2, 3, 4, 5, 6, 7, 8, 17, 33, 70}[r.Intn(12)]; i < n; i++ {
		m.Feats = append(m.Feats, txt(r, feats))
	}
	used := map[string]bool{}
	for i, n := 0, []int{0, 0, 1, 1, 1, 2, 2, 3}[r.Intn(8)]; i < n; i++ {
		m.Forms = append(m.Forms, genForm(r, used))
	}
	return m
}

// malform turns a well-defined model into one of the ill-formed shapes of
// XEP-0115 section 5.4 (only no-panic, Hash/AppendHash agreement and
// repeatability are demanded of those).
func malform(r *rand.Rand, m model) (model, string) {
	m = m.clone()
	if len(m.Forms) == 0 {
		m.Forms = append(m.Forms, frm{})
	}
	f := &m.Forms[r.Intn(len(m.Forms))]
	ftIdx := -1
	for i, fd := range f.Fields {
		if fd.Var == "FORM_TYPE" {
			ftIdx = i
		}
	}
	switch k := r.Intn(8); {
	case k == 0 && ftIdx >= 0:
		f.Fields[ftIdx].Typ = pick(r, []string{"text-single", "", "fixed", "boolean", "jid-single", "list-multi", "bogus"})
		return m, "FORM_TYPE-not-hidden"
	case k == 1 && ftIdx >= 0:
		f.Fields[ftIdx].Vals = append(f.Fields[ftIdx].Vals, txt(r, ftypes))
		return m, "FORM_TYPE-multi-valued"
	case k == 2 && ftIdx >= 0:
		f.Fields[ftIdx].Vals = nil
		return m, "FORM_TYPE-without-value"
	case k == 3:
		f.Fields = append(f.Fields, fld{Var: "FORM_TYPE", Typ: "hidden", Vals: []string{txt(r, ftypes)}})
		if ftIdx < 0 {
			f.Fields = append(f.Fields, fld{Var: "FORM_TYPE", Typ: "hidden", Vals: []string{txt(r, ftypes)}})
		}
		return m, "FORM_TYPE-twice"
	case k == 4 && len(f.Fields) > 0:
		d := f.Fields[r.Intn(len(f.Fields))]
		d.Vals = append([]string{txt(r, vals)}, d.Vals...)
		f.Fields = append(f.Fields, d)
		return m, "duplicate-var"
	case k == 5:
		f.Fields = nil
		return m, "emptied-form"
	case k == 6:
		f.Fields = append(f.Fields, fld{Var: "", Typ: "fixed", Vals: []string{"section"}}, fld{Var: "", Typ: "fixed", Vals: []string{"other"}})
		return m, "fixed-fields-without-var"
	default:
		if len(m.Idents) > 0 {
			m.Idents = append(m.Idents, m.Idents[0])
			m.Idents[len(m.Idents)-1].Name += "x"
			return m, "duplicate-identity-triple"
		}
		m.Forms = append(m.Forms, m.Forms[0])
		return m, "duplicate-form"
	}
}

// ---------------------------------------------------------------------------
// arrangements

func shuffled[T any](r *rand.Rand, l []T) []T {
	out := append([]T(nil), l...)
	r.Shuffle(len(out), func(i, j int) { out[i], out[j] = out[j], out[i] })
	return out
}

// orders returns the permutations of n elements to try: all of them up to
// 3! (4! in thorough), otherwise the reversal, a rotation and some samples.
func orders(r *rand.Rand, n int, thorough bool) [][]int {
	id := make([]int, n)
	for i := range id {
		id[i] = i
	}
	lim := 3
	if thorough {
		lim = 4
	}
	var out [][]int
	if n <= lim {
		var rec func(k int)
		cur := append([]int(nil), id...)
		rec = func(k int) {
			if k == n {
				out = append(out, append([]int(nil), cur...))
				return
			}
			for i := k; i < n; i++ {
				cur[k], cur[i] = cur[i], cur[k]
				rec(k + 1)
				cur[k], cur[i] = cur[i], cur[k]
			}
		}
		rec(0)
		return out[1:] // without the identity
	}
	rev := make([]int, n)
	rot := make([]int, n)
	for i := range id {
		rev[i] = n - 1 - i
		rot[i] = (i + 1) % n
	}
	out = append(out, rev, rot)
	for k := 0; k < 3; k++ {
		out = append(out, shuffled(r, id))
	}
	return out
}

func permute[T any](l []T, p []int) []T {
	out := make([]T, len(l))
	for i, j := range p {
		out[i] = l[j]
	}
	return out
}

// sorted returns the canonical arrangement of m (every list in octet order).
func sorted(m model) model {
	m = m.clone()
	sort.SliceStable(m.Idents, func(a, b int) bool {
		x, y := m.Idents[a], m.Idents[b]
		if x.Cat != y.Cat {
			return x.Cat < y.Cat
		}
		if x.Typ != y.Typ {
			return x.Typ < y.Typ
		}
		if x.Lang != y.Lang {
			return x.Lang < y.Lang
		}
		return x.Name < y.Name
	})
	sort.Strings(m.Feats)
	ft := func(f frm) string { v, _, _ := f.formType(); return v }
	sort.SliceStable(m.Forms, func(a, b int) bool { return ft(m.Forms[a]) < ft(m.Forms[b]) })
	for _, f := range m.Forms {
		sort.SliceStable(f.Fields, func(a, b int) bool { return f.Fields[a].Var < f.Fields[b].Var })
		for _, fd := range f.Fields {
			if fd.Var != "FORM_TYPE" {
				sort.Strings(fd.Vals)
			}
		}
	}
	return m
}

// ---------------------------------------------------------------------------
// the monitor

type tcase struct {
	Hash        string `json:"hash"`
	Route       string `json:"route"` // "direct" | "unmarshalled"
	Arrangement string `json:"arrangement"`
	Value       model  `json:"value"`
	Document    string `json:"document,omitempty"`
	Malformed   string `json:"malformed,omitempty"`
}

type mon struct {
	c    *core.Case
	hh   crypto.Hash      // the library's value, obtained the way its users obtain it
	ref  func() hash.Hash // reference constructor for the same algorithm name
	dead bool             // a panic was reported
}

// A defect that is present fails in a large share of the cases; a child
// process reports each class key a few times and counts the rest, so that the
// run stays within its budget (a replay runs in a fresh process and always
// reports).
var (
	reportedMu sync.Mutex
	reported   = map[string]int{}
)

const maxReportsPerKey = 5

func (mo *mon) violate(key, format string, a ...any) {
	reportedMu.Lock()
	n := reported[key]
	reported[key]++
	reportedMu.Unlock()
	if n >= maxReportsPerKey {
		mo.c.Count("violations_counted_not_reported", 1)
		return
	}
	mo.c.Violate(key, format, a...)
}

// guard is core.Case.Guard with the same class keys, routed through violate.
func (mo *mon) guard(where string, f func()) (panicked bool) {
	defer func() {
		if r := recover(); r != nil {
			panicked = true
			st := string(debug.Stack())
			mo.violate(core.PanicKey(where, r, st), "panic in %s: %v\n%s", where, r, core.TrimStack(st))
		}
	}()
	f()
	return false
}

// hashOf computes the verification string of a real value through Hash, and
// checks AppendHash with empty destinations and repeatability on the way.
func (mo *mon) hashOf(v disco.Info, s tcase) (string, bool) {
	c := mo.c
	c.Sample(s)
	var h1, h2 string
	var a1, a2, a3 []byte
	if mo.guard("disco.Info.Hash", func() {
		h1 = v.Hash(mo.hh.New())
		h2 = v.Hash(mo.hh.New())
	}) {
		mo.dead = true
		return "", false
	}
	c.Count("hash_calls", 2)
	good := true
	if h2 != h1 {
		// the computation changed the value it was given in a way that shows
		good = false
		mo.violate("caps:repeat", "%s: Hash of the same value gives %q and then %q on %+v", mo.hh, h1, h2, s.Value)
		return h1, false
	}
	if mo.guard("disco.Info.AppendHash", func() {
		a1 = v.AppendHash(nil, mo.hh.New())
		a2 = v.AppendHash([]byte{}, mo.hh.New())
		a3 = v.AppendHash(make([]byte, 0, 128), mo.hh.New())
	}) {
		mo.dead = true
		return "", false
	}
	c.Count("appendhash_calls", 3)
	if string(a1) != h1 || string(a2) != h1 || string(a3) != h1 {
		good = false
		mo.violate("caps:append", "%s: Hash = %q but AppendHash(nil) = %q, AppendHash([]byte{}) = %q, AppendHash(make([]byte,0,128)) = %q on %+v", mo.hh, h1, a1, a2, a3, s.Value)
	}
	if want := base64.StdEncoding.EncodedLen(mo.hh.Size()); len(h1) != want {
		good = false
		mo.violate("caps:length", "%s: verification string %q has %d characters, a %d-byte digest needs %d", mo.hh, h1, len(h1), mo.hh.Size(), want)
	}
	return h1, good
}

func (mo *mon) unmarshal(doc string) (disco.Info, bool) {
	var v disco.Info
	var err error
	if mo.guard("xml.Unmarshal(disco.Info)", func() { err = xml.Unmarshal([]byte(doc), &v) }) {
		mo.dead = true
		return v, false
	}
	if err != nil {
		mo.c.Count("unmarshal_errors", 1)
		return v, false
	}
	return v, true
}

func shapeOf(m model) string {
	var b strings.Builder
	fmt.Fprintf(&b, "i%d f%d", len(m.Idents), min(len(m.Feats), 4))
	for _, f := range m.Forms {
		_, _, absent := f.formType()
		mv := 0
		for _, fd := range f.Fields {
			mv = max(mv, len(fd.Vals))
		}
		t := "T"
		if absent {
			t = "-"
		}
		fmt.Fprintf(&b, " x%s%d.%d", t, len(f.Fields), min(mv, 3))
	}
	return b.String()
}

func run(c *core.Case) {
	lt0, fr0 := longTokens.Load(), formsFromReusedFields.Load()
	defer func() {
		c.Count("texts_of_255_bytes_and_more", int(longTokens.Load()-lt0))
		c.Count("forms_built_from_fields_given_to_form_New_before", int(formsFromReusedFields.Load()-fr0))
	}()
	r := c.Rand
	thorough := c.Tier == "thorough"
	if !referenceSelfTest() {
		c.Count("reference_selftest_failed", 1)
		return
	}
	for _, a := range algos {
		if a.ref() == nil {
			c.Count("hash_not_linked:"+a.name, 1)
		}
	}
	as := linked()
	mo := obtainHash(c, r, as[r.Intn(len(as))])
	if mo == nil {
		return
	}

	// one case in ten hashes from several goroutines at once (concurrent.go)
	if r.Intn(10) == 0 {
		mo.concurrentCase(r)
		return
	}

	gen := genModel(r)
	if r.Intn(6) == 0 {
		mal, what := malform(r, gen)
		mo.malformed(r, mal, what)
		return
	}
	ok, allTyped := gen.wellDefined()
	if !ok {
		// the generator keeps values well defined; be safe
		mo.malformed(r, gen, "generator")
		return
	}
	c.Count("values", 1)
	c.Sig("%s", shapeOf(gen))
	countPercent(c, gen)
	if len(gen.Forms) >= 2 {
		c.Count("values_with_two_or_more_forms", 1)
	}
	nonASCII := false
	for _, f := range gen.Forms {
		if len(f.Fields) == 0 {
			c.Count("empty_forms", 1)
		}
		if _, _, absent := f.formType(); absent {
			c.Count("forms_without_FORM_TYPE", 1)
		} else {
			c.Count("forms_with_FORM_TYPE", 1)
		}
		for _, fd := range f.Fields {
			if len(fd.Vals) > 1 && fd.Var != "FORM_TYPE" {
				c.Count("multi_valued_fields", 1)
			}
		}
	}
	for _, s := range refString(gen) {
		if s >= 0x80 {
			nonASCII = true
		}
	}
	if nonASCII {
		c.Count("values_with_non_ascii_text", 1)
	}

	base := sorted(gen)
	h0, alive := mo.hashOf(direct(base), tcase{Hash: mo.hh.String(), Route: "direct", Arrangement: "every list in octet order", Value: base})
	if !alive {
		return
	}

	// the construction of XEP-0115 5.1; a form without a FORM_TYPE field
	// contributes the empty FORM_TYPE value and its '<' (step 7.1 is taken for
	// every form), so a form without any fields contributes exactly "<"
	{
		c.Count("reference_comparisons", 1)
		if !allTyped {
			c.Count("reference_comparisons_with_a_form_without_FORM_TYPE", 1)
		}
		for _, f := range gen.Forms {
			if len(f.Fields) == 0 {
				c.Count("reference_comparisons_with_a_form_without_fields", 1)
				break
			}
		}
		if want := refHash(gen, mo.ref()); h0 != want {
			mo.violate("caps:ref", "%s: Hash = %q on the value with every list already in order, XEP-0115 5.1 gives %q for S = %q; value %+v", mo.hh, h0, want, refString(gen), base)
			return
		}
	}

	// one list permuted at a time from the ordered arrangement; a list whose
	// order matters is reported once and left in order afterwards, so that one
	// root cause is not reported again under another name
	failed := map[string]bool{}
	try := func(list string, arr model, what string) bool {
		if failed[list] {
			return true
		}
		h, alive := mo.hashOf(direct(arr), tcase{Hash: mo.hh.String(), Route: "direct", Arrangement: what, Value: arr})
		if !alive {
			return false
		}
		c.Count("permutations_"+list, 1)
		if h != h0 {
			failed[list] = true
			mo.violate("caps:perm:"+list, "%s: Hash = %q with %s, %q with every list in order; permuted value %+v", mo.hh, h, what, h0, arr)
		}
		return true
	}
	for _, p := range orders(r, len(base.Idents), thorough) {
		a := base.clone()
		a.Idents = permute(base.Idents, p)
		if !try("identities", a, fmt.Sprintf("identities in order %v", p)) {
			return
		}
	}
	for _, p := range orders(r, len(base.Feats), thorough) {
		a := base.clone()
		a.Feats = permute(base.Feats, p)
		if !try("features", a, fmt.Sprintf("features in order %v", p)) {
			return
		}
	}
	for _, p := range orders(r, len(base.Forms), thorough) {
		a := base.clone()
		a.Forms = permute(a.Forms, p)
		if !try("forms", a, fmt.Sprintf("forms in order %v", p)) {
			return
		}
	}
	for fi := range base.Forms {
		for _, p := range orders(r, len(base.Forms[fi].Fields), thorough) {
			a := base.clone()
			a.Forms[fi].Fields = permute(a.Forms[fi].Fields, p)
			if !try("fields", a, fmt.Sprintf("fields of form %d in order %v", fi, p)) {
				return
			}
		}
		for di, fd := range base.Forms[fi].Fields {
			if fd.Var == "FORM_TYPE" || len(fd.Vals) < 2 {
				continue
			}
			for _, p := range orders(r, len(fd.Vals), thorough) {
				a := base.clone()
				a.Forms[fi].Fields[di].Vals = permute(fd.Vals, p)
				if !try("values", a, fmt.Sprintf("values of field %q of form %d in order %v", fd.Var, fi, p)) {
					return
				}
			}
		}
	}

	// zero, one and two forms without fields: each is one more "<" in S, built
	// directly and decoded (identical forms cannot be told apart, so their order
	// does not matter)
	if len(failed) == 0 && r.Intn(3) == 0 {
		var rest model = gen.clone()
		rest.Forms = nil
		for _, f := range gen.Forms {
			if len(f.Fields) > 0 {
				rest.Forms = append(rest.Forms, f)
			}
		}
		seen := map[string]int{}
		for k := 0; k <= 2; k++ {
			m := rest.clone()
			for i := 0; i < k; i++ {
				m.Forms = append(m.Forms, frm{})
			}
			m.Forms = shuffled(r, m.Forms)
			want := refHash(m, mo.ref())
			c.Count("empty_form_count_comparisons", 1)
			vals := []disco.Info{direct(m)}
			routes := []string{"direct"}
			doc := document(m, r, false)
			if v, ok := mo.unmarshal(doc); ok {
				vals, routes = append(vals, v), append(routes, "unmarshalled")
			}
			if mo.dead {
				return
			}
			for i, v := range vals {
				h, alive := mo.hashOf(v, tcase{Hash: mo.hh.String(), Route: routes[i], Arrangement: fmt.Sprintf("%d forms without fields added", k), Value: m, Document: doc})
				if !alive {
					return
				}
				if h != want {
					mo.violate("caps:ref:forms-without-fields", "%s: Hash = %q on the %s value with %d forms without fields, XEP-0115 5.1 gives %q for S = %q; value %+v", mo.hh, h, routes[i], k, want, refString(m), m)
					return
				}
				seen[h]++
			}
		}
		if len(seen) != 3 {
			mo.violate("caps:ref:forms-without-fields", "%s: the values with zero, one and two forms without fields have only %d different verification strings; value %+v", mo.hh, len(seen), rest)
			return
		}
	}

	// lifetime sequences (lifetime.go): built directly and decoded
	if len(failed) == 0 {
		a := gen.clone()
		a.Feats = shuffled(r, a.Feats)
		want := refHash(gen, mo.ref())
		if !mo.lifetime(r, direct(a), a, "directly built", want, true) {
			return
		}
		doc := document(a, r, false)
		if v, ok := mo.unmarshal(doc); ok && sameContent(extract(v), a) {
			c.Count("lifetime_sequences_on_decoded_values", 1)
			if !mo.lifetime(r, v, a, "decoded", want, true) {
				return
			}
		}
		if mo.dead {
			return
		}
	}

	// views of shared arrays (shared.go)
	if len(failed) == 0 && !mo.sharing(r, gen) {
		return
	}

	// everything shuffled at once, built directly and decoded from a document
	for k := 0; k < 2; k++ {
		a := base.clone()
		sh := func(list string) bool { return !failed[list] }
		if sh("identities") {
			a.Idents = shuffled(r, a.Idents)
		}
		if sh("features") {
			a.Feats = shuffled(r, a.Feats)
		}
		if sh("forms") {
			a.Forms = shuffled(r, a.Forms)
		}
		for fi := range a.Forms {
			if sh("fields") {
				a.Forms[fi].Fields = shuffled(r, a.Forms[fi].Fields)
			}
			for di := range a.Forms[fi].Fields {
				if sh("values") && a.Forms[fi].Fields[di].Var != "FORM_TYPE" {
					a.Forms[fi].Fields[di].Vals = shuffled(r, a.Forms[fi].Fields[di].Vals)
				}
			}
		}
		hd, alive := mo.hashOf(direct(a), tcase{Hash: mo.hh.String(), Route: "direct", Arrangement: "every list shuffled", Value: a})
		if !alive {
			return
		}
		c.Count("permutations_combined", 1)
		if hd != h0 {
			mo.violate("caps:perm:combined", "%s: Hash = %q with every list shuffled, %q with every list in order, although no single-list permutation changed it; shuffled value %+v", mo.hh, hd, h0, a)
			return
		}
		doc := document(a, r, k > 0)
		raw, rerr := rawModel(doc)
		if rerr != nil || !sameContent(raw, a) {
			// the harness's own writer and reader disagree: nothing can be said
			c.Count("harness_document_does_not_read_back", 1)
			continue
		}
		emptyValue := false
		for _, f := range raw.Forms {
			for _, fd := range f.Fields {
				for _, val := range fd.Vals {
					if val == "" && fd.Var != "FORM_TYPE" {
						emptyValue = true
					}
				}
			}
		}
		// the decode paths: xml.Unmarshal of the peer's bytes and, for a share of
		// the cases, disco.GetInfo on a session whose peer sends them
		routes := []string{"unmarshalled"}
		if r.Intn(12) == 0 {
			routes = append(routes, "GetInfo")
		}
		for _, route := range routes {
			var v disco.Info
			var ok bool
			if route == "GetInfo" {
				v, ok = mo.viaGetInfo(doc)
			} else {
				v, ok = mo.unmarshal(doc)
			}
			if mo.dead {
				return
			}
			if !ok {
				continue
			}
			if !sameContent(extract(v), a) {
				// noted, and judged below by what it does to the verification string
				c.Count("decoded_content_differs_from_document", 1)
			}
			if route == "GetInfo" {
				c.Count("values_from_GetInfo", 1)
			} else {
				c.Count("values_unmarshalled", 1)
			}
			if emptyValue {
				c.Count("decoded_values_with_an_empty_value", 1)
			}
			hu, alive := mo.hashOf(v, tcase{Hash: mo.hh.String(), Route: route, Arrangement: "every list shuffled", Value: a, Document: doc})
			if !alive {
				return
			}
			// the peer's reply against XEP-0115 5.1 computed from the raw document
			{
				c.Count("reference_comparisons_decoded", 1)
				for _, f := range raw.Forms {
					if len(f.Fields) == 0 {
						c.Count("reference_comparisons_decoded_with_a_form_without_fields", 1)
						break
					}
				}
				if want := refHash(raw, mo.ref()); hu != want {
					cause := "other"
					if emptyValue {
						cause = "empty-value"
					}
					mo.violate("caps:ref:decoded:"+cause, "%s: Hash = %q on the value obtained by %s from %s, XEP-0115 5.1 on that document gives %q (S = %q); decoded content read back through the accessors: %+v", mo.hh, hu, route, doc, want, refString(raw), extract(v))
					return
				}
			}
			if hu != hd {
				cause := "other"
				if emptyValue {
					cause = "empty-value"
				}
				mo.violate("caps:unmarshalled:"+cause, "%s: Hash = %q on the value obtained by %s from %s but %q on the same content built directly; decoded content read back through the accessors: %+v", mo.hh, hu, route, doc, hd, extract(v))
				return
			}
		}
	}
}

// malformed: ill-formed shapes get no-panic, Hash/AppendHash agreement and
// repeatability only, directly built and decoded.
func (mo *mon) malformed(r *rand.Rand, m model, what string) {
	c := mo.c
	c.Count("malformed_values", 1)
	c.Count("malformed:"+what, 1)
	c.Sig("malformed:%s", what)
	if _, alive := mo.hashOf(direct(m), tcase{Hash: mo.hh.String(), Route: "direct", Arrangement: "as generated", Value: m, Malformed: what}); !alive {
		return
	}
	doc := document(m, r, true)
	v, ok := mo.unmarshal(doc)
	if !ok {
		return
	}
	c.Count("malformed_values_unmarshalled", 1)
	mo.hashOf(v, tcase{Hash: mo.hh.String(), Route: "unmarshalled", Arrangement: "as generated", Value: m, Document: doc, Malformed: what})
}

// witnesses

func witness(m model, viaDoc bool, check func(c *core.Case, mo *mon)) func(*core.Case) {
	return func(c *core.Case) {
		mo := &mon{c: c, hh: crypto.SHA1, ref: sha1.New}
		if viaDoc {
			doc := document(m, c.Rand, false)
			v, ok := mo.unmarshal(doc)
			if !ok {
				return
			}
			mo.hashOf(v, tcase{Hash: "sha-1", Route: "unmarshalled", Arrangement: "as written", Value: m, Document: doc})
			return
		}
		check(c, mo)
	}
}

var twoForms = model{
	Idents: []ident{{"client", "pc", "", "x"}},
	Feats:  []string{"a"},
	Forms: []frm{
		{Fields: []fld{{"FORM_TYPE", "hidden", []string{"a"}}, {"os", "text-single", []string{"Mac"}}}},
		{Fields: []fld{{"FORM_TYPE", "hidden", []string{"b"}}, {"os", "text-single", []string{"Mac"}}}},
	},
}

func witnessForms(c *core.Case, mo *mon) {
	a := twoForms.clone()
	h0, alive := mo.hashOf(direct(a), tcase{Hash: "sha-1", Route: "direct", Arrangement: "forms a, b", Value: a})
	if !alive {
		return
	}
	b := twoForms.clone()
	b.Forms[0], b.Forms[1] = b.Forms[1], b.Forms[0]
	h1, alive := mo.hashOf(direct(b), tcase{Hash: "sha-1", Route: "direct", Arrangement: "forms b, a", Value: b})
	if !alive {
		return
	}
	if h0 != h1 {
		mo.violate("caps:perm:forms", "sha-1: Hash = %q with forms in order [1 0], %q with forms in order; value %+v", h1, h0, b)
	}
}

// Prop returns the C20 check.
func Prop() *core.Prop {
	req := []string{
		"values", "values_with_two_or_more_forms", "empty_forms", "forms_without_FORM_TYPE", "forms_with_FORM_TYPE", "multi_valued_fields",
		"values_with_non_ascii_text", "reference_comparisons", "permutations_identities", "permutations_features", "permutations_forms",
		"permutations_fields", "permutations_values", "permutations_combined", "values_unmarshalled", "values_from_GetInfo", "decoded_values_with_an_empty_value", "reference_comparisons_decoded", "malformed_values", "malformed_values_unmarshalled",
		"hash_calls", "appendhash_calls",
		"reference_comparisons_with_a_form_without_FORM_TYPE", "reference_comparisons_with_a_form_without_fields", "reference_comparisons_decoded_with_a_form_without_fields",
		"empty_form_count_comparisons",
		"lifetime_sequences", "lifetime_sequences_on_decoded_values", "lifetime_sequences_with_empty_value_before_nonempty_value", "lifetime_ops",
		"lifetime_op_xml.Marshal", "lifetime_op_Info.TokenReader", "lifetime_op_Info.WriteXML", "lifetime_op_copy", "lifetime_op_form.Data.TokenReader", "lifetime_op_form.Data.Submit", "lifetime_op_xml.Marshal(form)", "lifetime_op_form.Data.accessors",
		"shared_backing_sequences", "shared_backing_sequences_with_unsorted_shared_features", "shared_view_hashes", "caller_visible_rechecks", "concurrent_shared_value_hashes", "concurrent_shared_view_hashes",
		"concurrent_cases", "concurrent_hashes", "concurrent_cases_with_overlapping_goroutines", "concurrent_cases_with_4_or_more_goroutines_at_once", "concurrent_cases_with_gomaxprocs_ge_4",
	}
	for _, a := range linked() {
		req = append(req, "hash:"+a.name, "hash_function_checks:"+a.name)
	}
	req = append(req, "hash_obtained_from:constant", "hash_obtained_from:crypto.Parse", "hash_obtained_from:caps-element",
		"percent_in_identity_category", "percent_in_identity_type", "percent_in_identity_lang", "percent_in_identity_name",
		"percent_in_feature", "percent_in_form_type", "percent_in_field_var", "percent_in_field_value")
	return &core.Prop{
		ID:            "C20",
		Level:         core.Exploration,
		Race:          true,
		ReplayRepeats: 20,
		Rule:          "each case is one PRNG disco#info value: 0-4 identities distinct in (category, type, lang) that often share key prefixes, 0-8 features (duplicates, prefixes of one another, '<', non-ASCII, empty), 0-3 forms distinguishable by FORM_TYPE (about 1 in 6 without FORM_TYPE, 1 in 12 empty) with 0-4 distinctly named fields of every field type and 0-4 values; one hash function per case drawn from the linked functions of crypto's list, obtained from the library by one of three routes and first checked against the reference constructor on fixed probes; one text in four carries a printf verb or another metacharacter (%, %s, %d, %v, %%, %!, %20, backslash, tab, newline, <, &, /, quotes) at a random position. From the arrangement with every list in octet order the monitor compares Hash with an independent XEP-0115 5.1 implementation (values whose forms all carry FORM_TYPE), then permutes one list at a time (all permutations up to 3 elements, 4 in thorough; reversal, rotation and 3 samples beyond), then shuffles everything, building the value directly and by decoding a generated <query/> document with interleaved children; every Hash call is accompanied by AppendHash with three empty destinations and a repeated Hash. One case in six is an ill-formed shape of XEP-0115 5.4 (FORM_TYPE not hidden / multi-valued / valueless / twice, duplicate var, fixed fields without var, duplicate identity key, duplicate form) for which only no panic, Hash = AppendHash and repeatability are demanded. distinct = distinct value shapes (identities, features<=4, per form: FORM_TYPE present, fields, max values).",
		Assumptions: []string{
			"the reference implementation in props/c20 is XEP-0115 5.1 with i;octet ordering; it reproduces the two worked examples of the XEP (checked at start-up, otherwise the run is inconclusive)",
			"permutation invariance is demanded of values that are sets: identities distinct in (category, type, lang), field names distinct inside a form, FORM_TYPE hidden and single-valued or absent, forms pairwise distinguishable by FORM_TYPE; the values of a FORM_TYPE field are never permuted",
			"XEP-0115 5.1 step 7.1 (append the FORM_TYPE value and '<') is taken for every form; a form without a FORM_TYPE field has the empty value, so a form without fields contributes exactly \"<\" and zero, one and two such forms hash differently",
			"a fresh hash.Hash is passed to every call; a destination is 'empty' when its length is 0 (nil, []byte{}, or spare capacity only)",
			"the library side always gets its hash.Hash from the library (crypto.Hash.New on a value obtained from the exported constant, crypto.Parse or a decoded <c hash=.../> element); the reference side picks its constructor by algorithm name without the library: crypto/sha1, crypto/sha256 and crypto/sha512 directly, and for sha3 the implementation the Go distribution registers with crypto.RegisterHash",
			"hash functions covered are the seven that are linked into the harness without changing harness/go.mod (sha-1, sha-224, sha-256, sha-384, sha-512, sha3-256, sha3-512); blake2b256/blake2b512 need golang.org/x/crypto as a direct and golang.org/x/sys as an indirect requirement of the harness module (build tag verif_xcrypto links them) and are counted as hash_not_linked",
		},
		Cases: func(tier string) int {
			if tier == "thorough" {
				return 400000
			}
			return 5000
		},
		Run: run,
		Witnesses: map[string]func(*core.Case){
			"panic:disco.Info.AppendHash:makeslice": witness(model{Feats: []string{"a"}, Forms: []frm{{}}}, true, nil),
			"caps:perm:forms":                       witness(twoForms, false, witnessForms),
		},
		Require: req,
	}
}
