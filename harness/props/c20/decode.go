package c20

import (
	"context"
	"encoding/xml"
	"io"
	"strings"
	"time"

	"mellium.im/xmpp/disco"
	"mellium.im/xmpp/jid"
	"mellium.im/xmpp/verifharness/sess"
	"mellium.im/xmpp/verifharness/xmltree"
)

// rawModel reads a disco#info <query/> document with a plain encoding/xml
// token walk (no library code): the content a peer put on the wire, from which
// the XEP-0115 5.1 reference is computed for values that come from the decode
// path.  Every <value/> child of a field counts, empty or not.
func rawModel(doc string) (model, error) {
	var m model
	d := xml.NewDecoder(strings.NewReader(doc))
	depth := 0
	var curForm *frm
	var curField *fld
	inValue := false
	var text strings.Builder
	attr := func(se xml.StartElement, space, local string) string {
		for _, a := range se.Attr {
			if a.Name.Local == local && a.Name.Space == space {
				return a.Value
			}
		}
		return ""
	}
	for {
		tok, err := d.Token()
		if err == io.EOF {
			return m, nil
		}
		if err != nil {
			return m, err
		}
		switch t := tok.(type) {
		case xml.StartElement:
			depth++
			switch {
			case depth == 2 && t.Name.Local == "identity":
				m.Idents = append(m.Idents, ident{attr(t, "", "category"), attr(t, "", "type"), attr(t, "http://www.w3.org/XML/1998/namespace", "lang"), attr(t, "", "name")})
			case depth == 2 && t.Name.Local == "feature":
				m.Feats = append(m.Feats, attr(t, "", "var"))
			case depth == 2 && t.Name.Local == "x" && t.Name.Space == "jabber:x:data":
				m.Forms = append(m.Forms, frm{})
				curForm = &m.Forms[len(m.Forms)-1]
			case depth == 3 && curForm != nil && t.Name.Local == "field":
				curForm.Fields = append(curForm.Fields, fld{Var: attr(t, "", "var"), Typ: attr(t, "", "type")})
				curField = &curForm.Fields[len(curForm.Fields)-1]
			case depth == 4 && curField != nil && t.Name.Local == "value":
				inValue = true
				text.Reset()
			}
		case xml.CharData:
			if inValue && depth == 4 {
				text.Write(t)
			}
		case xml.EndElement:
			switch {
			case depth == 4 && inValue:
				curField.Vals = append(curField.Vals, text.String())
				inValue = false
			case depth == 3:
				curField = nil
			case depth == 2:
				curForm = nil
			}
			depth--
		}
	}
}

// viaGetInfo obtains the value the way an application does: disco.GetInfo on
// a Ready session whose raw peer answers the query with doc.  ok is false when
// the exchange did not complete (never a verdict).
func (mo *mon) viaGetInfo(doc string) (v disco.Info, ok bool) {
	c := mo.c
	p, err := sess.NewPair(sess.Opts{})
	if err != nil {
		c.Count("getinfo_setup_failed", 1)
		return v, false
	}
	served := make(chan struct{})
	go func() {
		defer close(served)
		p.S.Serve(nil)
	}()
	loop := sess.RunPeerLoop(p.Peer, func(n *xmltree.Node) {
		if n.Name.Local == "iq" && n.Attr("type") == "get" {
			p.Send("<iq type='result' id='" + esc(n.Attr("id")) + "' from='example.net' to='me@example.net/lib'>" + doc + "</iq>")
		}
	})
	ctx, cancel := context.WithTimeout(context.Background(), 20*time.Second)
	defer cancel()
	var gerr error
	if mo.guard("disco.GetInfo", func() { v, gerr = disco.GetInfo(ctx, "", jid.MustParse("example.net"), p.S) }) {
		mo.dead = true
	}
	p.ClosePeer()
	p.S.Close()
	select {
	case <-served:
	case <-time.After(5 * time.Second):
	}
	p.Peer.Close()
	p.Lib.Close()
	select {
	case <-loop.Done():
	case <-time.After(5 * time.Second):
	}
	if mo.dead {
		return v, false
	}
	if gerr != nil {
		c.Count("getinfo_errors", 1)
		return v, false
	}
	return v, true
}
