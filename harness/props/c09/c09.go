// Package c09 monitors that no peer input can panic or wedge the library.
//
// Workload 1 serves a session whose multiplexer carries every extension
// handler the library ships (ibb, history, receipts, muc client and invites,
// disco and caps, roster, blocklist, carbons, xtime, version, ping, bin) with a
// cooperative application around it, and feeds it canonical stanzas of each
// handler's XEP under structural and byte-level mutations, in sequences that
// build handler state first.  Workload 2 calls every request helper that parses
// a peer's reply against a peer that answers the request with a canonical,
// error, mutated or unroutable reply.
//
// Oracle: recover around Serve and around every application-side call (child
// deaths are classified by the engine), the stall rule for Serve once the input
// has ended (and for a helper once its context was cancelled), and "Serve
// returned nil although a complete stanza was still unread and the peer never
// closed the stream".
package c09

import (
	"io"
	"os"

	"mellium.im/xmpp/verifharness/core"
)

var logw io.Writer = os.Stderr

// split of the case index space: out of every 23 cases 20 are workload 1 and 3
// are workload 2 (20 000 + 3 000 quick, 1 000 000 + 150 000 thorough).
const (
	period = 23
	w1per  = 20
)

func run(c *core.Case) {
	if poisoned.Load() {
		// a library goroutine of an earlier case of this child spins on a CPU
		c.Count("skipped_after_spinning_goroutine", 1)
		return
	}
	if c.Index%250 == 123 {
		runShared(c)
		return
	}
	block, off := c.Index/period, c.Index%period
	if off < w1per {
		runScript(c, genScript(c.Rand, block*w1per+off))
		return
	}
	runHelperCase(c, genHelperCase(c.Rand, block*(period-w1per)+off-w1per))
}

// Prop returns the C09 check.
func Prop() *core.Prop {
	req := []string{"shared_mux_cases", "shared_mux_requests_answered", "w1_cases", "w2_cases", "serve_returned_error", "serve_returned_nil", "sentinels_answered", "w1_mutated_cases",
		"h_ping", "h_time", "h_version", "h_disco_info", "h_disco_items", "h_roster", "h_block_list", "h_block", "h_unblock", "h_bob",
		"h_ibb_open", "h_ibb_data", "h_ibb_close", "h_ibb_refused", "h_ibb_bytes", "h_receipts_request", "h_receipts_received",
		"h_history_inner", "h_history_tracked", "h_muc_invite", "h_muc_direct_invite", "h_muc_presence", "h_muc_join", "h_carbons", "h_caps",
		"w2_helper_returned_value", "w2_helper_returned_error",
		// the application closes its output stream in mid-session and the peer keeps sending
		"w1_local_close_cases", "stanzas_sent_after_local_close", "serve_returned_error_after_local_close",
		// replies delivered in pieces with the call's context cancelled before / between / after them
		"reply_split_deliveries", "reply_cancel_before_first_piece", "reply_split_cancel_between_pieces", "reply_cancel_after_last_piece",
		"reply_split_call_returned_on_cancel",
		// consumers that close an iterator before its end (tracked history query: also while a result is in flight)
		// the application closes an IBB stream and that Close fails; the peer goes on naming the stream
		"ibb_local_close_failed", "ibb_packets_answered_after_failed_local_close", "ibb_deadline_armed_with_data_buffered",
		// a stream opened to a listener nobody accepts from, released by the application closing the listener
		"ibb_second_listener", "stanza_left_waiting_for_the_application", "ibb_unaccepting_listener_closed",
		// error payloads with several <text/> children (empty first, filled later), shuffled children, 0 or several conditions
		"reply_err-texts", "reply_err-first-text-empty", "reply_err-shuffled", "reply_err-conditions-not-one",
		// the context of a request cancelled from inside the library's yield points
		"hook_cancel_armed:serve.handoff", "hook_cancel_armed:serve.lookup", "hook_cancel_armed:req.wait", "hook_cancel_armed:req.done",
		// handlers with their optional callbacks unset, fed the payloads they route
		"w1_nil_callback_cases", "w1_nil_callback_cases:muc-invite", "w1_nil_callback_cases:muc-direct-invite", "w1_nil_callback_cases:muc-room",
		"w1_nil_callback_cases:receipts-received", "w1_nil_callback_cases:mam-untracked", "w1_nil_callback_cases:block", "w1_nil_callback_cases:unblock",
		"w1_nil_callback_cases:block-list", "w1_nil_callback_cases:time", "w1_nil_callback_cases:bob",
		// transport faults: failing writes with replies that fill the output buffer, failing reads of every shape, read deadline
		"fault_armed:write-fail", "fault_armed:write-break", "fault_armed:read-timeout", "fault_armed:read-timeout-wrapped",
		"fault_armed:read-temporary", "fault_armed:read-plain", "fault_armed:read-deadline", "fault_with_close_deadline",
		// list replies with empty / payload-less / text-only / foreign entries
		"reply_degenerate-entries", "mut_entry-degenerate",
		"history_iter_closed_early", "history_iter_closed_early_with_result_in_flight", "history_iter_early_close_returned", "iter_closed_early"}
	for _, h := range helpers {
		req = append(req, "helper_value:"+h.name)
		if h.name != "history.Handler.Fetch" { // its iterator has no way to report an error (Iter.err is never set)
			req = append(req, "helper_error:"+h.name)
		}
	}
	return &core.Prop{
		ID:    "C09",
		Level: core.Exploration,
		Race:  os.Getenv("C09_RACE") != "0", // race detector on (it found the history iterator's shared stream); C09_RACE=0 turns it off
		Rule:  "case i is workload 1 (20 of every 23) or workload 2 (3 of every 23); one case in 250 is workload 3 instead: 2-4 sessions served at once through ONE mux.ServeMux value carrying the responders that keep no per-session state (disco, version, ping, entity time, blocking), every peer sending 30-70 requests at the same time: no panic or fatal runtime error, every Serve returns nil, every request answered once on its own session. Workload 1: grammar rule i mod 27 (one per handler namespace plus plain and stream-level material) gives canonical stanzas and application actions (tracked history query, receipt-requesting send, MUC join/leave, outgoing IBB stream); from the second round on 1-3 structural mutations (22 kinds) or a byte-level mutation (6 kinds) hit the rule's stanzas, from the third round canonical stanzas of other rules are put before/after; a sentinel ping follows every peer write; delivery is step-by-step or in one burst; the input ends with a closing tag or a bare EOF. In one case of eight (from the second round) the application calls Session.Close at a PRNG-chosen point and the peer keeps sending (with or without sentinels) before it ends the stream; a third of the replies to application calls (MUC join/leave, receipts, ibb.Open, tracked history query) are delivered in 2-3 pieces cut at PRNG-chosen offsets (half of the time right after the start tag) with the call's context cancelled before, between or after the pieces. A third of the tracked history consumers close their iterator after 0-2 results, waiting (bounded) until a further result is in flight; no consumer ever just stops reading without closing. Workload 2 (a quarter of the cases from the second round: iterator-style helpers are closed after 0-2 items without reading the rest): helper i mod 46 against a peer that answers its k-th request with a canonical / error / mutated / byte-mutated / unroutable reply, 40% of them (from the second round) delivered in pieces with the helper's context cancelled before / between / after the pieces. Signature = (rule, mutation kinds, Serve outcome) or (helper, reply classes, helper outcome).",
		Assumptions: []string{
			"the application side is cooperative: it accepts and drains IBB streams, consumes iterators, never blocks in a callback, cancels its contexts once Serve has returned",
			"the tracked-history consumer reads every token of Iter.Current() in a third of the cases (on another goroutine than Serve, as the API intends)",
			"replies to application-side IBB data writes are well-formed and routable (Conn.Write has no context to cancel)",
			"a stall verdict needs the Serve goroutine (or a cancelled helper call) parked at the same library frame in a channel/select/mutex wait in three samples while no goroutine is in a transport read",
		},
		Cases: func(tier string) int {
			if tier == "thorough" {
				return 460000
			}
			return 23000
		},
		Run:        run,
		Witnesses:  witnesses(),
		Require:    req,
		Exhaustive: func(string) bool { return false },
	}
}
