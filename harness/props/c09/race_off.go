//go:build !race

package c09

const raceBuild = false
