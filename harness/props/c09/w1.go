package c09

import (
	"context"
	"errors"
	"fmt"
	"math/rand"
	"net"
	"os"
	"regexp"
	"sort"
	"strconv"
	"strings"
	"time"

	"mellium.im/xmpp/history"
	"mellium.im/xmpp/ibb"
	"mellium.im/xmpp/jid"
	"mellium.im/xmpp/stanza"

	"mellium.im/xmpp/verifharness/bufconn"
	"mellium.im/xmpp/verifharness/core"
	"mellium.im/xmpp/verifharness/sess"
	"mellium.im/xmpp/verifharness/xmltree"
)

// step is one move of a workload-1 script.
type step struct {
	K   string `json:"k"`             // "send" | "act" | "await"
	Raw string `json:"raw,omitempty"` // bytes the peer sends
	Act string `json:"act,omitempty"` // application action ("session.close": the application closes its output stream now)
	// A reply to an application call may be delivered in pieces cut at these byte
	// offsets, with the call's context cancelled before piece CancelAt
	// (len(pieces) = after the last one, -1 = never).
	NoWait   bool   `json:"no_wait,omitempty"` // Serve is expected to wait for the application in this stanza
	Cuts     []int  `json:"cuts,omitempty"`
	Cancel   string `json:"cancel,omitempty"`
	CancelAt int    `json:"cancel_at,omitempty"`
}

// script is a complete workload-1 case, written out as the sample.
type script struct {
	Workload int      `json:"workload"`
	Rule     string   `json:"rule"`
	Muts     []string `json:"mutations,omitempty"`
	Burst    bool     `json:"burst,omitempty"`    // deliver all peer bytes in one write
	Prefixed bool     `json:"prefixed,omitempty"` // namespaces declared as prefixes on the stanza element
	ReadAll  bool     `json:"read_all,omitempty"` // history consumer reads every token
	Close    bool     `json:"closing_tag"`        // end with </stream:stream> (else bare EOF)
	// after the application's Session.Close the remaining stanzas are sent
	// without sentinel pings (a ping's reply cannot be written and ends Serve)
	NoSentinelAfterClose bool `json:"no_sentinel_after_close,omitempty"`
	// HistClose-1 is the number of results after which the consumer of the
	// tracked history query closes its iterator (0: it reads to the end)
	HistClose int `json:"hist_close,omitempty"`
	// NilCallbacks: the handlers' optional callbacks are left unset
	NilCallbacks bool `json:"nil_callbacks,omitempty"`
	// HookCancel: yield point at which the context of the application call whose
	// request reaches it is cancelled
	HookCancel string `json:"hook_cancel,omitempty"`
	Steps      []step `json:"steps"`
}

// ---------------------------------------------------------------------------
// grammar: canonical stanzas per handler namespace

// piece is a canonical element of a rule: a stanza tree or an app action.
type piece struct {
	nowait bool // the peer does not wait for this stanza to be dealt with (Serve is meant to wait for the application)
	n      *node
	act    string // "act:<name>" / "await:<name>"
	raw    string // literal bytes (stream-level material)
}

type rule struct {
	name string
	gen  func(r *rand.Rand) []piece
}

func st(n *node) piece                      { return piece{n: n} }
func act(name string) piece                 { return piece{act: "act:" + name} }
func await(name string) piece               { return piece{act: "await:" + name} }
func rawPiece(s string) piece               { return piece{raw: s} }
func pick(r *rand.Rand, s ...string) string { return s[r.Intn(len(s))] }

func mamResult(qid, id, body string) *node {
	return msg("", "m-"+id, el("result", nsMAM, "queryid", qid, "id", id).add(forwardedMsg(body)))
}

func mamFin(id string) *node {
	return iq("result", id, el("fin", nsMAM, "complete", "true").add(rsmSet("28482-98726-73623", "09af3-cc343-b409f", 20)))
}

func mucSelfPresence(typ string) *node {
	x := el("x", nsMUCUser).add(
		el("item", "", "affiliation", "member", "role", "participant", "jid", meJID),
		el("status", "", "code", "110"),
		el("status", "", "code", "210"),
	)
	p := pres(typ, roomMe, x)
	p.set("id", "j1")
	return p
}

func ibbData(typ, id, sid string, seq int, data string) *node {
	return iq(typ, id, el("data", nsIBB, "seq", fmt.Sprint(seq), "sid", sid).text(data))
}

var rules = []rule{
	{"ping", func(r *rand.Rand) []piece { return []piece{st(iq("get", "p1", el("ping", nsPing)))} }},
	{"time", func(r *rand.Rand) []piece { return []piece{st(iq("get", "t1", el("time", nsTime)))} }},
	{"version", func(r *rand.Rand) []piece { return []piece{st(iq("get", "v1", el("query", nsVersion)))} }},
	{"disco-info", func(r *rand.Rand) []piece {
		q := el("query", nsInfo)
		if r.Intn(2) == 0 {
			q.set("node", pick(r, "", "http://jabber.org/protocol/commands", "n"))
		}
		return []piece{st(iq("get", "d1", q))}
	}},
	{"disco-items", func(r *rand.Rand) []piece {
		q := el("query", nsItems)
		if r.Intn(2) == 0 {
			q.set("node", pick(r, "", "http://jabber.org/protocol/commands", "n"))
		}
		return []piece{st(iq("get", "d2", q))}
	}},
	{"roster-push", func(r *rand.Rand) []piece {
		item := el("item", "", "jid", "nurse@example.com", "name", pick(r, "Nurse", "refuse"), "subscription", pick(r, "both", "remove", "none", "to", "from"))
		item.add(el("group", "").text("Servants"), el("group", "").text("Friends"))
		return []piece{st(iq("set", "r1", el("query", nsRoster, "ver", "ver14").add(item)).set("from", meBare))}
	}},
	{"block-list", func(r *rand.Rand) []piece { return []piece{st(iq("get", "b1", el("blocklist", nsBlocking)))} }},
	{"block", func(r *rand.Rand) []piece {
		rep := el("report", nsReporting, "reason", pick(r, "urn:xmpp:reporting:spam", "urn:xmpp:reporting:abuse")).add(
			el("stanza-id", nsSID, "by", "romeo@example.net", "id", "28482-98726-73623"),
			el("text", "").text("Never came trouble to my house like this."),
		)
		b := el("block", nsBlocking).add(el("item", "", "jid", "romeo@montague.net").add(rep), el("item", "", "jid", "iago@shakespeare.lit"))
		return []piece{st(iq("set", "b2", b))}
	}},
	{"unblock", func(r *rand.Rand) []piece {
		u := el("unblock", nsBlocking)
		if r.Intn(3) > 0 {
			u.add(el("item", "", "jid", "romeo@montague.net"))
		}
		return []piece{st(iq("set", "b3", u))}
	}},
	{"bob", func(r *rand.Rand) []piece {
		return []piece{st(iq("get", "g1", el("data", nsBob, "cid", pick(r, "sha1+8f35fef110ffc5df08d579a50083ff9308fb6242@bob.xmpp.org", "nope"))))}
	}},
	{"ibb-stream", func(r *rand.Rand) []piece {
		carrier := pick(r, "iq", "iq", "message")
		open := iq("set", "i1", el("open", nsIBB, "block-size", pick(r, "4096", "16", "65535"), "sid", "si", "stanza", carrier))
		ps := []piece{st(open)}
		n := 1 + r.Intn(3)
		for i := 0; i < n; i++ {
			if carrier == "iq" {
				ps = append(ps, st(ibbData("set", fmt.Sprintf("i-d%d", i), "si", i, "aGVsbG8gd29ybGQ=")))
			} else {
				ps = append(ps, st(msg("", fmt.Sprintf("i-d%d", i), el("data", nsIBB, "seq", fmt.Sprint(i), "sid", "si").text("aGVsbG8gd29ybGQ="))))
			}
		}
		if r.Intn(3) > 0 {
			ps = append(ps, st(iq("set", "i2", el("close", nsIBB, "sid", "si"))))
			if r.Intn(2) == 0 { // data for a closed stream
				ps = append(ps, st(ibbData("set", "i3", "si", n, "QUJD")))
			}
		}
		return ps
	}},
	{"ibb-unknown", func(r *rand.Rand) []piece {
		switch r.Intn(3) {
		case 0:
			return []piece{st(ibbData("set", "i4", "nosuch", 0, "QUJD"))}
		case 1:
			return []piece{st(iq("set", "i5", el("close", nsIBB, "sid", "nosuch")))}
		}
		return []piece{st(msg("", "i6", el("data", nsIBB, "seq", "0", "sid", "nosuch").text("QUJD")))}
	}},
	{"ibb-outgoing", func(r *rand.Rand) []piece {
		ps := []piece{act("ibb.open")}
		if r.Intn(4) == 0 {
			ps = append(ps, st(iq("error", "o1", stanzaErr("cancel", "not-acceptable", ""))))
		} else {
			ps = append(ps, st(iq("result", "o1")))
		}
		ps = append(ps, await("ibb.open"))
		ps = append(ps, st(ibbData("set", "o2", "so", 0, "aGVsbG8=")))
		if r.Intn(2) == 0 {
			ps = append(ps, act("ibb.write"), await("ibb.write"))
		}
		ps = append(ps, st(iq("set", "o3", el("close", nsIBB, "sid", "so"))))
		return ps
	}},
	{"receipts-request", func(r *rand.Rand) []piece {
		return []piece{st(msg(pick(r, "chat", "normal", "", "headline", "groupchat"), "rq1", el("body", "").text("hi"), el("request", nsReceipts)))}
	}},
	{"receipts-received", func(r *rand.Rand) []piece {
		rc := msg(pick(r, "chat", "normal", "", "error"), "rc1", el("received", nsReceipts, "id", "r1"))
		if r.Intn(2) == 0 {
			return []piece{act("rcpt.send"), st(rc), await("rcpt.send")}
		}
		return []piece{st(rc)}
	}},
	{"mam-untracked", func(r *rand.Rand) []piece {
		return []piece{st(mamResult(pick(r, "f27", "q1", ""), "28482-98726-73623", "Hail to thee"))}
	}},
	{"mam-tracked", func(r *rand.Rand) []piece {
		ps := []piece{act("hist.fetch")}
		n := r.Intn(3)
		for i := 0; i <= n; i++ {
			ps = append(ps, st(mamResult("q1", fmt.Sprintf("id-%d", i), "Hail to thee")))
		}
		if r.Intn(4) > 0 {
			ps = append(ps, st(mamFin("h1")), await("hist.fetch"))
			if r.Intn(2) == 0 { // a result for the query after it finished
				ps = append(ps, st(mamResult("q1", "late", "late")))
			}
		}
		return ps
	}},
	{"muc-invite", func(r *rand.Rand) []piece {
		inv := el("invite", "", "from", "crone1@shakespeare.lit/desktop").add(el("reason", "").text("Hey Hecate"), el("continue", "", "thread", "e0ffe42b"))
		x := el("x", nsMUCUser).add(inv, el("password", "").text("cauldronburn"))
		typ := pick(r, "", "normal")
		// every payload kind that reaches the client's message handler: mediated
		// invitation, declined invitation, voice request form, status-only notice
		switch r.Intn(5) {
		case 1:
			x = el("x", nsMUCUser).add(el("decline", "", "from", "hecate@shakespeare.lit").add(el("reason", "").text("Sorry, I'm too busy right now.")))
		case 2:
			x = el("x", nsMUCUser).add(el("status", "", "code", "104"), el("status", "", "code", "170"))
		case 3:
			return []piece{st(msg(typ, "mi1", x, xform("form", "http://jabber.org/protocol/muc#request", "muc#role", "participant", "muc#jid", "hag66@shakespeare.lit/pda")).set("from", roomJID))}
		}
		return []piece{st(msg(typ, "mi1", x).set("from", roomJID))}
	}},
	{"muc-direct-invite", func(r *rand.Rand) []piece {
		x := el("x", nsConf, "jid", roomJID, "password", "cauldronburn", "reason", "Hey", "continue", "true", "thread", "e0ffe42b")
		return []piece{st(msg(pick(r, "", "normal"), "mi2", x))}
	}},
	{"muc-room", func(r *rand.Rand) []piece {
		ps := []piece{act("muc.join")}
		other := pres("", roomJID+"/firstwitch", el("x", nsMUCUser).add(el("item", "", "affiliation", "owner", "role", "moderator")))
		if r.Intn(2) == 0 {
			ps = append(ps, st(other))
		}
		if r.Intn(5) == 0 {
			errEl := stanzaErr("auth", "not-authorized", "password required")
			if r.Intn(2) == 0 {
				errEl, _ = richErr(r)
			}
			ep := pres("error", roomMe, el("x", nsMUC), errEl)
			ep.set("id", "j1")
			ps = append(ps, st(ep), await("muc.join"))
			return ps
		}
		ps = append(ps, st(mucSelfPresence("")), await("muc.join"))
		ps = append(ps, st(other))
		switch r.Intn(3) {
		case 0:
			ps = append(ps, act("muc.leave"), st(mucSelfPresence("unavailable")), await("muc.leave"))
		case 1:
			ps = append(ps, st(mucSelfPresence("unavailable"))) // kicked
		}
		return ps
	}},
	{"muc-unmanaged", func(r *rand.Rand) []piece {
		return []piece{st(pres(pick(r, "", "unavailable"), roomJID+"/thirdwitch", el("x", nsMUCUser).add(el("item", "", "affiliation", "none", "role", "participant"))))}
	}},
	{"carbons", func(r *rand.Rand) []piece {
		c := el(pick(r, "received", "sent"), nsCarbons).add(forwardedMsg("What man art thou"))
		return []piece{st(msg(pick(r, "chat", "normal", ""), "c1", c).set("from", meBare))}
	}},
	{"caps", func(r *rand.Rand) []piece {
		c := el("c", nsCaps, "hash", pick(r, "sha-1", "sha-256", "md5"), "node", "http://code.google.com/p/exodus", "ver", "QgayPKawpkPSDYmwT/WM94uAlu0=")
		return []piece{st(pres(pick(r, "", "unavailable", "subscribe"), peerJID, c))}
	}},
	{"plain", func(r *rand.Rand) []piece {
		switch r.Intn(8) {
		case 0:
			return []piece{st(msg("chat", "x1", el("body", "").text("hello")))}
		case 1:
			return []piece{st(pres("", peerJID))}
		case 2:
			return []piece{st(iq(pick(r, "get", "set"), "x2"))} // no payload at all
		case 3:
			return []piece{st(iq(pick(r, "result", "error"), pick(r, "x3", "h1", "o1", "j1"), stanzaErr("cancel", "item-not-found", "nope")))}
		case 4:
			return []piece{st(iq(pick(r, "get", "set"), "x4", el("query", "urn:example:unknown")))}
		case 5:
			return []piece{st(msg("error", "x5", el("body", "").text("x"), stanzaErr("wait", "resource-constraint", "")))}
		case 6:
			return []piece{st(pres(pick(r, "subscribe", "probe", "error"), peerJID, el("show", "").text("away"), el("status", "").text("x")))}
		}
		return []piece{st(msg("", "x7", el("body", "").text("a"), el("request", nsReceipts), el("x", nsConf, "jid", roomJID), el("received", nsCarbons).add(forwardedMsg("b"))))}
	}},
	{"ibb-local-close-fails", func(r *rand.Rand) []piece {
		// the application closes an IBB stream itself and that Close fails (or
		// races with inbound data); the peer then goes on naming the stream
		mode := pick(r, "withhold", "withhold", "error-close", "data-error", "concurrent", "deadline-only")
		var ps []piece
		sid, next := "so", 1
		if r.Intn(2) == 0 {
			ps = append(ps, act("ibb.open"), st(iq("result", "o1")), await("ibb.open"), st(ibbData("set", "o2", "so", 0, "aGVsbG8=")))
		} else {
			sid = "si"
			ps = append(ps, st(iq("set", "i1", el("open", nsIBB, "block-size", "4096", "sid", "si", "stanza", "iq"))))
			next = r.Intn(3)
			for i := 0; i < next; i++ {
				ps = append(ps, st(ibbData("set", fmt.Sprintf("i-d%d", i), "si", i, "aGVsbG8gd29ybGQ=")))
			}
		}
		name := "ibb.closefail/" + sid + "/" + mode
		ps = append(ps, act(name))
		unordered := mode == "concurrent" || mode == "deadline-only"
		if !unordered {
			ps = append(ps, await(name))
		}
		ps = append(ps, st(ibbData("set", "lc1", sid, next, "QUJD")))
		if r.Intn(2) == 0 {
			ps = append(ps, st(msg("", "lc2", el("data", nsIBB, "seq", fmt.Sprint(next+1), "sid", sid).text("QUJD"))))
		}
		ps = append(ps, st(ibbData("set", "lc3", sid, 7, "QUJD"))) // wrong seq
		if unordered {
			ps = append(ps, await(name))
		}
		ps = append(ps, st(iq("set", "lc4", el("close", nsIBB, "sid", sid))))
		ps = append(ps, st(ibbData("set", "lc5", sid, next+2, "QUJD"))) // data for the closed stream
		return ps
	}},
	{"ibb-unaccepted-open", func(r *rand.Rand) []piece {
		// a listener (for a second address of the application) that nobody
		// accepts from: the peer opens a stream to it, the handler waits for the
		// application, the application closes the listener instead
		open := st(iq("set", "u1", el("open", nsIBB, "block-size", "4096", "sid", "su", "stanza", pick(r, "iq", "message"))).set("to", otherJID))
		open.nowait = true
		ps := []piece{act("ibb.listen2"), open, act("ibb.listener2.close"), await("ibb.listener2.close")}
		ps = append(ps, st(ibbData("set", "u2", "su", 0, "QUJD").set("to", otherJID)))
		if r.Intn(2) == 0 {
			ps = append(ps, st(iq("set", "u3", el("close", nsIBB, "sid", "su")).set("to", otherJID)))
		}
		return ps
	}},
	{"stream-level", func(r *rand.Rand) []piece {
		return []piece{rawPiece(pick(r, " ", "\n\n", "<!-- c -->", "<?pi?>", "text", "<x xmlns='urn:example:top'/>", "<features xmlns='"+nsStream+"'/>",
			"<stream:error><conflict xmlns='urn:ietf:params:xml:ns:xmpp-streams'/></stream:error>", "<stream:error>x</stream:error>", "<stream:error/>",
			"<stream:stream xmlns='jabber:client' xmlns:stream='"+nsStream+"'>", "</stream:stream>", "<iq xmlns='jabber:server' type='get' id='s1'><ping xmlns='urn:xmpp:ping'/></iq>",
			"<iq type='get'/>", "<message/>", "<presence/>", "<iq/>", "<a:b xmlns:a='urn:a'/>", "<iq type='get' id='dup' id='dup2'><ping xmlns='urn:xmpp:ping'/></iq>"))}
	}},
}

var ruleIndex = func() map[string]int {
	m := map[string]int{}
	for i, r := range rules {
		m[r.name] = i
	}
	return m
}()

// graftPool returns canonical stanzas of a few rules for the graft mutation.
func graftPool(r *rand.Rand) []*node {
	var out []*node
	for i := 0; i < 3; i++ {
		for _, p := range rules[r.Intn(len(rules))].gen(r) {
			if p.n != nil {
				out = append(out, p.n)
			}
		}
	}
	return out
}

// genScript builds case i of workload 1.
func genScript(r *rand.Rand, i int) *script {
	sc := &script{Workload: 1}
	ri := i % len(rules)
	round := i / len(rules)
	ru := rules[ri]
	sc.Rule = ru.name
	sc.Close = r.Intn(3) > 0
	sc.Burst = round > 0 && r.Intn(4) == 0
	sc.ReadAll = r.Intn(3) == 0
	sc.Prefixed = round > 0 && r.Intn(4) == 0

	var pieces []piece
	// state-building / unrelated canonical traffic first
	if round > 1 {
		for k := r.Intn(3); k > 0; k-- {
			pieces = append(pieces, rules[r.Intn(len(rules)-1)].gen(r)...) // never the stream-level rule as prelude
		}
	}
	mainStart := len(pieces)
	pieces = append(pieces, ru.gen(r)...)
	mainEnd := len(pieces)
	if round > 1 {
		for k := r.Intn(2); k > 0; k-- {
			pieces = append(pieces, rules[r.Intn(len(rules)-1)].gen(r)...)
		}
	}

	// mutations of the main rule's stanzas (round 0 is canonical)
	var stanzaIdx []int
	for k := mainStart; k < mainEnd; k++ {
		if pieces[k].n != nil {
			stanzaIdx = append(stanzaIdx, k)
		}
	}
	byteMut := map[int]bool{}
	if round > 0 && len(stanzaIdx) > 0 {
		pool := graftPool(r)
		nm := 1 + r.Intn(3)
		for m := 0; m < nm; m++ {
			k := stanzaIdx[r.Intn(len(stanzaIdx))]
			if r.Intn(5) == 0 {
				byteMut[k] = true
				continue
			}
			if kind := mutate(r, pieces[k].n, pool); kind != "" {
				sc.Muts = append(sc.Muts, kind)
			}
		}
	}

	// a piece may only be an action once per script
	seenAct := map[string]bool{}
	for k, p := range pieces {
		switch {
		case p.n != nil:
			raw := p.n.str()
			if sc.Prefixed && k >= mainStart && k < mainEnd {
				raw = p.n.strPrefixed()
			}
			if byteMut[k] {
				other := ""
				if len(stanzaIdx) > 0 {
					other = pieces[stanzaIdx[r.Intn(len(stanzaIdx))]].n.str()
				}
				var kind string
				raw, kind = mutateBytes(r, raw, other)
				if kind != "" {
					sc.Muts = append(sc.Muts, "bytes-"+kind)
				}
			}
			sc.Steps = append(sc.Steps, step{K: "send", Raw: raw, NoWait: p.nowait})
		case p.raw != "":
			sc.Steps = append(sc.Steps, step{K: "send", Raw: p.raw})
		case strings.HasPrefix(p.act, "act:"):
			name := strings.TrimPrefix(p.act, "act:")
			if seenAct[name] {
				continue
			}
			seenAct[name] = true
			sc.Steps = append(sc.Steps, step{K: "act", Act: name})
		case strings.HasPrefix(p.act, "await:"):
			sc.Steps = append(sc.Steps, step{K: "await", Act: strings.TrimPrefix(p.act, "await:")})
		}
	}
	sort.Strings(sc.Muts)

	// (new choices are drawn last so that the stanzas of a case stay what they were)
	if round > 0 {
		// replies to application calls delivered in pieces, the call's context
		// cancelled before, between or after them
		actID := map[string]string{"muc.join": "j1", "muc.leave": "l1", "rcpt.send": "r1", "ibb.open": "o1", "hist.fetch": "h1"}
		var started []string
		for k := range sc.Steps {
			st := &sc.Steps[k]
			if st.K == "act" {
				started = append(started, st.Act)
				continue
			}
			if st.K != "send" || len(started) == 0 || len(st.Raw) < 8 {
				continue
			}
			target := ""
			for j := len(started) - 1; j >= 0 && target == ""; j-- {
				if id := actID[started[j]]; id != "" && strings.Contains(st.Raw, "id='"+id+"'") {
					target = started[j]
				}
			}
			if started[len(started)-1] == "muc.leave" && strings.Contains(st.Raw, "unavailable") && strings.Contains(st.Raw, roomMe) {
				target = "muc.leave"
			}
			if target == "" || r.Intn(3) > 0 {
				continue
			}
			st.Cuts, st.CancelAt = chooseSplit(r, st.Raw, 0)
			st.Cancel = target
		}
		// a request of an application call has its context cancelled exactly at
		// one of the library's hand-over points
		for _, st := range sc.Steps {
			if st.K == "act" && (st.Act == "muc.join" || st.Act == "muc.leave" || st.Act == "rcpt.send" || st.Act == "ibb.open" || st.Act == "hist.fetch") {
				if r.Intn(3) == 0 {
					sc.HookCancel = pick(r, "serve.handoff", "serve.handoff", "serve.lookup", "req.wait", "req.done")
				}
				break
			}
		}
		// the consumer of a tracked history query closes its iterator early
		for _, st := range sc.Steps {
			if st.K == "act" && st.Act == "hist.fetch" {
				if r.Intn(3) == 0 {
					sc.HistClose = 1 + r.Intn(3)
				}
				break
			}
		}
		// the application closes its output stream while the peer keeps sending
		if r.Intn(8) == 0 {
			pos := r.Intn(len(sc.Steps) + 1)
			steps := append([]step{}, sc.Steps[:pos]...)
			steps = append(steps, step{K: "act", Act: "session.close"})
			sc.Steps = append(steps, sc.Steps[pos:]...)
			sc.NoSentinelAfterClose = r.Intn(2) == 0
			sc.Muts = append(sc.Muts, "local-close")
		}
	}
	// a transport fault armed at a PRNG-chosen point; for write faults the next
	// stanza echoes an id that makes the reply's start tag end near the 4096
	// bytes of the output buffer
	if round > 0 && r.Intn(8) == 0 && len(sc.Steps) > 0 {
		kind := pick(r, "write-fail", "write-fail", "write-break", "read-timeout", "read-timeout-wrapped", "read-temporary", "read-plain", "read-deadline")
		n := r.Intn(3)
		if kind == "write-break" {
			n = r.Intn(9000)
		}
		name := fmt.Sprintf("fault/%s/%d", kind, n)
		if strings.HasPrefix(kind, "read-") && r.Intn(2) == 0 {
			name += "/close-deadline"
		}
		pos := r.Intn(len(sc.Steps))
		steps := append([]step{}, sc.Steps[:pos]...)
		steps = append(steps, step{K: "act", Act: name})
		rest := append([]step{}, sc.Steps[pos:]...)
		if strings.HasPrefix(kind, "write-") {
			for k := range rest {
				if rest[k].K == "send" {
					big := strings.Repeat("A", 3880+r.Intn(340))
					rest[k].Raw = bigIDRe.ReplaceAllString(rest[k].Raw, "id='"+big+"'")
					rest[k].Cuts = nil
					break
				}
			}
		}
		sc.Steps = append(steps, rest...)
		sc.Muts = append(sc.Muts, "fault-"+kind)
	}
	// the handlers' optional callbacks left unset (any round: the canonical
	// stanzas must not need them either)
	sc.NilCallbacks = r.Intn(6) == 0
	return sc
}

var bigIDRe = regexp.MustCompile(`\bid='[^']*'`)

// chooseSplit picks cut offsets (2 or 3 pieces; half of the time the first cut
// is right after the start tag of the stanza that begins at replyOff) and the
// piece before which the call is cancelled.
func chooseSplit(r *rand.Rand, raw string, replyOff int) (cuts []int, cancelAt int) {
	if len(raw) < 4 {
		return nil, -1
	}
	first := 1 + r.Intn(len(raw)-1)
	if r.Intn(2) == 0 {
		if i := strings.IndexByte(raw[replyOff:], '>'); i >= 0 && replyOff+i+1 < len(raw) {
			first = replyOff + i + 1
		}
	}
	cuts = []int{first}
	if r.Intn(3) == 0 && first+1 < len(raw) {
		cuts = append(cuts, first+1+r.Intn(len(raw)-first-1))
	}
	n := len(cuts) + 1
	switch x := r.Intn(20); {
	case x < 4:
		cancelAt = -1
	case x < 7:
		cancelAt = 0
	case x < 17:
		cancelAt = 1 + r.Intn(n-1)
	default:
		cancelAt = n
	}
	return cuts, cancelAt
}

// ---------------------------------------------------------------------------
// application actions of workload 1

func (e *env) runAct(name string) *action {
	switch name {
	case "hist.fetch":
		return e.start(name, "h1", func(ctx context.Context) (bool, error) {
			it := e.hist.FetchIQ(ctx, history.Query{ID: "q1"}, stanza.IQ{ID: "h1", To: jid.MustParse(srvJID)}, e.s)
			n, err := e.consumeHistory(it)
			return n > 0, err
		})
	case "rcpt.send":
		return e.start(name, "r1", func(ctx context.Context) (bool, error) {
			err := e.rcpt.SendMessageElement(ctx, e.s, el2tokens("body", "hi"), stanza.Message{ID: "r1", To: jid.MustParse(peerJID), Type: stanza.ChatMessage})
			return err == nil, err
		})
	case "muc.join":
		return e.start(name, "j1", func(ctx context.Context) (bool, error) {
			ch, err := e.mucC.JoinPresence(ctx, stanza.Presence{ID: "j1", To: jid.MustParse(roomMe)}, e.s)
			if err == nil {
				e.mu.Lock()
				e.channel = ch
				e.mu.Unlock()
				e.note("muc_joined")
				_ = ch.Joined()
				_ = ch.Me()
			}
			return err == nil, err
		})
	case "muc.leave":
		e.mu.Lock()
		ch := e.channel
		e.mu.Unlock()
		if ch == nil {
			return nil
		}
		return e.start(name, "l1", func(ctx context.Context) (bool, error) {
			err := ch.LeavePresence(ctx, "bye", stanza.Presence{ID: "l1"})
			return err == nil, err
		})
	case "ibb.open":
		return e.start(name, "o1", func(ctx context.Context) (bool, error) {
			conn, err := e.ibbH.OpenIQ(ctx, stanza.IQ{ID: "o1", To: jid.MustParse(peerJID)}, e.s, true, 64, "so")
			if err == nil && conn != nil {
				e.mu.Lock()
				e.outConn = conn
				e.mu.Unlock()
				e.note("ibb_opened")
				e.bg.Add(1)
				go func() {
					defer e.bg.Done()
					e.c.Guard("ibb.read", func() {
						buf := make([]byte, 256)
						for {
							if _, err := conn.Read(buf); err != nil {
								return
							}
							e.note("ibb_bytes")
						}
					})
				}()
			}
			return err == nil, err
		})
	case "ibb.write":
		e.mu.Lock()
		conn := e.outConn
		e.mu.Unlock()
		if conn == nil || e.served() {
			return nil
		}
		a := e.start(name, "", func(ctx context.Context) (bool, error) {
			// acknowledged by the peer loop's automatic (well-formed, routable)
			// result, so the write cannot be left waiting by a mutation
			_, err := conn.Write([]byte("0123456789"))
			if err == nil {
				err = conn.Flush()
			}
			return err == nil, err
		})
		e.mu.Lock()
		a.detached = true
		e.mu.Unlock()
		return a
	}
	if strings.HasPrefix(name, "fault/") {
		e.armFault(strings.Split(name, "/")[1:])
		return nil
	}
	switch name {
	case "ibb.listen2":
		// a listener for a second address served by the same handler; nobody
		// ever accepts from it
		if e.lst2 != nil {
			return nil
		}
		e.c.Guard(name, func() {
			p2, err := sess.NewPair(sess.Opts{Local: otherJID})
			if err != nil {
				return
			}
			e.p2 = p2
			e.lst2 = e.ibbH.Listen(p2.S)
			e.c.Count("ibb_second_listener", 1)
		})
		return nil
	case "ibb.listener2.close":
		if e.lst2 == nil || e.lst2Closing {
			return nil
		}
		e.lst2Closing = true
		l := e.lst2
		return e.start(name, "", func(ctx context.Context) (bool, error) {
			err := l.Close()
			e.note("ibb_listener2_closed")
			return err == nil, err
		})
	}
	if strings.HasPrefix(name, "ibb.closefail/") {
		f := strings.Split(name, "/")
		if len(f) != 3 || e.served() {
			return nil
		}
		sid, mode := f[1], f[2]
		// the stream: opened by the application, or accepted by its acceptor
		var conn *ibb.Conn
		for i := 0; i < 250 && conn == nil; i++ {
			e.mu.Lock()
			if e.outConn != nil && e.outConn.SID() == sid {
				conn = e.outConn
			}
			for _, c := range e.conns {
				if c.SID() == sid {
					conn = c
				}
			}
			e.mu.Unlock()
			if conn == nil {
				time.Sleep(200 * time.Microsecond)
			}
		}
		if conn == nil {
			return nil
		}
		// not while an earlier application write on this stream is still waiting
		// for its acknowledgement: SetWriteDeadline concurrent with Write is a
		// different question (see the report) and would make this rule's verdict
		// depend on it
		e.mu.Lock()
		w := e.acts["ibb.write"]
		e.mu.Unlock()
		if w != nil && !w.finished() {
			e.settle(w)
			if !w.finished() {
				e.c.Count("ibb_local_close_skipped_write_pending", 1)
				return nil
			}
		}
		if mode == "deadline-only" {
			// something to flush when the peer closes the stream (buffered, no packet yet)
			e.c.Guard(name, func() { conn.Write([]byte("0123456789")) })
			e.c.Count("ibb_deadline_armed_with_data_buffered", 1)
		}
		e.mu.Lock()
		e.ibbAck = mode // what the peer does with this stream's <close/> / <data/> requests from now on
		e.mu.Unlock()
		return e.start(name, "", func(ctx context.Context) (bool, error) {
			conn.SetWriteDeadline(time.Now().Add(40 * time.Millisecond))
			if mode == "deadline-only" {
				// the application only arms a deadline; the stream is ended by the
				// peer.  (Nothing of the harness is touched after the call: a lock
				// taken here would order it before the driver's next write and hide
				// from the race detector what the library leaves unordered.)
				return true, nil
			}
			if mode == "data-error" {
				conn.Write([]byte("0123456789")) // buffered: Close has to flush it first
			}
			err := conn.Close()
			if err != nil {
				e.note("ibb_local_close_failed")
			} else {
				e.note("ibb_local_close_ok")
			}
			return err == nil, err
		})
	}
	return nil
}

// consumeHistory is the application's side of a tracked history query: it
// takes every result (reading all of it, or only its first tokens) until the
// iterator ends, or - histClose >= 0 - closes the iterator after that many
// results, preferably while the next result is already on its way (Close is
// documented to stop the iteration; later results go to the fallback handler).
// It never just stops reading without closing.
func (e *env) consumeHistory(it *history.Iter) (int, error) {
	n := 0
	for {
		if e.histClose >= 0 && n >= e.histClose {
			// bounded pause (coverage only): until the peer has sent a further
			// result of this query and Serve is not sitting in a transport read
			inFlight := false
			for i := 0; i < 150 && !inFlight; i++ {
				e.mu.Lock()
				sent := e.histSent
				e.mu.Unlock()
				if sent > n && e.p.Lib.BlockedReads() == 0 && !e.served() {
					inFlight = true
					break
				}
				time.Sleep(200 * time.Microsecond)
			}
			if inFlight {
				e.c.Count("history_iter_closed_early_with_result_in_flight", 1)
			}
			e.c.Count("history_iter_closed_early", 1)
			it.Close()
			e.c.Count("history_iter_early_close_returned", 1)
			// (Err and Result belong to an iteration that has run to its end: the
			// query's own goroutine may still be writing them)
			return n, nil
		}
		if !it.Next() {
			break
		}
		n++
		e.note("history_tracked")
		if r := it.Current(); r != nil {
			if e.readAll {
				drainTokens(r)
			} else {
				r.Token()
				r.Token()
			}
		}
	}
	err := it.Err()
	_ = it.Result()
	it.Close()
	return n, err
}

type tempNetErr struct{}

func (tempNetErr) Error() string   { return "bufconn: temporarily unavailable" }
func (tempNetErr) Timeout() bool   { return false }
func (tempNetErr) Temporary() bool { return true }

// armFault arms a transport fault on the library's connection: the next (or
// n-th next) Write or Read fails, or the application sets a read deadline in
// the past; optionally a close deadline far in the future is set first.
func (e *env) armFault(f []string) {
	if len(f) < 2 || e.served() {
		return
	}
	kind := f[0]
	n, _ := strconv.Atoi(f[1])
	if len(f) > 2 && f[2] == "close-deadline" {
		e.c.Guard("SetCloseDeadline", func() { e.s.SetCloseDeadline(time.Now().Add(time.Hour)) })
		e.c.Count("fault_with_close_deadline", 1)
	}
	reads, writes, _ := e.p.Lib.Ops()
	plan := bufconn.NoFault()
	timeout := &net.OpError{Op: "read", Net: "bufconn", Err: os.ErrDeadlineExceeded}
	switch kind {
	case "write-fail":
		plan.FailWrite = writes + 1 + n
	case "write-break":
		plan.WriteBreakAfter = len(e.p.Lib.Written()) + n
	case "read-timeout":
		plan.FailRead, plan.Err = reads+1+n, timeout
	case "read-timeout-wrapped":
		plan.FailRead, plan.Err = reads+1+n, fmt.Errorf("transport: %w", timeout)
	case "read-temporary":
		plan.FailRead, plan.Err = reads+1+n, &net.OpError{Op: "read", Net: "bufconn", Err: tempNetErr{}}
	case "read-plain":
		plan.FailRead, plan.Err = reads+1+n, errors.New("connection reset by peer")
	case "read-deadline":
		// the application arms a read deadline on the session's connection that
		// has already passed
		e.c.Guard("SetReadDeadline", func() { e.s.Conn().SetReadDeadline(time.Now().Add(-time.Second)) })
		e.c.Count("fault_armed:"+kind, 1)
		e.faulted = true
		return
	default:
		return
	}
	e.p.Lib.SetFault(plan)
	e.faulted = true
	e.c.Count("fault_armed:"+kind, 1)
}

// localClose is the application closing its output stream in mid-session.
// Close runs on its own goroutine: while Serve is in the middle of a stanza
// that it has started to answer it holds the output lock, and Close has to wait
// for the peer to finish that stanza (or for the input to end).
func (e *env) localClose() {
	e.closedLocally = true
	e.c.Count("w1_local_close_cases", 1)
	a := e.start("session.close", "", func(ctx context.Context) (bool, error) {
		err := e.s.Close()
		return err == nil, err
	})
	select {
	case <-a.done:
		e.c.Count("local_close_returned_at_once", 1)
	case <-e.serveDone:
	case <-time.After(50 * time.Millisecond):
		e.c.Count("local_close_waits_for_output_lock", 1)
	}
}

// ---------------------------------------------------------------------------
// driver

var sentinelPing = "<iq xmlns='jabber:client' type='get' id='%s' from='" + peerJID + "' to='" + meJID + "'><ping xmlns='urn:xmpp:ping'/></iq>"

func runScript(c *core.Case, sc *script) {
	c.Sample(sc)
	e, err := newEnv(c, envOpts{nilCallbacks: sc.NilCallbacks, hookCancel: sc.HookCancel})
	if err != nil {
		c.Notef("session setup failed: %v", err)
		c.Count("setup_failed", 1)
		return
	}
	e.readAll = sc.ReadAll
	if sc.NilCallbacks {
		c.Count("w1_nil_callback_cases", 1)
		c.Count("w1_nil_callback_cases:"+sc.Rule, 1)
	}
	if sc.HookCancel != "" {
		c.Count("hook_cancel_armed:"+sc.HookCancel, 1)
	}
	e.histClose = sc.HistClose - 1
	e.mu.Lock()
	e.autoReply = func(req *xmltree.Node) string {
		e.mu.Lock()
		mode := e.ibbAck
		e.mu.Unlock()
		isClose, isData := req.Child(nsIBB, "close") != nil, req.Child(nsIBB, "data") != nil
		errReply := fmt.Sprintf("<iq xmlns='jabber:client' type='error' id='%s' from='%s' to='%s'><error type='cancel'><item-not-found xmlns='%s'/></error></iq>", escAttr(req.Attr("id")), peerJID, meJID, nsStanzas)
		switch {
		case isClose && (mode == "withhold" || mode == "concurrent"):
			return "" // the peer never acknowledges the <close/>: the write deadline ends Close
		case isClose && mode == "error-close", isData && mode == "data-error":
			return errReply
		}
		return fmt.Sprintf("<iq xmlns='jabber:client' type='result' id='%s' from='%s' to='%s'/>", escAttr(req.Attr("id")), peerJID, meJID)
	}
	e.mu.Unlock()

	nSent := 0
	if sc.Burst {
		// application actions first, then every peer byte in a single write
		var all strings.Builder
		for _, s := range sc.Steps {
			switch s.K {
			case "act":
				if s.Act == "session.close" {
					e.localClose()
					continue
				}
				if a := e.runAct(s.Act); a != nil && a.reqID != "" {
					e.wait(func() bool { return a.finished() || e.sawID(a.reqID) || e.served() }, "request of "+s.Act, false)
				}
			case "send":
				nSent++
				all.WriteString(s.Raw)
				if e.closedLocally {
					c.Count("stanzas_sent_after_local_close", 1)
				}
				if !(e.closedLocally && sc.NoSentinelAfterClose) {
					all.WriteString(fmt.Sprintf(sentinelPing, fmt.Sprintf("sentinel-%d", nSent)))
				}
			}
		}
		e.peerWrite(all.String())
	} else {
		for k, s := range sc.Steps {
			if e.served() {
				break
			}
			if s.K == "act" && s.Act == "session.close" {
				// The application closes its output stream; Serve keeps running until
				// the peer ends its side.  Everything the peer still has to say is
				// sent in one write (replies can no longer be observed), then the
				// input ends: Serve must return.
				e.localClose()
				var rest strings.Builder
				for _, t := range sc.Steps[k+1:] {
					if t.K != "send" {
						continue
					}
					nSent++
					c.Count("stanzas_sent_after_local_close", 1)
					rest.WriteString(t.Raw)
					if !sc.NoSentinelAfterClose {
						rest.WriteString(fmt.Sprintf(sentinelPing, fmt.Sprintf("sentinel-%d", nSent)))
					}
				}
				e.peerWrite(rest.String())
				break
			}
			switch s.K {
			case "send":
				nSent++
				sid := fmt.Sprintf("sentinel-%d", nSent)
				if len(s.Cuts) > 0 {
					e.mu.Lock()
					a := e.acts[s.Cancel]
					e.mu.Unlock()
					e.deliverSplit(s.Raw, s.Cuts, s.CancelAt, a, fmt.Sprintf(sentinelPing, sid))
				} else {
					e.peerWrite(s.Raw + fmt.Sprintf(sentinelPing, sid))
				}
				if s.NoWait {
					// Serve may legitimately sit in the handler until the application
					// acts (next step): only give it the time to get there
					for i := 0; i < 1500 && !e.answered(sid) && !e.served() && e.p.Lib.BlockedReads() > 0; i++ {
						time.Sleep(200 * time.Microsecond)
					}
					if !e.answered(sid) && !e.served() && e.p.Lib.BlockedReads() == 0 {
						c.Count("stanza_left_waiting_for_the_application", 1)
					}
					continue
				}
				// what does an independent parser make of the input so far?
				st := xmltree.ParseStream(e.input(), true)
				switch {
				case st.Err != nil || st.Closed:
					if e.wait(e.served, "Serve to end on malformed input / closing tag", false) == waitStall {
						goto end
					}
				case st.Trailing:
					// inside an unfinished construct: the library waits for more bytes
				default:
					if e.wait(func() bool { return e.answered(sid) || e.served() }, "reply to "+sid, false) == waitStall {
						goto end
					}
				}
			case "act":
				if a := e.runAct(s.Act); a != nil && a.reqID != "" {
					if e.wait(func() bool { return a.finished() || e.sawID(a.reqID) || e.served() }, "request of "+s.Act, false) == waitStall {
						goto end
					}
				}
			case "await":
				e.mu.Lock()
				a := e.acts[s.Act]
				e.mu.Unlock()
				if a != nil {
					// The reply was sent by an earlier step whose sentinel has been
					// answered, so Serve is done with it: the call either got it and is
					// about to return, or will not return before its context is
					// cancelled.  A bounded pause only decides how much later steps see.
					e.settle(a)
				}
			}
		}
	}
end:
	e.finish(sc.Close)
	e.checkServeNil()
	e.countHook()
	e.report(sc)
}

// report turns what was observed into counters and the case signature.
func (e *env) report(sc *script) {
	c := e.c
	e.mu.Lock()
	defer e.mu.Unlock()
	c.Count("w1_cases", 1)
	c.Count("w1_stanzas_sent", len(sc.Steps))
	for k, v := range e.obs {
		c.Count("cb_"+k, v)
	}
	// handlers observed through what the library wrote
	for _, n := range e.libElems {
		typ := n.Attr("type")
		switch n.Name.Local {
		case "iq":
			id := n.Attr("id")
			if strings.HasPrefix(id, "sentinel-") {
				c.Count("sentinels_answered", 1)
				c.Count("h_ping", 1)
				continue
			}
			kids := n.Children()
			if typ == "result" && len(kids) > 0 {
				switch kids[0].Name.Space {
				case nsTime:
					c.Count("h_time", 1)
				case nsVersion:
					c.Count("h_version", 1)
				case nsInfo:
					c.Count("h_disco_info", 1)
				case nsItems:
					c.Count("h_disco_items", 1)
				case nsBlocking:
					c.Count("h_block_list", 1)
				case nsBob:
					c.Count("h_bob", 1)
				}
			}
			if typ == "result" {
				switch {
				case id == "i1":
					c.Count("h_ibb_open", 1)
				case strings.HasPrefix(id, "i-d") || id == "o2":
					c.Count("h_ibb_data", 1)
				case id == "i2" || id == "o3":
					c.Count("h_ibb_close", 1)
				}
			}
			if typ == "error" && (id == "i3" || id == "i4" || id == "i5") {
				c.Count("h_ibb_refused", 1)
			}
			if strings.HasPrefix(id, "lc") && e.obs["ibb_local_close_failed"] > 0 {
				c.Count("ibb_packets_answered_after_failed_local_close", 1)
			}
		case "message":
			if k := n.Child(nsReceipts, "received"); k != nil {
				c.Count("h_receipts_request", 1)
			}
		}
	}
	for _, kv := range [][2]string{{"roster_push", "h_roster"}, {"block", "h_block"}, {"unblock", "h_unblock"}, {"unblock_all", "h_unblock"},
		{"carbons", "h_carbons"}, {"caps", "h_caps"}, {"muc_invite", "h_muc_invite"}, {"muc_direct_invite", "h_muc_direct_invite"},
		{"muc_user_presence", "h_muc_presence"}, {"muc_joined", "h_muc_join"}, {"history_inner", "h_history_inner"}, {"history_tracked", "h_history_tracked"},
		{"receipts_unhandled", "h_receipts_received"}, {"ibb_bytes", "h_ibb_bytes"},
		{"ibb_listener2_closed", "ibb_unaccepting_listener_closed"}, {"ibb_local_close_failed", "ibb_local_close_failed"}, {"ibb_local_close_ok", "ibb_local_close_ok"}} {
		if e.obs[kv[0]] > 0 {
			c.Count(kv[1], e.obs[kv[0]])
		}
	}
	for _, a := range e.actList {
		if !a.finished() {
			c.Count("abandoned_actions", 1)
			continue
		}
		if a.ok {
			c.Count("act_"+a.name+"_ok", 1)
			if a.name == "rcpt.send" {
				c.Count("h_receipts_received", 1)
			}
		} else {
			c.Count("act_"+a.name+"_err", 1)
		}
	}
	outcome := "running"
	switch {
	case e.servePanic:
		outcome = "panic"
	case e.wedged:
		outcome = "stall"
	case !e.served():
		outcome = "undecided"
	case e.serveErr == nil:
		outcome = "nil"
	default:
		outcome = "error"
	}
	if sc.Prefixed {
		c.Count("w1_prefixed_cases", 1)
	}
	if len(sc.Muts) > 0 {
		c.Count("w1_mutated_cases", 1)
		for _, m := range sc.Muts {
			c.Count("mut_"+m, 1)
		}
	}
	c.Sig("w1|%s|%s|%s", sc.Rule, strings.Join(sc.Muts, "+"), outcome)
}
