package c09

import (
	"fmt"
	"strings"
	"sync"
	"time"

	"mellium.im/xmpp"
	"mellium.im/xmpp/blocklist"
	"mellium.im/xmpp/disco"
	"mellium.im/xmpp/jid"
	"mellium.im/xmpp/mux"
	"mellium.im/xmpp/ping"
	"mellium.im/xmpp/version"
	"mellium.im/xmpp/xtime"

	"mellium.im/xmpp/verifharness/core"
	"mellium.im/xmpp/verifharness/sess"
	"mellium.im/xmpp/verifharness/xmltree"
)

// Workload 3: one multiplexer value, carrying the library's responders that
// keep no per-session state (service discovery, software version, ping, entity
// time, blocking), serves several sessions at once — a server has one ServeMux
// for all its connections.  Every peer sends the same kinds of requests at the
// same time.  Nothing may panic (a fatal runtime error ends the process: the
// parent reports the death of the child), every Serve returns when its input
// ends, and every request is answered once on its own session.

type sharedSample struct {
	Workload string   `json:"workload"`
	Sessions int      `json:"sessions"`
	Requests []string `json:"requests_per_session"`
}

var sharedQueries = []string{
	"<query xmlns='http://jabber.org/protocol/disco#info'/>",
	"<query xmlns='http://jabber.org/protocol/disco#items'/>",
	"<query xmlns='http://jabber.org/protocol/disco#info' node='x'/>",
	"<query xmlns='jabber:iq:version'/>",
	"<ping xmlns='urn:xmpp:ping'/>",
	"<time xmlns='urn:xmpp:time'/>",
	"<blocklist xmlns='urn:xmpp:blocking'/>",
}

func runShared(c *core.Case) {
	r := c.Rand
	n := 2 + r.Intn(3)
	m := 30 + r.Intn(40)
	var reqs []string
	for i := 0; i < m; i++ {
		q := sharedQueries[r.Intn(len(sharedQueries))]
		if r.Intn(2) == 0 {
			q = sharedQueries[r.Intn(3)] // mostly service discovery
		}
		reqs = append(reqs, q)
	}
	c.Sample(sharedSample{Workload: "one multiplexer for several sessions", Sessions: n, Requests: reqs})
	c.Count("shared_mux_cases", 1)
	var h xmpp.Handler
	if c.Guard("mux.New", func() {
		h = mux.New(nsClient,
			disco.Handle(),
			version.Handle(version.Query{Name: "verif", Version: "1", OS: "none"}),
			ping.Handle(),
			xtime.Handle(xtime.Handler{TimeFunc: func() time.Time { return fixedTime }}),
			blocklist.Handle(blocklist.Handler{List: func(ch chan<- jid.JID) { ch <- jid.MustParse("iago@shakespeare.lit") }}),
		)
	}) {
		return
	}
	pairs := make([]*sess.Pair, n)
	for k := range pairs {
		p, err := sess.NewPair(sess.Opts{})
		if err != nil {
			c.Inconclusive("shared: cannot build session %d: %v", k, err)
			return
		}
		pairs[k] = p
		defer func() { p.Peer.Close(); p.Lib.Close() }()
	}
	for k, p := range pairs {
		var sb strings.Builder
		for i, q := range reqs {
			fmt.Fprintf(&sb, "<iq type='get' id='s%d-%d' from='user%d@example.org/r'>%s</iq>", k, i, k, q)
		}
		p.Send(sb.String())
		p.ClosePeer()
		p.Peer.CloseWrite()
	}
	start := make(chan struct{})
	var wg sync.WaitGroup
	errs := make([]error, n)
	panicked := make([]bool, n)
	for k, p := range pairs {
		k, p := k, p
		wg.Add(1)
		go func() {
			defer wg.Done()
			<-start
			panicked[k] = c.Guard("Serve", func() { errs[k] = p.S.Serve(h) })
		}()
	}
	close(start)
	wg.Wait()
	for k, p := range pairs {
		if panicked[k] {
			return
		}
		if errs[k] != nil {
			c.Violate("shared:serve-ended", "session %d of %d served through one multiplexer: well-formed requests to the library's own responders and the peer's closing tag; Serve returned %v", k, n, errs[k])
			return
		}
		seen := map[string]int{}
		for _, e := range xmltree.ParseStream(p.Lib.Written(), true).Elems {
			if e.Name.Local == "iq" && (e.Attr("type") == "result" || e.Attr("type") == "error") {
				seen[e.Attr("id")]++
			}
		}
		for i := range reqs {
			id := fmt.Sprintf("s%d-%d", k, i)
			if seen[id] != 1 {
				c.Violate("shared:reply-count", "session %d of %d served through one multiplexer: request %s (%s) was answered %d times", k, n, id, reqs[i], seen[id])
				return
			}
		}
		c.Count("shared_mux_requests_answered", len(reqs))
	}
	c.Sig("shared|n=%d", n)
}
