package c09

import (
	"encoding/xml"
	"fmt"
	"math/rand"
	"strings"
)

// ---------------------------------------------------------------------------
// A tiny XML tree used by the generators.  Serialisation is done by hand so
// that the peer never uses the library under test (or encoding/xml's encoder,
// which would refuse some of the shapes we want on the wire).

type attr struct{ K, V string }

type kid struct {
	El   *node
	Text string // character data (escaped on output)
	Raw  string // verbatim bytes (comments, PIs, CDATA sections, entities)
}

type node struct {
	Name  string
	NS    string // "" inherits the parent's namespace
	Attrs []attr
	Kids  []kid
}

func el(name, ns string, attrs ...string) *node {
	n := &node{Name: name, NS: ns}
	for i := 0; i+1 < len(attrs); i += 2 {
		n.Attrs = append(n.Attrs, attr{attrs[i], attrs[i+1]})
	}
	return n
}

func (n *node) add(ks ...*node) *node {
	for _, k := range ks {
		if k != nil {
			n.Kids = append(n.Kids, kid{El: k})
		}
	}
	return n
}

func (n *node) text(s string) *node {
	n.Kids = append(n.Kids, kid{Text: s})
	return n
}

func (n *node) set(k, v string) *node {
	for i := range n.Attrs {
		if n.Attrs[i].K == k {
			n.Attrs[i].V = v
			return n
		}
	}
	n.Attrs = append(n.Attrs, attr{k, v})
	return n
}

func (n *node) get(k string) string {
	for _, a := range n.Attrs {
		if a.K == k {
			return a.V
		}
	}
	return ""
}

func (n *node) clone() *node {
	c := &node{Name: n.Name, NS: n.NS}
	c.Attrs = append(c.Attrs, n.Attrs...)
	for _, k := range n.Kids {
		if k.El != nil {
			k.El = k.El.clone()
		}
		c.Kids = append(c.Kids, k)
	}
	return c
}

func escText(s string) string {
	var sb strings.Builder
	xml.EscapeText(&sb, []byte(s))
	return sb.String()
}

func escAttr(s string) string {
	r := strings.NewReplacer("&", "&amp;", "<", "&lt;", ">", "&gt;", "'", "&apos;", "\"", "&quot;", "\n", "&#xA;", "\t", "&#x9;", "\r", "&#xD;")
	return r.Replace(s)
}

func (n *node) write(sb *strings.Builder, parentNS string) {
	sb.WriteByte('<')
	sb.WriteString(n.Name)
	ns := n.NS
	if ns == "" {
		ns = parentNS
	} else if ns != parentNS {
		sb.WriteString(" xmlns='")
		sb.WriteString(escAttr(ns))
		sb.WriteByte('\'')
	}
	for _, a := range n.Attrs {
		sb.WriteByte(' ')
		sb.WriteString(a.K)
		sb.WriteString("='")
		sb.WriteString(escAttr(a.V))
		sb.WriteByte('\'')
	}
	if len(n.Kids) == 0 {
		sb.WriteString("/>")
		return
	}
	sb.WriteByte('>')
	for _, k := range n.Kids {
		switch {
		case k.El != nil:
			k.El.write(sb, ns)
		case k.Raw != "":
			sb.WriteString(k.Raw)
		default:
			sb.WriteString(escText(k.Text))
		}
	}
	sb.WriteString("</")
	sb.WriteString(n.Name)
	sb.WriteByte('>')
}

// str serialises a top-level stanza (parent namespace jabber:client).
func (n *node) str() string {
	var sb strings.Builder
	n.write(&sb, nsClient)
	return sb.String()
}

// strPrefixed serialises a top-level stanza with every foreign namespace
// declared as a prefix on the stanza element, so that payload elements carry no
// xmlns attribute at all (an element without attributes has an empty
// start.Attr, which default-namespace declarations never produce).
func (n *node) strPrefixed() string {
	prefixes := map[string]string{}
	var order []string
	for _, x := range n.all() {
		if x.NS != "" && x.NS != nsClient && strings.TrimSpace(x.NS) != "" && !strings.ContainsAny(x.Name, ":") {
			if _, ok := prefixes[x.NS]; !ok {
				prefixes[x.NS] = fmt.Sprintf("n%d", len(order))
				order = append(order, x.NS)
			}
		}
	}
	var sb strings.Builder
	n.writePrefixed(&sb, nsClient, prefixes, order, true)
	return sb.String()
}

func (n *node) writePrefixed(sb *strings.Builder, parentNS string, prefixes map[string]string, order []string, root bool) {
	ns := n.NS
	if ns == "" {
		ns = parentNS
	}
	name := n.Name
	if p, ok := prefixes[ns]; ok && !strings.ContainsAny(n.Name, ":") {
		name = p + ":" + n.Name
	} else if ns != nsClient && !root {
		// not expressible with the declared prefixes: fall back to a default declaration
		n.write(sb, parentNS)
		return
	}
	sb.WriteByte('<')
	sb.WriteString(name)
	if root {
		for _, u := range order {
			sb.WriteString(" xmlns:" + prefixes[u] + "='" + escAttr(u) + "'")
		}
	}
	for _, a := range n.Attrs {
		sb.WriteByte(' ')
		sb.WriteString(a.K)
		sb.WriteString("='")
		sb.WriteString(escAttr(a.V))
		sb.WriteByte('\'')
	}
	if len(n.Kids) == 0 {
		sb.WriteString("/>")
		return
	}
	sb.WriteByte('>')
	for _, k := range n.Kids {
		switch {
		case k.El != nil:
			k.El.writePrefixed(sb, ns, prefixes, order, false)
		case k.Raw != "":
			sb.WriteString(k.Raw)
		default:
			sb.WriteString(escText(k.Text))
		}
	}
	sb.WriteString("</")
	sb.WriteString(name)
	sb.WriteByte('>')
}

// all returns every element of the tree in document order.
func (n *node) all() []*node {
	out := []*node{n}
	for _, k := range n.Kids {
		if k.El != nil {
			out = append(out, k.El.all()...)
		}
	}
	return out
}

// ---------------------------------------------------------------------------
// namespaces

const (
	nsClient    = "jabber:client"
	nsStanzas   = "urn:ietf:params:xml:ns:xmpp-stanzas"
	nsPing      = "urn:xmpp:ping"
	nsTime      = "urn:xmpp:time"
	nsVersion   = "jabber:iq:version"
	nsInfo      = "http://jabber.org/protocol/disco#info"
	nsItems     = "http://jabber.org/protocol/disco#items"
	nsRoster    = "jabber:iq:roster"
	nsBlocking  = "urn:xmpp:blocking"
	nsReporting = "urn:xmpp:reporting:1"
	nsBob       = "urn:xmpp:bob"
	nsIBB       = "http://jabber.org/protocol/ibb"
	nsReceipts  = "urn:xmpp:receipts"
	nsMAM       = "urn:xmpp:mam:2"
	nsForward   = "urn:xmpp:forward:0"
	nsDelay     = "urn:xmpp:delay"
	nsRSM       = "http://jabber.org/protocol/rsm"
	nsMUC       = "http://jabber.org/protocol/muc"
	nsMUCUser   = "http://jabber.org/protocol/muc#user"
	nsMUCOwner  = "http://jabber.org/protocol/muc#owner"
	nsMUCAdmin  = "http://jabber.org/protocol/muc#admin"
	nsConf      = "jabber:x:conference"
	nsCarbons   = "urn:xmpp:carbons:2"
	nsCaps      = "http://jabber.org/protocol/caps"
	nsForm      = "jabber:x:data"
	nsPubsub    = "http://jabber.org/protocol/pubsub"
	nsPubsubOwn = "http://jabber.org/protocol/pubsub#owner"
	nsBookmarks = "urn:xmpp:bookmarks:1"
	nsUpload    = "urn:xmpp:http:upload:0"
	nsCommands  = "http://jabber.org/protocol/commands"
	nsSID       = "urn:xmpp:sid:0"
	nsStream    = "http://etherx.jabber.org/streams"
)

var allNS = []string{nsClient, nsStanzas, nsPing, nsTime, nsVersion, nsInfo, nsItems, nsRoster, nsBlocking, nsReporting, nsBob,
	nsIBB, nsReceipts, nsMAM, nsForward, nsDelay, nsRSM, nsMUC, nsMUCUser, nsMUCOwner, nsMUCAdmin, nsConf, nsCarbons, nsCaps, nsForm,
	nsPubsub, nsPubsubOwn, nsBookmarks, nsUpload, nsCommands, nsSID, "jabber:server", "urn:example:unknown", "x", " "}

const (
	meJID    = "me@example.net/lib"
	otherJID = "other@example.net/x"
	meBare   = "me@example.net"
	srvJID   = "example.net"
	peerJID  = "juliet@example.net/balcony"
	roomJID  = "room@conf.example.net"
	roomMe   = "room@conf.example.net/me"
)

// ---------------------------------------------------------------------------
// nasty values

var nastyNumbers = []string{"0", "-1", "1", "65535", "65536", "4294967296", "18446744073709551616", "-9223372036854775809",
	"99999999999999999999999999999999", "1e9", "0x10", " 4096", "4096 ", "", "NaN", "+5", "00000000004096", "3.5"}

var nastyJIDs = []string{"", "@", "/", "@/", "a@", "@b", "a@b/", "a@@b", "a@b@c", "a/b/c", " ", "a b@c", "­", ".", "a@.", "a@b..",
	strings.Repeat("a", 1100) + "@b", "a@" + strings.Repeat("b", 1100), "a@b/" + strings.Repeat("c", 1100), "\x7f@b", "a@[::1", "a@b/\u0000",
	"xn--@b", "ⅰ@b", "a@ⅰ", "me@example.net", "me@example.net/lib", "example.net", "room@conf.example.net/me", "room@conf.example.net"}

var nastyB64 = []string{"", "=", "====", "A", "AA", "AAA", "AAAA", "AA==", "A===", "AAAA=", "!!!!", "AAAA AAAA", "AAAA\nAAAA", "QUJD\r\n", "QUJDRA",
	"QUJDRA==QUJD", strings.Repeat("QUJD", 600), "éééé", "AAA\x00"}

var nastyText = []string{"", " ", "\n", "\t\n  ", "x", "&", "<", "]]>", "\u0000", "￾", strings.Repeat("z", 5000), "true", "false", "1", "0",
	"2006-12-19T17:58:35Z", "2006-12-19T17:58:35", "20061219T17:58:35", "99999-12-19T17:58:35Z", "2006-13-45T25:61:61Z", "-06:00", "+99:99", "Z", "06:00",
	"http://[::1", "https://upload.example.net/a b", "%zz", "sha-1", "sha1+x@bob.xmpp.org", "md5", "executing", "completed", "canceled", "bogus"}

func nasty(r *rand.Rand) string {
	switch r.Intn(4) {
	case 0:
		return nastyNumbers[r.Intn(len(nastyNumbers))]
	case 1:
		return nastyJIDs[r.Intn(len(nastyJIDs))]
	case 2:
		return nastyB64[r.Intn(len(nastyB64))]
	}
	return nastyText[r.Intn(len(nastyText))]
}

// nastyFor prefers a value class that fits the attribute / element name.
func nastyFor(r *rand.Rand, name string) string {
	if r.Intn(4) == 0 {
		return nasty(r)
	}
	switch name {
	case "jid", "from", "to", "by":
		return nastyJIDs[r.Intn(len(nastyJIDs))]
	case "seq", "block-size", "max-age", "code", "index", "count", "max", "maxstanzas", "size", "max_items":
		return nastyNumbers[r.Intn(len(nastyNumbers))]
	case "data":
		return nastyB64[r.Intn(len(nastyB64))]
	}
	return nasty(r)
}

// ---------------------------------------------------------------------------
// structural mutations

// (the kinds the property names — text where an element is expected, missing
// or broken attribute values — are drawn more often)
var mutKinds = []string{"text-before-child", "text-before-child", "ws-between", "drop-attr", "drop-attr", "dup-attr", "empty-attr", "nasty-attr", "nasty-attr", "nasty-attr",
	"rename-attr", "ns", "rename", "entry-degenerate", "entry-degenerate", "wrap", "hoist", "dup-child", "del-child", "del-children", "swap", "nasty-text", "nasty-text", "raw", "graft", "type", "deep", "add-attr", "text-only"}

// mutate applies one structural mutation to the tree rooted at root and
// returns its kind ("" when the chosen mutation did not apply).  graft is a
// pool of canonical subtrees from other grammars.
func mutate(r *rand.Rand, root *node, graft []*node) string {
	nodes := root.all()
	n := nodes[r.Intn(len(nodes))]
	kind := mutKinds[r.Intn(len(mutKinds))]
	switch kind {
	case "entry-degenerate":
		var entries []*node
		for _, x := range nodes {
			if x != root && entryNames[x.Name] {
				entries = append(entries, x)
			}
		}
		if len(entries) == 0 {
			return ""
		}
		degenerate(r, entries[r.Intn(len(entries))])
	case "text-before-child":
		pos := 0
		if len(n.Kids) > 0 {
			pos = r.Intn(len(n.Kids) + 1)
		}
		txt := []string{"x", " x ", "\n", "text", "0", "&#x41;"}[r.Intn(6)]
		k := kid{Text: txt}
		if txt == "&#x41;" {
			k = kid{Raw: txt}
		}
		n.Kids = append(n.Kids[:pos], append([]kid{k}, n.Kids[pos:]...)...)
	case "ws-between":
		if len(n.Kids) == 0 {
			n.Kids = []kid{{Text: "\n  "}}
			break
		}
		var ks []kid
		ws := []string{" ", "\n", "\n\t  ", "\r\n"}[r.Intn(4)]
		ks = append(ks, kid{Text: ws})
		for _, k := range n.Kids {
			ks = append(ks, k, kid{Text: ws})
		}
		n.Kids = ks
	case "drop-attr":
		if len(n.Attrs) == 0 {
			return ""
		}
		i := r.Intn(len(n.Attrs))
		n.Attrs = append(append([]attr{}, n.Attrs[:i]...), n.Attrs[i+1:]...)
	case "dup-attr":
		if len(n.Attrs) == 0 {
			return ""
		}
		a := n.Attrs[r.Intn(len(n.Attrs))]
		if r.Intn(2) == 0 {
			a.V = nastyFor(r, a.K)
		}
		n.Attrs = append(n.Attrs, a)
	case "empty-attr":
		if len(n.Attrs) == 0 {
			return ""
		}
		n.Attrs[r.Intn(len(n.Attrs))].V = ""
	case "nasty-attr":
		if len(n.Attrs) == 0 {
			return ""
		}
		i := r.Intn(len(n.Attrs))
		n.Attrs[i].V = nastyFor(r, n.Attrs[i].K)
	case "rename-attr":
		if len(n.Attrs) == 0 {
			return ""
		}
		i := r.Intn(len(n.Attrs))
		n.Attrs[i].K = []string{"x", "xml:lang", "ID", "jid", "id", "type", "sid", "seq", "node", "ver", "queryid", "xmlns:a"}[r.Intn(12)]
	case "add-attr":
		k := []string{"id", "type", "sid", "seq", "jid", "node", "ver", "queryid", "from", "to", "xml:lang", "block-size", "stanza", "code", "cid", "max-age", "hash"}[r.Intn(17)]
		n.Attrs = append(n.Attrs, attr{k, nastyFor(r, k)})
	case "ns":
		n.NS = allNS[r.Intn(len(allNS))]
	case "rename":
		n.Name = []string{"x", "query", "item", "data", "open", "close", "received", "request", "result", "forwarded", "message", "iq", "presence",
			"error", "set", "block", "unblock", "blocklist", "c", "invite", "time", "ping", "fin", "sent", "stream:stream", "stream:error", "a:b"}[r.Intn(27)]
	case "wrap":
		if n == root {
			return ""
		}
		c := n.clone()
		w := el([]string{"x", "wrap", "forwarded", "item", "query"}[r.Intn(5)], []string{"", "urn:example:w", nsForward}[r.Intn(3)])
		w.add(c)
		*n = *w
	case "hoist":
		if n == root || len(n.Kids) == 0 {
			return ""
		}
		// replace n by its children inside its parent
		for _, p := range nodes {
			for i, k := range p.Kids {
				if k.El == n {
					ks := append([]kid{}, p.Kids[:i]...)
					ks = append(ks, n.Kids...)
					ks = append(ks, p.Kids[i+1:]...)
					p.Kids = ks
					return kind
				}
			}
		}
		return ""
	case "dup-child":
		if len(n.Kids) == 0 {
			return ""
		}
		k := n.Kids[r.Intn(len(n.Kids))]
		if k.El != nil {
			k.El = k.El.clone()
		}
		n.Kids = append(n.Kids, k)
	case "del-child":
		if len(n.Kids) == 0 {
			return ""
		}
		i := r.Intn(len(n.Kids))
		n.Kids = append(append([]kid{}, n.Kids[:i]...), n.Kids[i+1:]...)
	case "del-children":
		if len(n.Kids) == 0 {
			return ""
		}
		n.Kids = nil
	case "swap":
		if len(n.Kids) < 2 {
			return ""
		}
		i, j := r.Intn(len(n.Kids)), r.Intn(len(n.Kids))
		n.Kids[i], n.Kids[j] = n.Kids[j], n.Kids[i]
	case "nasty-text":
		v := nastyFor(r, n.Name)
		replaced := false
		for i := range n.Kids {
			if n.Kids[i].El == nil && n.Kids[i].Raw == "" {
				n.Kids[i].Text = v
				replaced = true
			}
		}
		if !replaced {
			n.Kids = append(n.Kids, kid{Text: v})
		}
	case "text-only":
		n.Kids = []kid{{Text: nastyFor(r, n.Name)}}
	case "raw":
		raw := []string{"<!-- c -->", "<?pi x?>", "<![CDATA[<x/>]]>", "<![CDATA[]]>", "&amp;", "&#0;", "&bogus;", "<!DOCTYPE x>", "<?xml version='1.0'?>"}[r.Intn(9)]
		pos := 0
		if len(n.Kids) > 0 {
			pos = r.Intn(len(n.Kids) + 1)
		}
		n.Kids = append(n.Kids[:pos], append([]kid{{Raw: raw}}, n.Kids[pos:]...)...)
	case "graft":
		if len(graft) == 0 {
			return ""
		}
		g := graft[r.Intn(len(graft))].clone()
		if r.Intn(2) == 0 && len(g.Kids) > 0 {
			// graft only a payload of the other stanza
			for _, k := range g.Kids {
				if k.El != nil {
					g = k.El
					break
				}
			}
		}
		pos := 0
		if len(n.Kids) > 0 {
			pos = r.Intn(len(n.Kids) + 1)
		}
		n.Kids = append(n.Kids[:pos], append([]kid{{El: g}}, n.Kids[pos:]...)...)
	case "type":
		root.set("type", []string{"get", "set", "result", "error", "chat", "normal", "groupchat", "headline", "unavailable", "subscribe", "probe", "", "bogus"}[r.Intn(13)])
	case "deep":
		depth := []int{2, 10, 100, 600}[r.Intn(4)]
		c := n.clone()
		for i := 0; i < depth; i++ {
			w := &node{Name: n.Name, NS: n.NS, Attrs: append([]attr{}, n.Attrs...)}
			w.add(c)
			c = w
		}
		if n == root {
			// keep the stanza element itself, nest its first payload instead
			return ""
		}
		*n = *c
	}
	return kind
}

// ---------------------------------------------------------------------------
// byte-level mutations

var byteKinds = []string{"truncate", "flip", "delete", "dup-range", "splice", "insert"}

func mutateBytes(r *rand.Rand, s string, other string) (string, string) {
	if len(s) == 0 {
		return s, ""
	}
	b := []byte(s)
	kind := byteKinds[r.Intn(len(byteKinds))]
	switch kind {
	case "truncate":
		b = b[:r.Intn(len(b))]
	case "flip":
		i := r.Intn(len(b))
		switch r.Intn(3) {
		case 0:
			b[i] ^= 1 << uint(r.Intn(8))
		case 1:
			const special = "<>&'\"/= \x00\xff:!?-[]"
			b[i] = special[r.Intn(len(special))]
		default:
			b[i] = byte(r.Intn(256))
		}
	case "delete":
		i := r.Intn(len(b))
		j := i + 1 + r.Intn(min(len(b)-i, 12))
		if j > len(b) {
			j = len(b)
		}
		b = append(b[:i], b[j:]...)
	case "dup-range":
		i := r.Intn(len(b))
		j := i + 1 + r.Intn(min(len(b)-i, 40))
		if j > len(b) {
			j = len(b)
		}
		seg := append([]byte{}, b[i:j]...)
		b = append(b[:j], append(seg, b[j:]...)...)
	case "splice":
		if other == "" {
			other = "<x xmlns='jabber:x:data'/>"
		}
		i := r.Intn(len(b) + 1)
		a := r.Intn(len(other))
		z := a + 1 + r.Intn(len(other)-a)
		b = append(b[:i], append([]byte(other[a:z]), b[i:]...)...)
	case "insert":
		i := r.Intn(len(b) + 1)
		ins := []string{"<", ">", "&", "</", "/>", "<!--", "]]>", "<![CDATA[", "'", "\"", "\x00", "\xff\xfe", "</stream:stream>", "<a>", "</a>", " xmlns=''", "&#x0;"}[r.Intn(17)]
		b = append(b[:i], append([]byte(ins), b[i:]...)...)
	}
	return string(b), kind
}

func min(a, b int) int {
	if a < b {
		return a
	}
	return b
}

func iq(typ, id string, payload ...*node) *node {
	n := el("iq", nsClient, "type", typ, "id", id, "from", peerJID, "to", meJID)
	return n.add(payload...)
}

func msg(typ, id string, payload ...*node) *node {
	n := el("message", nsClient, "id", id, "from", peerJID, "to", meJID)
	if typ != "" {
		n.set("type", typ)
	}
	return n.add(payload...)
}

func pres(typ, from string, payload ...*node) *node {
	n := el("presence", nsClient, "from", from, "to", meJID)
	if typ != "" {
		n.set("type", typ)
	}
	return n.add(payload...)
}

func stanzaErr(typ, cond, text string) *node {
	e := el("error", "", "type", typ)
	e.add(el(cond, nsStanzas))
	if text != "" {
		e.add(el("text", nsStanzas, "xml:lang", "en").text(text))
	}
	return e
}

// entryNames are the elements that list-style payloads repeat.
var entryNames = map[string]bool{"item": true, "result": true, "identity": true, "feature": true, "field": true, "conference": true,
	"header": true, "note": true, "option": true, "group": true, "status": true}

// degenerate turns one entry of a list into one of the shapes a sloppy or
// hostile peer sends: completely empty, payload-less (attributes kept),
// text-only, or with a foreign child instead of / besides its payload.
func degenerate(r *rand.Rand, n *node) {
	switch r.Intn(5) {
	case 0:
		n.Attrs, n.Kids = nil, nil
	case 1, 2:
		n.Kids = nil
	case 3:
		n.Kids = []kid{{Text: []string{"x", " ", "\n\t"}[r.Intn(3)]}}
	default:
		f := el([]string{"foreign", "item", "x", "query"}[r.Intn(4)], "urn:example:foreign", "a", "b").add(el("deep", ""))
		if r.Intn(2) == 0 {
			n.Kids = []kid{{El: f}}
		} else {
			n.Kids = append([]kid{{El: f}}, n.Kids...)
		}
	}
}

// degenerateEntries degenerates about half of the list entries under root and
// returns how many it changed.
func degenerateEntries(r *rand.Rand, root *node) int {
	k := 0
	for _, x := range root.all() {
		if x != root && entryNames[x.Name] && r.Intn(2) == 0 {
			degenerate(r, x)
			k++
		}
	}
	return k
}

// richErr builds a stanza error payload with the shapes peers really send and
// the ones they should not: zero to three conditions, up to four <text/>
// children that are empty, whitespace-only or filled, with and without
// xml:lang and with repeated languages, application conditions named like
// standard ones, in canonical or shuffled order.  The tags describe the shape.
func richErr(r *rand.Rand) (*node, []string) {
	e := el("error", "", "type", []string{"cancel", "modify", "auth", "wait", "continue", "", "bogus"}[r.Intn(7)])
	if r.Intn(3) == 0 {
		e.set("by", []string{srvJID, "", "@"}[r.Intn(3)])
	}
	conds := []string{"item-not-found", "service-unavailable", "feature-not-implemented", "forbidden", "bad-request", "internal-server-error", "gone", "redirect", "undefined-condition"}
	var kids []*node
	nc := []int{1, 1, 1, 2, 0, 3}[r.Intn(6)]
	for i := 0; i < nc; i++ {
		c := el(conds[r.Intn(len(conds))], nsStanzas)
		if c.Name == "gone" || c.Name == "redirect" {
			c.text("xmpp:other@example.org")
		}
		kids = append(kids, c)
	}
	var tags []string
	nt := r.Intn(5)
	firstEmpty, laterFull := false, false
	for i := 0; i < nt; i++ {
		t := el("text", nsStanzas)
		if l := []string{"", "en", "de", "en", "x-klingon"}[r.Intn(5)]; l != "" {
			t.set("xml:lang", l)
		}
		switch r.Intn(4) {
		case 0:
			if i == 0 {
				firstEmpty = true
			}
		case 1:
			t.text(" \n\t ")
			if i > 0 {
				laterFull = true
			}
		default:
			t.text("no such thing")
			if i > 0 {
				laterFull = true
			}
		}
		kids = append(kids, t)
	}
	if nt > 1 {
		tags = append(tags, "err-texts")
	}
	if firstEmpty && laterFull {
		tags = append(tags, "err-first-text-empty")
	}
	if r.Intn(3) == 0 {
		kids = append(kids, el([]string{"too-many-parameters", "item-not-found", "text", "error"}[r.Intn(4)], "urn:example:app"))
	}
	if r.Intn(2) == 0 {
		r.Shuffle(len(kids), func(i, j int) { kids[i], kids[j] = kids[j], kids[i] })
		tags = append(tags, "err-shuffled")
	}
	if nc != 1 {
		tags = append(tags, "err-conditions-not-one")
	}
	e.add(kids...)
	return e, tags
}

func xform(typ, formType string, fields ...string) *node {
	x := el("x", nsForm, "type", typ)
	x.add(el("title", "").text("A form"))
	x.add(el("instructions", "").text("Fill it"))
	if formType != "" {
		x.add(el("field", "", "var", "FORM_TYPE", "type", "hidden").add(el("value", "").text(formType)))
	}
	for i := 0; i+1 < len(fields); i += 2 {
		f := el("field", "", "var", fields[i], "type", "text-single", "label", "L").add(el("value", "").text(fields[i+1]))
		x.add(f)
	}
	return x
}

func rsmSet(first, last string, count int) *node {
	s := el("set", nsRSM)
	if first != "" {
		s.add(el("first", "", "index", "0").text(first))
	}
	if last != "" {
		s.add(el("last", "").text(last))
	}
	s.add(el("count", "").text(fmt.Sprint(count)))
	return s
}

func forwardedMsg(body string) *node {
	return el("forwarded", nsForward).add(
		el("delay", nsDelay, "stamp", "2010-07-10T23:08:25Z"),
		el("message", nsClient, "from", "witch@shakespeare.lit", "to", "macbeth@shakespeare.lit", "type", "chat").add(el("body", "").text(body)),
	)
}
