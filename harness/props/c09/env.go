package c09

import (
	"bytes"
	"context"
	"encoding/xml"
	"errors"
	"fmt"
	"io"
	"mellium.im/xmpp/internal/verifhook"
	"os"
	"regexp"
	"runtime"
	"sort"
	"strings"
	"sync"
	"sync/atomic"
	"syscall"
	"time"

	"mellium.im/xmlstream"
	"mellium.im/xmpp"
	"mellium.im/xmpp/bin"
	"mellium.im/xmpp/blocklist"
	"mellium.im/xmpp/carbons"
	"mellium.im/xmpp/disco"
	"mellium.im/xmpp/history"
	"mellium.im/xmpp/ibb"
	"mellium.im/xmpp/jid"
	"mellium.im/xmpp/muc"
	"mellium.im/xmpp/mux"
	"mellium.im/xmpp/ping"
	"mellium.im/xmpp/receipts"
	"mellium.im/xmpp/roster"
	"mellium.im/xmpp/stanza"
	"mellium.im/xmpp/version"
	"mellium.im/xmpp/xtime"

	"mellium.im/xmpp/verifharness/core"
	"mellium.im/xmpp/verifharness/sess"
	"mellium.im/xmpp/verifharness/stall"
	"mellium.im/xmpp/verifharness/xmltree"
)

// grace is how long a wait stays silent before the stall rule is consulted.
// It never decides anything by itself: a verdict needs a library goroutine
// parked at the same library frame in a channel operation / select / mutex
// across three later samples while every harness actor is idle.
const grace = time.Second

// env is one served session with every library handler registered and a
// cooperative application around it.
type env struct {
	c      *core.Case
	p      *sess.Pair
	s      *xmpp.Session
	ctx    context.Context
	cancel context.CancelFunc

	ibbH *ibb.Handler
	lst  *ibb.Listener
	hist *history.Handler
	rcpt *receipts.Handler
	mucC *muc.Client

	serveDone chan struct{}
	sig       chan struct{} // poked on every state change

	wmu           sync.Mutex // serialises peer writes
	delivering    int        // workload 2: replies the responder is still delivering (under mu)
	mu            sync.Mutex
	serveErr      error
	servePanic    bool
	obs           map[string]int
	acts          map[string]*action
	actList       []*action
	libElems      []*xmltree.Node   // complete elements the library wrote, in order
	libIDs        map[string]string // id -> type of stanzas the library wrote
	sent          []byte            // everything the peer wrote after its header
	autoReply     func(req *xmltree.Node) string
	onElem        func(n *xmltree.Node)
	fixedIDs      map[string]bool
	conns         []*ibb.Conn
	channel       *muc.Channel
	outConn       *ibb.Conn
	wedged        bool
	lst2          *ibb.Listener // a second listener nobody accepts from
	p2            *sess.Pair
	lst2Closing   bool
	opts          envOpts
	hookFired     atomic.Bool
	faulted       bool            // a transport fault was armed in this case
	ibbAck        string          // how the peer treats the application's IBB <close/> / <data/> requests (under mu)
	histClose     int             // close the tracked-history iterator after this many results (<0: never)
	histSent      int             // tracked-history results the peer has sent (under mu)
	closeEarly    int             // workload 2: iterator helpers close after this many items (<0: read to the end)
	closedLocally bool            // the application called Session.Close in this case
	serveGID      string          // goroutine id of this case's Serve call
	actionGIDs    map[string]bool // goroutine ids of this case's application calls
	tag           string          // workload 2: the library function owning the response
	readAll       bool            // history consumer reads every token of Current()

	bg   sync.WaitGroup
	loop *sess.PeerLoop
}

type action struct {
	name  string
	done  chan struct{}
	reqID string
	ok    bool
	err   error
	// cancel cancels the context of this call only
	cancel context.CancelFunc
	// detached actions take no context (ibb.Conn.Write): nothing obliges them to
	// return once the session is gone, so they are neither awaited nor judged
	detached bool
}

func (e *env) poke() {
	select {
	case e.sig <- struct{}{}:
	default:
	}
}

func (e *env) note(k string) {
	e.mu.Lock()
	e.obs[k]++
	e.mu.Unlock()
}

type discardRW struct {
	xml.TokenReader
	xmlstream.Encoder
}

func eofReader() xml.TokenReader {
	return xmlstream.ReaderFunc(func() (xml.Token, error) { return nil, io.EOF })
}

func drainTokens(r xml.TokenReader) {
	if r == nil {
		return
	}
	for i := 0; i < 1<<20; i++ {
		if _, err := r.Token(); err != nil {
			return
		}
	}
}

var fixedTime = time.Date(2006, 12, 19, 17, 58, 35, 0, time.FixedZone("", -6*3600))

// newEnv builds the session and starts Serve, the acceptor and the peer loop.
// envOpts configure the application around the session.
type envOpts struct {
	// nilCallbacks leaves every callback that the library documents as optional
	// (or guards with a nil check) unset: muc.Client.HandleInvite and
	// HandleUserPresence, the function of muc.HandleInvite, receipts.Handler's
	// Unhandled, the inner handler of history.NewHandler, all four blocklist
	// callbacks, xtime's TimeFunc and bin's Get.
	nilCallbacks bool
	// hookCancel names a yield point of the library (serve.lookup,
	// serve.handoff, req.wait, req.done): the first time a request of this
	// case's application calls reaches it, that call's context is cancelled
	// from inside the yield.
	hookCancel string
}

func newEnv(c *core.Case, o envOpts) (*env, error) {
	p, err := sess.NewPair(sess.Opts{})
	if err != nil {
		return nil, err
	}
	e := &env{c: c, p: p, s: p.S, serveDone: make(chan struct{}), sig: make(chan struct{}, 1),
		histClose: -1, closeEarly: -1, obs: map[string]int{}, acts: map[string]*action{}, actionGIDs: map[string]bool{}, libIDs: map[string]string{}, fixedIDs: map[string]bool{}}
	e.ctx, e.cancel = context.WithCancel(context.Background())

	e.opts = o
	verifhook.Set(nil)
	if o.hookCancel != "" {
		verifhook.Set(e.yield)
	}
	e.ibbH = &ibb.Handler{}
	e.rcpt = &receipts.Handler{Unhandled: func(string) { e.note("receipts_unhandled") }}
	e.hist = history.NewHandler(mux.MessageHandlerFunc(func(m stanza.Message, t xmlstream.TokenReadEncoder) error {
		e.note("history_inner")
		drainTokens(t)
		return nil
	}))
	e.mucC = &muc.Client{
		HandleInvite:       func(muc.Invitation) { e.note("muc_invite") },
		HandleUserPresence: func(stanza.Presence, muc.Item) { e.note("muc_user_presence") },
	}
	directInvite := func(muc.Invitation) { e.note("muc_direct_invite") }
	blockH := blocklist.Handler{
		Block:      func(blocklist.Item) { e.note("block") },
		Unblock:    func(jid.JID) { e.note("unblock") },
		UnblockAll: func() { e.note("unblock_all") },
		List: func(c chan<- jid.JID) {
			e.note("block_list")
			c <- jid.MustParse("romeo@montague.net")
			c <- jid.MustParse("iago@shakespeare.lit")
		},
	}
	timeH := xtime.Handler{TimeFunc: func() time.Time { e.note("time"); return fixedTime }}
	binH := bin.Handler{Get: func(cid string) (*bin.Data, error) {
		e.note("bob")
		if strings.HasPrefix(cid, "sha1+") {
			return &bin.Data{CID: cid, Type: "text/plain", Data: []byte("hello"), MaxAge: time.Hour}, nil
		}
		return nil, stanza.Error{Type: stanza.Cancel, Condition: stanza.ItemNotFound}
	}}
	if o.nilCallbacks {
		e.rcpt = &receipts.Handler{}
		e.hist = history.NewHandler(nil)
		e.mucC = &muc.Client{}
		directInvite = nil
		blockH = blocklist.Handler{}
		timeH = xtime.Handler{}
		binH = bin.Handler{}
	}
	m := mux.New(nsClient,
		ibb.Handle(e.ibbH),
		history.Handle(e.hist),
		receipts.Handle(e.rcpt),
		muc.HandleClient(e.mucC),
		muc.HandleInvite(directInvite),
		disco.Handle(),
		disco.HandleCaps(func(stanza.Presence, disco.Caps) { e.note("caps") }),
		roster.Handle(roster.Handler{Push: func(ver string, item roster.Item) error {
			e.note("roster_push")
			if item.Name == "refuse" {
				return stanza.Error{Type: stanza.Cancel, Condition: stanza.NotAcceptable}
			}
			return nil
		}}),
		blocklist.Handle(blockH),
		carbons.Handle(carbons.Handler{F: func(m stanza.Message, sent bool, inner xml.TokenReader) error {
			e.note("carbons")
			drainTokens(inner)
			return nil
		}}),
		xtime.Handle(timeH),
		version.Handle(version.Query{Name: "verif", Version: "1", OS: "none"}),
		ping.Handle(),
		bin.Handle(binH),
	)

	// cooperative acceptor: accept every incoming IBB stream and drain it
	e.lst = e.ibbH.Listen(e.s)
	e.bg.Add(1)
	go func() {
		defer e.bg.Done()
		c.Guard("ibb.accept", func() {
			for {
				conn, err := e.lst.Accept()
				if err != nil {
					return
				}
				e.note("ibb_accept")
				ic, _ := conn.(*ibb.Conn)
				if ic != nil {
					e.mu.Lock()
					e.conns = append(e.conns, ic)
					e.mu.Unlock()
				}
				e.bg.Add(1)
				go func() {
					defer e.bg.Done()
					c.Guard("ibb.read", func() {
						n, _ := io.Copy(io.Discard, conn)
						if n > 0 {
							e.note("ibb_bytes")
						}
					})
				}()
				e.poke()
			}
		})
	}()

	// peer loop: an independent decoder over what the library writes
	e.loop = sess.RunPeerLoop(p.Peer, func(n *xmltree.Node) {
		e.mu.Lock()
		e.libElems = append(e.libElems, n)
		id, typ := n.Attr("id"), n.Attr("type")
		if id != "" {
			e.libIDs[id] = typ
		}
		auto := e.autoReply
		on := e.onElem
		fixed := e.fixedIDs[id]
		e.mu.Unlock()
		if auto != nil && !fixed && n.Name.Local == "iq" && (typ == "get" || typ == "set") {
			if rep := auto(n); rep != "" {
				e.peerWrite(rep)
			}
		}
		if on != nil {
			on(n)
		}
		e.poke()
	})
	go func() {
		<-e.loop.Done()
		e.poke()
	}()

	go func() {
		defer close(e.serveDone)
		e.mu.Lock()
		e.serveGID = goid()
		e.mu.Unlock()
		var err error
		panicked := c.Guard("Serve", func() { err = e.s.Serve(m) })
		e.mu.Lock()
		e.serveErr, e.servePanic = err, panicked
		e.mu.Unlock()
		e.poke()
	}()
	return e, nil
}

func (e *env) peerWrite(s string) {
	// record and wire order must agree: the driver and the peer loop both write
	e.wmu.Lock()
	defer e.wmu.Unlock()
	e.mu.Lock()
	e.sent = append(e.sent, s...)
	e.histSent += strings.Count(s, "queryid='q1'") + strings.Count(s, "queryid='qw2'")
	e.mu.Unlock()
	e.p.Peer.Write([]byte(s))
}

func (e *env) served() bool {
	select {
	case <-e.serveDone:
		return true
	default:
		return false
	}
}

func (e *env) sawID(id string) bool {
	e.mu.Lock()
	defer e.mu.Unlock()
	_, ok := e.libIDs[id]
	return ok
}

// answered reports whether the library wrote a result/error stanza with id.
func (e *env) answered(id string) bool {
	e.mu.Lock()
	defer e.mu.Unlock()
	t, ok := e.libIDs[id]
	return ok && (t == "result" || t == "error")
}

const (
	waitOK    = iota // condition became true
	waitIdle         // the library sits in a transport read with nothing left to read
	waitStall        // stall rule fired (violation recorded)
)

// wait blocks until cond holds.  When nothing happens for a grace period the
// stall rule is applied to the Serve goroutine (and, with actions set, to the
// harness's helper calls).
func (e *env) wait(cond func() bool, what string, actions bool) int {
	// Poll with growing pauses: as soon as nobody sits in a transport read and a
	// first sample shows Serve (or a helper call) parked in a library wait, the
	// three-sample rule is applied; otherwise keep waiting.
	pause := 40 * time.Millisecond
	for {
		if cond() {
			return waitOK
		}
		select {
		case <-e.sig:
			continue
		case <-time.After(pause):
		}
		if pause < grace {
			pause *= 2
		}
		if cond() {
			return waitOK
		}
		if e.p.Lib.BlockedReads() > 0 {
			// Somebody (Serve, or an application call that owns a response) sits in
			// a transport read: more input could still wake everything, so this is
			// not a quiescent state and nothing is judged.  Only possible before
			// the input was ended.
			if pause >= grace {
				e.c.Count("wait_gave_up_library_reading", 1)
				return waitIdle
			}
			continue
		}
		// only this case's goroutines count: a child may still hold the parked
		// Serve goroutine of an earlier case that was reported as wedged
		relevant := func(p stall.Parked) (inServe, ok bool) {
			e.mu.Lock()
			defer e.mu.Unlock()
			inServe = p.ID == e.serveGID
			inAction := actions && e.actionGIDs[p.ID] && !strings.Contains(p.Stack, "ibb.(*stanzaWriter).Write")
			return inServe, inServe || inAction
		}
		first := false
		for _, p := range stall.Snapshot(nil) {
			if _, ok := relevant(p); ok {
				first = true
			}
		}
		if !first {
			// Nobody of this case is parked.  A library goroutine that runs without
			// end is no better than a parked one.
			if e.spinning(cond, what) {
				return waitStall
			}
			continue
		}
		e.c.Count("stall_rule_applied", 1)
		parked := stall.Check(nil, 0)
		if len(parked) > 0 && !quiescent() {
			// some goroutine of this process is runnable: it may be the one that is
			// going to wake the parked ones (the machine may be heavily loaded) -
			// or one that spins with the lock the parked ones wait for
			e.c.Count("stall_rule_not_quiescent", 1)
			if e.spinning(cond, what) {
				return waitStall
			}
			continue
		}
		for _, p := range parked {
			inServe, ok := relevant(p)
			if !ok {
				continue
			}
			if cond() {
				return waitOK
			}
			who := "Serve"
			if !inServe {
				who = "helper"
			}
			if e.c.Violated() {
				// A panic already unwound an application call of this case before it
				// could close its response: the wait is a consequence, not a second
				// defect.
				e.c.Count("stall_after_panic_not_judged", 1)
				e.mu.Lock()
				e.wedged = true
				e.mu.Unlock()
				return waitStall
			}
			form := inputForm(e.input())
			key := stall.Key(p)
			if p.Func == "handleInputStream" {
				// Serve waits for a response to be closed: the site says nothing, the
				// owner of the response and the state of the input do
				key += ":" + e.stallTag() + ":" + form
			}
			e.c.Violate(key, "%s goroutine parked for good in %s (%s) while waiting for %s; every harness actor idle\n%s", who, p.Func, p.State, what, core.TrimStack(p.Stack))
			if os.Getenv("C09_DEBUG") != "" {
				buf := make([]byte, 1<<20)
				fmt.Fprintf(os.Stderr, "C09 stall dump:\n%s\n", buf[:runtime.Stack(buf, true)])
			}
			e.mu.Lock()
			e.wedged = true
			e.mu.Unlock()
			return waitStall
		}
	}
}

// poisoned is set once a library goroutine was found spinning: it keeps a CPU
// busy for as long as this child lives, so the child's remaining cases are
// skipped (the parent starts fresh children for the other ranges).
var poisoned atomic.Bool

type gstate struct {
	id, state string
	libFrames []string // library functions on the stack, innermost first
	harness   bool     // innermost non-runtime frame is harness code
}

var gHead = regexp.MustCompile(`^goroutine (\d+) \[([^\],]+)`)

// dumpStates parses a full stack dump into per-goroutine states.
func dumpStates() map[string]gstate {
	buf := make([]byte, 8<<20)
	n := runtime.Stack(buf, true)
	out := map[string]gstate{}
	for _, g := range strings.Split(string(buf[:n]), "\n\n") {
		lines := strings.Split(g, "\n")
		m := gHead.FindStringSubmatch(lines[0])
		if m == nil {
			continue
		}
		st := gstate{id: m[1], state: m[2]}
		first := true
		for _, l := range lines[1:] {
			if strings.HasPrefix(l, "\t") || strings.HasPrefix(l, "created by") || l == "" {
				continue
			}
			if i := strings.LastIndex(l, "("); i > 0 {
				l = l[:i]
			}
			isHarness := strings.HasPrefix(l, "mellium.im/xmpp/verifharness")
			isLib := !isHarness && strings.HasPrefix(l, "mellium.im/xmpp")
			if first && !strings.HasPrefix(l, "runtime.") && !strings.HasPrefix(l, "runtime/") {
				// standard library frames below a library frame (encoding/xml, bufio)
				// do not decide whose code this is; the first mellium frame does
				if isHarness {
					st.harness = true
					first = false
				} else if isLib {
					first = false
				}
			}
			if isLib {
				f := strings.TrimPrefix(strings.TrimPrefix(l, "mellium.im/xmpp"), "/")
				st.libFrames = append(st.libFrames, strings.TrimPrefix(f, "."))
			}
		}
		out[st.id] = st
	}
	return out
}

func cpuTime() time.Duration {
	var ru syscall.Rusage
	if syscall.Getrusage(syscall.RUSAGE_SELF, &ru) != nil {
		return 0
	}
	return time.Duration(ru.Utime.Nano() + ru.Stime.Nano())
}

// spinning decides whether a library goroutine of this process runs without
// end: in eight samples the same goroutine is runnable with library code (not
// harness code) on top of its stack, no other goroutine except the sampler is
// runnable, the transport saw no read or write between the first and the last
// sample, and the process burnt CPU time meanwhile (a goroutine that is merely
// starved burns none, one that is scheduled and works moves the transport or
// ends).  The key names the deepest library function common to all samples.
func (e *env) spinning(cond func() bool, what string) bool {
	self := goid()
	r0, w0, _ := e.p.Lib.Ops()
	cpu0 := cpuTime()
	var cand map[string][]string // goroutine id -> common library frames
	for i := 0; i < 8; i++ {
		if i > 0 {
			time.Sleep(50 * time.Millisecond)
		}
		cur := map[string][]string{}
		for id, g := range dumpStates() {
			if id == self {
				continue
			}
			if g.state == "sleep" {
				return false // a timer is pending somewhere: not quiescent
			}
			if g.state != "runnable" && g.state != "running" {
				continue
			}
			if g.harness || len(g.libFrames) == 0 {
				return false // harness code (or foreign code) is at work: not quiescent
			}
			cur[id] = g.libFrames
		}
		if len(cur) == 0 {
			return false
		}
		if cand == nil {
			cand = cur
			continue
		}
		for id, frames := range cand {
			now, ok := cur[id]
			if !ok {
				delete(cand, id)
				continue
			}
			var common []string
			for _, f := range frames {
				for _, h := range now {
					if f == h {
						common = append(common, f)
						break
					}
				}
			}
			cand[id] = common
		}
		if len(cand) == 0 {
			return false
		}
	}
	r1, w1, _ := e.p.Lib.Ops()
	burnt := cpuTime() - cpu0
	if r1 != r0 || w1 != w0 || burnt < 30*time.Millisecond || cond() {
		e.c.Count("spin_rule_no_verdict", 1)
		return false
	}
	for id, frames := range cand {
		if len(frames) == 0 {
			continue
		}
		if e.c.Violated() {
			e.c.Count("stall_after_panic_not_judged", 1)
		} else {
			e.c.Violate("stall:"+frames[0]+":spinning", "library goroutine %s runs without end in %s while waiting for %s: runnable in eight samples, no transport read or write meanwhile, %v of CPU time burnt, every other goroutine blocked; library frames common to all samples: %v", id, frames[0], what, burnt, frames)
		}
		e.mu.Lock()
		e.wedged = true
		e.mu.Unlock()
		poisoned.Store(true)
		return true
	}
	return false
}

// inputForm says whether the peer's byte stream is a well-formed XMPP stream
// as far as it goes: no syntax error, no unfinished construct at its end, and
// none of the constructs XMPP forbids (comments, processing instructions,
// directives, stream-namespace elements inside the stream), all of which make
// a reader of the library fail.
func inputForm(b []byte) string {
	d := xml.NewDecoder(bytes.NewReader(b))
	depth, first := 0, true
	for {
		tok, err := d.Token()
		if err == io.EOF {
			if depth > 1 {
				return "malformed-input"
			}
			return "wellformed-input"
		}
		if err != nil {
			// a stream that simply stops between two stanzas (no closing tag) is
			// reported as an unexpected EOF by the decoder
			if se, ok := err.(*xml.SyntaxError); ok && strings.Contains(se.Msg, "unexpected EOF") && depth <= 1 && bytes.HasSuffix(bytes.TrimSpace(b), []byte(">")) {
				return "wellformed-input"
			}
			return "malformed-input"
		}
		switch t := tok.(type) {
		case xml.StartElement:
			if depth >= 1 && t.Name.Space == nsStream {
				// stream-level element (error, restart, ...) where a stanza or a
				// payload is expected: the library's stream reader fails on it
				return "malformed-input"
			}
			depth++
		case xml.EndElement:
			depth--
		case xml.ProcInst:
			if !(first && t.Target == "xml") {
				return "malformed-input"
			}
		case xml.Comment, xml.Directive:
			return "malformed-input"
		}
		first = false
	}
}

// goid returns the id of the calling goroutine as it appears in stack dumps.
func goid() string {
	buf := make([]byte, 64)
	buf = buf[:runtime.Stack(buf, false)]
	f := strings.Fields(string(buf))
	if len(f) >= 2 && f[0] == "goroutine" {
		return f[1]
	}
	return ""
}

var gHdr = regexp.MustCompile(`(?m)^goroutine \d+ \[([^\],]+)`)

// quiescent reports whether every goroutine of the process except the caller
// is blocked (none runnable or running), in two dumps a moment apart.
func quiescent() bool {
	for i := 0; i < 2; i++ {
		buf := make([]byte, 4<<20)
		n := runtime.Stack(buf, true)
		running := 0
		for _, m := range gHdr.FindAllSubmatch(buf[:n], -1) {
			switch string(m[1]) {
			case "running":
				running++
			case "runnable", "syscall":
				return false
			}
		}
		if running > 1 {
			return false
		}
		if i == 0 {
			time.Sleep(50 * time.Millisecond)
		}
	}
	return true
}

// stallTag names the application calls that were made in this case: a Serve
// loop that waits for a response to be closed is waiting for one of them.
func (e *env) stallTag() string {
	e.mu.Lock()
	defer e.mu.Unlock()
	if e.tag != "" {
		return e.tag
	}
	var names []string
	for _, a := range e.actList {
		names = append(names, strings.TrimPrefix(a.name, "helper:"))
	}
	if len(names) == 0 {
		return "no-app-call"
	}
	sort.Strings(names)
	return strings.Join(names, "+")
}

// start runs an application-side library call on its own goroutine.
func (e *env) start(name, reqID string, f func(ctx context.Context) (bool, error)) *action {
	a := &action{name: name, done: make(chan struct{}), reqID: reqID}
	actx, cancel := context.WithCancel(e.ctx)
	a.cancel = cancel
	e.mu.Lock()
	e.acts[name] = a
	e.actList = append(e.actList, a)
	if reqID != "" {
		e.fixedIDs[reqID] = true
	}
	e.mu.Unlock()
	go func() {
		defer func() {
			close(a.done)
			e.poke()
		}()
		e.mu.Lock()
		e.actionGIDs[goid()] = true
		e.mu.Unlock()
		e.c.Guard(name, func() { a.ok, a.err = f(actx) })
	}()
	return a
}

// waitConsumed waits (bounded) until the library has read everything the peer
// wrote so far: some goroutine sits in a transport read again, or Serve ended.
// It only orders deliveries; nothing is judged on it.
func (e *env) waitConsumed() {
	for i := 0; i < 1500; i++ {
		if e.p.Lib.BlockedReads() > 0 || e.served() {
			return
		}
		time.Sleep(200 * time.Microsecond)
	}
	e.c.Count("split_piece_not_consumed_in_time", 1)
}

// deliverSplit writes raw to the library in pieces cut at the byte offsets
// cuts, waiting for each piece to be consumed before the next one is sent, and
// cancels the context of call a before piece number cancelAt (len(pieces) =
// after the last piece, negative = never), giving the call a moment to return
// so that the rest of the reply really arrives after its caller has gone.  tail
// (the sentinel) follows the last piece.
func (e *env) deliverSplit(raw string, cuts []int, cancelAt int, a *action, tail string) {
	var pieces []string
	prev := 0
	for _, c := range cuts {
		if c > prev && c < len(raw) {
			pieces = append(pieces, raw[prev:c])
			prev = c
		}
	}
	pieces = append(pieces, raw[prev:])
	doCancel := func() {
		if a == nil || a.cancel == nil {
			return
		}
		a.cancel()
		e.c.Count("reply_split_cancelled", 1)
		select {
		case <-a.done:
			e.c.Count("reply_split_call_returned_on_cancel", 1)
		case <-time.After(50 * time.Millisecond):
		}
	}
	if len(pieces) > 1 {
		e.c.Count("reply_split_deliveries", 1)
	}
	for i, pc := range pieces {
		if i == cancelAt {
			if i > 0 {
				e.c.Count("reply_split_cancel_between_pieces", 1)
			} else {
				e.c.Count("reply_cancel_before_first_piece", 1)
			}
			doCancel()
		}
		if i == len(pieces)-1 && cancelAt != len(pieces) {
			pc += tail
		}
		e.peerWrite(pc)
		if i < len(pieces)-1 {
			e.waitConsumed()
		}
	}
	if cancelAt == len(pieces) {
		e.waitConsumed()
		e.c.Count("reply_cancel_after_last_piece", 1)
		doCancel()
		e.peerWrite(tail)
	}
}

// more is the loop condition of the application's iterator consumers: false
// once the case's early-close point is reached (the consumer then calls Close
// without reading the rest, which is what Close is for).
func (e *env) more(n int) bool {
	if e.closeEarly >= 0 && n >= e.closeEarly {
		e.c.Count("iter_closed_early", 1)
		return false
	}
	return true
}

// yield is the library's yield-point callback while a case with hookCancel
// runs.  It is called on the library's goroutine (the serve loop for serve.*,
// the requester for req.*) and cancels, once, the context of the application
// call the request belongs to - exactly there, not "around" there.
func (e *env) yield(point, key string) {
	if point != e.opts.hookCancel || e.hookFired.Load() {
		return
	}
	e.mu.Lock()
	var target *action
	for _, a := range e.actList {
		if a.detached || a.cancel == nil {
			continue
		}
		if strings.HasPrefix(a.name, "helper:") || (a.reqID != "" && a.reqID == key) {
			target = a
		}
	}
	e.mu.Unlock()
	if target == nil || !e.hookFired.CompareAndSwap(false, true) {
		return
	}
	target.cancel()
	// (counted by the case's own goroutine at the end: this one may belong to
	// the library and outlive the case)
}

// countHook records whether the yield-point cancellation of this case fired.
func (e *env) countHook() {
	if e.opts.hookCancel != "" && e.hookFired.Load() {
		e.c.Count("hook_cancel_fired:"+e.opts.hookCancel, 1)
	}
}

// settle gives a call whose reply has been processed a moment to return.
func (e *env) settle(a *action) {
	select {
	case <-a.done:
	case <-e.serveDone:
	case <-time.After(50 * time.Millisecond):
		e.c.Count("await_gave_up", 1)
	}
}

func (a *action) finished() bool {
	select {
	case <-a.done:
		return true
	default:
		return false
	}
}

// finish ends the input (optionally with a closing tag), waits for Serve with
// the stall rule, cancels the application's context, lets every application
// goroutine end and tears the transports down.
func (e *env) finish(closeTag bool) {
	defer verifhook.Set(nil)
	if closeTag {
		e.peerWrite("</stream:stream>")
	}
	e.p.Peer.CloseWrite()
	// the application never leaves Serve waiting for it: a listener that nobody
	// accepts from is closed at the latest now
	if e.lst2 != nil && !e.lst2Closing {
		e.runAct("ibb.listener2.close")
	}
	r := e.wait(e.served, "Serve to return after the input ended", false)
	e.cancel()
	if r == waitOK {
		// stop the acceptor and wake every IBB reader through the handler's own
		// close path (application-level cleanup; failures here are not judged)
		func() {
			defer func() { recover() }()
			e.lst.Close()
		}()
		e.mu.Lock()
		conns := append([]*ibb.Conn{}, e.conns...)
		if e.outConn != nil {
			conns = append(conns, e.outConn)
		}
		e.mu.Unlock()
		for _, cn := range conns {
			func() {
				defer func() { recover() }()
				st := xml.StartElement{Name: xml.Name{Space: nsIBB, Local: "close"}, Attr: []xml.Attr{{Name: xml.Name{Local: "sid"}, Value: cn.SID()}}}
				e.ibbH.HandleIQ(stanza.IQ{Type: stanza.SetIQ, ID: "cleanup"}, discardRW{eofReader(), xml.NewEncoder(io.Discard)}, &st)
			}()
		}
		allDone := func() bool {
			e.mu.Lock()
			defer e.mu.Unlock()
			for _, a := range e.actList {
				if !a.finished() && !a.detached {
					return false
				}
			}
			return true
		}
		if e.wait(allDone, "application calls to return after their context was cancelled", true) == waitOK {
			// IBB readers end when their stream is closed; a stream whose table
			// entry was overwritten by a second <open/> with the same sid can no
			// longer be closed by anybody and its reader is left behind
			bgDone := make(chan struct{})
			go func() { e.bg.Wait(); close(bgDone) }()
			select {
			case <-bgDone:
			case <-time.After(100 * time.Millisecond):
				e.c.Count("abandoned_background_goroutines", 1)
			}
		}
	}
	// The peer loop must see everything the library wrote before the oracle
	// looks at it: end the library's output, let the loop drain, then close.
	if e.p2 != nil {
		e.p2.Lib.Close()
		e.p2.Peer.Close()
	}
	e.p.Lib.Close()
	select {
	case <-e.loop.Done():
	case <-time.After(5 * time.Second):
		e.c.Count("peer_loop_abandoned", 1)
	}
	e.p.Peer.Close()
}

// input returns the complete byte stream the peer sent, header included.
func (e *env) input() []byte {
	e.mu.Lock()
	defer e.mu.Unlock()
	return append([]byte(sess.Header(e.p.Opts)), e.sent...)
}

// payloadClass labels the first payload of a stanza for class keys.
func payloadClass(n *xmltree.Node) string {
	kids := n.Children()
	if len(kids) == 0 {
		if strings.TrimSpace(n.Text()) != "" {
			return "text-only"
		}
		return "no-payload"
	}
	k := kids[0]
	return nsLabel(k.Name.Space) + "." + boundName(k.Name.Local)
}

var nsLabels = map[string]string{nsPing: "ping", nsTime: "time", nsVersion: "version", nsInfo: "disco-info", nsItems: "disco-items", nsRoster: "roster",
	nsBlocking: "blocking", nsBob: "bob", nsIBB: "ibb", nsReceipts: "receipts", nsMAM: "mam", nsMUCUser: "muc-user", nsMUC: "muc", nsConf: "conference",
	nsCarbons: "carbons", nsCaps: "caps", nsClient: "client", nsForward: "forward", nsForm: "form", nsStanzas: "stanzas", nsRSM: "rsm"}

func nsLabel(ns string) string {
	if l, ok := nsLabels[ns]; ok {
		return l
	}
	return "other"
}

var knownNames = map[string]bool{"ping": true, "time": true, "query": true, "blocklist": true, "block": true, "unblock": true, "data": true, "open": true,
	"close": true, "request": true, "received": true, "sent": true, "result": true, "x": true, "c": true, "body": true, "error": true, "fin": true, "item": true}

func boundName(s string) string {
	if knownNames[s] {
		return s
	}
	return "other"
}

// checkServeNil applies the third clause of the oracle: Serve returned nil
// although a complete, well-formed top-level stanza (our sentinel ping) was
// still waiting in the input before any closing tag.
func (e *env) checkServeNil() {
	e.mu.Lock()
	err, panicked, wedged := e.serveErr, e.servePanic, e.wedged
	e.mu.Unlock()
	if panicked || wedged || !e.served() {
		return
	}
	if e.faulted {
		// a transport fault was injected: answers may be lost, reads may end early
		if err != nil {
			e.c.Count("serve_returned_error_after_transport_fault", 1)
		} else {
			e.c.Count("serve_returned_nil_after_transport_fault", 1)
		}
		return
	}
	if e.closedLocally {
		// the output stream was closed by the application: sentinels cannot be
		// answered any more, this clause has nothing to observe
		if err != nil {
			e.c.Count("serve_returned_error_after_local_close", 1)
		} else {
			e.c.Count("serve_returned_nil_after_local_close", 1)
		}
		return
	}
	if err != nil {
		e.c.Count("serve_returned_error", 1)
		return
	}
	e.c.Count("serve_returned_nil", 1)
	st := xmltree.ParseStream(e.input(), true)
	var since []*xmltree.Node // non-sentinel elements since the last answered sentinel
	for _, n := range st.Elems {
		id := n.Attr("id")
		if !(n.Name.Local == "iq" && n.Name.Space == nsClient && strings.HasPrefix(id, "sentinel-") && n.Attr("type") == "get") {
			since = append(since, n)
			continue
		}
		if e.answered(id) {
			since = nil
			continue
		}
		// an unanswered, complete, top-level ping that preceded the end of input
		culprit := "unknown"
		detail := "(no stanza between the last answered sentinel and this one)"
		if len(since) > 0 {
			// every peer write is "stanza + sentinel": the stanza right before the
			// first unanswered sentinel is where Serve stopped (automatic replies
			// of the peer loop carry no sentinel and may precede it)
			cn := since[len(since)-1]
			culprit = boundStanza(cn.Name.Local) + ":" + payloadClass(cn)
			detail = cn.String()
		}
		e.c.Violate("serve-nil:"+culprit, "Serve returned nil although the peer had sent no closing tag and a complete stanza (%s) was still unread; it stopped at: %s", id, detail)
		return
	}
}

func boundStanza(s string) string {
	switch s {
	case "iq", "message", "presence":
		return s
	}
	return "other"
}

func boundType(s string) string {
	switch s {
	case "get", "set", "result", "error", "chat", "normal", "groupchat", "headline", "unavailable", "":
		if s == "" {
			return "none"
		}
		return s
	}
	return "other"
}

var errSkipped = errors.New("skipped")
