package c09

import "mellium.im/xmpp/verifharness/core"

// Pinned minimal scenarios, one per class key triaged on the unchanged tree.

func w1(raws ...string) func(c *core.Case) {
	return func(c *core.Case) {
		sc := &script{Workload: 1, Rule: "witness", Close: true}
		for _, r := range raws {
			sc.Steps = append(sc.Steps, step{K: "send", Raw: r})
		}
		runScript(c, sc)
	}
}

func w2(helper string, fixed ...string) func(c *core.Case) {
	return func(c *core.Case) {
		hc := &helperCase{Workload: 2, Helper: helper, Close: true, Fixed: fixed}
		for range fixed {
			hc.Plans = append(hc.Plans, replyPlan{Class: "canon", Seed: 1})
		}
		runHelperCase(c, hc)
	}
}

const (
	wFrom = " from='juliet@example.net/balcony' to='me@example.net/lib'"
	wSrv  = " from='example.net' to='me@example.net/lib'"
	wErr  = "<error type='cancel'><item-not-found xmlns='urn:ietf:params:xml:ns:xmpp-stanzas'/></error>"
)

func witnesses() map[string]func(c *core.Case) {
	stallKey := func(owner, form string) string {
		return "stall:handleInputStream:chan-receive:" + owner + ":" + form
	}
	return map[string]func(c *core.Case){
		// --- handlers (workload 1)
		"panic:blocklist.Handler.HandleIQ:index": w1(
			"<iq type='set' id='w1'" + wFrom + "><block xmlns='urn:xmpp:blocking'><item/></block></iq>"),
		"panic:blocklist.Handler.HandleIQ:nil-deref": w1(
			"<iq type='set' id='w1'" + wFrom + "><unblock xmlns='urn:xmpp:blocking'>x</unblock></iq>"),
		"panic:jid.MustParse:other": w1(
			"<iq type='set' id='w1'" + wFrom + "><block xmlns='urn:xmpp:blocking'><item jid='@'/></block></iq>"),
		"panic:carbons.Handler.HandleMessage:nil-deref": w1(
			"<message type='chat' id='w1' from='me@example.net' to='me@example.net/lib'> <received xmlns='urn:xmpp:carbons:2'><forwarded xmlns='urn:xmpp:forward:0'><message xmlns='jabber:client' type='chat'><body>x</body></message></forwarded></received></message>"),
		"panic:history.(*Handler).HandleMessage:type-assert": w1(
			"<message id='w1'" + wFrom + "> <result xmlns='urn:xmpp:mam:2' queryid='f27' id='1'/></message>"),
		"panic:receipts.(*Handler).HandleMessage:nil-deref": w1(
			"<message type='chat' id='w1'" + wFrom + ">x<request xmlns='urn:xmpp:receipts'/></message>"),
		"serve-nil:iq:no-payload": w1(
			"<iq type='get' id='w1'" + wFrom + "/>"),

		// the consumer of a tracked history query closes its iterator while a
		// result is being handed to it
		"stall:history.(*Handler).HandleMessage:chan-send": func(c *core.Case) {
			res := "<message id='w1'" + wFrom + "><result xmlns='urn:xmpp:mam:2' queryid='q1' id='1'><forwarded xmlns='urn:xmpp:forward:0'><message xmlns='jabber:client' type='chat'><body>x</body></message></forwarded></result></message>"
			runScript(c, &script{Workload: 1, Rule: "witness", Close: true, HistClose: 1, Steps: []step{
				{K: "act", Act: "hist.fetch"}, {K: "send", Raw: res}, {K: "send", Raw: res}}})
		},

		// the application arms a write deadline on an accepted IBB stream while
		// the serve loop flushes that stream for the peer's <close/> (reported by
		// the race detector, whenever both happen)
		"race:ibb.(*Conn).SetWriteDeadline|ibb.(*stanzaWriter).Write": func(c *core.Case) {
			runScript(c, &script{Workload: 1, Rule: "witness", Close: true, Steps: []step{
				{K: "send", Raw: "<iq type='set' id='i1'" + wFrom + "><open xmlns='http://jabber.org/protocol/ibb' block-size='4096' sid='si' stanza='iq'/></iq>"},
				{K: "act", Act: "ibb.closefail/si/deadline-only"},
				{K: "send", Raw: "<iq type='set' id='i2'" + wFrom + "><close xmlns='http://jabber.org/protocol/ibb' sid='si'/></iq>"}}})
		},

		// --- request helpers (workload 2)
		"panic:unmarshalIQ:type-assert": w2("version.Get",
			"<iq type='result' id='{id}'"+wSrv+">x</iq>"),
		"panic:stanza.UnmarshalError:nil-deref": w2("ping.Send",
			"<iq type='error' id='{id}'"+wSrv+">x"+wErr+"</iq>"),
		"panic:commands.Command.ExecuteIQ:type-assert": w2("commands.Execute",
			"<iq type='result' id='{id}'"+wSrv+">x</iq>"),
		"panic:paging.(*Iter).Next:nil-deref": w2("disco.FetchItems",
			"<iq type='result' id='{id}'"+wSrv+"><query xmlns='http://jabber.org/protocol/disco#items'><item jid='a.example'/><set xmlns='http://jabber.org/protocol/rsm'><last>a</last></set></query></iq>",
			"<iq type='error' id='{id}'"+wSrv+">"+wErr+"</iq>"),
		stallKey("commands.ExecuteIQ", "wellformed-input"): w2("commands.Execute",
			"<iq type='error' id='{id}'"+wSrv+">"+wErr+"</iq>"),
		stallKey("commands.ExecuteIQ", "malformed-input"): w2("commands.Execute",
			"<iq type='result' id='{id}'"+wSrv+">&bogus;</iq>"),
		stallKey("iterIQ", "malformed-input"): w2("roster.Fetch",
			"<iq type='result' id='{id}'"+wSrv+"><query xmlns='jabber:iq:roster'><item jid='a@b.example'/>&bogus;</query></iq>"),
		stallKey("pubsub.FetchIQ", "malformed-input"): w2("pubsub.Fetch",
			"<iq type='result' id='{id}'"+wSrv+"><pubsub xmlns='http://jabber.org/protocol/pubsub'><items node='n'><item id='a'/>&bogus;</items></pubsub></iq>"),
	}
}
