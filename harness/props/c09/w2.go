package c09

import (
	"context"
	"encoding/xml"
	"errors"
	"fmt"
	"math/rand"
	"sort"
	"strings"
	"time"

	"mellium.im/xmlstream"
	"mellium.im/xmpp/bin"
	"mellium.im/xmpp/blocklist"
	"mellium.im/xmpp/bookmarks"
	"mellium.im/xmpp/carbons"
	"mellium.im/xmpp/commands"
	"mellium.im/xmpp/disco"
	"mellium.im/xmpp/disco/items"
	"mellium.im/xmpp/form"
	"mellium.im/xmpp/history"
	"mellium.im/xmpp/jid"
	"mellium.im/xmpp/muc"
	"mellium.im/xmpp/ping"
	"mellium.im/xmpp/pubsub"
	"mellium.im/xmpp/roster"
	"mellium.im/xmpp/stanza"
	"mellium.im/xmpp/upload"
	"mellium.im/xmpp/version"
	"mellium.im/xmpp/xtime"

	"mellium.im/xmpp/verifharness/core"
	"mellium.im/xmpp/verifharness/stall"
	"mellium.im/xmpp/verifharness/xmltree"
)

// helper is one request helper of the library with a cooperative caller and
// the canonical reply a well-behaved peer would give to its n-th request.
type helper struct {
	name  string
	call  func(ctx context.Context, e *env) (bool, error)
	reply func(r *rand.Rand, req *xmltree.Node, n int) []*node // stanzas to send; the last one answers the request
	max   int                                                  // replies before the peer falls silent (default 1)
}

// owner names the library function that obtains the response from the session
// on behalf of a helper and therefore has to close it; a Serve loop left
// waiting for a response to be closed is keyed by it.
var owner = map[string]string{
	"disco.FetchItems": "iterIQ", "disco.WalkItem": "iterIQ", "commands.Fetch": "iterIQ", "roster.Fetch": "iterIQ", "roster.FetchIQ(ver)": "iterIQ", "blocklist.Fetch": "iterIQ",
	"Session.IterIQ": "iterIQ", "Session.IterIQElement": "iterIQ",
	"pubsub.Fetch": "pubsub.FetchIQ", "bookmarks.Fetch": "pubsub.FetchIQ",
	"commands.Execute": "commands.ExecuteIQ", "commands.ForEach": "commands.ExecuteIQ",
	"roster.Set": "roster.SetIQ", "roster.Delete": "roster.SetIQ", "blocklist.Add": "blocklist.doIQ", "blocklist.Remove": "blocklist.doIQ",
	"blocklist.Report": "blocklist.ReportIQ", "muc.SetConfig": "muc.SetConfigIQ", "ibb.Open": "ibb.open",
	"muc.Join": "muc.JoinPresence", "muc.SetAffiliation": "muc.JoinPresence+unmarshalIQ",
	"Session.SendIQ": "application", "Session.EncodeIQ": "application", "Session.SendPresence": "application", "Session.SendMessage": "application",
	"receipts.SendMessage": "receipts.SendMessageElement", "history.Handler.Fetch": "history.FetchIQ+unmarshalIQ",
}

func ownerOf(helper string) string {
	if o, ok := owner[helper]; ok {
		return o
	}
	return "unmarshalIQ"
}

var (
	srv  = jid.MustParse(srvJID)
	peer = jid.MustParse(peerJID)
	room = jid.MustParse(roomJID)
)

func el2tokens(name, text string) xml.TokenReader {
	return xmlstream.Wrap(xmlstream.Token(xml.CharData(text)), xml.StartElement{Name: xml.Name{Local: name}})
}

func result(payload ...*node) []*node { return []*node{iq("result", "", payload...)} }

func discoInfoReply() *node {
	return el("query", nsInfo, "node", "n").add(
		el("identity", "", "category", "conference", "type", "text", "name", "Play-Specific Chatrooms", "xml:lang", "en"),
		el("identity", "", "category", "directory", "type", "chatroom"),
		el("feature", "", "var", nsInfo), el("feature", "", "var", nsMUC),
		xform("result", "urn:xmpp:dataforms:softwareinfo", "os", "Mac", "os_version", "10.5.1"),
	)
}

func discoItemsReply(page bool, n int) *node {
	q := el("query", nsItems).add(
		el("item", "", "jid", "people.shakespeare.lit", "name", "Directory of Characters"),
		el("item", "", "jid", "plays.shakespeare.lit", "node", fmt.Sprintf("node-%d", n), "name", "Play-Specific Chatrooms"),
	)
	if page {
		q.add(rsmSet("a", "b", 4))
	}
	return q
}

func commandReply(status string) *node {
	return el("command", nsCommands, "sessionid", "config:20020923T213616Z-700", "node", "config", "status", status).add(
		el("actions", "", "execute", "next").add(el("prev", ""), el("next", "")),
		xform("form", "", "service", "httpd"),
		el("note", "", "type", "info").text("Service 'httpd' has been configured."),
	)
}

func pubsubItems(node string) *node {
	conf := el("conference", nsBookmarks, "name", "Council of Oberon", "autojoin", "true").add(
		el("nick", "").text("Puck"), el("password", "").text("titania"), el("extensions", "").add(el("state", "http://myclient.example/bookmark/state", "minimized", "true")))
	return el("pubsub", nsPubsub).add(el("items", "", "node", node).add(
		el("item", "", "id", "theplay@conference.shakespeare.lit").add(conf),
		el("item", "", "id", "orchard@conference.shakespeare.lit").add(el("conference", nsBookmarks, "name", "The Orchard", "autojoin", "0")),
	))
}

// consumePayload is what a cooperative application does with the payload of a
// command response: decode the children it knows about.
func consumePayload(r xml.TokenReader) {
	// hide a Close method: closing the response is the caller's business (and
	// done exactly once)
	it := xmlstream.NewIter(struct{ xml.TokenReader }{r})
	for it.Next() {
		start, inner := it.Current()
		if start == nil {
			continue
		}
		d := xml.NewTokenDecoder(xmlstream.MultiReader(xmlstream.Token(*start), inner))
		switch start.Name.Local {
		case "actions":
			var a commands.Actions
			d.Decode(&a)
		case "note":
			var n commands.Note
			d.Decode(&n)
		case "x":
			var f form.Data
			if d.Decode(&f) == nil {
				f.ForFields(func(fd form.FieldData) {
					f.Get(fd.Var)
					f.Raw(fd.Var)
				})
				f.Submit()
			}
		}
	}
	it.Err()
	it.Close()
}

func useForm(f *form.Data) {
	if f == nil {
		return
	}
	f.Title()
	f.Instructions()
	f.Len()
	f.ForFields(func(fd form.FieldData) {
		f.Get(fd.Var)
		f.GetString(fd.Var)
		f.GetStrings(fd.Var)
		f.GetBool(fd.Var)
		f.GetJID(fd.Var)
		f.GetJIDs(fd.Var)
		f.Raw(fd.Var)
		f.GetOptions(fd.Var)
	})
	if sub, ok := f.Submit(); ok && sub != nil {
		drainTokens(sub)
	}
}

var helpers = []helper{
	{name: "disco.GetInfo", call: func(ctx context.Context, e *env) (bool, error) {
		info, err := disco.GetInfo(ctx, "n", srv, e.s)
		for i := range info.Form {
			useForm(&info.Form[i])
		}
		return err == nil, err
	}, reply: func(r *rand.Rand, req *xmltree.Node, n int) []*node { return result(discoInfoReply()) }},

	{name: "disco.FetchItems", max: 3, call: func(ctx context.Context, e *env) (bool, error) {
		it := disco.FetchItems(ctx, items.Item{JID: srv, Node: "n"}, e.s)
		n := 0
		for e.more(n) && it.Next() && n < 50 {
			_ = it.Item()
			n++
		}
		err := it.Err()
		if cerr := it.Close(); err == nil {
			err = cerr
		}
		return err == nil, err
	}, reply: func(r *rand.Rand, req *xmltree.Node, n int) []*node { return result(discoItemsReply(n == 0, n)) }},

	{name: "disco.WalkItem", max: 4, call: func(ctx context.Context, e *env) (bool, error) {
		visits := 0
		err := disco.WalkItem(ctx, items.Item{JID: srv}, e.s, func(level int, item items.Item, err error) error {
			visits++
			if visits > 6 || level > 1 {
				return disco.ErrSkipItem
			}
			return err
		})
		return err == nil, err
	}, reply: func(r *rand.Rand, req *xmltree.Node, n int) []*node {
		if n == 0 {
			return result(discoItemsReply(false, 0))
		}
		return result(el("query", nsItems))
	}},

	{name: "roster.Fetch", call: func(ctx context.Context, e *env) (bool, error) {
		it := roster.Fetch(ctx, e.s)
		for n := 0; e.more(n) && it.Next(); n++ {
			_ = it.Item()
		}
		_ = it.Version()
		err := it.Err()
		if cerr := it.Close(); err == nil {
			err = cerr
		}
		return err == nil, err
	}, reply: func(r *rand.Rand, req *xmltree.Node, n int) []*node {
		return result(el("query", nsRoster, "ver", "ver11").add(
			el("item", "", "jid", "romeo@example.net", "name", "Romeo", "subscription", "both").add(el("group", "").text("Friends")),
			el("item", "", "jid", "mercutio@example.com", "name", "Mercutio", "subscription", "from"),
		))
	}},
	// the versioned request: the canonical answer is a result without payload
	// ("not modified", RFC 6121 2.6.3), or the whole roster
	{name: "roster.FetchIQ(ver)", call: func(ctx context.Context, e *env) (bool, error) {
		var q roster.IQ
		q.Query.Ver = "ver10"
		it := roster.FetchIQ(ctx, q, e.s)
		for n := 0; e.more(n) && it.Next(); n++ {
			_ = it.Item()
		}
		_ = it.Version()
		err := it.Err()
		if cerr := it.Close(); err == nil {
			err = cerr
		}
		return err == nil, err
	}, reply: func(r *rand.Rand, req *xmltree.Node, n int) []*node {
		if r.Intn(2) == 0 {
			return result()
		}
		return result(el("query", nsRoster, "ver", "ver11").add(
			el("item", "", "jid", "romeo@example.net", "name", "Romeo", "subscription", "both").add(el("group", "").text("Friends")),
		))
	}},
	{name: "roster.Set", call: func(ctx context.Context, e *env) (bool, error) {
		err := roster.Set(ctx, e.s, roster.Item{JID: peer.Bare(), Name: "J"})
		return err == nil, err
	}, reply: func(r *rand.Rand, req *xmltree.Node, n int) []*node { return result() }},
	{name: "roster.Delete", call: func(ctx context.Context, e *env) (bool, error) {
		err := roster.Delete(ctx, e.s, peer.Bare())
		return err == nil, err
	}, reply: func(r *rand.Rand, req *xmltree.Node, n int) []*node { return result() }},

	{name: "version.Get", call: func(ctx context.Context, e *env) (bool, error) {
		_, err := version.Get(ctx, e.s, srv)
		return err == nil, err
	}, reply: func(r *rand.Rand, req *xmltree.Node, n int) []*node {
		return result(el("query", nsVersion).add(el("name", "").text("Exodus"), el("version", "").text("0.7.0.4"), el("os", "").text("Windows-XP 5.01.2600")))
	}},
	{name: "xtime.Get", call: func(ctx context.Context, e *env) (bool, error) {
		_, err := xtime.Get(ctx, e.s, srv)
		return err == nil, err
	}, reply: func(r *rand.Rand, req *xmltree.Node, n int) []*node {
		return result(el("time", nsTime).add(el("tzo", "").text("-06:00"), el("utc", "").text("2006-12-19T17:58:35Z")))
	}},
	{name: "ping.Send", call: func(ctx context.Context, e *env) (bool, error) {
		err := ping.Send(ctx, e.s, srv)
		return err == nil, err
	}, reply: func(r *rand.Rand, req *xmltree.Node, n int) []*node { return result() }},

	{name: "blocklist.Fetch", call: func(ctx context.Context, e *env) (bool, error) {
		it := blocklist.Fetch(ctx, e.s)
		for n := 0; e.more(n) && it.Next(); n++ {
			_ = it.JID()
		}
		err := it.Err()
		if cerr := it.Close(); err == nil {
			err = cerr
		}
		return err == nil, err
	}, reply: func(r *rand.Rand, req *xmltree.Node, n int) []*node {
		return result(el("blocklist", nsBlocking).add(el("item", "", "jid", "romeo@montague.net"), el("item", "", "jid", "iago@shakespeare.lit")))
	}},
	{name: "blocklist.Add", call: func(ctx context.Context, e *env) (bool, error) {
		err := blocklist.Add(ctx, e.s, peer)
		return err == nil, err
	}, reply: func(r *rand.Rand, req *xmltree.Node, n int) []*node { return result() }},
	{name: "blocklist.Remove", call: func(ctx context.Context, e *env) (bool, error) {
		err := blocklist.Remove(ctx, e.s)
		return err == nil, err
	}, reply: func(r *rand.Rand, req *xmltree.Node, n int) []*node { return result() }},
	{name: "blocklist.Report", call: func(ctx context.Context, e *env) (bool, error) {
		err := blocklist.Report(ctx, e.s, blocklist.Item{JID: peer, Reason: blocklist.ReasonSpam, Text: "spam"})
		return err == nil, err
	}, reply: func(r *rand.Rand, req *xmltree.Node, n int) []*node { return result() }},

	{name: "bookmarks.Fetch", call: func(ctx context.Context, e *env) (bool, error) {
		it := bookmarks.Fetch(ctx, e.s)
		for n := 0; e.more(n) && it.Next(); n++ {
			_ = it.Bookmark()
		}
		err := it.Err()
		if cerr := it.Close(); err == nil {
			err = cerr
		}
		return err == nil, err
	}, reply: func(r *rand.Rand, req *xmltree.Node, n int) []*node { return result(pubsubItems(nsBookmarks)) }},
	{name: "bookmarks.Publish", call: func(ctx context.Context, e *env) (bool, error) {
		err := bookmarks.Publish(ctx, e.s, bookmarks.Channel{JID: room, Name: "r", Nick: "n", Autojoin: true})
		return err == nil, err
	}, reply: func(r *rand.Rand, req *xmltree.Node, n int) []*node {
		return result(el("pubsub", nsPubsub).add(el("publish", "", "node", nsBookmarks).add(el("item", "", "id", roomJID))))
	}},
	{name: "bookmarks.Delete", call: func(ctx context.Context, e *env) (bool, error) {
		err := bookmarks.Delete(ctx, e.s, room)
		return err == nil, err
	}, reply: func(r *rand.Rand, req *xmltree.Node, n int) []*node { return result() }},

	{name: "pubsub.Fetch", call: func(ctx context.Context, e *env) (bool, error) {
		it := pubsub.Fetch(ctx, e.s, pubsub.Query{Node: "princely_musings", MaxItems: 2})
		for n := 0; e.more(n) && it.Next(); n++ {
			_, r := it.Item()
			drainTokens(r)
		}
		err := it.Err()
		if cerr := it.Close(); err == nil {
			err = cerr
		}
		return err == nil, err
	}, reply: func(r *rand.Rand, req *xmltree.Node, n int) []*node { return result(pubsubItems("princely_musings")) }},
	{name: "pubsub.Publish", call: func(ctx context.Context, e *env) (bool, error) {
		_, err := pubsub.Publish(ctx, e.s, "princely_musings", "", el2tokens("entry", "x"))
		return err == nil, err
	}, reply: func(r *rand.Rand, req *xmltree.Node, n int) []*node {
		return result(el("pubsub", nsPubsub).add(el("publish", "", "node", "princely_musings").add(el("item", "", "id", "ae890ac52d0df67ed7cfdf51b644e901"))))
	}},
	{name: "pubsub.CreateNode", call: func(ctx context.Context, e *env) (bool, error) {
		err := pubsub.CreateNode(ctx, e.s, "princely_musings", form.New(form.Text("pubsub#title", form.Value("t"))))
		return err == nil, err
	}, reply: func(r *rand.Rand, req *xmltree.Node, n int) []*node {
		return result(el("pubsub", nsPubsub).add(el("create", "", "node", "princely_musings")))
	}},
	{name: "pubsub.GetConfig", call: func(ctx context.Context, e *env) (bool, error) {
		f, err := pubsub.GetConfig(ctx, e.s, "princely_musings")
		useForm(f)
		return err == nil, err
	}, reply: func(r *rand.Rand, req *xmltree.Node, n int) []*node {
		return result(el("pubsub", nsPubsubOwn).add(el("configure", "", "node", "princely_musings").add(xform("form", "http://jabber.org/protocol/pubsub#node_config", "pubsub#title", "T", "pubsub#max_items", "10"))))
	}},
	{name: "pubsub.GetDefaultConfig", call: func(ctx context.Context, e *env) (bool, error) {
		f, err := pubsub.GetDefaultConfig(ctx, e.s)
		useForm(f)
		return err == nil, err
	}, reply: func(r *rand.Rand, req *xmltree.Node, n int) []*node {
		return result(el("pubsub", nsPubsubOwn).add(el("default", "").add(xform("form", "http://jabber.org/protocol/pubsub#node_config", "pubsub#title", "", "pubsub#deliver_payloads", "1"))))
	}},
	{name: "pubsub.SetConfig", call: func(ctx context.Context, e *env) (bool, error) {
		err := pubsub.SetConfig(ctx, e.s, "princely_musings", form.New(form.Text("pubsub#title", form.Value("t"))))
		return err == nil, err
	}, reply: func(r *rand.Rand, req *xmltree.Node, n int) []*node { return result() }},
	{name: "pubsub.Delete", call: func(ctx context.Context, e *env) (bool, error) {
		err := pubsub.Delete(ctx, e.s, "princely_musings", "ae890ac52d0df67ed7cfdf51b644e901", true)
		return err == nil, err
	}, reply: func(r *rand.Rand, req *xmltree.Node, n int) []*node { return result() }},

	{name: "upload.GetSlot", call: func(ctx context.Context, e *env) (bool, error) {
		_, err := upload.GetSlot(ctx, upload.File{Name: "très cool.jpg", Size: 23456, Type: "image/jpeg"}, srv, e.s)
		return err == nil, err
	}, reply: func(r *rand.Rand, req *xmltree.Node, n int) []*node {
		put := el("put", "", "url", "https://upload.montague.tld/4a771ac1/tr%C3%A8s%20cool.jpg").add(
			el("header", "", "name", "Authorization").text("Basic Base64String=="), el("header", "", "name", "Cookie").text("foo=bar"), el("header", "", "name", "X-Evil").text("x"))
		return result(el("slot", nsUpload).add(put, el("get", "", "url", "https://download.montague.tld/4a771ac1/tr%C3%A8s%20cool.jpg")))
	}},

	{name: "commands.Fetch", call: func(ctx context.Context, e *env) (bool, error) {
		it := commands.Fetch(ctx, srv, e.s)
		n := 0
		for e.more(n) && it.Next() && n < 50 {
			_ = it.Command()
			n++
		}
		err := it.Err()
		if cerr := it.Close(); err == nil {
			err = cerr
		}
		return err == nil, err
	}, reply: func(r *rand.Rand, req *xmltree.Node, n int) []*node {
		return result(el("query", nsItems, "node", nsCommands).add(
			el("item", "", "jid", srvJID, "node", "list", "name", "List Service Configurations"),
			el("item", "", "jid", srvJID, "node", "config", "name", "Configure Service")))
	}},
	{name: "commands.Execute", call: func(ctx context.Context, e *env) (bool, error) {
		resp, payload, err := commands.Command{JID: srv, Node: "config"}.Execute(ctx, nil, e.s)
		if err == nil && payload != nil {
			if e.more(0) {
				consumePayload(payload)
			}
			_ = resp.Next()
			_ = resp.Cancel()
			err = payload.Close()
		}
		return err == nil, err
	}, reply: func(r *rand.Rand, req *xmltree.Node, n int) []*node { return result(commandReply("executing")) }},
	{name: "commands.ForEach", max: 3, call: func(ctx context.Context, e *env) (bool, error) {
		steps := 0
		err := commands.Command{JID: srv, Node: "config"}.ForEach(ctx, nil, e.s, func(resp commands.Response, payload xml.TokenReader) (commands.Command, xml.TokenReader, error) {
			steps++
			if e.more(steps - 1) {
				consumePayload(payload)
			} else if steps%2 == 0 {
				// an application that cannot use this stage's answer and gives up
				e.c.Count("foreach_callbacks_that_gave_up", 1)
				return commands.Command{}, nil, errors.New("verif: the application gives up")
			}
			if steps > 4 {
				return resp.Cancel(), nil, nil
			}
			return resp.Next(), nil, nil
		})
		return err == nil, err
	}, reply: func(r *rand.Rand, req *xmltree.Node, n int) []*node {
		if n < 1 {
			return result(commandReply("executing"))
		}
		return result(commandReply("completed"))
	}},

	{name: "muc.GetConfig", call: func(ctx context.Context, e *env) (bool, error) {
		f, err := muc.GetConfig(ctx, room, e.s)
		useForm(f)
		return err == nil, err
	}, reply: func(r *rand.Rand, req *xmltree.Node, n int) []*node {
		return result(el("query", nsMUCOwner).add(xform("form", "http://jabber.org/protocol/muc#roomconfig", "muc#roomconfig_roomname", "A Dark Cave", "muc#roomconfig_maxusers", "10")))
	}},
	{name: "muc.SetConfig", call: func(ctx context.Context, e *env) (bool, error) {
		err := muc.SetConfig(ctx, room, form.New(form.Text("muc#roomconfig_roomname", form.Value("x"))), e.s)
		return err == nil, err
	}, reply: func(r *rand.Rand, req *xmltree.Node, n int) []*node { return result() }},
	{name: "muc.Join", call: func(ctx context.Context, e *env) (bool, error) {
		ch, err := e.mucC.Join(ctx, jid.MustParse(roomMe), e.s, muc.MaxHistory(1), muc.Password("p"))
		if err == nil {
			_ = ch.Joined()
		}
		return err == nil, err
	}, reply: func(r *rand.Rand, req *xmltree.Node, n int) []*node {
		other := pres("", roomJID+"/firstwitch", el("x", nsMUCUser).add(el("item", "", "affiliation", "owner", "role", "moderator")))
		return []*node{other, mucSelfPresence("")}
	}},
	{name: "muc.SetAffiliation", max: 2, call: func(ctx context.Context, e *env) (bool, error) {
		ch, err := e.mucC.Join(ctx, jid.MustParse(roomMe), e.s)
		if err != nil {
			return false, err
		}
		err = ch.SetAffiliation(ctx, muc.AffiliationOutcast, peer, "nick", "reason")
		return err == nil, err
	}, reply: func(r *rand.Rand, req *xmltree.Node, n int) []*node {
		if req.Name.Local == "presence" {
			return []*node{mucSelfPresence("")}
		}
		return result()
	}},

	{name: "history.Fetch", call: func(ctx context.Context, e *env) (bool, error) {
		res, err := history.Fetch(ctx, history.Query{With: peer.Bare(), Limit: 2}, srv, e.s)
		_ = res.Complete
		return err == nil, err
	}, reply: func(r *rand.Rand, req *xmltree.Node, n int) []*node {
		qid := ""
		if q := req.Child(nsMAM, "query"); q != nil {
			qid = q.Attr("queryid")
		}
		f := mamFin("")
		f.set("type", "result")
		return []*node{mamResult(qid, "a", "one"), mamResult(qid, "b", "two"), f}
	}},
	{name: "history.Handler.Fetch", call: func(ctx context.Context, e *env) (bool, error) {
		it := e.hist.Fetch(ctx, history.Query{ID: "qw2", With: peer.Bare()}, srv, e.s)
		e.histClose = e.closeEarly
		_, err := e.consumeHistory(it)
		return err == nil, err
	}, reply: func(r *rand.Rand, req *xmltree.Node, n int) []*node {
		f := mamFin("")
		return []*node{mamResult("qw2", "a", "one"), mamResult("qw2", "b", "two"), f}
	}},

	{name: "ibb.Open", call: func(ctx context.Context, e *env) (bool, error) {
		conn, err := e.ibbH.Open(ctx, e.s, peer)
		if err == nil && conn != nil {
			e.mu.Lock()
			e.outConn = conn
			e.mu.Unlock()
			_ = conn.SID()
			_ = conn.Size()
		}
		return err == nil, err
	}, reply: func(r *rand.Rand, req *xmltree.Node, n int) []*node { return result() }},

	{name: "carbons.Enable", call: func(ctx context.Context, e *env) (bool, error) {
		err := carbons.Enable(ctx, e.s)
		return err == nil, err
	}, reply: func(r *rand.Rand, req *xmltree.Node, n int) []*node { return result() }},
	{name: "carbons.Disable", call: func(ctx context.Context, e *env) (bool, error) {
		err := carbons.Disable(ctx, e.s)
		return err == nil, err
	}, reply: func(r *rand.Rand, req *xmltree.Node, n int) []*node { return result() }},

	{name: "bin.Get", call: func(ctx context.Context, e *env) (bool, error) {
		d, err := bin.Get(ctx, e.s, srv, "sha1+8f35fef110ffc5df08d579a50083ff9308fb6242@bob.xmpp.org")
		if err == nil && d != nil {
			_ = d.TokenReader()
		}
		return err == nil, err
	}, reply: func(r *rand.Rand, req *xmltree.Node, n int) []*node {
		return result(el("data", nsBob, "cid", "sha1+8f35fef110ffc5df08d579a50083ff9308fb6242@bob.xmpp.org", "max-age", "86400", "type", "image/png").text("iVBORw0KGgoAAAANSUhEUgAAAAoAAAAK"))
	}},

	{name: "Session.UnmarshalIQ", call: func(ctx context.Context, e *env) (bool, error) {
		v := struct {
			XMLName xml.Name `xml:"urn:example:q query"`
			A       string   `xml:"a,attr"`
			Item    []struct {
				V string `xml:",chardata"`
			} `xml:"item"`
		}{}
		err := e.s.UnmarshalIQ(ctx, stanza.IQ{Type: stanza.GetIQ, To: srv}.Wrap(xmlstream.Wrap(nil, xml.StartElement{Name: xml.Name{Space: "urn:example:q", Local: "query"}})), &v)
		return err == nil, err
	}, reply: func(r *rand.Rand, req *xmltree.Node, n int) []*node {
		return result(el("query", "urn:example:q", "a", "1").add(el("item", "").text("x"), el("item", "").text("y")))
	}},
	{name: "Session.UnmarshalIQElement", call: func(ctx context.Context, e *env) (bool, error) {
		err := e.s.UnmarshalIQElement(ctx, xmlstream.Wrap(nil, xml.StartElement{Name: xml.Name{Space: "urn:example:q", Local: "query"}}), stanza.IQ{Type: stanza.SetIQ, To: srv}, nil)
		return err == nil, err
	}, reply: func(r *rand.Rand, req *xmltree.Node, n int) []*node { return result(el("query", "urn:example:q")) }},
	{name: "Session.IterIQ", call: func(ctx context.Context, e *env) (bool, error) {
		it, start, err := e.s.IterIQ(ctx, stanza.IQ{Type: stanza.GetIQ, To: srv}.Wrap(xmlstream.Wrap(nil, xml.StartElement{Name: xml.Name{Space: "urn:example:q", Local: "query"}})))
		if err != nil {
			return false, err
		}
		_ = start.Name
		for n := 0; e.more(n) && it.Next(); n++ {
			_, r := it.Current()
			drainTokens(r)
		}
		err = it.Err()
		if cerr := it.Close(); err == nil {
			err = cerr
		}
		return err == nil, err
	}, reply: func(r *rand.Rand, req *xmltree.Node, n int) []*node {
		return result(el("query", "urn:example:q", "a", "1").add(el("item", "").text("x"), el("item", "").add(el("deep", ""))))
	}},
	{name: "Session.IterIQElement", call: func(ctx context.Context, e *env) (bool, error) {
		it, _, err := e.s.IterIQElement(ctx, xmlstream.Wrap(nil, xml.StartElement{Name: xml.Name{Space: "urn:example:q", Local: "query"}}), stanza.IQ{Type: stanza.GetIQ, To: srv})
		if err != nil {
			return false, err
		}
		for n := 0; e.more(n) && it.Next(); n++ {
			it.Current()
		}
		err = it.Err()
		if cerr := it.Close(); err == nil {
			err = cerr
		}
		return err == nil, err
	}, reply: func(r *rand.Rand, req *xmltree.Node, n int) []*node {
		return result(el("query", "urn:example:q").add(el("item", ""), el("item", "")))
	}},
	{name: "Session.SendIQ", call: func(ctx context.Context, e *env) (bool, error) {
		resp, err := e.s.SendIQ(ctx, stanza.IQ{Type: stanza.GetIQ, To: srv}.Wrap(xmlstream.Wrap(nil, xml.StartElement{Name: xml.Name{Space: "urn:example:q", Local: "query"}})))
		if err != nil {
			return false, err
		}
		drainTokens(resp)
		err = resp.Close()
		return err == nil, err
	}, reply: func(r *rand.Rand, req *xmltree.Node, n int) []*node {
		return result(el("query", "urn:example:q").add(el("item", "")))
	}},
	{name: "Session.EncodeIQ", call: func(ctx context.Context, e *env) (bool, error) {
		resp, err := e.s.EncodeIQ(ctx, ping.IQ{IQ: stanza.IQ{Type: stanza.GetIQ, To: srv}})
		if err != nil {
			return false, err
		}
		tok, _ := resp.Token()
		if start, ok := tok.(xml.StartElement); ok {
			_, err = stanza.UnmarshalIQError(resp, start)
		}
		if cerr := resp.Close(); err == nil {
			err = cerr
		}
		return err == nil, err
	}, reply: func(r *rand.Rand, req *xmltree.Node, n int) []*node { return result() }},
	{name: "Session.SendPresence", call: func(ctx context.Context, e *env) (bool, error) {
		resp, err := e.s.SendPresenceElement(ctx, el2tokens("status", "x"), stanza.Presence{To: peer, Type: stanza.SubscribePresence})
		if err != nil {
			return false, err
		}
		resp.Token()
		_, err = stanza.UnmarshalError(resp)
		if cerr := resp.Close(); err == nil {
			err = cerr
		}
		return err == nil, err
	}, reply: func(r *rand.Rand, req *xmltree.Node, n int) []*node {
		return []*node{pres("error", peerJID, el("status", "").text("x"), stanzaErr("cancel", "remote-server-not-found", "gone"))}
	}},
	{name: "Session.SendMessage", call: func(ctx context.Context, e *env) (bool, error) {
		resp, err := e.s.SendMessageElement(ctx, el2tokens("body", "x"), stanza.Message{To: peer, Type: stanza.ChatMessage})
		if err != nil {
			return false, err
		}
		resp.Token()
		_, err = stanza.UnmarshalError(resp)
		if cerr := resp.Close(); err == nil {
			err = cerr
		}
		return err == nil, err
	}, reply: func(r *rand.Rand, req *xmltree.Node, n int) []*node {
		return []*node{msg("error", "", el("body", "").text("x"), stanzaErr("cancel", "service-unavailable", "gone"))}
	}},
	{name: "receipts.SendMessage", call: func(ctx context.Context, e *env) (bool, error) {
		// (stanza.Message.Wrap leaves the namespace empty, which SendMessage refuses)
		start := xml.StartElement{Name: xml.Name{Space: nsClient, Local: "message"}, Attr: []xml.Attr{
			{Name: xml.Name{Local: "to"}, Value: peerJID}, {Name: xml.Name{Local: "type"}, Value: "chat"}}}
		err := e.rcpt.SendMessage(ctx, e.s, xmlstream.Wrap(el2tokens("body", "x"), start))
		return err == nil, err
	}, reply: func(r *rand.Rand, req *xmltree.Node, n int) []*node {
		return []*node{msg("chat", "rcpt-reply", el("received", nsReceipts, "id", req.Attr("id")))}
	}},
}

// replyPlan says how the peer treats the n-th request of a helper case.
type replyPlan struct {
	Class string   `json:"class"` // canon | error | mutated | bytes | misroute
	Seed  int64    `json:"seed"`
	Muts  []string `json:"mutations,omitempty"` // filled in at run time (kinds are a function of Seed)
	// Split: the reply is delivered in pieces (cut offsets are a function of Seed
	// and the reply) and the helper's context is cancelled before piece CancelAt
	// (number of pieces = after the last one, -1 = never).
	Split    bool   `json:"split,omitempty"`
	Cuts     []int  `json:"cuts,omitempty"`
	CancelAt int    `json:"cancel_at,omitempty"`
	Sent     string `json:"sent,omitempty"` // what was put on the wire (run time; for the witness)
}

type helperCase struct {
	Workload int         `json:"workload"`
	Helper   string      `json:"helper"`
	Plans    []replyPlan `json:"plans"`
	Close    bool        `json:"closing_tag"`
	// Fixed replaces the generated answers by literal ones ({id} is the id of
	// the request being answered): pinned witnesses.
	Fixed []string `json:"fixed,omitempty"`
	// CloseEarly-1 is the number of items after which the consumer of an
	// iterator-style helper calls Close without reading the rest (0: reads all)
	CloseEarly int `json:"close_early,omitempty"`
	// HookCancel: yield point at which the helper's context is cancelled from
	// inside the library's yield
	HookCancel string `json:"hook_cancel,omitempty"`
}

func genHelperCase(r *rand.Rand, i int) *helperCase {
	hi := i % len(helpers)
	round := i / len(helpers)
	h := helpers[hi]
	hc := &helperCase{Workload: 2, Helper: h.name, Close: r.Intn(2) == 0}
	max := h.max
	if max == 0 {
		max = 1
	}
	for n := 0; n < max; n++ {
		p := replyPlan{Seed: r.Int63()}
		switch {
		case round == 0:
			p.Class = "canon"
		case round == 1 && n == max-1:
			p.Class = "error"
		case round == 1:
			p.Class = "canon"
		default:
			switch x := r.Intn(20); {
			case x < 11:
				p.Class = "mutated"
			case x < 14:
				p.Class = "error-mutated"
			case x < 16:
				p.Class = "bytes"
			case x < 17:
				p.Class = "misroute"
			case x < 18:
				p.Class = "error"
			default:
				p.Class = "canon"
			}
		}
		// (derived from the plan's seed, so that the classes above stay what they were)
		if round >= 1 && rand.New(rand.NewSource(p.Seed^0x5bd1e995)).Intn(5) < 2 {
			p.Split = true
		}
		hc.Plans = append(hc.Plans, p)
	}
	if round >= 1 && r.Intn(4) == 0 {
		hc.CloseEarly = 1 + r.Intn(3)
	}
	if round >= 1 && r.Intn(4) == 0 {
		hc.HookCancel = []string{"serve.handoff", "serve.handoff", "serve.handoff", "serve.lookup", "req.wait", "req.done"}[r.Intn(6)]
	}
	return hc
}

// buildReply renders the peer's answer to req under plan p.
func buildReply(h *helper, p *replyPlan, req *xmltree.Node, n int) string {
	r := rand.New(rand.NewSource(p.Seed))
	stanzas := h.reply(r, req, n)
	if len(stanzas) == 0 {
		return ""
	}
	last := stanzas[len(stanzas)-1]
	id := req.Attr("id")
	from := req.Attr("to")
	if from == "" {
		from = srvJID
	}
	// route the answer: same id, same kind, from the addressee
	if last.Name == req.Name.Local || last.Name == "iq" {
		if last.get("id") == "" || last.Name == req.Name.Local {
			last.set("id", id)
		}
	}
	if last.Name == "iq" {
		last.set("from", from)
	}
	origName, origNS, origType := last.Name, last.NS, last.get("type")
	var muts []string
	class := p.Class
	if (class == "error" || class == "error-mutated") && (last.Name == "presence" || last.Name == "message") && last.Name == req.Name.Local {
		// the addressee refuses a presence / message: same id, type error
		last.set("type", "error")
		origType = "error"
		if r.Intn(3) > 0 {
			e, tags := richErr(r)
			muts = append(muts, tags...)
			last.add(e)
		} else {
			last.add(stanzaErr([]string{"cancel", "auth", "wait"}[r.Intn(3)], []string{"not-authorized", "forbidden", "remote-server-not-found", "service-unavailable"}[r.Intn(4)], []string{"", "refused"}[r.Intn(2)]))
		}
	}
	if class == "error" || class == "error-mutated" {
		if last.Name == "iq" {
			last.set("type", "error")
			origType = "error"
			conds := []string{"item-not-found", "service-unavailable", "feature-not-implemented", "forbidden", "bad-request", "internal-server-error"}
			e := stanzaErr([]string{"cancel", "modify", "auth", "wait", "continue"}[r.Intn(5)], conds[r.Intn(len(conds))], []string{"", "no such thing"}[r.Intn(2)])
			if r.Intn(3) == 0 {
				e.set("by", srvJID)
			}
			if r.Intn(3) == 0 {
				e.add(el("too-many-parameters", "urn:example:app"))
			}
			if r.Intn(3) > 0 {
				var tags []string
				e, tags = richErr(r)
				muts = append(muts, tags...)
			}
			if r.Intn(2) == 0 {
				last.Kids = nil // errors may or may not echo the request payload
			}
			last.add(e)
		}
	}
	if (class == "mutated" || class == "error-mutated") && r.Intn(2) == 0 {
		// the entries of a list reply: empty, payload-less, text-only, foreign children
		if degenerateEntries(r, last) > 0 {
			muts = append(muts, "degenerate-entries")
		}
	}
	if class == "mutated" || class == "error-mutated" || class == "misroute" {
		pool := []*node{discoInfoReply(), commandReply("executing"), pubsubItems("n"), stanzaErr("cancel", "item-not-found", "x"), rsmSet("a", "b", 1), xform("form", "t", "a", "b")}
		nm := 1 + r.Intn(3)
		for m := 0; m < nm; m++ {
			if k := mutate(r, last, pool); k != "" {
				muts = append(muts, k)
			}
		}
		if class != "misroute" {
			// keep the reply routable: the property is about what the helper does
			// with the reply it receives
			last.Name, last.NS = origName, origNS
			last.set("id", id)
			if origType != "" {
				last.set("type", origType)
			}
			var attrs []attr
			seen := map[string]bool{}
			for _, a := range last.Attrs { // duplicated id/type attributes would be a different id
				if (a.K == "id" || a.K == "type") && seen[a.K] {
					continue
				}
				seen[a.K] = true
				attrs = append(attrs, a)
			}
			last.Attrs = attrs
		} else {
			switch r.Intn(4) {
			case 0:
				last.set("id", id+"x")
			case 1:
				last.set("type", []string{"get", "set", "", "bogus"}[r.Intn(4)])
			case 2:
				last.NS = "jabber:server"
			case 3:
				last.Name = []string{"message", "presence", "iq"}[r.Intn(3)]
			}
		}
	}
	var sb strings.Builder
	prefixed := class != "canon" && class != "error" && r.Intn(4) == 0
	for _, s := range stanzas {
		if prefixed {
			sb.WriteString(s.strPrefixed())
		} else {
			sb.WriteString(s.str())
		}
	}
	if prefixed {
		muts = append(muts, "prefixed")
	}
	out := sb.String()
	if class == "bytes" {
		var k string
		out, k = mutateBytes(r, out, discoInfoReply().str())
		muts = append(muts, "bytes-"+k)
	}
	if p.Split && class != "bytes" {
		// offset of the stanza that answers the request inside out
		off := 0
		for _, s := range stanzas[:len(stanzas)-1] {
			if prefixed {
				off += len(s.strPrefixed())
			} else {
				off += len(s.str())
			}
		}
		p.Cuts, p.CancelAt = chooseSplit(rand.New(rand.NewSource(p.Seed^0x2545f491)), out, off)
		muts = append(muts, fmt.Sprintf("split%d-cancel@%d", len(p.Cuts)+1, p.CancelAt))
	} else {
		p.Split = false
	}
	sort.Strings(muts)
	p.Muts = muts
	p.Sent = out
	return out
}

func runHelperCase(c *core.Case, hc *helperCase) {
	c.Sample(hc)
	var h *helper
	for i := range helpers {
		if helpers[i].name == hc.Helper {
			h = &helpers[i]
		}
	}
	if h == nil {
		c.Notef("unknown helper %s", hc.Helper)
		return
	}
	e, err := newEnv(c, envOpts{hookCancel: hc.HookCancel})
	if err != nil {
		c.Count("setup_failed", 1)
		return
	}
	nreq := 0
	lastSentinel := ""
	silent := false // the peer has given its last answer
	unroutable := false
	if hc.HookCancel != "" {
		c.Count("hook_cancel_armed:"+hc.HookCancel, 1)
	}
	e.tag = ownerOf(h.name)
	e.closeEarly = hc.CloseEarly - 1
	e.mu.Lock()
	e.autoReply = nil
	e.mu.Unlock()
	// The responder runs on the peer loop's goroutine.
	respond := func(req *xmltree.Node) {
		e.mu.Lock()
		if silent {
			e.mu.Unlock()
			return
		}
		n := nreq
		nreq++
		e.delivering++
		defer func() {
			e.mu.Lock()
			e.delivering--
			e.mu.Unlock()
			e.poke()
		}()
		p := &hc.Plans[n]
		if nreq >= len(hc.Plans) {
			silent = true
		}
		e.mu.Unlock()
		out := buildReply(h, p, req, n)
		if n < len(hc.Fixed) {
			out = strings.ReplaceAll(hc.Fixed[n], "{id}", escAttr(req.Attr("id")))
			p.Sent = out
		}
		sid := fmt.Sprintf("sentinel-%d", n+1)
		// log the input before it is delivered: a child that dies leaves it in its log
		c.Sample(hc)
		fmt.Fprintf(logw, "C09 w2 %s reply %d class=%s: %q\n", hc.Helper, n, p.Class, out)
		e.mu.Lock()
		lastSentinel = sid
		if p.Class == "misroute" || p.Class == "bytes" {
			unroutable = true
		}
		if p.Split && p.CancelAt >= 0 {
			silent = true // the helper is being abandoned: this is the peer's last answer
		}
		a := e.acts["helper:"+h.name]
		e.mu.Unlock()
		if p.Split && n >= len(hc.Fixed) {
			e.deliverSplit(out, p.Cuts, p.CancelAt, a, fmt.Sprintf(sentinelPing, sid))
		} else {
			e.peerWrite(out + fmt.Sprintf(sentinelPing, sid))
		}
	}
	isReq := func(n *xmltree.Node) bool {
		typ := n.Attr("type")
		switch n.Name.Local {
		case "iq":
			return typ == "get" || typ == "set"
		case "presence":
			return strings.HasPrefix(h.name, "muc.") || h.name == "Session.SendPresence"
		case "message":
			return h.name == "Session.SendMessage" || h.name == "receipts.SendMessage"
		}
		return false
	}
	// install the responder: elements already seen are none (no request yet)
	e.mu.Lock()
	e.autoReply = nil
	e.mu.Unlock()
	e.onElem = func(n *xmltree.Node) {
		if isReq(n) {
			respond(n)
		}
	}

	a := e.start("helper:"+h.name, "", func(ctx context.Context) (bool, error) { return h.call(ctx, e) })
	// Wait until the helper returned, Serve ended, or the peer's last answer
	// (or an unroutable one) has been dealt with by the serve loop.
	e.wait(func() bool {
		e.mu.Lock()
		ls, sil, unr, busy := lastSentinel, silent, unroutable, e.delivering > 0
		e.mu.Unlock()
		if busy {
			return false // the responder is in the middle of a (split) delivery
		}
		if a.finished() || e.served() {
			return true
		}
		return ls != "" && (sil || unr) && e.answered(ls)
	}, "helper "+h.name, false)
	if !a.finished() {
		// give a helper that is just finishing the chance to report its value
		stall.WaitDone(a.done, 20*time.Millisecond)
	}
	e.finish(hc.Close)
	e.checkServeNil()
	e.countHook()

	// report
	e.mu.Lock()
	defer e.mu.Unlock()
	c.Count("w2_cases", 1)
	c.Count("w2_replies_sent", nreq)
	name := strings.ReplaceAll(h.name, " ", "_")
	outcome := "unfinished"
	if a.finished() {
		switch {
		case a.ok:
			outcome = "value"
			c.Count("helper_value:"+name, 1)
			c.Count("w2_helper_returned_value", 1)
		case a.err != nil:
			outcome = "error"
			c.Count("helper_error:"+name, 1)
			c.Count("w2_helper_returned_error", 1)
		default:
			outcome = "panic"
		}
	} else {
		c.Count("abandoned_actions", 1)
	}
	var classes []string
	for _, p := range hc.Plans[:min(nreq, len(hc.Plans))] {
		cl := p.Class
		if len(p.Muts) > 0 {
			cl += "(" + strings.Join(p.Muts, "+") + ")"
		}
		classes = append(classes, cl)
		c.Count("reply_class_"+p.Class, 1)
		for _, m := range p.Muts {
			if strings.HasPrefix(m, "err-") || m == "degenerate-entries" {
				c.Count("reply_"+m, 1)
			}
		}
	}
	c.Sig("w2|%s|%s|%s", h.name, strings.Join(classes, ","), outcome)
}
