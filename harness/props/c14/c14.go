// Package c14 compares what the real mux.ServeMux does with an incoming
// element -- which registered handler runs, which tokens it can read, what
// reaches the encoder -- with a reference lookup written from the property
// statement.  Every case is driven directly through ServeMux.HandleXMPP on an
// element-limited reader; a sample is also driven through a served session.
package c14

import (
	"bytes"
	"context"
	"encoding/xml"
	"fmt"
	"io"
	"runtime/debug"
	"strings"
	"sync"
	"time"

	"mellium.im/xmlstream"
	"mellium.im/xmpp"
	"mellium.im/xmpp/mux"
	"mellium.im/xmpp/stanza"
	"mellium.im/xmpp/verifharness/core"
	"mellium.im/xmpp/verifharness/sess"
	"mellium.im/xmpp/verifharness/xmltree"
)

const (
	nsAck      = "urn:verif:ack"
	nsStanzaEr = "urn:ietf:params:xml:ns:xmpp-stanzas"
	nsStream   = "http://etherx.jabber.org/streams"
)

// ---------------------------------------------------------------------------
// recording

type invocation struct {
	Tag      string
	Via      string // top | iq | message | presence
	Start    *xml.StartElement
	Type, ID string // of the stanza value handed to the handler
	Toks     []xml.Token
	EOF      bool
	AfterEOF []string // anything but (nil, io.EOF) after the first EOF
	ReadErr  string
	Runaway  bool

	Redispatched int // embedded stanzas handed to the multiplexer from inside this handler
}

type elemRec struct {
	handled  bool
	done     bool
	err      error
	panicv   string
	panicKey string
	stack    string
	invs     []*invocation
}

type driver struct {
	c       *Case
	mux     *mux.ServeMux
	mu      sync.Mutex
	recs    []*elemRec
	stray   []*invocation // invocations whose stanza value names no element of the case
	pairEOF bool          // readers made for embedded stanzas return their last token together with io.EOF
	bar     *barrier      // concurrent mode: handlers wait for each other so that dispatches overlap
}

// barrier lets the first handler of every concurrently dispatched element
// wait until each of the other elements is inside a handler too, or done.
type barrier struct {
	mu   sync.Mutex
	cond *sync.Cond
	n    int
	seen map[int]bool
}

func newBarrier(ids []int) *barrier {
	b := &barrier{n: len(ids), seen: map[int]bool{}}
	b.cond = sync.NewCond(&b.mu)
	return b
}

func (b *barrier) arrive(id int, wait bool) {
	b.mu.Lock()
	if !b.seen[id] {
		b.seen[id] = true
		b.cond.Broadcast()
		for wait && len(b.seen) < b.n {
			b.cond.Wait()
		}
	}
	b.mu.Unlock()
}

func idIndex(id string) int {
	idx := -1
	if strings.HasPrefix(id, "e") {
		fmt.Sscanf(id[1:], "%d", &idx)
	}
	return idx
}

func startID(start *xml.StartElement) string {
	if start != nil {
		for _, a := range start.Attr {
			if a.Name.Local == "id" && a.Name.Space == "" {
				return a.Value
			}
		}
	}
	return ""
}

// subReader hands the handler-side tokens of an embedded stanza to a nested
// dispatch (up to and including its end element) and records them for the
// handler that forwards.
type subReader struct {
	r       xml.TokenReader
	depth   int
	done    bool
	pairEOF bool
	rec     *[]xml.Token
}

func (l *subReader) Token() (xml.Token, error) {
	if l.done {
		return nil, io.EOF
	}
	tok, err := l.r.Token()
	if tok != nil {
		*l.rec = append(*l.rec, xml.CopyToken(tok))
	}
	if err != nil {
		l.done = true
		return tok, err
	}
	switch tok.(type) {
	case xml.StartElement:
		l.depth++
	case xml.EndElement:
		if l.depth == 0 {
			l.done = true
			if l.pairEOF {
				return tok, io.EOF
			}
		}
		l.depth--
	}
	return tok, nil
}

func tokStr(t xml.Token) string {
	switch x := t.(type) {
	case xml.StartElement:
		s := "<{" + x.Name.Space + "}" + x.Name.Local
		for _, a := range x.Attr {
			s += fmt.Sprintf(" {%s}%s=%q", a.Name.Space, a.Name.Local, a.Value)
		}
		return s + ">"
	case xml.EndElement:
		return "</{" + x.Name.Space + "}" + x.Name.Local + ">"
	case xml.CharData:
		return fmt.Sprintf("text(%q)", string(x))
	case nil:
		return "nil"
	}
	return fmt.Sprintf("%T", t)
}

func toksStr(ts []xml.Token) string {
	var ss []string
	for _, t := range ts {
		ss = append(ss, tokStr(t))
	}
	return strings.Join(ss, " ")
}

// handle is the body of every instrumented handler.
func (d *driver) handle(p Pat, via string, start *xml.StartElement, typ, id string, t xmlstream.TokenReadEncoder) error {
	inv := &invocation{Tag: p.Tag(), Via: via, Type: typ, ID: id}
	if start != nil {
		cp := start.Copy()
		inv.Start = &cp
	}
	// the element this invocation belongs to is the one the handler is handed
	owner := idIndex(id)
	if via == "top" {
		owner = idIndex(startID(start))
	}
	if d.bar != nil {
		d.bar.arrive(owner, true)
	}
	nils := 0
	for i := 0; p.Read < 0 || i < p.Read; i++ {
		if i > 200000 {
			inv.Runaway = true
			break
		}
		tok, err := t.Token()
		if tok != nil {
			inv.Toks = append(inv.Toks, xml.CopyToken(tok))
		}
		if err == io.EOF {
			inv.EOF = true
			break
		}
		if err != nil {
			inv.ReadErr = err.Error()
			break
		}
		if se, ok := tok.(xml.StartElement); ok && p.Redispatch && i > 0 && isStanzaLocal(se.Name.Local) && idIndex(startID(&se)) >= 0 {
			// an embedded stanza: dispatch it through the same multiplexer now,
			// in the middle of the dispatch this handler is part of
			es := se.Copy()
			sub := &subReader{r: t, pairEOF: d.pairEOF, rec: &inv.Toks}
			d.HandleXMPP(struct {
				xml.TokenReader
				xmlstream.Encoder
			}{sub, t}, &es)
			for k := 0; !sub.done && k < 5000; k++ {
				sub.Token()
			}
			inv.Redispatched++
		}
		if tok == nil {
			if nils++; nils > 3 {
				inv.ReadErr = "nil token with nil error, repeatedly"
				break
			}
		}
	}
	if inv.EOF && p.Read < 0 {
		for j := 0; j < 2; j++ {
			tok, err := t.Token()
			if tok != nil || err != io.EOF {
				inv.AfterEOF = append(inv.AfterEOF, fmt.Sprintf("%s/%v", tokStr(tok), err))
			}
		}
	}
	if p.Ack {
		st := xml.StartElement{Name: xml.Name{Space: nsAck, Local: "ack"}, Attr: []xml.Attr{{Name: xml.Name{Local: "h"}, Value: p.Tag()}}}
		if err := t.EncodeToken(st); err != nil {
			inv.ReadErr = "encode: " + err.Error()
		}
		if err := t.EncodeToken(st.End()); err != nil {
			inv.ReadErr = "encode: " + err.Error()
		}
	}
	d.mu.Lock()
	if owner >= 0 && owner < len(d.recs) {
		d.recs[owner].invs = append(d.recs[owner].invs, inv)
	} else {
		d.stray = append(d.stray, inv)
	}
	d.mu.Unlock()
	switch p.Err {
	case "":
		return nil
	case "eof":
		return io.EOF
	case "unexpected-eof":
		return io.ErrUnexpectedEOF
	case "wrapped-eof":
		return fmt.Errorf("verif: handler %s: %w", p.Tag(), io.EOF)
	case "canceled":
		return context.Canceled
	case "deadline":
		return context.DeadlineExceeded
	}
	return fmt.Errorf("verif: handler %s fails", p.Tag())
}

func (d *driver) options() []mux.Option { return d.optionsFor(d.c.Pats) }

func (d *driver) optionsFor(pats []Pat) []mux.Option {
	var opts []mux.Option
	for _, p := range pats {
		p := p
		n := xml.Name{Space: p.Space, Local: p.Local}
		switch p.Kind {
		case "top":
			opts = append(opts, mux.Handle(n, xmpp.HandlerFunc(func(t xmlstream.TokenReadEncoder, start *xml.StartElement) error {
				return d.handle(p, "top", start, "", "", t)
			})))
		case "iq":
			opts = append(opts, mux.IQ(stanza.IQType(p.Type), n, mux.IQHandlerFunc(func(iq stanza.IQ, t xmlstream.TokenReadEncoder, start *xml.StartElement) error {
				return d.handle(p, "iq", start, string(iq.Type), iq.ID, t)
			})))
		case "message":
			opts = append(opts, mux.Message(stanza.MessageType(p.Type), n, mux.MessageHandlerFunc(func(m stanza.Message, t xmlstream.TokenReadEncoder) error {
				return d.handle(p, "message", nil, string(m.Type), m.ID, t)
			})))
		case "presence":
			opts = append(opts, mux.Presence(stanza.PresenceType(p.Type), n, mux.PresenceHandlerFunc(func(pr stanza.Presence, t xmlstream.TokenReadEncoder) error {
				return d.handle(p, "presence", nil, string(pr.Type), pr.ID, t)
			})))
		}
	}
	return opts
}

// HandleXMPP wraps the multiplexer so that the element being handled and the
// error it returns are known.
func (d *driver) HandleXMPP(t xmlstream.TokenReadEncoder, start *xml.StartElement) (err error) {
	idx := idIndex(startID(start))
	d.mu.Lock()
	if idx >= 0 && idx < len(d.recs) {
		d.recs[idx].handled = true
	}
	d.mu.Unlock()
	defer func() {
		r := recover()
		d.mu.Lock()
		if idx >= 0 && idx < len(d.recs) {
			d.recs[idx].done = true
			d.recs[idx].err = err
			if r != nil {
				st := string(debug.Stack())
				d.recs[idx].panicv = fmt.Sprint(r)
				d.recs[idx].panicKey = core.PanicKey("ServeMux.HandleXMPP", r, st)
				d.recs[idx].stack = core.TrimStack(st)
			}
		}
		d.mu.Unlock()
		if d.bar != nil {
			d.bar.arrive(idx, false)
		}
		if r != nil {
			// reported by the judge; the caller sees an ordinary error
			err = fmt.Errorf("panic in the multiplexer: %v", r)
		}
	}()
	return d.mux.HandleXMPP(t, start)
}

func newDriver(c *core.Case, cs *Case) *driver {
	d := &driver{c: cs}
	for range cs.all() {
		d.recs = append(d.recs, &elemRec{})
	}
	c.Guard("mux.New", func() {
		if cs.StanzaNS == "" && len(cs.Els)%2 == 1 {
			// a multiplexer for any stanza namespace can also be had without New:
			// the zero value with the options applied to it (what New does)
			d.mux = &mux.ServeMux{}
			for _, o := range d.options() {
				o(d.mux)
			}
			c.Count("multiplexers_built_from_the_zero_value", 1)
			return
		}
		d.mux = mux.New(cs.StanzaNS, d.options()...)
	})
	return d
}

// ---------------------------------------------------------------------------
// independent parse of what is sent

func header(ns string) string {
	return fmt.Sprintf("<stream:stream xmlns='%s' xmlns:stream='%s' version='1.0'>", ns, nsStream)
}

// parseSent returns, for every top-level element of the stream text, its
// complete token list (start ... end) as an encoding/xml decoder yields it.
func parseSent(text string) ([][]xml.Token, error) {
	d := xml.NewDecoder(strings.NewReader(text + "</stream:stream>"))
	if _, err := d.Token(); err != nil {
		return nil, err
	}
	var out [][]xml.Token
	var cur []xml.Token
	depth := 0
	for {
		tok, err := d.Token()
		if err != nil {
			return out, err
		}
		switch tok.(type) {
		case xml.StartElement:
			depth++
		case xml.EndElement:
			depth--
			if depth < 0 {
				return out, nil
			}
		default:
			if depth == 0 {
				continue // white space between elements
			}
		}
		cur = append(cur, xml.CopyToken(tok))
		if depth == 0 {
			out = append(out, cur)
			cur = nil
		}
	}
}

// limitReader hands out the tokens of the current element up to and
// including its end element, then io.EOF (what the session gives a handler).
type limitReader struct {
	d     *xml.Decoder
	depth int
	done  bool
}

func (l *limitReader) Token() (xml.Token, error) {
	if l.done {
		return nil, io.EOF
	}
	tok, err := l.d.Token()
	if err != nil {
		return tok, err
	}
	switch tok.(type) {
	case xml.StartElement:
		l.depth++
	case xml.EndElement:
		if l.depth == 0 {
			l.done = true
		}
		l.depth--
	}
	return tok, nil
}

// ---------------------------------------------------------------------------
// written elements

// describe reduces a written element to what the property speaks about.
func describe(n *xmltree.Node) string {
	switch {
	case n.Name.Space == nsAck && n.Name.Local == "ack":
		return "ack:" + n.Attr("h")
	case n.Name.Local == "iq":
		cond := "-"
		if e := n.Child("*", "error"); e != nil {
			for _, ch := range e.Children() {
				if ch.Name.Space == nsStanzaEr && ch.Name.Local != "text" {
					cond = ch.Name.Local
					break
				}
			}
		}
		return fmt.Sprintf("iq:%s:%s:to=%s:%s", n.Attr("type"), n.Attr("id"), n.Attr("to"), cond)
	}
	return "other:{" + n.Name.Space + "}" + n.Name.Local
}

// sessionAnswers: a served session itself sends a service-unavailable reply
// to every get/set IQ in a stanza namespace whose handler wrote none (whether
// or not the multiplexer treats the element as a stanza).
func sessionAnswers(e *El) bool {
	return e.Local == "iq" && (e.Space == "jabber:client" || e.Space == "jabber:server") && !e.NoType && (e.Type == "get" || e.Type == "set")
}

func replyDesc(e *El) string {
	return fmt.Sprintf("iq:error:%s:to=%s:service-unavailable", e.ID, e.From)
}

// ---------------------------------------------------------------------------
// the comparison

func stepOf(p Pat, kind, typ string, child xml.Name) string {
	if p.Kind != kind || p.Type != typ {
		return "foreign-kind-or-type"
	}
	switch {
	case p.Space == "" && p.Local == "":
		return "wild"
	case p.Space != "" && p.Local != "":
		if p.Space == child.Space && p.Local == child.Local {
			return "exact"
		}
	case p.Local != "":
		if p.Local == child.Local {
			return "local"
		}
	default:
		if p.Space == child.Space {
			return "ns"
		}
	}
	return "non-matching"
}

func errClass(err error, panicv string) string {
	switch {
	case panicv != "":
		return "panic"
	case err == io.EOF:
		return "eof"
	case err != nil:
		return "error"
	}
	return "none"
}

type judge struct {
	c      *core.Case
	cs     *Case
	ref    *refMux
	mode   string // direct | served
	pats   map[string]Pat
	count  bool
	staged bool
}

// judgeElement compares the record of element i with the reference and
// returns false when later elements of a served session cannot be judged.
func (j *judge) judgeElement(e *El, full []xml.Token, rec *elemRec, written []string, haveWritten bool) bool {
	c := j.c
	x := j.ref.expect(e)
	kind := x.Kind
	typ := effectiveType(e)
	pre := "mux:" + kind + ":" + x.Shape + ":"
	ec := errClass(rec.err, rec.panicv)
	raw := e.Raw(j.cs.StreamNS)

	childName := func(k int) xml.Name {
		if k >= 0 && k < len(e.Kids) {
			return xml.Name{Space: e.Kids[k].Space, Local: e.Kids[k].Local}
		}
		return xml.Name{}
	}
	gotStep := func(inv *invocation, k int) string {
		p, ok := j.pats[inv.Tag]
		if !ok {
			return "unknown"
		}
		if kind == "top" {
			return stepOf(p, "top", "", xml.Name{Space: e.Space, Local: e.Local})
		}
		st := stepOf(p, kind, typ, childName(k))
		if st == "non-matching" {
			if own := stepOf(p, kind, typ, xml.Name{Space: e.Space, Local: e.Local}); own != "non-matching" {
				return "stanza-own-name-" + own
			}
		}
		return st
	}

	if x.OrWild != nil && len(rec.invs) == 1 && rec.invs[0].Tag == x.OrWild.Tag {
		x.Invoke, x.Fallback = []ExpInv{*x.OrWild}, false
		if j.count {
			c.Count("payloadless_iq_taken_by_wildcard", 1)
		}
	}
	if rec.panicv != "" {
		c.Violate(rec.panicKey, "[%s] element %s: panic in ServeMux.HandleXMPP: %s\n%s", j.mode, raw, rec.panicv, rec.stack)
		return false
	}

	// --- which handlers ran, in order
	for k := 0; k < len(x.Invoke) || k < len(rec.invs); k++ {
		switch {
		case k >= len(rec.invs):
			got := "none"
			if ec != "none" {
				got = ec
			}
			c.Violate(pre+x.Invoke[k].Step+"→"+got, "[%s] element %s: expected handler %s (%s match for child %d) was not invoked; invoked %v; HandleXMPP returned %v", j.mode, raw, x.Invoke[k].Tag, x.Invoke[k].Step, x.Invoke[k].Child, tags(rec.invs), rec.err)
			return false
		case k >= len(x.Invoke):
			ch := -1
			if len(x.Invoke) > 0 {
				ch = x.Invoke[len(x.Invoke)-1].Child
			}
			c.Violate(pre+"none→"+gotStep(rec.invs[k], ch), "[%s] element %s: handler %s invoked although the reference expects only %v", j.mode, raw, rec.invs[k].Tag, expTags(x.Invoke))
			return false
		case rec.invs[k].Tag != x.Invoke[k].Tag:
			c.Violate(pre+x.Invoke[k].Step+"→"+gotStep(rec.invs[k], x.Invoke[k].Child), "[%s] element %s: expected handler %s (%s match for child %d), got %s; all invoked %v", j.mode, raw, x.Invoke[k].Tag, x.Invoke[k].Step, x.Invoke[k].Child, rec.invs[k].Tag, tags(rec.invs))
			return false
		}
	}
	if j.count {
		for _, inv := range x.Invoke {
			c.Count(kind+"_"+inv.Step, 1)
		}
		if len(x.Invoke) == 0 && !x.Fallback {
			c.Count(kind+"_nothing", 1)
		}
		if x.Shape == "empty" && len(x.Invoke) == 1 && kind != "iq" {
			c.Count("empty_stanza_to_wildcard", 1)
		}
		switch x.Shape {
		case "text-only":
			c.Count("stanza_with_text_only_content", 1)
		case "whitespace-only":
			c.Count("stanza_with_whitespace_only_content", 1)
		}
		if (kind == "message" || kind == "presence") && len(e.Kids) > 0 && (len(e.Lead) > 0 || len(e.Mid) > 0 || len(e.Tail) > 0) {
			c.Count("stanza_payloads_with_character_data_around", 1)
		}
		if kind == "iq" && len(e.Kids) > 0 {
			if n := e.Fill; (n >= 2) || (n >= 1 && e.Sep != "") {
				c.Count("iq_payload_after_two_or_more_whitespace_tokens", 1)
			}
		}
		if e.Fill >= 300 && len(e.Kids) > 0 {
			c.Count("stanzas_with_hundreds_of_tokens_before_every_payload", 1)
			if len(x.Invoke) > 1 {
				c.Count("large_stanzas_with_several_handlers_expected", 1)
			}
		}
		if e.Fill > 0 && len(e.Kids) > 1 && (kind == "message" || kind == "presence") {
			c.Count("stanza_payloads_separated_by_several_whitespace_tokens", 1)
		}
		if len(e.QAttrs) > 0 && isStanzaLocal(kind) {
			c.Count("stanzas_with_qualified_type_id_to_from_attributes", 1)
		}
		if kind == "iq" && e.NoType {
			c.Count("iq_without_type_attribute", 1)
			if len(x.Invoke) > 0 {
				c.Count("empty_type_pattern_invoked_for_untyped_iq", 1)
			}
		}
		if kind == "top" && isStanzaLocal(e.Local) {
			c.Count("stanza_taken_by_toplevel_namespace_pattern", 1)
		}
		if e.Local == "message" && !e.NoType && e.Type != typ {
			c.Count("message_with_undefined_type_value", 1)
			if kind == "message" && len(x.Invoke) > 0 {
				c.Count("message_with_undefined_type_value_handled_as_normal", 1)
			}
		}
		if kind == "iq" || kind == "message" || kind == "presence" {
			nown := 0
			for _, n := range ownNames(kind, e.Space) {
				if _, ok := j.ref.pats[patKey{kind, typ, n}]; ok {
					nown++
				}
			}
			if nown > 0 {
				c.Count("stanzas_with_own_name_payload_pattern", 1)
				c.Count(kind+"_with_own_name_payload_pattern", 1)
				if x.Shape == "empty" && kind != "iq" {
					if len(x.Invoke) == 1 {
						c.Count("empty_stanza_own_name_pattern_wildcard_due", 1)
					} else {
						c.Count("empty_stanza_own_name_pattern_nothing_due", 1)
					}
				}
				for _, k := range e.Kids {
					if k.Space == e.Space && k.Local == e.Local {
						c.Count("child_with_stanza_own_name_matched_by_pattern", 1)
					}
				}
			}
		}
	}

	// --- handler errors come back out of HandleXMPP; nothing else does
	handlerErr := false
	for _, inv := range x.Invoke {
		if inv.Pat.Err != "" {
			handlerErr = true
		}
	}
	if handlerErr && j.count {
		c.Count("elements_with_failing_handler", 1)
		if ec == "error" || ec == "eof" {
			c.Count("handler_error_returned_by_mux", 1)
		} else {
			c.Count("handler_error_not_returned_by_mux", 1)
		}
		for k, inv := range x.Invoke {
			if inv.Pat.Err != "" && inv.Pat.Err != "plain" {
				c.Count("handlers_returning_sentinel_errors", 1)
			}
			if inv.Pat.Err == "eof" && k+1 < len(x.Invoke) {
				c.Count("handlers_due_after_a_handler_returned_io_EOF", 1)
			}
			if inv.Pat.Err != "" && k+1 < len(x.Invoke) {
				c.Count("handlers_invoked_after_failing_handler", len(x.Invoke)-k-1)
				if inv.Pat.Read >= 0 {
					c.Count("handlers_invoked_after_failing_handler_that_read_part", 1)
				}
				break
			}
		}
	}
	if (ec == "error" || ec == "eof") && handlerErr {
		ec = "none"
	}
	if x.Refused {
		if j.count {
			c.Count("iq_with_text_before_or_instead_of_payload_refused", 1)
			if lead := chunksText(e.Lead); strings.TrimSpace(lead) == "" {
				c.Count("iq_payload_after_unicode_white_space_refused", 1)
			}
		}
		if ec == "error" {
			ec = "none"
		}
	}
	// --- the default: an error return where nothing (or the fallback) was due
	if ec != "none" {
		want := "none"
		if x.Fallback {
			want = "fallback"
		} else if len(x.Invoke) > 0 {
			want = "handled"
		}
		c.Violate(pre+want+"→"+ec, "[%s] element %s: HandleXMPP returned %v (panic %q) although every handler returned nil; expected outcome: %s", j.mode, raw, rec.err, rec.panicv, want)
		return false
	}

	// --- what each handler could read
	for k, inv := range rec.invs {
		j.judgeTokens(pre, raw, e, x.Invoke[k], inv, full, k)
	}

	// --- what reached the encoder
	if haveWritten {
		var wantAcks, gotAcks, gotIQ, other []string
		for _, inv := range x.Invoke {
			if inv.Pat.Ack {
				wantAcks = append(wantAcks, "ack:"+inv.Tag)
			}
		}
		for _, w := range written {
			switch {
			case strings.HasPrefix(w, "ack:"):
				gotAcks = append(gotAcks, w)
			case strings.HasPrefix(w, "iq:"):
				gotIQ = append(gotIQ, w)
			default:
				other = append(other, w)
			}
		}
		wantReply := x.Fallback
		if j.mode == "served" && sessionAnswers(e) {
			wantReply = true // the session answers for handlers that did not
		}
		if x.FallbackOptional && len(gotIQ) > 0 {
			// an IQ without a type attribute that nothing handles: the fallback
			// answers it (it is neither a result nor an error), the statement
			// promises a reply to get and set only; either is accepted
			wantReply = true
			if j.count {
				c.Count("untyped_iq_answered_by_fallback", 1)
			}
		}
		switch {
		case wantReply && len(gotIQ) == 0:
			c.Violate(pre+"fallback→none", "[%s] element %s: no service-unavailable reply written (written: %v)", j.mode, raw, written)
		case !wantReply && len(gotIQ) > 0:
			c.Violate(pre+"none→fallback-reply", "[%s] element %s: an IQ was written although none is due: %v", j.mode, raw, gotIQ)
		case wantReply && len(gotIQ) > 1:
			c.Violate(pre+"fallback-reply:double", "[%s] element %s: %d replies written: %v", j.mode, raw, len(gotIQ), gotIQ)
		case wantReply && gotIQ[0] != replyDesc(e):
			c.Violate(pre+"fallback-reply:content", "[%s] element %s: reply %s, want %s", j.mode, raw, gotIQ[0], replyDesc(e))
		case wantReply && j.count:
			if x.Fallback {
				c.Count("iq_fallback_reply", 1)
			}
		}
		if !wantReply && kind == "iq" && len(x.Invoke) == 0 && j.count {
			c.Count("iq_fallback_silent", 1)
		}
		if strings.Join(gotAcks, " ") != strings.Join(wantAcks, " ") {
			c.Violate(pre+"handler-writes", "[%s] element %s: handler writes seen on the encoder %v, want %v", j.mode, raw, gotAcks, wantAcks)
		} else if len(wantAcks) > 0 && j.count {
			c.Count("handler_writes_seen", len(wantAcks))
		}
		if len(other) > 0 {
			c.Violate(pre+"foreign-writes", "[%s] element %s: unexpected elements written: %v", j.mode, raw, other)
		}
	}
	return true
}

func tags(invs []*invocation) []string {
	var out []string
	for _, i := range invs {
		out = append(out, i.Tag)
	}
	return out
}

func expTags(invs []ExpInv) []string {
	var out []string
	for _, i := range invs {
		out = append(out, i.Tag)
	}
	return out
}

func prefixDiff(got, want []xml.Token) string {
	for i := range got {
		if i >= len(want) {
			return fmt.Sprintf("token %d %s is beyond the %d tokens available", i, tokStr(got[i]), len(want))
		}
		if tokStr(got[i]) != tokStr(want[i]) {
			return fmt.Sprintf("token %d is %s, want %s", i, tokStr(got[i]), tokStr(want[i]))
		}
	}
	return ""
}

// judgeTokens checks the token stream one invoked handler could read.
func (j *judge) judgeTokens(pre, raw string, e *El, exp ExpInv, inv *invocation, full []xml.Token, ordinal int) {
	c := j.c
	p := exp.Pat
	if inv.ReadErr != "" || inv.Runaway {
		c.Violate(pre+"tokens:read-error", "[%s] element %s: handler %s: reading failed: %q runaway=%v after %s", j.mode, raw, inv.Tag, inv.ReadErr, inv.Runaway, toksStr(inv.Toks))
		return
	}
	if len(inv.AfterEOF) > 0 {
		c.Violate(pre+"tokens:after-eof", "[%s] element %s: handler %s: reads after io.EOF gave %v", j.mode, raw, inv.Tag, inv.AfterEOF)
	}
	var avail []xml.Token // everything the handler may see, in order
	minAll := 0           // how much an "until EOF" read must at least deliver
	switch inv.Via {
	case "message", "presence":
		avail = full
		minAll = len(full)
		typ := effectiveType(e)
		if inv.Type != typ || inv.ID != e.ID {
			c.Violate(pre+"stanza-value", "[%s] element %s: handler %s got a stanza of type %q id %q", j.mode, raw, inv.Tag, inv.Type, inv.ID)
		}
		if len(inv.Toks) > 0 {
			if _, ok := inv.Toks[0].(xml.StartElement); !ok || tokStr(inv.Toks[0]) != tokStr(full[0]) {
				c.Violate(pre+"replay:first-token", "[%s] element %s: handler %s (invocation %d) reads %s first, not the stanza's start element; read %s", j.mode, raw, inv.Tag, ordinal, tokStr(inv.Toks[0]), toksStr(inv.Toks))
				return
			}
		}
	case "top":
		avail = full[1:]
		minAll = len(avail)
		if inv.Start == nil || tokStr(*inv.Start) != tokStr(full[0]) {
			c.Violate(pre+"start", "[%s] element %s: handler %s got a different start element", j.mode, raw, inv.Tag)
		}
	case "iq":
		if inv.Type != effectiveType(e) || inv.ID != e.ID {
			c.Violate(pre+"stanza-value", "[%s] element %s: handler %s got an IQ of type %q id %q", j.mode, raw, inv.Tag, inv.Type, inv.ID)
		}
		ci := -1
		for k := 1; k < len(full); k++ {
			if _, ok := full[k].(xml.StartElement); ok {
				ci = k
				break
			}
		}
		if ci < 0 {
			avail = full[len(full)-1:]
			break
		}
		if inv.Start == nil || tokStr(*inv.Start) != tokStr(full[ci]) {
			got := "nil"
			if inv.Start != nil {
				got = tokStr(*inv.Start)
			}
			c.Violate(pre+"start", "[%s] element %s: handler %s got start %s, want the first child %s", j.mode, raw, inv.Tag, got, tokStr(full[ci]))
		}
		avail = full[ci+1:]
		depth := 0
		for k, t := range avail {
			switch t.(type) {
			case xml.StartElement:
				depth++
			case xml.EndElement:
				depth--
			}
			if depth < 0 {
				minAll = k + 1 // through the payload's own end element
				break
			}
		}
	}
	if d := prefixDiff(inv.Toks, avail); d != "" {
		key := "tokens:altered"
		if inv.Via == "message" || inv.Via == "presence" {
			key = "replay:altered"
		}
		c.Violate(pre+key, "[%s] element %s: handler %s (invocation %d): %s\nread:      %s\navailable: %s", j.mode, raw, inv.Tag, ordinal, d, toksStr(inv.Toks), toksStr(avail))
		return
	}
	switch {
	case p.Read < 0:
		if len(inv.Toks) < minAll || !inv.EOF {
			key := "tokens:truncated"
			if inv.Via == "message" || inv.Via == "presence" {
				key = "replay:truncated"
			}
			c.Violate(pre+key, "[%s] element %s: handler %s (invocation %d) read until EOF and got %d tokens (EOF %v), want at least %d\nread:      %s\navailable: %s", j.mode, raw, inv.Tag, ordinal, len(inv.Toks), inv.EOF, minAll, toksStr(inv.Toks), toksStr(avail))
		} else if j.count {
			c.Count("handlers_read_all", 1)
		}
	default:
		want := p.Read
		if want > minAll {
			want = minAll
		}
		if len(inv.Toks) < want {
			c.Violate(pre+"tokens:short", "[%s] element %s: handler %s asked for %d tokens and got %d although %d are available", j.mode, raw, inv.Tag, p.Read, len(inv.Toks), minAll)
		} else if j.count {
			if p.Read == 0 {
				c.Count("handlers_read_none", 1)
			} else {
				c.Count("handlers_read_partial", 1)
			}
		}
	}
	if j.count && ordinal > 0 && (inv.Via == "message" || inv.Via == "presence") {
		c.Count("replay_after_earlier_handler", 1)
	}
}

// ---------------------------------------------------------------------------
// drivers

func (cs *Case) patsByTag() map[string]Pat {
	m := map[string]Pat{}
	for _, p := range cs.Pats {
		m[p.Tag()] = p
	}
	return m
}

func (cs *Case) streamText() string {
	var sb strings.Builder
	sb.WriteString(header(cs.StreamNS))
	for i, e := range cs.Els {
		if i > 0 && i%2 == 1 {
			sb.WriteString("\n")
		}
		sb.WriteString(e.Raw(cs.StreamNS))
	}
	return sb.String()
}

// memReader is an in-memory token reader of the kind xmlstream.Wrap,
// stanza.Message.Wrap and xmlstream.MultiReader build: it returns its last
// token together with io.EOF.
type memReader struct {
	toks  []xml.Token
	i     int
	pairs int
}

func (m *memReader) Token() (xml.Token, error) {
	if m.i >= len(m.toks) {
		return nil, io.EOF
	}
	t := m.toks[m.i]
	m.i++
	if m.i == len(m.toks) {
		m.pairs++
		return t, io.EOF
	}
	return t, nil
}

// subFull returns the tokens of the embedded stanza with the given id inside
// the token list of its carrier.
func subFull(full []xml.Token, id string) []xml.Token {
	for k, t := range full {
		se, ok := t.(xml.StartElement)
		if !ok || k == 0 || startID(&se) != id || !isStanzaLocal(se.Name.Local) {
			continue
		}
		depth := 0
		for m := k + 1; m < len(full); m++ {
			switch full[m].(type) {
			case xml.StartElement:
				depth++
			case xml.EndElement:
				if depth == 0 {
					return full[k : m+1]
				}
				depth--
			}
		}
	}
	return nil
}

// judgeEmbedded judges the stanzas a forwarding handler re-dispatched.
func (j *judge) judgeEmbedded(d *driver, e *El, full []xml.Token, outer *elemRec) {
	for _, emb := range e.embedded() {
		idx := idIndex(emb.ID)
		sf := subFull(full, emb.ID)
		if sf == nil || idx < 0 || idx >= len(d.recs) {
			j.c.Count("harness_generation_errors", 1)
			continue
		}
		forwarded := false
		for _, inv := range outer.invs {
			if inv.Redispatched > 0 {
				forwarded = true
			}
		}
		if !forwarded {
			continue // reported on the carrier (its forwarding handler did not run)
		}
		if !d.recs[idx].handled {
			j.c.Violate("mux:harness:embedded-not-redispatched", "[%s] the forwarding handler ran but the embedded stanza %s was not handed to the multiplexer", j.mode, emb.Raw(j.cs.StreamNS))
			continue
		}
		j.judgeElement(emb, sf, d.recs[idx], nil, false)
		if j.count {
			j.c.Count("reentrant_dispatches", 1)
		}
	}
}

func (j *judge) judgeStray(d *driver) {
	d.mu.Lock()
	defer d.mu.Unlock()
	for _, inv := range d.stray {
		j.c.Violate("mux:stanza-value:unknown-id", "[%s] handler %s was handed a stanza value with id %q, which no element of the case has", j.mode, inv.Tag, inv.ID)
	}
}

func runDirect(c *core.Case, cs *Case) {
	runDirectForm(c, cs, "decoder")
	runDirectForm(c, cs, "memory")
}

// runDirectForm feeds every element to ServeMux.HandleXMPP on an
// element-limited reader: form "decoder" reads from an encoding/xml decoder
// (the way the session does), form "memory" from an in-memory token reader that
// returns its last token together with io.EOF.
func runDirectForm(c *core.Case, cs *Case, form string) {
	text := cs.streamText()
	fulls, err := parseSent(text)
	if err != nil || len(fulls) != len(cs.Els) {
		c.Notef("harness: generated stream does not parse: %v (%d of %d elements)\n%s", err, len(fulls), len(cs.Els), text)
		c.Count("harness_generation_errors", 1)
		return
	}
	d := newDriver(c, cs)
	if d.mux == nil {
		return
	}
	mode := "direct"
	if form == "memory" {
		mode = "direct-memory-reader"
	}
	j := &judge{c: c, cs: cs, ref: newRef(cs), mode: mode, pats: cs.patsByTag(), count: form == "decoder"}
	feed(c, cs, d, j, form, text, fulls)
}

// feed hands every element of cs to d (once) and judges it with j.
func feed(c *core.Case, cs *Case, d *driver, j *judge, form, text string, fulls [][]xml.Token) {
	mode := j.mode
	d.pairEOF = form == "memory"
	dec := xml.NewDecoder(strings.NewReader(text))
	dec.Token() // header
	var out bytes.Buffer
	enc := xml.NewEncoder(&out)
	for i := range cs.Els {
		var start xml.StartElement
		var rd xml.TokenReader
		var mr *memReader
		if form == "memory" {
			start = fulls[i][0].(xml.StartElement).Copy()
			mr = &memReader{toks: fulls[i][1:]}
			rd = mr
		} else {
			for {
				tok, err := dec.Token()
				if err != nil {
					c.Notef("harness: lost position in the generated stream: %v", err)
					return
				}
				if se, ok := tok.(xml.StartElement); ok {
					start = se.Copy()
					break
				}
			}
			rd = &limitReader{d: dec}
		}
		rw := struct {
			xml.TokenReader
			xmlstream.Encoder
		}{rd, enc}
		out.Reset()
		c.Guard("ServeMux.HandleXMPP", func() { d.HandleXMPP(rw, &start) })
		if j.staged {
			c.Count("staged_elements", 1)
		} else if form == "memory" {
			c.Count("direct_memory_reader_elements", 1)
			if mr.pairs > 0 {
				c.Count("memory_reader_last_token_delivered_with_eof", 1)
			}
		} else {
			c.Count("direct_elements", 1)
		}
		enc.Flush()
		var written []string
		st := xmltree.ParseStream(out.Bytes(), false)
		if st.Err != nil || st.Trailing {
			c.Violate("mux:output:malformed", "[%s] element %s: what was written to the encoder is not a sequence of elements: %v\n%q", mode, cs.Els[i].Raw(cs.StreamNS), st.Err, out.Bytes())
			enc = xml.NewEncoder(&out)
		}
		for _, n := range st.Elems {
			written = append(written, describe(n))
		}
		rec := d.recs[i]
		j.judgeElement(cs.Els[i], fulls[i], rec, written, true)
		j.judgeEmbedded(d, cs.Els[i], fulls[i], rec)
		// advance to the end of the element, as the session does
		for k := 0; k < 100000; k++ {
			if _, err := rd.Token(); err != nil {
				break
			}
		}
		if form == "decoder" && !j.staged {
			sig(c, cs, j.ref, i)
		}
	}
	j.judgeStray(d)
}

// runStaged registers the patterns in two steps on one multiplexer value:
// the multiplexer is built with the first part and dispatches every element,
// then the options of the second part are applied to the same *ServeMux (an
// Option is an exported func(*ServeMux)) and every element is dispatched
// again.  The reference is recomputed from what is registered at each step.
func runStaged(c *core.Case, cs *Case) {
	if len(cs.Pats) < 2 {
		return
	}
	text := cs.streamText()
	fulls, err := parseSent(text)
	if err != nil || len(fulls) != len(cs.Els) {
		return
	}
	var first, second []Pat
	for k, p := range cs.Pats {
		if cs.StageMask>>(uint(k)%60)&1 == 1 {
			second = append(second, p)
		} else {
			first = append(first, p)
		}
	}
	if len(second) == 0 {
		return
	}
	one := *cs
	one.Pats = first
	d := newDriver(c, &one)
	if d.mux == nil {
		return
	}
	form := "decoder"
	if cs.StageMask&(1<<61) != 0 {
		form = "memory"
	}
	j1 := &judge{c: c, cs: &one, ref: newRef(&one), mode: "staged-1", pats: cs.patsByTag(), staged: true}
	feed(c, &one, d, j1, form, text, fulls)

	if c.Guard("Option applied to an existing ServeMux", func() {
		for _, o := range d.optionsFor(second) {
			o(d.mux)
		}
	}) {
		return
	}
	d.mu.Lock()
	for i := range d.recs {
		d.recs[i] = &elemRec{}
	}
	d.stray = nil
	d.c = cs
	d.mu.Unlock()
	j2 := &judge{c: c, cs: cs, ref: newRef(cs), mode: "staged-2", pats: cs.patsByTag(), staged: true}
	feed(c, cs, d, j2, form, text, fulls)
	c.Count("staged_registration_scenarios", 1)
	for _, e := range cs.all() {
		a, b := j1.ref.expect(e), j2.ref.expect(e)
		if fmt.Sprint(expTags(a.Invoke), a.Fallback) != fmt.Sprint(expTags(b.Invoke), b.Fallback) {
			c.Count("staged_elements_routed_differently_after_later_registration", 1)
			for k := range b.Invoke {
				if k < len(a.Invoke) && a.Invoke[k].Tag != b.Invoke[k].Tag && a.Invoke[k].Child == b.Invoke[k].Child {
					c.Count("staged_more_specific_pattern_registered_later", 1)
				}
			}
		}
	}
}

// runConcurrent dispatches the elements on one shared multiplexer from one
// goroutine each.  The first handler reached for every element waits until
// all the other elements are inside a handler (or finished), so the
// dispatches overlap whatever the scheduler does.
func runConcurrent(c *core.Case, cs *Case) {
	els := cs.Els
	if len(els) < 2 {
		cl := *els[0]
		cl.ID = "e1"
		els = append(append([]*El(nil), els...), &cl)
	}
	cc := *cs
	cc.Els = els
	d := newDriver(c, &cc)
	if d.mux == nil {
		return
	}
	type job struct {
		e       *El
		full    []xml.Token
		written []string
		malform string
		timeout bool
	}
	var jobs []*job
	for _, e := range els {
		one := cc
		one.Els = []*El{e}
		fulls, err := parseSent(one.streamText())
		if err != nil || len(fulls) != 1 {
			c.Count("harness_generation_errors", 1)
			return
		}
		jobs = append(jobs, &job{e: e, full: fulls[0]})
	}
	dispatch := func(jb *job, k int) {
		var out bytes.Buffer
		enc := xml.NewEncoder(&out)
		start := jb.full[0].(xml.StartElement).Copy()
		var rd xml.TokenReader = &memReader{toks: jb.full[1:]}
		if k%2 == 0 {
			one := cc
			one.Els = []*El{jb.e}
			dec := xml.NewDecoder(strings.NewReader(one.streamText()))
			dec.Token()
			dec.Token()
			rd = &limitReader{d: dec}
		}
		d.HandleXMPP(struct {
			xml.TokenReader
			xmlstream.Encoder
		}{rd, enc}, &start)
		enc.Flush()
		st := xmltree.ParseStream(out.Bytes(), false)
		if st.Err != nil || st.Trailing {
			jb.malform = fmt.Sprintf("%v %q", st.Err, out.Bytes())
		}
		for _, n := range st.Elems {
			jb.written = append(jb.written, describe(n))
		}
	}
	// one ordinary dispatch first: a multiplexer that keeps state between
	// stanzas has it by now
	warm := &job{e: jobs[0].e, full: jobs[0].full}
	c.Guard("ServeMux.HandleXMPP", func() { dispatch(warm, 1) })
	d.mu.Lock()
	for i := range d.recs {
		d.recs[i] = &elemRec{}
	}
	d.stray = nil
	d.mu.Unlock()

	var ids []int
	for _, jb := range jobs {
		ids = append(ids, idIndex(jb.e.ID))
	}
	d.bar = newBarrier(ids)
	var wg sync.WaitGroup
	for k, jb := range jobs {
		wg.Add(1)
		go func(k int, jb *job) {
			defer wg.Done()
			defer d.bar.arrive(idIndex(jb.e.ID), false)
			dispatch(jb, k)
		}(k, jb)
	}
	done := make(chan struct{})
	go func() { wg.Wait(); close(done) }()
	select {
	case <-done:
	case <-time.After(20 * time.Second):
		c.Count("concurrent_timeouts", 1)
		c.Notef("concurrent dispatches did not finish within 20 s")
		return
	}
	c.Count("concurrent_scenarios", 1)
	c.Count("concurrent_dispatches", len(jobs))
	j := &judge{c: c, cs: &cc, ref: newRef(&cc), mode: "concurrent", pats: cc.patsByTag()}
	d.mu.Lock()
	recs := append([]*elemRec(nil), d.recs...)
	d.mu.Unlock()
	overlapped := 0
	for _, jb := range jobs {
		rec := recs[idIndex(jb.e.ID)]
		if len(rec.invs) > 0 {
			overlapped++
		}
		if jb.malform != "" {
			c.Violate("mux:output:malformed", "[concurrent] element %s: what was written to the encoder is not a sequence of elements: %s", jb.e.Raw(cc.StreamNS), jb.malform)
			continue
		}
		j.judgeElement(jb.e, jb.full, rec, jb.written, true)
	}
	if overlapped >= 2 {
		c.Count("concurrent_scenarios_with_overlapping_handlers", 1)
	}
	j.judgeStray(d)
}

func sig(c *core.Case, cs *Case, ref *refMux, i int) {
	e := cs.Els[i]
	x := ref.expect(e)
	mask := ""
	if len(e.Kids) > 0 && x.Kind != "top" && x.Kind != "other" {
		n := xml.Name{Space: e.Kids[0].Space, Local: e.Kids[0].Local}
		typ := effectiveType(e)
		for _, k := range []xml.Name{n, {Local: n.Local}, {Space: n.Space}, {}} {
			if _, ok := ref.pats[patKey{x.Kind, typ, k}]; ok {
				mask += "1"
			} else {
				mask += "0"
			}
		}
	}
	steps := ""
	reads := ""
	for _, inv := range x.Invoke {
		steps += inv.Step[:1]
		switch {
		case inv.Pat.Read < 0:
			reads += "A"
		case inv.Pat.Read == 0:
			reads += "0"
		default:
			reads += "p"
		}
	}
	nk := len(e.Kids)
	if nk > 2 {
		nk = 2
	}
	own := ""
	if isStanzaLocal(x.Kind) {
		for _, n := range ownNames(x.Kind, e.Space) {
			if _, ok := ref.pats[patKey{x.Kind, effectiveType(e), n}]; ok {
				own += "1"
			} else {
				own += "0"
			}
		}
	}
	c.Sig("%s/%s/ns=%v/kids=%d/mask=%s/own=%s/steps=%s/reads=%s/fb=%v", x.Kind, x.Shape, cs.StanzaNS != "", nk, mask, own, steps, reads, x.Fallback)
}

func runServed(c *core.Case, cs *Case) {
	fulls, err := parseSent(cs.streamText())
	if err != nil || len(fulls) != len(cs.Els) {
		return
	}
	d := newDriver(c, cs)
	if d.mux == nil {
		return
	}
	p, err := sess.NewPair(sess.Opts{S2S: cs.StreamNS == "jabber:server"})
	if err != nil {
		c.Notef("harness: NewPair: %v", err)
		c.Count("served_setup_failures", 1)
		return
	}
	done := make(chan error, 1)
	go func() { done <- p.S.Serve(d) }()
	for i, e := range cs.Els {
		if i > 0 && i%2 == 1 {
			p.Send("\n")
		}
		p.Send(e.Raw(cs.StreamNS))
	}
	p.ClosePeer()
	var serveErr error
	select {
	case serveErr = <-done:
	case <-time.After(20 * time.Second):
		c.Count("served_timeouts", 1)
		c.Notef("Serve did not return within 20 s")
		p.Peer.Close()
		p.Lib.Close()
		return
	}
	c.Count("served_sessions", 1)
	j := &judge{c: c, cs: cs, ref: newRef(cs), mode: "served", pats: cs.patsByTag()}
	// wire: everything in order; the expected list is built per element
	st := p.Elements()
	var wire []string
	for _, n := range st.Elems {
		wire = append(wire, describe(n))
	}
	d.mu.Lock()
	defer d.mu.Unlock()
	pos := 0
	for i, e := range cs.Els {
		rec := d.recs[i]
		if !rec.handled {
			c.Violate("mux:served:element-not-dispatched", "[served] element %s never reached the multiplexer (Serve returned %v)", e.Raw(cs.StreamNS), serveErr)
			return
		}
		// the slice of the wire that belongs to this element
		x := j.ref.expect(e)
		n := 0
		for _, inv := range x.Invoke {
			if inv.Pat.Ack {
				n++
			}
		}
		if sessionAnswers(e) {
			n++
		}
		end := pos + n
		if end > len(wire) {
			end = len(wire)
		}
		mine := wire[pos:end]
		pos = end
		before := c.Violated()
		ok := j.judgeElement(e, fulls[i], rec, mine, true)
		if ok {
			j.judgeEmbedded(d, e, fulls[i], rec)
		}
		if !ok || (!before && c.Violated()) {
			c.Count("served_not_judged_after_divergence", len(cs.Els)-i-1)
			return
		}
		c.Count("served_elements", 1)
	}
	if pos != len(wire) {
		c.Violate("mux:served:extra-output", "[served] %d more elements on the wire than expected: %v", len(wire)-pos, wire[pos:])
	}
	if serveErr != nil {
		c.Notef("Serve returned %v", serveErr)
	}
}

// ---------------------------------------------------------------------------
// registration: duplicates and nil handlers are refused, near-duplicates are not

func panics(f func()) (p bool) {
	defer func() {
		if recover() != nil {
			p = true
		}
	}()
	f()
	return false
}

func nopIQ(stanza.IQ, xmlstream.TokenReadEncoder, *xml.StartElement) error { return nil }
func nopMsg(stanza.Message, xmlstream.TokenReadEncoder) error              { return nil }
func nopPres(stanza.Presence, xmlstream.TokenReadEncoder) error            { return nil }
func nopTop(xmlstream.TokenReadEncoder, *xml.StartElement) error           { return nil }

func opt(kind, typ string, n xml.Name, mode string) mux.Option {
	switch kind {
	case "iq":
		switch mode {
		case "nil":
			return mux.IQ(stanza.IQType(typ), n, nil)
		case "nilfunc":
			return mux.IQFunc(stanza.IQType(typ), n, nil)
		}
		return mux.IQFunc(stanza.IQType(typ), n, nopIQ)
	case "message":
		switch mode {
		case "nil":
			return mux.Message(stanza.MessageType(typ), n, nil)
		case "nilfunc":
			return mux.MessageFunc(stanza.MessageType(typ), n, nil)
		}
		return mux.MessageFunc(stanza.MessageType(typ), n, nopMsg)
	case "presence":
		switch mode {
		case "nil":
			return mux.Presence(stanza.PresenceType(typ), n, nil)
		case "nilfunc":
			return mux.PresenceFunc(stanza.PresenceType(typ), n, nil)
		}
		return mux.PresenceFunc(stanza.PresenceType(typ), n, nopPres)
	}
	switch mode {
	case "nil":
		return mux.Handle(n, nil)
	case "nilfunc":
		return mux.HandleFunc(n, nil)
	}
	return mux.HandleFunc(n, nopTop)
}

// Reg is a written-out registration scenario.
type Reg struct {
	Kind, Type   string
	Space, Local string
	Mode         string // dup | nil | nilfunc | distinct
	Other        Pat    // for distinct: the near-duplicate registered next to it
}

func runRegistration(c *core.Case, g Reg) {
	n := xml.Name{Space: g.Space, Local: g.Local}
	key := "mux:register:" + g.Mode + ":" + g.Kind
	switch g.Mode {
	case "dup":
		var o1, o2 mux.Option
		if c.Guard("option", func() { o1, o2 = opt(g.Kind, g.Type, n, ""), opt(g.Kind, g.Type, n, "") }) {
			return
		}
		if !panics(func() { mux.New("jabber:client", o1, o2) }) {
			c.Violate(key+":accepted", "registering %s[%s]{%s}%s twice is not refused", g.Kind, g.Type, g.Space, g.Local)
		} else {
			c.Count("duplicate_registration_refused", 1)
		}
		refusedLeavesRegistered(c, g, n, key)
	case "nil", "nilfunc":
		refused := panics(func() { mux.New("jabber:client", opt(g.Kind, g.Type, n, g.Mode)) })
		if !refused {
			c.Violate(key+":accepted", "registering %s[%s]{%s}%s with a nil handler (%s) is not refused", g.Kind, g.Type, g.Space, g.Local, map[string]string{"nil": "nil interface value", "nilfunc": "nil handler function passed to the ...Func option"}[g.Mode])
		} else {
			c.Count("nil_registration_refused", 1)
		}
	case "distinct":
		on := xml.Name{Space: g.Other.Space, Local: g.Other.Local}
		if panics(func() { mux.New("jabber:client", opt(g.Kind, g.Type, n, ""), opt(g.Other.Kind, g.Other.Type, on, "")) }) {
			c.Violate(key+":refused", "registering %s[%s]{%s}%s next to the different pattern %s is refused", g.Kind, g.Type, g.Space, g.Local, g.Other.Tag())
		} else {
			c.Count("distinct_registration_accepted", 1)
		}
	}
}

// taggedOpt is an option for the pattern whose handler records tag in *got.
func taggedOpt(kind, typ string, n xml.Name, tag string, got *[]string) mux.Option {
	switch kind {
	case "iq":
		return mux.IQFunc(stanza.IQType(typ), n, func(stanza.IQ, xmlstream.TokenReadEncoder, *xml.StartElement) error {
			*got = append(*got, tag)
			return nil
		})
	case "message":
		return mux.MessageFunc(stanza.MessageType(typ), n, func(stanza.Message, xmlstream.TokenReadEncoder) error {
			*got = append(*got, tag)
			return nil
		})
	case "presence":
		return mux.PresenceFunc(stanza.PresenceType(typ), n, func(stanza.Presence, xmlstream.TokenReadEncoder) error {
			*got = append(*got, tag)
			return nil
		})
	}
	return mux.HandleFunc(n, func(xmlstream.TokenReadEncoder, *xml.StartElement) error {
		*got = append(*got, tag)
		return nil
	})
}

// refusedLeavesRegistered: "refused" means that the registration did not take
// place.  A multiplexer that already has a handler for the pattern is offered
// the same pattern again (and a nil handler for it), by applying the options to
// it one at a time the way New does; the panics are recovered, as an
// application loading optional handlers would, and afterwards the pattern must
// still lead to the handler that was registered first.
func refusedLeavesRegistered(c *core.Case, g Reg, n xml.Name, key string) {
	var got []string
	var m *mux.ServeMux
	if c.Guard("first registration", func() { m = mux.New("jabber:client", taggedOpt(g.Kind, g.Type, n, "first", &got)) }) {
		return
	}
	second := taggedOpt(g.Kind, g.Type, n, "second", &got)
	if !panics(func() { second(m) }) {
		c.Violate(key+":accepted", "registering %s[%s]{%s}%s on a multiplexer that has the pattern already is not refused", g.Kind, g.Type, g.Space, g.Local)
		return
	}
	panics(func() { opt(g.Kind, g.Type, n, "nil")(m) })
	panics(func() { opt(g.Kind, g.Type, n, "nilfunc")(m) })
	found := false
	if c.Guard("lookup after refused registrations", func() {
		switch g.Kind {
		case "iq":
			var h mux.IQHandler
			if h, found = m.IQHandler(stanza.IQType(g.Type), n); found {
				h.HandleIQ(stanza.IQ{}, nil, nil)
			}
		case "message":
			var h mux.MessageHandler
			if h, found = m.MessageHandler(stanza.MessageType(g.Type), n); found {
				h.HandleMessage(stanza.Message{}, nil)
			}
		case "presence":
			var h mux.PresenceHandler
			if h, found = m.PresenceHandler(stanza.PresenceType(g.Type), n); found {
				h.HandlePresence(stanza.Presence{}, nil)
			}
		default:
			var h xmpp.Handler
			if h, found = m.Handler(n); found {
				h.HandleXMPP(nil, nil)
			}
		}
	}) {
		return
	}
	switch {
	case !found:
		c.Violate(key+":refused-but-unregistered", "after a refused second registration of %s[%s]{%s}%s the pattern leads to no handler at all", g.Kind, g.Type, g.Space, g.Local)
	case len(got) != 1 || got[0] != "first":
		c.Violate(key+":refused-but-replaced", "after a refused second registration (and refused nil registrations) of %s[%s]{%s}%s the pattern leads to %v, not to the handler that was registered first", g.Kind, g.Type, g.Space, g.Local, got)
	default:
		c.Count("refused_registration_left_first_handler", 1)
	}
}

func genReg(c *core.Case) Reg {
	r := c.Rand
	g := Reg{}
	k := r.Intn(4)
	if k == 3 {
		g.Kind = "top"
		n := patternNames(topSpaces, topLocals, false)
		x := n[r.Intn(len(n))]
		g.Space, g.Local = x.Space, x.Local
	} else {
		g.Kind = kinds[k]
		ts := kindTypes[g.Kind]
		g.Type = ts[r.Intn(len(ts))]
		n := patternNames(paySpaces, payLocals, true)
		x := n[r.Intn(len(n))]
		g.Space, g.Local = x.Space, x.Local
	}
	g.Mode = []string{"dup", "nil", "nilfunc", "distinct"}[r.Intn(4)]
	if g.Mode == "distinct" {
		o := Pat{Kind: g.Kind, Type: g.Type, Space: g.Space, Local: g.Local}
		switch r.Intn(4) {
		case 0: // same name, other type
			if (g.Kind == "iq" || g.Kind == "message") && g.Type != "" && r.Intn(3) == 0 {
				o.Type = "" // the zero value of the type next to an explicit one
				break
			}
			if g.Kind != "top" {
				ts := kindTypes[g.Kind]
				for o.Type == g.Type {
					o.Type = ts[r.Intn(len(ts))]
				}
				break
			}
			fallthrough
		case 1: // same name, other kind
			if g.Kind == "top" {
				o.Kind, o.Type, o.Space, o.Local = "message", "chat", g.Space, g.Local
			} else {
				for o.Kind == g.Kind {
					o.Kind = kinds[r.Intn(3)]
				}
				o.Type = kindTypes[o.Kind][0]
			}
		case 2: // only one half of the name shared
			if o.Local != "" {
				o.Local = ""
				if o.Space == "" {
					o.Space = "urn:n1"
					if g.Kind == "top" {
						o.Space = "urn:top1"
					}
				}
			} else {
				o.Local = "a"
				if g.Kind == "top" {
					o.Local = "t1"
				}
			}
		default: // other namespace
			o.Space = "urn:elsewhere"
		}
		g.Other = o
	}
	return g
}

// ---------------------------------------------------------------------------

type sample struct {
	Case *Case    `json:"case"`
	Sent []string `json:"sent"`
	Reg  *Reg     `json:"registration,omitempty"`
}

func runCase(c *core.Case, cs *Case, reg *Reg) {
	s := sample{Case: cs, Reg: reg}
	for _, e := range cs.Els {
		s.Sent = append(s.Sent, e.Raw(cs.StreamNS))
	}
	c.Sample(s)
	if cs.EmptyTypePatterns {
		c.Count("cases_with_empty_type_patterns_next_to_explicit_ones", 1)
	}
	runDirect(c, cs)
	if cs.Served {
		runServed(c, cs)
	}
	if cs.Concurrent {
		runConcurrent(c, cs)
	}
	if cs.StageMask != 0 {
		runStaged(c, cs)
	}
	if reg != nil {
		runRegistration(c, *reg)
	}
}

func run(c *core.Case) {
	cs := genCase(c.Rand)
	var reg *Reg
	if c.Rand.Intn(4) == 0 {
		g := genReg(c)
		reg = &g
	}
	runCase(c, cs, reg)
}

// Prop returns the C14 check.
func Prop() *core.Prop {
	req := []string{"iq_fallback_reply", "iq_fallback_silent", "empty_stanza_to_wildcard", "replay_after_earlier_handler",
		"handlers_read_all", "handlers_read_partial", "handlers_read_none", "handler_writes_seen",
		"duplicate_registration_refused", "refused_registration_left_first_handler", "nil_registration_refused", "distinct_registration_accepted",
		"served_sessions", "served_elements", "direct_elements",
		"direct_memory_reader_elements", "memory_reader_last_token_delivered_with_eof", "reentrant_dispatches",
		"concurrent_scenarios", "concurrent_dispatches", "concurrent_scenarios_with_overlapping_handlers",
		"iq_with_text_before_or_instead_of_payload_refused", "iq_payload_after_unicode_white_space_refused",
		"stanza_with_text_only_content", "stanza_with_whitespace_only_content", "stanza_payloads_with_character_data_around",
		"iq_payload_after_two_or_more_whitespace_tokens", "stanza_payloads_separated_by_several_whitespace_tokens", "stanzas_with_hundreds_of_tokens_before_every_payload", "large_stanzas_with_several_handlers_expected",
		"stanzas_with_qualified_type_id_to_from_attributes", "handlers_returning_sentinel_errors", "handlers_due_after_a_handler_returned_io_EOF",
		"staged_registration_scenarios", "staged_elements", "staged_elements_routed_differently_after_later_registration",
		"staged_more_specific_pattern_registered_later", "iq_without_type_attribute", "empty_type_pattern_invoked_for_untyped_iq",
		"cases_with_empty_type_patterns_next_to_explicit_ones",
		"stanza_taken_by_toplevel_namespace_pattern", "message_with_undefined_type_value", "message_with_undefined_type_value_handled_as_normal",
		"elements_with_failing_handler", "handler_error_returned_by_mux", "handlers_invoked_after_failing_handler",
		"handlers_invoked_after_failing_handler_that_read_part",
		"stanzas_with_own_name_payload_pattern", "iq_with_own_name_payload_pattern", "message_with_own_name_payload_pattern",
		"presence_with_own_name_payload_pattern", "empty_stanza_own_name_pattern_wildcard_due", "empty_stanza_own_name_pattern_nothing_due",
		"child_with_stanza_own_name_matched_by_pattern", "top_exact", "top_local", "top_ns", "other_nothing"}
	for _, k := range kinds {
		for _, s := range []string{"exact", "local", "ns", "wild", "nothing"} {
			if k == "iq" && s == "nothing" {
				continue
			}
			req = append(req, k+"_"+s)
		}
	}
	return &core.Prop{
		ID:    "C14",
		Level: core.Exploration,
		Race:  true,
		Rule:  "a case is a multiplexer (stanza namespace client/server/any) with a PRNG-drawn pattern set: for one or two (kind,type) pairs a random subset of the nine names over 2 local names x 2 namespaces (4 exact, 2 local-only, 2 namespace-only, the bare wildcard), for a quarter of those pairs also 1-3 payload patterns carrying the stanza's own element name / local name / content namespace (which an empty stanza must not be matched against; 4% of children carry the stanza's own name), up to 5 patterns with the same names under other kinds/types, up to 3 top-level names; 1-3 incoming elements (stanzas of the focus pairs, of other kinds/types, in the other content namespace, non-stanza top-level elements) with 0-4 children in any order, nested children, white space, names outside the universe. Every handler is tagged with its pattern, reads a fixed number of tokens (0-7 or until EOF and beyond) and may write a marker. Each element goes through ServeMux.HandleXMPP on an element-limited reader (and 1 case in 12 also through a served session); the handlers invoked, the tokens each could read and what reached the encoder are compared with a reference lookup written from the statement. Every element is fed twice on fresh multiplexers: from an encoding/xml decoder limited to the element, and from an in-memory token reader that returns its last token together with io.EOF (the form xmlstream.Wrap / stanza.Message.Wrap / MultiReader produce). In 1 case in 5 message/presence focus pairs get a forwarding handler that hands a stanza embedded in a {urn:verif:fwd}forwarded child to the same multiplexer while its own dispatch is in progress (re-entrant dispatch; the embedded stanza is judged by the same reference, and the carrier's later handlers must still see the carrier). 1 case in 8 also dispatches its elements concurrently on one shared multiplexer, one goroutine each, after one ordinary dispatch; the first handler reached for each element waits until the others are inside a handler or done, so the dispatches overlap by construction; invocations are attributed by the id of the stanza value the handler is handed, and the children run under the race detector. 1 case in 4 also registers a duplicate, a nil handler, a nil handler function or a near-duplicate; a duplicate is also offered to a multiplexer that has the pattern already (options applied one at a time, panics recovered, then a nil handler and a nil function for the same pattern), after which the pattern must still lead to the handler registered first. distinct = (kind, empty/children, pattern-class mask for the first child, steps chosen, read classes, fallback).",
		Assumptions: []string{
			"a message without a type attribute, or with a value other than the five defined ones (unknown words, wrong case, white space, empty), is of type normal (RFC 6121 5.2.2, documented on stanza.MessageType); a presence without a type is available; undefined presence and IQ type values are not generated (the library does not normalise them and the statement does not say)",
			"a message/presence whose only content is character data has no payload and is not empty (its tokens are more than a start and an end element): nothing is due, for text (key shape text-only) and for white space alone (key shape whitespace-only, the library's reading of 'empty': exactly start and end element); an IQ whose payload is preceded by, or whose only content is, character data other than XML white space (space, tab, CR, LF: Unicode spaces such as NBSP, NEL, EM SPACE, U+3000 and zero-width characters are text) is refused: not dispatched, nothing written, an error accepted",
			"top-level patterns are consulted before the stanza routers (ServeMux.Handler's documented order): a namespace-only top-level pattern naming a stanza content namespace takes the stanzas of that namespace; exact and local-only stanza names cannot be registered with Handle",
			"in one case in five a third of the handlers return an error after running their program: dispatch to the later payloads of a message/presence must go on and their handlers must still be handed the complete stanza; an error out of HandleXMPP is accepted exactly when an invoked handler returned one (whether it is returned is counted, not judged); any other error or panic is the multiplexer's own",
			"for IQ handlers only the tokens of the payload itself are demanded; reading on to later siblings or the IQ end element is allowed",
			"in served mode the session itself answers get/set IQs whose handler wrote no reply; exactly one service-unavailable reply per get/set IQ is expected there",
		},
		Cases: func(tier string) int {
			if tier == "thorough" {
				return 800000
			}
			return 20000
		},
		Run:       run,
		Require:   req,
		Witnesses: witnesses(),
	}
}
