package c14

import (
	"encoding/xml"
	"fmt"
	"math/rand"
	"strings"
)

// ---------------------------------------------------------------------------
// the written-out case

// Pat is one registration.
type Pat struct {
	Kind  string // top | iq | message | presence
	Type  string // stanza type ("" for top; "" is also the available presence)
	Space string // pattern name; either part may be empty (wildcard)
	Local string
	Read  int  // tokens the handler reads: -1 = until EOF (and beyond)
	Ack   bool // the handler writes a marker element to the encoder

	// Redispatch: the handler (registered for the forwarding wrapper) reads the
	// whole stanza and hands the stanza embedded in the wrapper to the same
	// multiplexer again while its own dispatch is still in progress.
	Redispatch bool `json:",omitempty"`

	// Err: the handler returns an error after reading (and writing) what its
	// program says: plain | eof (bare io.EOF) | unexpected-eof | wrapped-eof |
	// canceled | deadline.
	Err string `json:",omitempty"`
}

var errKinds = []string{"plain", "plain", "eof", "eof", "unexpected-eof", "wrapped-eof", "canceled", "deadline"}

// Tag identifies the registration in reports.
func (p Pat) Tag() string {
	return fmt.Sprintf("%s[%s]{%s}%s", p.Kind, p.Type, p.Space, p.Local)
}

func (p Pat) key() patKey {
	return patKey{p.Kind, p.Type, xml.Name{Space: p.Space, Local: p.Local}}
}

type patKey struct {
	Kind, Type string
	Name       xml.Name
}

// El is an incoming element (top-level) or a child.
type El struct {
	Space, Local string
	NoXMLNS      bool   // top-level only: rely on the stream's default namespace
	Type         string // stanzas
	NoType       bool   // omit the type attribute
	ID           string
	To, From     string
	Text         string // character data before the children
	Kids         []*El
	Sep          string // white space written before each child and before the end tag
	Embedded     bool   `json:",omitempty"` // a stanza inside a forwarding wrapper (has its own id and type)

	// Character data of a stanza: Lead right after the start tag, Mid before
	// every later child, Tail before the end tag.
	Lead, Mid, Tail []Chunk `json:",omitempty"`
	// Fill: number of extra white-space-only character data tokens (CDATA
	// sections holding one blank) written before every child and the end tag.
	Fill int `json:",omitempty"`
	// QAttrs: namespace-qualified attributes named like the stanza attributes;
	// they are not the stanza's id, type, to or from.
	QAttrs []QAttr `json:",omitempty"`
}

// Chunk is a piece of character data and the way it is spelled.
type Chunk struct {
	Form string // plain | cdata | ref (numeric character references)
	Text string
}

func (c Chunk) raw() string {
	switch c.Form {
	case "cdata":
		return "<![CDATA[" + c.Text + "]]>"
	case "ref":
		s := ""
		for _, r := range c.Text {
			s += fmt.Sprintf("&#x%X;", r)
		}
		return s
	}
	return esc(c.Text)
}

func chunksRaw(cs []Chunk) string {
	s := ""
	for _, c := range cs {
		s += c.raw()
	}
	return s
}

func chunksText(cs []Chunk) string {
	s := ""
	for _, c := range cs {
		s += c.Text
	}
	return s
}

// xmlSpaceOnly: nothing but the white space of the XML grammar (S).
func xmlSpaceOnly(s string) bool {
	return strings.Trim(s, " \t\r\n") == ""
}

// QAttr is a qualified attribute on a stanza start tag.
type QAttr struct {
	Space, Local, Value string
	First               bool // written before the unqualified attributes
}

// Case is one generated scenario.
type Case struct {
	StreamNS string // content namespace of the stream the elements arrive on
	StanzaNS string // argument of mux.New
	Pats     []Pat
	Els      []*El
	Served   bool // also run through a served session

	// Concurrent: also dispatch the elements on one shared multiplexer from
	// one goroutine each, the handlers meeting at a barrier so that the
	// dispatches overlap.
	Concurrent bool `json:",omitempty"`

	// StageMask != 0: also register the patterns in two steps on one
	// multiplexer (bit k%60 set: pattern k belongs to the second step; bit 61:
	// feed from memory readers), dispatching every element after each step.
	StageMask uint64 `json:",omitempty"`

	EmptyTypePatterns bool `json:",omitempty"` // patterns with the zero stanza type next to explicit ones
}

const nsFwd = "urn:verif:fwd"

// embedded returns the stanzas embedded in forwarding wrappers below e.
func (e *El) embedded() []*El {
	var out []*El
	for _, k := range e.Kids {
		if k.Space == nsFwd && k.Local == "forwarded" {
			for _, g := range k.Kids {
				if g.Embedded {
					out = append(out, g)
				}
			}
		}
	}
	return out
}

// all lists the top-level elements followed by the embedded stanzas; the
// position in the list is the number in the element's id.
func (c *Case) all() []*El {
	out := append([]*El(nil), c.Els...)
	for _, e := range c.Els {
		out = append(out, e.embedded()...)
	}
	return out
}

func (c *Case) hasForward() bool { return len(c.all()) > len(c.Els) }

func esc(s string) string {
	var sb strings.Builder
	xml.EscapeText(&sb, []byte(s))
	return sb.String()
}

// raw renders e as XML text; parentNS is the namespace in scope.
func (e *El) raw(sb *strings.Builder, parentNS string, top bool) {
	sb.WriteString("<" + e.Local)
	if top {
		if !e.NoXMLNS {
			fmt.Fprintf(sb, " xmlns='%s'", esc(e.Space))
		}
	} else if e.Space != parentNS {
		fmt.Fprintf(sb, " xmlns='%s'", esc(e.Space))
	}
	for k, q := range e.QAttrs {
		fmt.Fprintf(sb, " xmlns:q%d='%s'", k, esc(q.Space))
		if q.First {
			fmt.Fprintf(sb, " q%d:%s='%s'", k, q.Local, esc(q.Value))
		}
	}
	if (top || e.Embedded) && isStanzaLocal(e.Local) && !e.NoType {
		fmt.Fprintf(sb, " type='%s'", esc(e.Type))
	}
	if e.ID != "" {
		fmt.Fprintf(sb, " id='%s'", esc(e.ID))
	}
	if e.To != "" {
		fmt.Fprintf(sb, " to='%s'", esc(e.To))
	}
	if e.From != "" {
		fmt.Fprintf(sb, " from='%s'", esc(e.From))
	}
	for k, q := range e.QAttrs {
		if !q.First {
			fmt.Fprintf(sb, " q%d:%s='%s'", k, q.Local, esc(q.Value))
		}
	}
	if len(e.Kids) == 0 && e.Text == "" && len(e.Lead) == 0 {
		sb.WriteString("/>")
		return
	}
	sb.WriteString(">")
	sb.WriteString(esc(e.Text))
	sb.WriteString(chunksRaw(e.Lead))
	fill := strings.Repeat("<![CDATA[ ]]>", e.Fill)
	for i, k := range e.Kids {
		if i > 0 {
			sb.WriteString(chunksRaw(e.Mid))
		}
		sb.WriteString(e.Sep + fill)
		k.raw(sb, e.Space, false)
	}
	if len(e.Kids) > 0 {
		sb.WriteString(e.Sep + fill)
		sb.WriteString(chunksRaw(e.Tail))
	}
	sb.WriteString("</" + e.Local + ">")
}

// Raw is the element as sent.
func (e *El) Raw(streamNS string) string {
	var sb strings.Builder
	e.raw(&sb, streamNS, true)
	return sb.String()
}

func isStanzaLocal(l string) bool { return l == "iq" || l == "message" || l == "presence" }

// ---------------------------------------------------------------------------
// the reference, written from the property statement

// Expect is what the multiplexer must do with one incoming element.
type Expect struct {
	Kind     string   // top | iq | message | presence | other
	Shape    string   // empty | children | top
	Invoke   []ExpInv // handlers, in order
	Fallback bool     // one service-unavailable error reply

	// FallbackOptional: an unhandled IQ without a type attribute; a reply is
	// neither demanded nor forbidden.
	FallbackOptional bool

	// OrWild: a payload-less IQ of type get, set or error is not a legal stanza
	// and the library's own tests pin that the type wildcard is not handed one;
	// the statement does not say which of "type wildcard" and "default" applies,
	// so either is accepted: Invoke/Fallback describe the default, OrWild the
	// alternative.
	OrWild *ExpInv

	// Refused: an IQ whose payload is preceded by (or whose only content is)
	// character data other than XML white space is not a legal IQ; it is not
	// dispatched and nothing is written; an error out of HandleXMPP is accepted.
	Refused bool
}

// ExpInv is one expected handler invocation.
type ExpInv struct {
	Tag   string
	Step  string // exact | local | ns | wild
	Child int    // index of the child element it was chosen for (-1: none)
	Pat   Pat
}

type refMux struct {
	stanzaNS string
	pats     map[patKey]Pat
}

func newRef(c *Case) *refMux {
	r := &refMux{stanzaNS: c.StanzaNS, pats: map[patKey]Pat{}}
	for _, p := range c.Pats {
		r.pats[p.key()] = p
	}
	return r
}

// lookup is the four-step cascade over patterns of one kind and type only.
func (r *refMux) lookup(kind, typ string, name xml.Name, withWild bool) (Pat, string, bool) {
	if name.Local != "" && name.Space != "" {
		if p, ok := r.pats[patKey{kind, typ, name}]; ok {
			return p, "exact", true
		}
	}
	if name.Local != "" {
		if p, ok := r.pats[patKey{kind, typ, xml.Name{Local: name.Local}}]; ok {
			return p, "local", true
		}
	}
	if name.Space != "" {
		if p, ok := r.pats[patKey{kind, typ, xml.Name{Space: name.Space}}]; ok {
			return p, "ns", true
		}
	}
	if withWild {
		if p, ok := r.pats[patKey{kind, typ, xml.Name{}}]; ok {
			return p, "wild", true
		}
	}
	return Pat{}, "", false
}

// msgType is the type a message is of: the attribute, normal when absent.
func effectiveType(e *El) string {
	if e.Local == "message" {
		// RFC 6121 5.2.2 and the documentation of stanza.MessageType: a message
		// without a type, or with a value that is not one of the five defined
		// ones, is a normal message
		if !e.NoType {
			for _, t := range kindTypes["message"] {
				if e.Type == t {
					return t
				}
			}
		}
		return "normal"
	}
	if e.NoType {
		return ""
	}
	return e.Type
}

// unknownMessageTypes are spellings of the type attribute that are not one of
// the five defined message types.
var unknownMessageTypes = []string{"fancy", "CHAT", "Normal", " normal", "chat ", "", "get", "available"}

func (r *refMux) expect(e *El) Expect {
	name := xml.Name{Space: e.Space, Local: e.Local}
	if p, step, ok := r.lookup("top", "", name, false); ok {
		return Expect{Kind: "top", Shape: "top", Invoke: []ExpInv{{p.Tag(), step, -1, p}}}
	}
	if !isStanzaLocal(e.Local) || (r.stanzaNS != "" && e.Space != r.stanzaNS) {
		return Expect{Kind: "other", Shape: "top"}
	}
	typ := effectiveType(e)
	x := Expect{Kind: e.Local, Shape: "children"}
	lead := chunksText(e.Lead)
	if len(e.Kids) == 0 {
		x.Shape = "empty"
		switch {
		case lead == "":
		case xmlSpaceOnly(lead):
			if e.Local != "iq" {
				// content, but no payload: not an empty stanza (its tokens are not
				// just the start and the end element); nothing is due
				x.Shape = "whitespace-only"
				return x
			}
			// for an IQ the white space is formatting: as good as no content
		default:
			x.Shape = "text-only"
			if e.Local == "iq" {
				x.Refused = true
			}
			return x
		}
	} else if e.Local == "iq" && !xmlSpaceOnly(lead) {
		x.Shape = "text-before-payload"
		x.Refused = true
		return x
	}
	switch e.Local {
	case "iq":
		var p Pat
		var step string
		var ok bool
		child := -1
		if len(e.Kids) > 0 {
			k := e.Kids[0]
			child = 0
			p, step, ok = r.lookup("iq", typ, xml.Name{Space: k.Space, Local: k.Local}, true)
		} else {
			p, step, ok = r.lookup("iq", typ, xml.Name{}, true)
			if ok && typ != "result" {
				x.OrWild = &ExpInv{p.Tag(), step, -1, p}
				ok = false
			}
		}
		if ok {
			x.Invoke = []ExpInv{{p.Tag(), step, child, p}}
		} else if typ == "get" || typ == "set" {
			x.Fallback = true
		} else if typ == "" && x.OrWild == nil {
			x.FallbackOptional = true
		}
	default:
		if len(e.Kids) == 0 {
			if p, step, ok := r.lookup(e.Local, typ, xml.Name{}, true); ok {
				x.Invoke = []ExpInv{{p.Tag(), step, -1, p}}
			}
			break
		}
		for i, k := range e.Kids {
			if p, step, ok := r.lookup(e.Local, typ, xml.Name{Space: k.Space, Local: k.Local}, true); ok {
				x.Invoke = append(x.Invoke, ExpInv{p.Tag(), step, i, p})
			}
		}
	}
	return x
}

// ---------------------------------------------------------------------------
// generators

var (
	kindTypes = map[string][]string{
		"iq":       {"get", "set", "result", "error"},
		"message":  {"normal", "chat", "error", "groupchat", "headline"},
		"presence": {"", "error", "probe", "subscribe", "subscribed", "unavailable", "unsubscribe", "unsubscribed"},
	}
	kinds      = []string{"iq", "message", "presence"}
	paySpaces  = []string{"urn:n1", "urn:n2"}
	payLocals  = []string{"a", "b"}
	topSpaces  = []string{"urn:top1", "urn:top2"}
	topLocals  = []string{"t1", "t2"}
	stanzaNSs  = []string{"jabber:client", "jabber:client", "jabber:client", "jabber:server", "jabber:server", ""}
	seps       = []string{"", "", "\n  ", " ", "\t\n"}
	froms      = []string{"", "peer@example.org/r", "example.org", "other@example.com"}
	tos        = []string{"", "me@example.net/lib", "example.net", "x@example.net"}
	readAmount = []int{-1, -1, -1, 0, 0, 1, 2, 3, 4, 5, 7}
)

// patternNames lists the nine names over a 2x2 universe: four exact, two
// local-only, two namespace-only, the bare wildcard.
func patternNames(spaces, locals []string, withBare bool) []xml.Name {
	var out []xml.Name
	for _, s := range spaces {
		for _, l := range locals {
			out = append(out, xml.Name{Space: s, Local: l})
		}
	}
	for _, l := range locals {
		out = append(out, xml.Name{Local: l})
	}
	for _, s := range spaces {
		out = append(out, xml.Name{Space: s})
	}
	if withBare {
		out = append(out, xml.Name{})
	}
	return out
}

// ownNames are the payload pattern names that match a stanza element itself:
// its exact name, its local name only, its content namespace only.
func ownNames(kind, ns string) []xml.Name {
	return []xml.Name{{Space: ns, Local: kind}, {Local: kind}, {Space: ns}}
}

func genPat(r *rand.Rand, kind, typ string, n xml.Name) Pat {
	return Pat{Kind: kind, Type: typ, Space: n.Space, Local: n.Local, Read: readAmount[r.Intn(len(readAmount))], Ack: r.Intn(3) == 0}
}

func genChild(r *rand.Rand, depth int) *El {
	k := &El{Space: paySpaces[r.Intn(2)], Local: payLocals[r.Intn(2)]}
	if r.Intn(12) == 0 {
		k.Space = "urn:n3" // outside every exact and namespace pattern
	}
	if r.Intn(12) == 0 {
		k.Local = "c"
	}
	if r.Intn(14) == 0 {
		k.Space = "" // a payload in no namespace (xmlns=''): only its local name, and the type wildcard, can match it
	}
	if r.Intn(4) == 0 {
		k.Text = []string{"hello", "a<b&c", " ", "é"}[r.Intn(4)]
	}
	if depth < 2 && r.Intn(3) == 0 {
		for i, n := 0, 1+r.Intn(2); i < n; i++ {
			k.Kids = append(k.Kids, genChild(r, depth+1))
		}
	}
	return k
}

// character data alphabet: XML white space, Unicode White_Space that is not
// XML white space, zero-width characters, text
var (
	xmlSpaces     = []string{" ", "\n", "\t", "\r\n", "  \n\t"}
	unicodeSpaces = []string{"\u00a0", "\u0085", "\u2003", "\u3000", "\u2028", "\u1680", "\u00a0\u3000"}
	zeroWidths    = []string{"\u200b", "\u200d", "\u2060"}
	plainTexts    = []string{"hello", "x", "a<b&c", "é"}
)

func genChunks(r *rand.Rand, n int) []Chunk {
	var out []Chunk
	for i := 0; i < n; i++ {
		var t string
		switch r.Intn(8) {
		case 0, 1:
			t = xmlSpaces[r.Intn(len(xmlSpaces))]
		case 2, 3, 4:
			t = unicodeSpaces[r.Intn(len(unicodeSpaces))]
			if r.Intn(3) == 0 {
				t = xmlSpaces[r.Intn(len(xmlSpaces))] + t + xmlSpaces[r.Intn(len(xmlSpaces))]
			}
		case 5:
			t = zeroWidths[r.Intn(len(zeroWidths))]
		default:
			t = plainTexts[r.Intn(len(plainTexts))]
		}
		form := []string{"plain", "plain", "cdata", "ref"}[r.Intn(4)]
		if form == "cdata" && strings.Contains(t, "]]>") {
			form = "plain"
		}
		out = append(out, Chunk{form, t})
	}
	return out
}

func genStanza(r *rand.Rand, kind, typ, ns string, id int) *El {
	e := &El{Space: ns, Local: kind, Type: typ, ID: fmt.Sprintf("e%d", id), Sep: seps[r.Intn(len(seps))]}
	e.From = froms[r.Intn(len(froms))]
	e.To = tos[r.Intn(len(tos))]
	if (kind == "message" && typ == "normal" || kind == "presence" && typ == "") && r.Intn(2) == 0 {
		e.NoType = true
	}
	if (kind == "presence" || kind == "iq") && typ == "" {
		e.NoType = true // type='' is not a legal way to spell available; an untyped IQ
	}
	if kind == "message" && typ == "normal" && !e.NoType && r.Intn(2) == 0 {
		e.Type = unknownMessageTypes[r.Intn(len(unknownMessageTypes))]
	}
	nk := 0
	switch x := r.Intn(10); {
	case x < 2:
		nk = 0
	case x < 6:
		nk = 1
	default:
		nk = 2 + r.Intn(3)
	}
	if kind == "iq" && nk > 1 && r.Intn(3) != 0 {
		nk = 1
	}
	if r.Intn(4) == 0 {
		e.Fill = 1 + r.Intn(3)
	}
	if kind != "iq" && r.Intn(40) == 0 {
		// a large stanza: hundreds of tokens in front of every payload, so that
		// later payloads lie far behind whatever the multiplexer keeps ready
		e.Fill = 300 + r.Intn(1200)
	}
	// character data before, between and after the payloads, and stanzas whose
	// only content is character data
	if r.Intn(5) == 0 {
		if nk == 0 {
			e.Lead = genChunks(r, 1+r.Intn(2))
		} else {
			switch r.Intn(4) {
			case 0:
				e.Lead = genChunks(r, 1+r.Intn(2))
			case 1:
				e.Mid = genChunks(r, 1)
			case 2:
				e.Tail = genChunks(r, 1+r.Intn(2))
			default:
				e.Lead, e.Mid, e.Tail = genChunks(r, 1), genChunks(r, 1), genChunks(r, 1)
			}
		}
	}
	if r.Intn(6) == 0 {
		other := map[string]string{"iq": "set", "message": "headline", "presence": "unavailable"}[kind]
		if other == typ {
			other = "error"
		}
		vals := map[string]string{"type": other, "id": "qualified-id", "to": "q-to@qualified.example/q", "from": "q-from@qualified.example"}
		names := []string{"type", "id", "to", "from"}
		for _, i := range r.Perm(4)[:1+r.Intn(3)] {
			q := QAttr{Space: "urn:verif:q", Local: names[i], Value: vals[names[i]], First: r.Intn(2) == 0}
			if r.Intn(3) == 0 {
				q.Space = ns // qualified by the stanza's own namespace
			}
			e.QAttrs = append(e.QAttrs, q)
		}
	}
	for i := 0; i < nk; i++ {
		k := genChild(r, 0)
		if r.Intn(25) == 0 {
			// a child that has the stanza's own name (a nested stanza)
			k.Space, k.Local = ns, kind
		}
		e.Kids = append(e.Kids, k)
	}
	return e
}

func genCase(r *rand.Rand) *Case {
	c := &Case{StanzaNS: stanzaNSs[r.Intn(len(stanzaNSs))]}
	elemNS := c.StanzaNS
	if elemNS == "" {
		elemNS = []string{"jabber:client", "jabber:server"}[r.Intn(2)]
	}
	c.StreamNS = elemNS
	// one or two focus (kind,type) pairs get dense pattern sets
	type kt struct{ k, t string }
	var focus []kt
	for i, n := 0, 1+r.Intn(2); i < n; i++ {
		k := kinds[r.Intn(3)]
		ts := kindTypes[k]
		f := kt{k, ts[r.Intn(len(ts))]}
		if k == "iq" && r.Intn(6) == 0 {
			f.t = "" // IQs without a type attribute and patterns registered with the zero IQType
		}
		focus = append(focus, f)
	}
	seen := map[patKey]bool{}
	add := func(p Pat) {
		if !seen[p.key()] {
			seen[p.key()] = true
			c.Pats = append(c.Pats, p)
		}
	}
	names := patternNames(paySpaces, payLocals, true)
	for _, f := range focus {
		dens := 1 + r.Intn(4) // of 5
		for _, n := range names {
			if r.Intn(5) < dens {
				add(genPat(r, f.k, f.t, n))
			}
		}
	}
	// payload patterns that carry the stanza's own element name, content
	// namespace or both: an empty stanza must still go to the bare type wildcard
	// only, and children are matched by their own names only
	for _, f := range focus {
		if r.Intn(4) != 0 {
			continue
		}
		own := ownNames(f.k, elemNS)
		for _, i := range r.Perm(len(own))[:1+r.Intn(len(own))] {
			add(genPat(r, f.k, f.t, own[i]))
		}
	}
	// patterns registered with the zero value of the stanza type next to
	// explicit ones for the same payloads: an empty IQ type matches only IQs
	// without a type attribute, an empty message type matches nothing (a
	// message without a type is a normal message)
	if r.Intn(5) == 0 {
		for _, f := range focus {
			if f.k == "presence" {
				continue // the empty presence type is the available presence, a defined type
			}
			other := ""
			if f.t == "" {
				other = "get"
			}
			for _, n := range names {
				if r.Intn(3) == 0 {
					add(genPat(r, f.k, other, n))
					c.EmptyTypePatterns = true
				}
			}
		}
	}
	// noise: the same names under other kinds and types, which must be ignored
	for i, n := 0, r.Intn(6); i < n; i++ {
		k := kinds[r.Intn(3)]
		ts := kindTypes[k]
		add(genPat(r, k, ts[r.Intn(len(ts))], names[r.Intn(len(names))]))
	}
	// top-level names
	tnames := patternNames(topSpaces, topLocals, false)
	for i, n := 0, r.Intn(4); i < n; i++ {
		add(genPat(r, "top", "", tnames[r.Intn(len(tnames))]))
	}
	// namespace-only top-level patterns that are a stanza content namespace
	// (Handle accepts them; it refuses every name whose local part is iq,
	// message or presence): as for any other element they are consulted before
	// the stanza routers, so they take the stanzas of that namespace too
	otherNS := "jabber:server"
	if elemNS == otherNS {
		otherNS = "jabber:client"
	}
	if r.Intn(10) == 0 {
		add(genPat(r, "top", "", xml.Name{Space: elemNS}))
	}
	if r.Intn(20) == 0 {
		add(genPat(r, "top", "", xml.Name{Space: otherNS}))
	}
	// the zero name as a top-level pattern (the idiom for handlers that only
	// contribute features and are never meant to be called): it names the
	// element without namespace and local name, i.e. nothing that can arrive
	if r.Intn(6) == 0 {
		add(genPat(r, "top", "", xml.Name{}))
	}
	// forwarding: a handler that re-dispatches an embedded stanza through the
	// same multiplexer (the way forwarded / carbon-copied stanzas are handled)
	var fwdFocus []kt
	if r.Intn(5) == 0 {
		for _, f := range focus {
			if f.k != "iq" {
				fwdFocus = append(fwdFocus, f)
				add(Pat{Kind: f.k, Type: f.t, Space: nsFwd, Local: "forwarded", Read: -1, Redispatch: true})
			}
		}
	}
	// incoming elements
	for i, n := 0, 1+r.Intn(3); i < n; i++ {
		switch x := r.Intn(20); {
		case x < 13:
			f := focus[r.Intn(len(focus))]
			c.Els = append(c.Els, genStanza(r, f.k, f.t, elemNS, i))
		case x < 16:
			k := kinds[r.Intn(3)]
			ts := kindTypes[k]
			c.Els = append(c.Els, genStanza(r, k, ts[r.Intn(len(ts))], elemNS, i))
		case x < 17:
			// a stanza name in another content namespace
			other := "jabber:server"
			if elemNS == other {
				other = "jabber:client"
			}
			f := focus[r.Intn(len(focus))]
			c.Els = append(c.Els, genStanza(r, f.k, f.t, other, i))
		default:
			e := &El{Space: topSpaces[r.Intn(2)], Local: topLocals[r.Intn(2)], ID: fmt.Sprintf("e%d", i), Sep: seps[r.Intn(len(seps))]}
			if r.Intn(8) == 0 {
				e.Space = "urn:top3"
			} else if r.Intn(8) == 0 {
				e.Space = elemNS // not a stanza, but in the stanza namespace
			}
			if r.Intn(8) == 0 {
				e.Local = "t3"
			}
			for j, m := 0, r.Intn(3); j < m; j++ {
				e.Kids = append(e.Kids, genChild(r, 1))
			}
			c.Els = append(c.Els, e)
		}
	}
	for _, e := range c.Els {
		if e.Space == elemNS && r.Intn(3) == 0 {
			e.NoXMLNS = true
		}
	}
	if len(fwdFocus) > 0 {
		next := len(c.Els)
		for _, e := range c.Els {
			for _, f := range fwdFocus {
				if e.Local != f.k || effectiveType(e) != f.t || e.Space != elemNS || r.Intn(3) == 0 {
					continue
				}
				in := fwdFocus[r.Intn(len(fwdFocus))]
				if r.Intn(4) == 0 {
					in.k = []string{"message", "presence"}[r.Intn(2)]
					in.t = kindTypes[in.k][r.Intn(len(kindTypes[in.k]))]
				}
				emb := genStanza(r, in.k, in.t, elemNS, next)
				emb.Embedded = true
				next++
				w := &El{Space: nsFwd, Local: "forwarded", Kids: []*El{emb}, Sep: e.Sep}
				at := r.Intn(len(e.Kids) + 1)
				e.Kids = append(e.Kids[:at], append([]*El{w}, e.Kids[at:]...)...)
				break
			}
		}
		if c.hasForward() {
			// the inner and outer dispatches share one encoder: keep it silent
			for i := range c.Pats {
				c.Pats[i].Ack = false
			}
		}
	}
	c.Concurrent = !c.hasForward() && r.Intn(8) == 0
	// handler errors: in one case in five a third of the handlers return an
	// error after running their program
	if r.Intn(5) == 0 {
		for i := range c.Pats {
			if !c.Pats[i].Redispatch && r.Intn(3) == 0 {
				c.Pats[i].Err = errKinds[r.Intn(len(errKinds))]
			}
		}
	}
	c.Served = r.Intn(12) == 0
	for _, e := range c.Els {
		if e.Local == "iq" && e.NoType {
			c.Served = false // whether the fallback answers an untyped IQ is left open
		}
		if e.Local == "iq" && !xmlSpaceOnly(chunksText(e.Lead)) {
			c.Served = false // a refused IQ ends a served session
		}
	}
	if r.Intn(6) == 0 {
		c.StageMask = r.Uint64() | 1<<62
	}
	for _, p := range c.Pats {
		if p.Err != "" {
			// a handler error ends a served session; what the session does with
			// it is not this property's business
			c.Served = false
		}
	}
	return c
}
