package c14

import "mellium.im/xmpp/verifharness/core"

func client(pats []Pat, els ...*El) *Case {
	return &Case{StreamNS: "jabber:client", StanzaNS: "jabber:client", Pats: pats, Els: els}
}

// witnesses are pinned minimal scenarios, one per class key seen on the
// pinned tree.
func witnesses() map[string]func(*core.Case) {
	emptyIQ := func(typ string) *El {
		return &El{Space: "jabber:client", Local: "iq", Type: typ, ID: "e0", From: "peer@example.org/r"}
	}
	w := map[string]func(*core.Case){
		// <iq type='get' id='e0'/> with nothing registered: no service-unavailable
		// reply, HandleXMPP returns io.EOF (which Serve takes for the end of input).
		"mux:iq:empty:fallback→eof": func(c *core.Case) {
			cs := client(nil, emptyIQ("get"))
			cs.Served = true
			runCase(c, cs, nil)
		},
		// <iq type='error' id='e0'/>: nothing is due, but io.EOF is returned
		"mux:iq:empty:none→eof": func(c *core.Case) {
			runCase(c, client(nil, emptyIQ("error")), nil)
		},
	}
	for _, k := range []string{"iq", "message", "presence", "top"} {
		g := Reg{Kind: k, Type: map[string]string{"iq": "get", "message": "chat", "presence": "subscribe"}[k], Space: "urn:n1", Local: "a", Mode: "nilfunc"}
		w["mux:register:nilfunc:"+k+":accepted"] = func(c *core.Case) {
			c.Sample(g)
			runRegistration(c, g)
		}
	}
	return w
}
