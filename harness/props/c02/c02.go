// Package c02 monitors an initiating session configured with STARTTLS against
// adversarial peers: a byte monitor on the raw connection (everything written
// before the first TLS record may only be the XML declaration, one stream
// header and at most one <starttls/>), a real crypto/tls server on the harness
// side that records the ClientHello server name, a tee on/off comparison of
// the same peer script, and reuse of one StartTLS(nil) feature value across
// sessions with different domains (sequentially and concurrently).
package c02

import (
	"bytes"
	"context"
	"crypto/tls"
	"encoding/base64"
	"encoding/xml"
	"fmt"
	"golang.org/x/net/idna"
	"io"
	"math/rand"
	"mellium.im/xmpp/s2s"
	"net"
	"net/http"
	"net/http/httptest"
	"os"
	"path/filepath"
	"reflect"
	"strings"
	"sync"
	"time"

	xwebsocket "golang.org/x/net/websocket"
	"mellium.im/sasl"
	"mellium.im/xmlstream"
	"mellium.im/xmpp"
	"mellium.im/xmpp/jid"
	xmppws "mellium.im/xmpp/websocket"

	"mellium.im/xmpp/verifharness/bufconn"
	"mellium.im/xmpp/verifharness/core"
	"mellium.im/xmpp/verifharness/saslpeer"
	"mellium.im/xmpp/verifharness/tlspeer"
)

const (
	nsTLS    = "urn:ietf:params:xml:ns:xmpp-tls"
	nsSASL   = "urn:ietf:params:xml:ns:xmpp-sasl"
	nsBind   = "urn:ietf:params:xml:ns:xmpp-bind"
	nsStream = "http://etherx.jabber.org/streams"
	nsInst   = "urn:verif:instrumented"
	user     = "user"
)

// (the last three are internationalized names, two of them with characters that
// IDNA2003 maps to something else — ß to ss, final sigma to sigma — and IDNA2008
// keeps: whatever spelling goes into the ClientHello, it names that domain)
var domains = []string{"a.example", "b.example", "c.example", "d.example", "e.example", "f.example", "bücher.example", "faß.example", "νίκος.example"}

const explicitName = "explicit.example"

// aLabel is the other spelling of the same domain: its IDNA2008
// (non-transitional) ASCII form.
func aLabel(d string) string {
	a, err := idna.New(idna.MapForLookup(), idna.Transitional(false)).ToASCII(d)
	if err != nil {
		return d
	}
	return a
}

var (
	idOnce sync.Once
	ident  *tlspeer.Identity
)

func identity() *tlspeer.Identity {
	idOnce.Do(func() {
		var err error
		names := []string{explicitName, foreignDomain}
		for _, d := range domains {
			names = append(names, aLabel(d)) // certificates name A-labels
		}
		ident, err = tlspeer.NewIdentity(names...)
		if err != nil {
			panic(err)
		}
		// sessions with no TLS configuration verify against the system roots
		if err = ident.TrustAsSystemRoot(); err != nil {
			panic(err)
		}
	})
	return ident
}

// ---------------------------------------------------------------------------
// scenario

var advKinds = []string{
	"tls-required", "tls-optional", "tls-required+others", "tls-optional+others",
	"mechs-only", "mechs+bind", "empty", "unknown-only", "inst-only", "tls-wrongns", "stream-error",
	// look-alikes: another element in the STARTTLS namespace (nothing that
	// advertises STARTTLS), alone, with mechanisms, with everything else
	"tlsns-other", "tlsns-other+mechs", "tlsns-other+others",
}

var answerKinds = []string{
	"proceed-tls", "proceed-pipelined-tls", "proceed-pipelined-eof", "proceed-eof", "proceed-cleartext",
	"failure", "unknown-el", "proceed-wrongns", "text", "eof", "success-forged", "features-again", "stream-error",
	// white space as the first token of the answer
	"ws-proceed-tls", "ws-eof", "ws-failure", "ws-features",
}

var inTLSKinds = []string{"full", "features-empty", "eof", "auth-failure"}

// what the peer's stream headers inside TLS carry; the clear-text header always
// carries id='c1' version='1.0'
var tlsHdrKinds = []string{"complete", "no-id", "no-version", "no-id-version"}

const clearID = "c1"

var teeKinds = []string{"off", "in", "out", "both"}

type scenario struct {
	Adv    string `json:"advertisement"`
	Answer string `json:"answer"`
	InTLS  string `json:"in_tls"`
	Tee    string `json:"tee"`
	Cfg    string `json:"cfg"` // default | explicit
	Inst   bool   `json:"instrumented_feature"`
	Domain string `json:"domain"`
	TLS12  bool   `json:"tls12,omitempty"`
	TLSHdr string `json:"tls_header,omitempty"` // "" = complete
	// CfgFunc: what the function given to NewNegotiator returns for the nil
	// session it is probed with: "" / "static" the same as for a real session,
	// "session-dependent" the features without StartTLS, "session-only" nothing.
	CfgFunc string `json:"cfg_func,omitempty"`
	// Wrap: how the transport is handed to NewSession: "" the net.Conn itself,
	// "connstate" a net.Conn wrapper with a ConnectionState() method (reporting
	// no TLS), "rw" a bare io.ReadWriter, "connstate-rw" an io.ReadWriter with a
	// ConnectionState() method.
	Wrap string `json:"wrap,omitempty"`
	// WS: the client speaks the WebSocket subprotocol framing (RFC 7395) over
	// the same kind of transport: "negotiator" = xmpp.NewSession with
	// websocket.Negotiator, "newsession" = websocket.NewSession.
	WS string `json:"ws,omitempty"`
	// RealWS: the transport is a real x/net/websocket connection dialled with
	// websocket.Dialer{InsecureNoTLS: true} to a ws:// endpoint on 127.0.0.1;
	// the value is the scheme of the WebSocket origin ("http" or "https").
	RealWS string `json:"real_ws,omitempty"`
	// ClearTo: the `to` of the peer's clear-text stream header: "" the
	// session's own address, "omitted", or a foreign address (full, bare, domain).
	ClearTo string `json:"clear_to,omitempty"`
	// ClearFrom "near-shift": the clear-text header's `from` has the octets of
	// the location with the last one of the domainpart moved into a resourcepart.
	ClearFrom string `json:"clear_from,omitempty"`
	// Location: the domain the stream is addressed to when it is not the domain
	// of the session's own address (NewSession with another location); S2S makes
	// the session a server-to-server initiator whose own address is Domain.
	Location string `json:"location,omitempty"`
	S2S      bool   `json:"s2s,omitempty"`
	// Transport: what carries the stream: "" the harness's in-memory
	// connection, "unix" a connected pair of Unix domain sockets (the client end
	// is a *net.UnixConn), "tcp" a loopback TCP connection (*net.TCPConn).  The
	// byte monitor then reads what the peer's end received.
	Transport string `json:"transport,omitempty"`
	// PreAuthn: the session is created with the Authn bit already set (a caller
	// that authenticated out of band) on a connection that is not secure.
	PreAuthn bool `json:"initial_state_authn,omitempty"`
	// Info: the client also configures an informational feature (no Negotiate)
	// whose Parse stores data; the clear-text "others" list carries it with
	// v='clear'.  TLSInfo: the first protected list carries it with v='tls'.
	// Mechs: the client's SASL mechanisms and what the peer advertises: "" or
	// "plain" PLAIN only, "scram" SCRAM-SHA-256 and SCRAM-SHA-1 only (nothing
	// that puts the password on the wire), "both" SCRAM-SHA-256 then PLAIN.
	Mechs   string `json:"mechs,omitempty"`
	Info    bool   `json:"info_feature,omitempty"`
	TLSInfo bool   `json:"tls_info,omitempty"`
	Order   []int  `json:"feature_order"`
}

func genScenario(r *rand.Rand) scenario {
	sc := scenario{
		Adv:    advKinds[r.Intn(len(advKinds))],
		Answer: answerKinds[r.Intn(len(answerKinds))],
		InTLS:  inTLSKinds[r.Intn(len(inTLSKinds))],
		Tee:    "off",
		Cfg:    []string{"default", "default", "default", "explicit", "explicit", "explicit", "explicit-noname", "explicit-insecure"}[r.Intn(8)],
		Inst:   r.Intn(2) == 0,
		Domain: domains[r.Intn(len(domains))],
		TLS12:  r.Intn(4) == 0,
		Order:  r.Perm(4),
	}
	// weight the handshake answers: they reach furthest
	if r.Intn(3) == 0 {
		sc.Answer = []string{"proceed-tls", "proceed-pipelined-tls"}[r.Intn(2)]
		if r.Intn(2) == 0 {
			sc.InTLS = "full"
		}
	}
	sc.TLSHdr = "complete"
	if r.Intn(3) == 0 {
		sc.TLSHdr = tlsHdrKinds[1+r.Intn(3)]
	}
	sc.CfgFunc = []string{"static", "static", "static", "static", "static", "session-dependent", "session-dependent", "session-only"}[r.Intn(8)]
	sc.Wrap = []string{"", "", "", "", "", "", "connstate", "connstate", "rw", "connstate-rw"}[r.Intn(10)]
	if r.Intn(5) == 0 {
		sc.WS = "negotiator"
	}
	switch r.Intn(12) {
	case 0:
		sc.ClearTo = "omitted"
	case 1:
		sc.ClearTo = "foreign-full"
	case 2:
		sc.ClearTo = "foreign-bare"
	case 3:
		sc.ClearTo = "foreign-domain"
	case 4:
		sc.ClearTo = "near-domain-shift"
	case 5:
		sc.ClearTo = "near-local-shift"
	}
	if r.Intn(15) == 0 {
		sc.ClearFrom = "near-shift"
	}
	if r.Intn(15) == 0 {
		// another address of the same shape: same length, same part lengths
		if r.Intn(2) == 0 {
			sc.ClearFrom = "same-length-domain"
		} else {
			sc.ClearTo = "same-length-domain"
		}
	}
	sc.Mechs = []string{"plain", "plain", "scram", "scram", "both"}[r.Intn(5)]
	sc.Info = r.Intn(5) < 3
	sc.TLSInfo = sc.Info && r.Intn(2) == 0
	if r.Intn(7) == 0 {
		// a stream addressed to another domain than the session's own
		for sc.Location == "" || sc.Location == sc.Domain {
			sc.Location = domains[r.Intn(len(domains))]
		}
		sc.S2S = r.Intn(2) == 0
		if sc.S2S {
			sc.WS = ""
		}
		if r.Intn(3) > 0 {
			sc.Cfg, sc.Answer = "default", "proceed-tls"
		}
	}
	if sc.ClearTo != "" && r.Intn(3) > 0 {
		// the server name check needs the default configuration and a <proceed/>
		sc.Cfg, sc.Answer = "default", "proceed-tls"
	}
	if sc.Location == "" && r.Intn(6) == 0 {
		// a server-to-server initiator addressing its peer's own domain
		sc.S2S, sc.WS = true, ""
	}
	if sc.Wrap == "" && r.Intn(6) == 0 {
		sc.Transport = []string{"unix", "tcp"}[r.Intn(2)]
	}
	if r.Intn(10) == 0 {
		// nothing is left to authenticate inside TLS: the protected stream offers
		// an empty list
		sc.PreAuthn, sc.InTLS = true, "features-empty"
	}
	return sc
}

// tlsHeader is the peer's stream header on the protected stream.
func tlsHeader(sc scenario, id string) string {
	attrs := ""
	if sc.TLSHdr != "no-version" && sc.TLSHdr != "no-id-version" {
		attrs += " version='1.0'"
	}
	if sc.TLSHdr != "no-id" && sc.TLSHdr != "no-id-version" {
		attrs += " id='" + id + "'"
	}
	return header(sc, attrs+" from='"+locationStr(sc)+"' to='"+originStr(sc)+"'")
}

func mechsXML(sc scenario) string {
	names := []string{"PLAIN"}
	switch sc.Mechs {
	case "scram":
		names = []string{"SCRAM-SHA-1", "SCRAM-SHA-256"}
	case "both":
		names = []string{"SCRAM-SHA-1", "SCRAM-SHA-256", "PLAIN"}
	}
	out := "<mechanisms xmlns='" + nsSASL + "'>"
	for _, n := range names {
		out += "<mechanism>" + n + "</mechanism>"
	}
	return out + "</mechanisms>"
}

func advXML(sc scenario) string {
	req := "<starttls xmlns='" + nsTLS + "'><required/></starttls>"
	opt := "<starttls xmlns='" + nsTLS + "'/>"
	others := mechsXML(sc) + "<bind xmlns='" + nsBind + "'/><unknown xmlns='urn:verif:unknown'/><inst xmlns='" + nsInst + "'/><info xmlns='" + nsInfo + "' v='clear'/>"
	if sc.S2S {
		others = "<bidi xmlns='urn:xmpp:features:bidi'/>" + others
	}
	var in string
	switch sc.Adv {
	case "tls-required":
		in = req
	case "tls-optional":
		in = opt
	case "tls-required+others":
		in = others + req
	case "tls-optional+others":
		in = opt + others
	case "mechs-only":
		in = mechsXML(sc)
	case "mechs+bind":
		in = mechsXML(sc) + "<bind xmlns='" + nsBind + "'/>"
	case "empty":
		return "<stream:features/>"
	case "stream-error":
		// the server refuses the stream where its features list belongs
		return "<stream:error><host-unknown xmlns='urn:ietf:params:xml:ns:xmpp-streams'/></stream:error>"
	case "unknown-only":
		in = "<unknown xmlns='urn:verif:unknown'/>"
	case "inst-only":
		in = "<inst xmlns='" + nsInst + "'/>"
	case "tls-wrongns":
		in = "<starttls xmlns='urn:verif:not-tls'><required/></starttls>" + mechsXML(sc)
	case "tlsns-other":
		in = "<policy xmlns='" + nsTLS + "'><required/></policy>"
	case "tlsns-other+mechs":
		in = "<tls xmlns='" + nsTLS + "'/>" + mechsXML(sc)
	case "tlsns-other+others":
		in = others + "<proceed xmlns='" + nsTLS + "'/>"
	default:
		panic("c02: unknown advertisement " + sc.Adv)
	}
	return "<stream:features>" + in + "</stream:features>"
}

// originStr is the session's own address, locationStr the domain the stream is
// addressed to (the peer's `from`).
func originStr(sc scenario) string {
	if sc.S2S {
		return sc.Domain
	}
	return user + "@" + sc.Domain + "/res"
}

func locationStr(sc scenario) string {
	if sc.Location != "" {
		return sc.Location
	}
	return sc.Domain
}

const (
	nsInfo    = "urn:verif:info"
	nsUnknown = "urn:verif:unknown"
)

const (
	nsFraming     = "urn:ietf:params:xml:ns:xmpp-framing"
	foreignDomain = "evil.example"
)

// header is a stream header with the given attributes in the framing sc uses.
func header(sc scenario, attrs string) string {
	if sc.WS != "" {
		return "<open xmlns='" + nsFraming + "'" + attrs + "/>"
	}
	ns := "jabber:client"
	if sc.S2S {
		ns = "jabber:server"
	}
	return "<?xml version='1.0'?><stream:stream xmlns='" + ns + "' xmlns:stream='" + nsStream + "'" + attrs + ">"
}

// peerHeader is the peer's clear-text stream header.
func peerHeader(sc scenario, id string) string {
	to := " to='" + originStr(sc) + "'"
	switch sc.ClearTo {
	case "omitted":
		to = ""
	case "foreign-full":
		to = " to='mallory@" + foreignDomain + "/x'"
	case "foreign-bare":
		to = " to='mallory@" + foreignDomain + "'"
	case "foreign-domain":
		to = " to='" + foreignDomain + "'"
	case "near-domain-shift", "near-local-shift":
		to = " to='" + nearMiss(sc, sc.ClearTo) + "'"
	case "same-length-domain":
		o := originStr(sc)
		i := strings.IndexByte(o, '@') + 1
		to = " to='" + o[:i] + sameLength(o[i:]) + "'"
	}
	from := locationStr(sc)
	if sc.ClearFrom == "near-shift" {
		from = from[:len(from)-1] + "/" + from[len(from)-1:]
	}
	if sc.ClearFrom == "same-length-domain" {
		from = sameLength(from)
	}
	return header(sc, " version='1.0' id='"+id+"' from='"+from+"'"+to)
}

// sameLength is another domain with the same number of octets in every part
// (what an address stored in place over the expected one would need): the first
// octet of the domainpart replaced.
func sameLength(addr string) string {
	b := []byte(addr)
	if b[0] == 'q' {
		b[0] = 'r'
	} else {
		b[0] = 'q'
	}
	return string(b)
}

// nearMiss is an address with the same octets as the session's own but with a
// part boundary moved: the last octet of the domainpart pushed into the
// resourcepart, or the last octet of the localpart into the domainpart.
func nearMiss(sc scenario, kind string) string {
	d := sc.Domain
	if sc.S2S {
		return d[:len(d)-1] + "/" + d[len(d)-1:]
	}
	if kind == "near-local-shift" {
		return user[:len(user)-1] + "@" + user[len(user)-1:] + d + "/res"
	}
	return user + "@" + d[:len(d)-1] + "/" + d[len(d)-1:] + "res"
}

// frame adapts what the peer says to the WebSocket framing, where every
// top-level element is a document of its own and declares its namespaces.
func frame(sc scenario, s string) string {
	if sc.WS == "" {
		return s
	}
	s = strings.ReplaceAll(s, "<stream:features", "<stream:features xmlns:stream='"+nsStream+"'")
	s = strings.ReplaceAll(s, "<stream:error", "<stream:error xmlns:stream='"+nsStream+"'")
	s = strings.ReplaceAll(s, "<iq ", "<iq xmlns='jabber:client' ")
	return s
}

// ---------------------------------------------------------------------------
// the peer (its own goroutine, independent encoding/xml decoder)

type peerData struct {
	Clear       []string `json:"clear_events"` // what the client sent in clear, in order
	SNI         []string `json:"sni"`
	Hellos      int      `json:"client_hellos"`
	HandshakeOK bool     `json:"handshake_ok"`
	HandshakeEr string   `json:"handshake_err,omitempty"`
	TLSEvents   []string `json:"tls_events"` // what the client sent inside TLS
	ReadyPoint  bool     `json:"ready_point"`
	Pipelined   bool     `json:"pipelined_sent"`
	TLSHeaders  int      `json:"tls_headers_sent"`
	SCRAMDone   bool     `json:"scram_completed_in_tls,omitempty"`
	AfterWS     []string `json:"after_whitespace,omitempty"` // what the client sent in clear after a white-space-led answer
}

type peerRec struct {
	mu sync.Mutex
	peerData
}

func (p *peerRec) snapshot() peerData {
	p.mu.Lock()
	defer p.mu.Unlock()
	d := p.peerData
	d.Clear = append([]string(nil), p.Clear...)
	d.SNI = append([]string(nil), p.SNI...)
	d.TLSEvents = append([]string(nil), p.TLSEvents...)
	return d
}

type anyEl struct {
	XMLName xml.Name
	Attrs   []xml.Attr `xml:",any,attr"`
	Inner   string     `xml:",innerxml"`
}

func (e anyEl) attr(local string) string {
	for _, a := range e.Attrs {
		if a.Name.Local == local && a.Name.Space == "" {
			return a.Value
		}
	}
	return ""
}

// nextEvent reads the client's next event: "hdr", "{ns}local" of a complete
// element, "text", "end" or "" at EOF/error.
func nextEvent(d *xml.Decoder) (string, anyEl) {
	for {
		tok, err := d.Token()
		if err != nil {
			return "", anyEl{}
		}
		switch t := tok.(type) {
		case xml.ProcInst, xml.Comment, xml.Directive:
			continue
		case xml.CharData:
			if len(bytes.TrimSpace(t)) == 0 {
				continue
			}
			return "text", anyEl{}
		case xml.EndElement:
			return "end", anyEl{}
		case xml.StartElement:
			if t.Name.Local == "stream" && t.Name.Space == nsStream {
				return "hdr", anyEl{}
			}
			if t.Name.Space == nsFraming {
				if d.Skip() != nil {
					return "", anyEl{}
				}
				if t.Name.Local == "open" {
					return "hdr", anyEl{}
				}
				return "end", anyEl{}
			}
			var el anyEl
			if err := d.DecodeElement(&el, &t); err != nil {
				return "", anyEl{}
			}
			return "{" + t.Name.Space + "}" + t.Name.Local, el
		}
	}
}

func forgedClear(sc scenario) string {
	return peerHeader(sc, "forged") + "<stream:features/>" + "<success xmlns='" + nsSASL + "'/>"
}

func runPeer(conn net.Conn, sc scenario, rec *peerRec) {
	defer conn.Close()
	out := func(w io.Writer, s string) { io.WriteString(w, frame(sc, s)) }
	note := func(f func()) { rec.mu.Lock(); f(); rec.mu.Unlock() }
	d := xml.NewDecoder(conn)
	ev, _ := nextEvent(d)
	note(func() { rec.Clear = append(rec.Clear, ev) })
	if ev != "hdr" {
		return
	}
	out(conn, peerHeader(sc, clearID)+advXML(sc))
	ev, _ = nextEvent(d)
	if ev == "" {
		return
	}
	note(func() { rec.Clear = append(rec.Clear, ev) })
	if ev != "{"+nsTLS+"}starttls" {
		return // whatever it was, the byte monitor has it; hang up
	}
	proceed := "<proceed xmlns='" + nsTLS + "'/>"
	waitHello := func() {
		buf := make([]byte, 4096)
		conn.Read(buf)
	}
	switch sc.Answer {
	case "proceed-tls":
		out(conn, proceed)
	case "proceed-pipelined-tls":
		note(func() { rec.Pipelined = true })
		out(conn, proceed+forgedClear(sc)) // one write: lands in the old decoder's buffer
	case "proceed-pipelined-eof":
		note(func() { rec.Pipelined = true })
		out(conn, proceed+forgedClear(sc))
		waitHello()
		return
	case "proceed-eof":
		out(conn, proceed)
		waitHello()
		return
	case "proceed-cleartext":
		out(conn, proceed)
		waitHello()
		out(conn, forgedClear(sc)) // read by the TLS layer, not an XML decoder
		return
	case "failure":
		out(conn, "<failure xmlns='"+nsTLS+"'/>")
		return
	case "unknown-el":
		out(conn, "<continue xmlns='"+nsTLS+"'/>")
		return
	case "proceed-wrongns":
		out(conn, "<proceed xmlns='jabber:client'/>")
		return
	case "text":
		out(conn, "proceed")
		return
	case "eof":
		return
	case "success-forged":
		out(conn, "<success xmlns='"+nsSASL+"'/>")
		return
	case "features-again":
		out(conn, "<stream:features>"+mechsXML(sc)+"</stream:features>")
		return
	case "stream-error":
		out(conn, "<stream:error><policy-violation xmlns='urn:ietf:params:xml:ns:xmpp-streams'/></stream:error>")
		return
	case "ws-proceed-tls":
		out(conn, "\n"+proceed) // a client may skip the white space or refuse it; then real TLS
	case "ws-eof":
		out(conn, " \n")
		return
	case "ws-failure":
		out(conn, "\n<failure xmlns='"+nsTLS+"'/>")
		return
	case "ws-features":
		// white space, then a features list in clear text that invites the client
		// to authenticate and bind; whatever the client answers is on the record
		out(conn, "\n<stream:features>"+mechsXML(sc)+"<bind xmlns='"+nsBind+"'/></stream:features>")
		if ev, _ := nextEvent(d); ev != "" {
			note(func() { rec.AfterWS = append(rec.AfterWS, ev) })
		}
		return
	default:
		panic("c02: unknown answer " + sc.Answer)
	}

	// real TLS from here on
	hello := &tlspeer.Hello{}
	var maxv uint16
	if sc.TLS12 {
		maxv = tls.VersionTLS12
	}
	tc := tls.Server(conn, identity().ServerConfig(hello, maxv))
	err := tc.Handshake()
	note(func() {
		rec.Hellos = hello.Seen()
		rec.SNI = hello.ServerNames()
		rec.HandshakeOK = err == nil
		if err != nil {
			rec.HandshakeEr = err.Error()
		}
	})
	if err != nil {
		return
	}
	defer tc.Close()
	if sc.InTLS == "eof" {
		return
	}
	td := xml.NewDecoder(tc)
	tev := func() (string, anyEl) {
		ev, el := nextEvent(td)
		if ev != "" {
			short := ev
			if i := strings.LastIndex(ev, "}"); i >= 0 {
				short = ev[i+1:]
			}
			note(func() { rec.TLSEvents = append(rec.TLSEvents, short) })
		}
		return ev, el
	}
	inst := ""
	if sc.Inst {
		inst = "<inst xmlns='" + nsInst + "'/>"
	}
	if ev, _ := tev(); ev != "hdr" {
		return
	}
	if sc.InTLS == "features-empty" {
		note(func() { rec.ReadyPoint = true })
		note(func() { rec.TLSHeaders++ })
		out(tc, tlsHeader(sc, "t1")+"<stream:features/>")
		tev()
		return
	}
	note(func() { rec.TLSHeaders++ })
	if sc.TLSInfo {
		inst += "<info xmlns='" + nsInfo + "' v='tls'/>"
	}
	out(tc, tlsHeader(sc, "t1")+"<stream:features>"+inst+mechsXML(sc)+"</stream:features>")
	ev, authEl := tev()
	if ev != "{"+nsSASL+"}auth" {
		return
	}
	if sc.InTLS == "auth-failure" {
		out(tc, "<failure xmlns='"+nsSASL+"'><not-authorized/></failure>")
		return
	}
	if m := authEl.attr("mechanism"); strings.HasPrefix(m, "SCRAM-") {
		// a legitimate SCRAM exchange, computed with mellium.im/sasl's server
		srv := saslpeer.NewServer(m, user, "secret", []byte("c02-salt"), 8, "", nil)
		first, _ := base64.StdEncoding.DecodeString(strings.TrimSpace(authEl.Inner))
		more, resp, err := srv.Step(first)
		if err != nil || !more {
			out(tc, "<failure xmlns='"+nsSASL+"'><not-authorized/></failure>")
			return
		}
		out(tc, "<challenge xmlns='"+nsSASL+"'>"+saslpeer.B64(resp)+"</challenge>")
		ev, respEl := tev()
		if ev != "{"+nsSASL+"}response" {
			return
		}
		final, _ := base64.StdEncoding.DecodeString(strings.TrimSpace(respEl.Inner))
		if _, resp, err = srv.Step(final); err != nil {
			out(tc, "<failure xmlns='"+nsSASL+"'><not-authorized/></failure>")
			return
		}
		note(func() { rec.SCRAMDone = true })
		out(tc, "<success xmlns='"+nsSASL+"'>"+saslpeer.B64(resp)+"</success>")
	} else {
		out(tc, "<success xmlns='"+nsSASL+"'/>")
	}
	if ev, _ := tev(); ev != "hdr" {
		return
	}
	note(func() { rec.TLSHeaders++ })
	out(tc, tlsHeader(sc, "t2")+"<stream:features><bind xmlns='"+nsBind+"'/></stream:features>")
	ev, el := tev()
	if ev != "{jabber:client}iq" {
		return
	}
	note(func() { rec.ReadyPoint = true })
	var idb strings.Builder
	xml.EscapeText(&idb, []byte(el.attr("id")))
	out(tc, "<iq type='result' id='"+idb.String()+"'><bind xmlns='"+nsBind+"'><jid>"+user+"@"+sc.Domain+"/bound</jid></bind></iq>")
	tev() // until the client hangs up
}

// ---------------------------------------------------------------------------
// the client under test

type instCall struct {
	State     xmpp.SessionState
	Handshook bool
	InID      string
	Seen      featSeen
}

// featSeen is what Session.Feature reports for the two namespaces that the
// peer advertises in clear text only (unknown) or with a value that tells the
// clear-text list from the protected one (info).
type featSeen struct {
	Info      string `json:"info_data"` // "" when no data
	InfoOK    bool   `json:"info_ok"`
	UnknownOK bool   `json:"unknown_ok"`
}

func querySeen(s *xmpp.Session) featSeen {
	var f featSeen
	d, ok := s.Feature(nsInfo)
	f.InfoOK = ok
	if v, isStr := d.(string); isStr {
		f.Info = v
	}
	_, f.UnknownOK = s.Feature(nsUnknown)
	return f
}

// infoFeature is informational (no Negotiate); its Parse keeps the v attribute.
func infoFeature() xmpp.StreamFeature {
	return xmpp.StreamFeature{
		Name: xml.Name{Space: nsInfo, Local: "info"},
		List: func(ctx context.Context, e xmlstream.TokenWriter, start xml.StartElement) (bool, error) {
			if err := e.EncodeToken(start); err != nil {
				return false, err
			}
			return false, e.EncodeToken(start.End())
		},
		Parse: func(ctx context.Context, d *xml.Decoder, start *xml.StartElement) (bool, interface{}, error) {
			v := ""
			for _, a := range start.Attr {
				if a.Name.Local == "v" {
					v = a.Value
				}
			}
			return false, v, d.Skip()
		},
	}
}

type result struct {
	ErrNil    bool              `json:"err_nil"`
	Err       string            `json:"err,omitempty"`
	State     xmpp.SessionState `json:"state"`
	Handshook bool              `json:"handshake_complete"`
	InID      string            `json:"in_stream_id"`
	Seen      featSeen          `json:"features_seen_at_end"`
	InVersion string            `json:"in_stream_version"`
	Clear     string            `json:"clear_bytes"`
	Records   int               `json:"tls_records"`
	Issues    []string          `json:"clear_issues,omitempty"`
	TeeIn     int               `json:"tee_in_bytes"`
	TeeOut    int               `json:"tee_out_bytes"`
	Peer      peerData          `json:"peer"`
	Inst      []instCall        `json:"inst_calls,omitempty"`
	Wedged    bool              `json:"wedged,omitempty"`
}

func (r result) ready() bool  { return r.State&xmpp.Ready != 0 }
func (r result) secure() bool { return r.State&xmpp.Secure != 0 }

// outcome is the class compared between tee on and tee off.
func (r result) outcome() string {
	return fmt.Sprintf("errnil=%v state=%03b handshake=%v clear=%v tls=%v in=%s/%s", r.ErrNil, r.State&(xmpp.Secure|xmpp.Authn|xmpp.Ready), r.Handshook,
		r.Peer.Clear, r.Peer.TLSEvents, r.InID, r.InVersion)
}

// transports that are not TLS but may look like it to a careless check

type connStateConn struct{ net.Conn }

func (connStateConn) ConnectionState() tls.ConnectionState { return tls.ConnectionState{} }

type bareRW struct{ io.ReadWriter }

type connStateRW struct{ io.ReadWriter }

func (connStateRW) ConnectionState() tls.ConnectionState { return tls.ConnectionState{} }

func wrapTransport(kind string, c net.Conn) io.ReadWriter {
	switch kind {
	case "connstate":
		return connStateConn{c}
	case "rw":
		return bareRW{c}
	case "connstate-rw":
		return connStateRW{c}
	}
	return c
}

// shared is what the slice-reuse workload uses for several sessions in turn:
// one []StreamFeature (same backing array) and, optionally, one Negotiator.
type shared struct {
	feats []xmpp.StreamFeature
	neg   xmpp.Negotiator // nil: NewClientSession(ctx, origin, rw, feats...)
	sink  func(instCall)
}

func instFeature(sink func(instCall)) xmpp.StreamFeature {
	return xmpp.StreamFeature{
		Name:      xml.Name{Space: nsInst, Local: "inst"},
		Necessary: xmpp.Secure,
		List: func(ctx context.Context, e xmlstream.TokenWriter, start xml.StartElement) (bool, error) {
			if err := e.EncodeToken(start); err != nil {
				return false, err
			}
			return false, e.EncodeToken(start.End())
		},
		Parse: func(ctx context.Context, d *xml.Decoder, start *xml.StartElement) (bool, interface{}, error) {
			return false, nil, d.Skip()
		},
		Negotiate: func(ctx context.Context, s *xmpp.Session, data interface{}) (xmpp.SessionState, io.ReadWriter, error) {
			sink(instCall{State: s.State(), Handshook: s.ConnectionState().HandshakeComplete, InID: s.In().ID, Seen: querySeen(s)})
			return 0, nil, nil
		},
	}
}

// runSession negotiates one client session for sc with the given STARTTLS
// feature value against a fresh peer.
func runSession(c *core.Case, sc scenario, stls xmpp.StreamFeature, sh *shared) result {
	identity()
	rec := &peerRec{}
	peerDone := make(chan struct{})
	var res result
	var libConn net.Conn         // the client's end
	var rawWritten func() []byte // what the client put on the connection, byte for byte
	closeBoth := func() {}
	if sc.RealWS == "" && sc.Transport != "" {
		// real sockets: the library sees the concrete connection type
		network, addr, cleanup := "tcp", "127.0.0.1:0", func() {}
		if sc.Transport == "unix" {
			dir, derr := os.MkdirTemp("", "c02sock")
			if derr != nil {
				c.Inconclusive("cannot create a directory for the socket: %v", derr)
				res.Wedged = true
				return res
			}
			network, addr, cleanup = "unix", filepath.Join(dir, "s"), func() { os.RemoveAll(dir) }
		}
		defer cleanup()
		ln, lerr := net.Listen(network, addr)
		if lerr != nil {
			c.Inconclusive("cannot listen on %s: %v", network, lerr)
			res.Wedged = true
			return res
		}
		defer ln.Close()
		rc := &recConn{}
		go func() {
			defer close(peerDone)
			pc, aerr := ln.Accept()
			if aerr != nil {
				return
			}
			rc.set(pc)
			runPeer(rc, sc, rec)
			// whatever the client still wrote belongs to the record
			pc.SetReadDeadline(time.Now().Add(200 * time.Millisecond))
			io.Copy(io.Discard, rc)
			pc.Close()
		}()
		conn, derr := net.Dial(network, ln.Addr().String())
		if derr != nil {
			ln.Close()
			<-peerDone
			c.Inconclusive("cannot dial %s: %v", network, derr)
			res.Wedged = true
			return res
		}
		c.Count("transport_"+sc.Transport+"_sessions", 1)
		libConn, rawWritten = conn, rc.received
		closeBoth = func() { conn.Close(); rc.Close() }
	} else if sc.RealWS == "" {
		lib, peer := bufconn.Pipe()
		go func() {
			defer close(peerDone)
			runPeer(peer, sc, rec)
		}()
		libConn, rawWritten = lib, lib.Written
		closeBoth = func() { lib.Close(); peer.Close() }
	} else {
		// a real WebSocket connection to an in-process ws:// endpoint; the byte
		// monitor reads the payload the server end received
		var once sync.Once
		rc := &recConn{}
		srv := httptest.NewServer(xwebsocket.Server{
			Handshake: func(cfg *xwebsocket.Config, _ *http.Request) error {
				cfg.Protocol = []string{xmppws.WSProtocol}
				return nil
			},
			Handler: func(ws *xwebsocket.Conn) {
				ran := false
				once.Do(func() { ran = true })
				if !ran {
					return
				}
				defer close(peerDone)
				rc.set(ws)
				runPeer(rc, sc, rec)
			},
		})
		defer srv.Close()
		d := xmppws.Dialer{Origin: sc.RealWS + "://" + sc.Domain, InsecureNoTLS: true}
		conn, derr := d.DialDirect(context.Background(), "ws://"+strings.TrimPrefix(srv.URL, "http://")+"/xmpp-websocket")
		if derr != nil {
			c.Inconclusive("cannot dial the in-process WebSocket endpoint: %v", derr)
			res.Wedged = true
			return res
		}
		libConn, rawWritten = conn, rc.received
		closeBoth = func() { conn.Close(); rc.Close() }
	}

	var imu sync.Mutex
	sink := func(ic instCall) {
		imu.Lock()
		res.Inst = append(res.Inst, ic)
		imu.Unlock()
	}
	var teeIn, teeOut bytes.Buffer
	var neg xmpp.Negotiator
	var feats []xmpp.StreamFeature
	if sh != nil {
		sh.sink = sink
		neg = sh.neg
		feats = sh.feats
	} else {
		feats = buildFeatures(sc, stls, sink)
		var noTLS []xmpp.StreamFeature
		for _, f := range feats {
			if f.Name.Space != nsTLS {
				noTLS = append(noTLS, f)
			}
		}
		cfgFunc := func(s *xmpp.Session, _ *xmpp.StreamConfig) xmpp.StreamConfig {
			cfg := xmpp.StreamConfig{Features: feats}
			if s == nil {
				// NewNegotiator probes the function with a nil session; it is
				// documented to be called again for every stream of a real one
				switch sc.CfgFunc {
				case "session-dependent":
					cfg.Features = noTLS
				case "session-only":
					cfg.Features = nil
				}
			}
			if sc.Tee == "in" || sc.Tee == "both" {
				cfg.TeeIn = &teeIn
			}
			if sc.Tee == "out" || sc.Tee == "both" {
				cfg.TeeOut = &teeOut
			}
			return cfg
		}
		switch sc.WS {
		case "":
			neg = xmpp.NewNegotiator(cfgFunc)
		case "negotiator":
			neg = xmppws.Negotiator(cfgFunc)
		}
	}
	origin := jid.MustParse(originStr(sc))
	location := jid.MustParse(locationStr(sc))
	var state0 xmpp.SessionState
	if sc.S2S {
		state0 = xmpp.S2S
	}
	if sc.PreAuthn {
		state0 |= xmpp.Authn
		c.Count("sessions_created_with_the_authn_bit_set", 1)
	}
	rw := wrapTransport(sc.Wrap, libConn)

	var s *xmpp.Session
	var err error
	done := make(chan struct{})
	go func() {
		defer close(done)
		c.Guard("NewSession", func() {
			if neg == nil && sc.WS != "" {
				s, err = xmppws.NewSession(context.Background(), origin, rw, feats...)
				return
			}
			if neg == nil {
				s, err = xmpp.NewClientSession(context.Background(), origin, rw, feats...)
				return
			}
			s, err = xmpp.NewSession(context.Background(), location, origin, rw, state0, neg)
		})
	}()
	select {
	case <-done:
	case <-time.After(5 * time.Second):
		res.Wedged = true
		closeBoth()
		<-done
	}
	raw := rawWritten()
	res.ErrNil = err == nil
	if err != nil {
		res.Err = err.Error()
	}
	if s != nil {
		res.State = s.State()
		res.Handshook = s.ConnectionState().HandshakeComplete
		in := s.In()
		res.InID, res.InVersion = in.ID, in.Version.String()
		res.Seen = querySeen(s)
	}
	libConn.Close()
	<-peerDone
	res.Peer = rec.snapshot()
	res.TeeIn, res.TeeOut = teeIn.Len(), teeOut.Len()

	clear, n, wellFormed := tlspeer.SplitRecords(raw)
	res.Clear, res.Records = string(clear), n
	if sc.WS != "" {
		res.Issues = checkClearWS(clear)
	} else {
		res.Issues = checkClear(clear)
	}
	if !wellFormed {
		res.Issues = append(res.Issues, "bytes-after-first-tls-record")
	}
	return res
}

// buildFeatures makes the client's feature list for sc in its PRNG order.
func buildFeatures(sc scenario, stls xmpp.StreamFeature, sink func(instCall)) []xmpp.StreamFeature {
	mechs := []sasl.Mechanism{sasl.Plain}
	switch sc.Mechs {
	case "scram":
		mechs = []sasl.Mechanism{sasl.ScramSha256, sasl.ScramSha1}
	case "both":
		mechs = []sasl.Mechanism{sasl.ScramSha256, sasl.Plain}
	}
	all := []xmpp.StreamFeature{stls, xmpp.SASL("", "secret", mechs...), xmpp.BindResource(), instFeature(sink)}
	var feats []xmpp.StreamFeature
	for _, i := range sc.Order {
		if i == 3 && !sc.Inst {
			continue
		}
		if i == 2 && sc.PreAuthn {
			// the built-in bind feature only asks for Authn; on a session created
			// with that bit it is not one of the "features that require a secured
			// stream" the statement is about
			continue
		}
		feats = append(feats, all[i])
	}
	if sc.Info {
		feats = append(feats, infoFeature())
	}
	if sc.S2S {
		// the library's own server-to-server feature (XEP-0288), documented to
		// need a secured stream like SASL; in front, so that neither list order
		// nor map order favours STARTTLS
		feats = append([]xmpp.StreamFeature{s2s.Bidi()}, feats...)
	}
	return feats
}

// checkClear tokenises what the client wrote before the first TLS record.
// Allowed: the XML declaration, one stream:stream start, at most one
// <starttls/> in the TLS namespace, white space.  Everything else is named.
func checkClear(b []byte) (issues []string) {
	d := xml.NewDecoder(bytes.NewReader(b))
	depth := 0
	headers, starttls := 0, 0
	inStartTLS := false
	for {
		tok, err := d.Token()
		if err != nil {
			if err != io.EOF && !strings.Contains(err.Error(), "unexpected EOF") {
				issues = append(issues, "malformed")
			}
			return issues
		}
		switch t := tok.(type) {
		case xml.ProcInst:
			if t.Target != "xml" {
				issues = append(issues, "procinst")
			} else if headers > 0 {
				issues = append(issues, "second-header")
			}
		case xml.Comment:
			issues = append(issues, "comment")
		case xml.Directive:
			issues = append(issues, "directive")
		case xml.CharData:
			// inside an element that is itself reported the text adds nothing
			if len(bytes.TrimSpace(t)) != 0 && depth <= 1 {
				issues = append(issues, "text")
			}
		case xml.StartElement:
			depth++
			switch {
			case depth == 1 && t.Name.Space == nsStream && t.Name.Local == "stream":
				headers++
				if headers > 1 {
					issues = append(issues, "second-header")
				}
			case depth == 1:
				issues = append(issues, "element-before-header")
			case t.Name.Space == nsStream && t.Name.Local == "stream":
				issues = append(issues, "second-header") // a restart in clear text
			case depth == 2 && t.Name.Space == nsTLS && t.Name.Local == "starttls":
				starttls++
				inStartTLS = true
				if starttls > 1 {
					issues = append(issues, "second-starttls")
				}
			case depth == 2:
				issues = append(issues, "element:"+nsClass(t.Name.Space)+":"+t.Name.Local)
			case inStartTLS:
				issues = append(issues, "starttls-content")
			}
		case xml.EndElement:
			if depth == 2 {
				inStartTLS = false
			}
			if depth == 1 {
				issues = append(issues, "stream-end")
			}
			depth--
		}
	}
}

// checkClearWS is checkClear for the WebSocket framing: one <open/>, at most
// one <starttls/>, both top-level documents.
func checkClearWS(b []byte) (issues []string) {
	d := xml.NewDecoder(bytes.NewReader(b))
	depth, opens, starttls := 0, 0, 0
	top := ""
	for {
		tok, err := d.Token()
		if err != nil {
			if err != io.EOF && !strings.Contains(err.Error(), "unexpected EOF") {
				issues = append(issues, "malformed")
			}
			return issues
		}
		switch t := tok.(type) {
		case xml.ProcInst:
			issues = append(issues, "procinst")
		case xml.Comment:
			issues = append(issues, "comment")
		case xml.Directive:
			issues = append(issues, "directive")
		case xml.CharData:
			if len(bytes.TrimSpace(t)) != 0 && depth == 0 {
				issues = append(issues, "text")
			}
		case xml.StartElement:
			depth++
			switch {
			case depth == 1 && t.Name.Space == nsFraming && t.Name.Local == "open":
				opens++
				top = "open"
				if opens > 1 {
					issues = append(issues, "second-header")
				}
			case depth == 1 && t.Name.Space == nsFraming:
				top = "close"
				issues = append(issues, "stream-end")
			case depth == 1 && t.Name.Space == nsTLS && t.Name.Local == "starttls":
				starttls++
				top = "starttls"
				if opens == 0 {
					issues = append(issues, "element-before-header")
				}
				if starttls > 1 {
					issues = append(issues, "second-starttls")
				}
			case depth == 1:
				top = "other"
				issues = append(issues, "element:"+nsClass(t.Name.Space)+":"+t.Name.Local)
			case top == "starttls":
				issues = append(issues, "starttls-content")
			}
		case xml.EndElement:
			depth--
		}
	}
}

// recConn records what is read from a connection that is set later.
type recConn struct {
	net.Conn
	mu  sync.Mutex
	buf []byte
}

func (r *recConn) set(c net.Conn) { r.mu.Lock(); r.Conn = c; r.mu.Unlock() }

func (r *recConn) Read(p []byte) (int, error) {
	n, err := r.Conn.Read(p)
	r.mu.Lock()
	r.buf = append(r.buf, p[:n]...)
	r.mu.Unlock()
	return n, err
}

func (r *recConn) Close() error {
	r.mu.Lock()
	c := r.Conn
	r.mu.Unlock()
	if c == nil {
		return nil
	}
	return c.Close()
}

func (r *recConn) received() []byte {
	r.mu.Lock()
	defer r.mu.Unlock()
	return append([]byte(nil), r.buf...)
}

func nsClass(ns string) string {
	switch ns {
	case nsSASL:
		return "sasl"
	case nsBind:
		return "bind"
	case nsTLS:
		return "tls"
	case "jabber:client":
		return "client"
	case nsStream:
		return "stream"
	}
	return "other"
}

// judge applies the per-session oracles.  prior lists the domains of earlier
// sessions that used the same feature value (reuse workloads).
func judge(c *core.Case, sc scenario, res result, prior []string) {
	c.Count("sessions", 1)
	c.Count("adv_"+sc.Adv, 1)
	if len(res.Peer.Clear) >= 2 {
		c.Count("answer_"+sc.Answer, 1)
		if res.Peer.Clear[1] == "{"+nsTLS+"}starttls" {
			c.Count("starttls_requested", 1)
			if !strings.HasPrefix(sc.Adv, "tls-") || sc.Adv == "tls-wrongns" {
				c.Count("starttls_forced_when_not_advertised", 1)
			}
		}
	}
	if res.Wedged {
		c.Count("wedged", 1)
		c.Inconclusive("client and peer both waited (scenario %+v, peer %+v)", sc, res.Peer)
		return
	}
	forced := len(res.Peer.Clear) >= 2 && res.Peer.Clear[1] == "{"+nsTLS+"}starttls" && (!strings.HasPrefix(sc.Adv, "tls-") || sc.Adv == "tls-wrongns")
	if sc.CfgFunc == "session-dependent" || sc.CfgFunc == "session-only" {
		c.Count("cfgfunc_"+sc.CfgFunc+"_sessions", 1)
		if forced {
			c.Count("cfgfunc_"+sc.CfgFunc+"_forced_starttls", 1)
		}
	}
	if sc.WS != "" && sc.RealWS == "" {
		c.Count("ws_framed_sessions_"+sc.WS, 1)
		if forced {
			c.Count("ws_framed_forced_starttls", 1)
		}
		if res.Peer.HandshakeOK {
			c.Count("ws_framed_handshakes", 1)
		}
		if res.ready() && res.Handshook {
			c.Count("ws_framed_ready_over_tls", 1)
		}
	}
	if sc.RealWS != "" {
		c.Count("real_ws_sessions_origin_"+sc.RealWS, 1)
		if len(res.Peer.Clear) >= 2 && res.Peer.Clear[1] == "{"+nsTLS+"}starttls" {
			c.Count("real_ws_starttls_requested_origin_"+sc.RealWS, 1)
		}
		if res.Peer.HandshakeOK {
			c.Count("real_ws_handshakes", 1)
		}
	}
	if sc.ClearFrom != "" {
		c.Count("clear_from_"+sc.ClearFrom, 1)
	}
	if sc.S2S {
		c.Count("s2s_sessions", 1)
		if forced {
			c.Count("s2s_forced_starttls", 1)
		}
	}
	if sc.ClearTo != "" {
		c.Count("clear_to_"+sc.ClearTo, 1)
		if strings.HasPrefix(sc.ClearTo, "foreign") && len(res.Peer.Clear) == 1 && !res.ErrNil {
			c.Count("clear_to_foreign_stopped_negotiation", 1)
		}
		if strings.HasPrefix(sc.ClearTo, "near") && len(res.Peer.Clear) == 1 && !res.ErrNil {
			c.Count("clear_to_near_miss_stopped_negotiation", 1)
		}
		if sc.ClearTo == "omitted" && res.Peer.Hellos > 0 {
			c.Count("clear_to_omitted_reached_tls", 1)
		}
	}
	if sc.Wrap != "" {
		c.Count("wrap_"+sc.Wrap+"_sessions", 1)
		if res.Peer.HandshakeOK {
			c.Count("wrap_"+sc.Wrap+"_handshakes", 1)
		}
	}
	if sc.Tee != "off" {
		c.Count("tee_sessions", 1)
		if res.TeeIn > 0 {
			c.Count("tee_in_captured", 1)
		}
		if res.TeeOut > 0 {
			c.Count("tee_out_captured", 1)
		}
	}
	if res.Peer.HandshakeOK {
		c.Count("handshakes_completed", 1)
		c.Count("handshakes_completed_cfg_"+sc.Cfg, 1)
	}
	if res.Peer.SCRAMDone {
		c.Count("in_tls_scram_exchanges_completed", 1)
	}
	if res.Peer.Pipelined {
		c.Count("pipelined_plaintext_cases", 1)
		if res.Peer.HandshakeOK {
			c.Count("pipelined_plaintext_then_handshake", 1)
		}
	}
	if len(res.Inst) > 0 {
		c.Count("instrumented_feature_calls", len(res.Inst))
	}
	// 1. clear-text bytes
	seen := map[string]bool{}
	for _, is := range res.Issues {
		if seen[is] {
			continue
		}
		seen[is] = true
		c.Violate("clear:"+is, "before the first TLS record the client wrote something other than its header and one <starttls/> (%s): %q  (scenario %+v)", is, res.Clear, sc)
	}
	// 2. readiness
	if res.ErrNil && !res.ready() {
		c.Violate("ready:nil-error-not-ready", "NewSession returned nil but state is %b (scenario %+v)", res.State, sc)
	}
	if res.ready() {
		c.Count("ready_sessions", 1)
		switch {
		case !res.secure():
			// how it got there names the class: the client never asked for TLS, or
			// asked, was not told to proceed, and went on regardless
			how := "no-starttls-sent"
			if strings.Contains(res.Clear, "<starttls") {
				how = "after-refused-starttls"
			}
			c.Violate("ready:insecure:"+how, "session is Ready without the Secure bit (%s): state=%b err=%v clear=%q (scenario %+v, peer %+v)", how, res.State, res.Err, res.Clear, sc, res.Peer)
		case !res.Handshook:
			c.Violate("ready:handshake-pending", "session is Ready|Secure but no TLS handshake has completed (ConnectionState().HandshakeComplete=false, %d TLS records on the wire): state=%b clear=%q (scenario %+v, peer %+v)", res.Records, res.State, res.Clear, sc, res.Peer)
		case !res.Peer.ReadyPoint && res.Peer.Pipelined:
			c.Violate("clear:pipelined-interpreted", "session is Ready although inside TLS the peer never reached the point that makes a client ready (client sent %v inside TLS): clear text pipelined behind <proceed/> was taken for the protected stream (scenario %+v)", res.Peer.TLSEvents, sc)
		case !res.Peer.ReadyPoint:
			c.Violate("ready:not-from-tls-stream", "session is Ready although inside TLS the peer never reached the point that makes a client ready (client sent %v inside TLS; scenario %+v, peer %+v)", res.Peer.TLSEvents, sc, res.Peer)
		default:
			c.Count("ready_over_tls", 1)
		}
	}
	if res.State&xmpp.Authn != 0 && !res.Handshook && !sc.PreAuthn {
		c.Violate("clear:authn-without-tls", "Authn bit set without a completed handshake: state=%b (scenario %+v)", res.State, sc)
	}
	for _, ic := range res.Inst {
		if !ic.Handshook || ic.State&xmpp.Secure == 0 {
			c.Violate("clear:feature-before-tls", "a feature with Necessary: Secure was negotiated with state=%b handshake=%v (scenario %+v)", ic.State, ic.Handshook, sc)
		}
	}
	// 2b. nothing of the clear-text stream header survives into the protected
	// stream: the library forgets the old header before it sends its own on the
	// new layer, so once the peer has completed a handshake the session never
	// reports the clear-text id again, and reports version 1.0 only if a
	// protected header carried it.
	if res.Peer.HandshakeOK {
		if sc.TLSHdr == "" {
			sc.TLSHdr = "complete"
		}
		if res.Peer.TLSHeaders > 0 {
			c.Count("tls_header_"+sc.TLSHdr, 1)
		}
		omitsVersion := sc.TLSHdr == "no-version" || sc.TLSHdr == "no-id-version"
		if res.InID == clearID {
			c.Violate("clear:header-leak:id", "after a completed TLS handshake Session.In().ID is %q, the id of the clear-text header (protected headers sent: %d, kind %q; state=%b err=%q; scenario %+v)", res.InID, res.Peer.TLSHeaders, sc.TLSHdr, res.State, res.Err, sc)
		}
		if res.Peer.TLSHeaders > 0 && omitsVersion && res.InVersion == "1.0" {
			c.Violate("clear:header-leak:version", "the protected stream header carried no version, yet Session.In().Version is 1.0 as in the clear-text header (state=%b err=%q; scenario %+v)", res.State, res.Err, sc)
		}
		for _, ic := range res.Inst {
			if ic.Handshook && ic.InID == clearID {
				c.Violate("clear:header-leak:id", "inside TLS a feature saw Session.In().ID = %q, the id of the clear-text header (header kind %q; scenario %+v)", ic.InID, sc.TLSHdr, sc)
			}
		}
		if res.ready() {
			c.Count("ready_stream_id_checked", 1)
			if sc.TLSHdr != "complete" {
				c.Count("ready_with_incomplete_protected_header", 1) // not demanded here; see C12
			}
		}
	}
	// 2c. what the clear-text features list said is gone once TLS is in place
	if res.Handshook {
		clearOthers := strings.HasSuffix(sc.Adv, "+others") || sc.Adv == "unknown-only"
		c.Count("feature_queries_after_handshake", 1+len(res.Inst))
		if clearOthers {
			c.Count("handshakes_after_clear_only_features", 1)
		}
		check := func(where string, f featSeen) {
			if f.UnknownOK {
				c.Violate("clear:feature-data-survives-tls", "%s, after the TLS handshake, Session.Feature(%q) still reports a feature that was advertised only in the clear-text list (scenario %+v)", where, nsUnknown, sc)
			}
			if f.InfoOK && f.Info == "clear" {
				c.Violate("clear:feature-data-survives-tls", "%s, after the TLS handshake, Session.Feature(%q) returns the data parsed from the clear-text list (%q) (scenario %+v)", where, nsInfo, f.Info, sc)
			}
			if f.InfoOK && f.Info == "tls" {
				c.Count("protected_feature_data_seen", 1)
			}
		}
		check("at the end of negotiation", res.Seen)
		for _, ic := range res.Inst {
			if ic.Handshook {
				check("inside a Secure-requiring feature", ic.Seen)
			}
		}
	}
	if sc.Location != "" {
		kind := "c2s"
		if sc.S2S {
			kind = "s2s"
		}
		c.Count("other_location_sessions_"+kind, 1)
		if sc.Cfg == "default" && res.Peer.Hellos > 0 {
			c.Count("other_location_sni_checked_"+kind, 1)
		}
	}
	if len(res.Peer.AfterWS) > 0 {
		c.Count("client_answered_clear_features_after_whitespace", 1)
	}
	// 3. server name
	if (sc.Cfg == "default" || sc.Cfg == "explicit-noname") && res.Peer.Hellos > 0 {
		c.Count("sni_checked", 1)
		for _, name := range res.Peer.SNI {
			if name == sc.Domain || name == aLabel(sc.Domain) {
				continue
			}
			key := "sni:mismatch"
			for _, p := range prior {
				if p == name {
					key = "sni:reuse"
				}
			}
			c.Violate(key, "the TLS configuration (%s) names no server and the session's own address is %s, but the ClientHello names %q (earlier sessions with the same feature value: %v; scenario %+v)", sc.Cfg, originStr(sc), name, prior, sc)
		}
	}
}

// newStartTLS calls xmpp.StartTLS through a variable so that the constructor
// is not inlined into harness functions (race reports and panics then name the
// library's closure, not a harness frame).
var newStartTLS = xmpp.StartTLS

// clientConfig builds the TLS configuration a scenario hands to StartTLS:
// "default" none, "explicit" one that names a server, "explicit-noname" only
// RootCAs (crypto/tls refuses to handshake without a name), "explicit-insecure"
// no name and no verification.
func clientConfig(kind string) *tls.Config {
	switch kind {
	case "explicit":
		return identity().ClientConfig(explicitName)
	case "explicit-noname":
		return &tls.Config{RootCAs: identity().Pool, MinVersion: tls.VersionTLS12}
	case "explicit-insecure":
		return &tls.Config{InsecureSkipVerify: true, MinVersion: tls.VersionTLS12}
	}
	return nil
}

func startTLSFor(sc scenario) xmpp.StreamFeature {
	return newStartTLS(clientConfig(sc.Cfg))
}

// fingerprint renders the exported fields of a caller's tls.Config (values of
// basic kinds and slices, identity of pointers, nil-ness of functions) so that
// a change made behind the caller's back shows.
func fingerprint(cfg *tls.Config) string {
	if cfg == nil {
		return "<nil>"
	}
	var sb strings.Builder
	v := reflect.ValueOf(cfg).Elem()
	for i := 0; i < v.NumField(); i++ {
		f := v.Type().Field(i)
		if !f.IsExported() {
			continue
		}
		fv := v.Field(i)
		switch fv.Kind() {
		case reflect.Func:
			fmt.Fprintf(&sb, "%s:func-nil=%v;", f.Name, fv.IsNil())
		case reflect.Ptr, reflect.Interface, reflect.Map:
			if fv.IsNil() {
				fmt.Fprintf(&sb, "%s:nil;", f.Name)
			} else if fv.Kind() == reflect.Map {
				fmt.Fprintf(&sb, "%s:map[%d];", f.Name, fv.Len())
			} else {
				fmt.Fprintf(&sb, "%s:%v;", f.Name, fv.Interface() != nil)
				if fv.Kind() == reflect.Ptr {
					fmt.Fprintf(&sb, "@%x;", fv.Pointer())
				}
			}
		default:
			fmt.Fprintf(&sb, "%s:%v;", f.Name, fv.Interface())
		}
	}
	return sb.String()
}

type groupSample struct {
	Kind      string     `json:"kind"`
	Scenarios []scenario `json:"scenarios"`
	Results   []result   `json:"results,omitempty"`
}

// teeGroup runs one peer script without the tee and with 1–3 tee modes.
func teeGroup(c *core.Case, base scenario, modes []string) { teeGroupN(c, base, modes, 0) }

// teeGroupN also repeats the tee-less session: whatever the library iterates
// over in an unspecified order (the features usable on one list), the outcome
// of one peer script must not depend on it.
func teeGroupN(c *core.Case, base scenario, modes []string, repeats int) {
	gs := &groupSample{Kind: "tee-comparison"}
	c.Sample(gs)
	var ref result
	modes = append([]string{}, modes...)
	for i := 0; i < repeats; i++ {
		modes = append(modes, "again")
	}
	for i, m := range append([]string{"off"}, modes...) {
		sc := base
		sc.Tee = m
		again := m == "again"
		if again {
			sc.Tee = "off"
		}
		if strings.HasSuffix(sc.Adv, "+others") {
			c.Count("sessions_with_several_features_on_one_clear_list_mechs_"+mechsKind(sc), 1)
		}
		gs.Scenarios = append(gs.Scenarios, sc)
		res := runSession(c, sc, startTLSFor(sc), nil)
		gs.Results = append(gs.Results, res)
		judge(c, sc, res, nil)
		c.Sig("%s|%s|%s|tee=%s|%s|inst=%v|%s", sc.Adv, sc.Answer, sc.InTLS, sc.Tee, sc.Cfg, sc.Inst, outcomeClass(res))
		if i == 0 {
			ref = res
			continue
		}
		if res.Wedged || ref.Wedged {
			continue
		}
		if again {
			c.Count("repeated_sessions_compared", 1)
			if res.Clear != ref.Clear {
				c.Violate("order:clear-bytes", "the same configuration against the same peer script wrote %q in clear text in one session and %q in another (scenario %+v)", res.Clear, ref.Clear, base)
			}
			if res.outcome() != ref.outcome() {
				c.Violate("order:outcome", "the same configuration against the same peer script ended {%s} in one session and {%s} in another (scenario %+v)", res.outcome(), ref.outcome(), base)
			}
			continue
		}
		c.Count("tee_pairs_compared", 1)
		if res.Clear != ref.Clear {
			c.Violate("tee:clear-bytes", "same peer script, tee=%s: clear-text bytes %q; without tee %q (scenario %+v)", m, res.Clear, ref.Clear, base)
		}
		if res.outcome() != ref.outcome() {
			c.Violate("tee:outcome", "same peer script, tee=%s: outcome {%s} err=%q; without tee {%s} err=%q (scenario %+v)", m, res.outcome(), res.Err, ref.outcome(), ref.Err, base)
		}
	}
}

func mechsKind(sc scenario) string {
	if sc.Mechs == "" {
		return "plain"
	}
	return sc.Mechs
}

func outcomeClass(r result) string {
	switch {
	case r.Wedged:
		return "wedged"
	case r.ready():
		return fmt.Sprintf("ready:%03b:hs=%v", r.State&7, r.Handshook)
	default:
		return fmt.Sprintf("error:%03b:hs=%v", r.State&7, r.Handshook)
	}
}

// reuseGroup uses one StartTLS(nil) value for several sessions with different
// domains.
func reuseGroup(c *core.Case, r *rand.Rand, concurrent bool) { reuseGroupCfg(c, r, concurrent, "") }

// reuseGroupCfg: the shared feature value is built from no configuration or
// from ONE caller-owned tls.Config of the given kind; each session must name
// (if the configuration names nobody) its own domain, and the caller's
// configuration must come back unchanged.
func reuseGroupCfg(c *core.Case, r *rand.Rand, concurrent bool, kind string) {
	if kind == "" {
		kind = []string{"default", "default", "default", "explicit-noname", "explicit-insecure", "explicit"}[r.Intn(6)]
	}
	n := 2 + r.Intn(4)
	p := r.Perm(len(domains))
	gs := &groupSample{Kind: "reuse-sequential"}
	if concurrent {
		gs.Kind = "reuse-concurrent"
	}
	for i := 0; i < n; i++ {
		sc := scenario{
			Adv:    []string{"tls-required", "tls-optional+others", "mechs-only", "tls-required+others"}[r.Intn(4)],
			Answer: "proceed-tls",
			InTLS:  []string{"full", "features-empty"}[r.Intn(2)],
			Tee:    "off", Cfg: kind, Domain: domains[p[i]], Order: r.Perm(4), Inst: r.Intn(2) == 0, TLSHdr: "complete",
		}
		gs.Scenarios = append(gs.Scenarios, sc)
	}
	if r.Intn(2) == 0 {
		// hosted domains behind one server: every stream of the group is
		// addressed to the same location, which is none of the sessions' own
		// domains
		loc := domains[p[n]]
		for i := range gs.Scenarios {
			gs.Scenarios[i].Location = loc
		}
		c.Count("reuse_groups_addressed_to_one_location", 1)
	}
	c.Sample(gs)
	shared := clientConfig(kind)
	before := fingerprint(shared)
	stls := newStartTLS(shared)
	defer func() {
		if shared == nil {
			return
		}
		c.Count("reuse_caller_config_compared_"+kind, 1)
		if after := fingerprint(shared); after != before {
			c.Violate("cfg:caller-config-modified", "the tls.Config handed to StartTLS (%s) was modified by negotiating with it:\nbefore %s\nafter  %s\n(domains %v)", kind, before, after, gs.Scenarios)
		}
	}()
	gs.Results = make([]result, n)
	if concurrent {
		c.Count("reuse_concurrent_groups", 1)
		var wg sync.WaitGroup
		for i := range gs.Scenarios {
			wg.Add(1)
			go func(i int) {
				defer wg.Done()
				gs.Results[i] = runSession(c, gs.Scenarios[i], stls, nil)
			}(i)
		}
		wg.Wait()
		var all []string
		for _, sc := range gs.Scenarios {
			all = append(all, sc.Domain)
		}
		for i, sc := range gs.Scenarios {
			judge(c, sc, gs.Results[i], without(all, sc.Domain))
			c.Count("reuse_sessions", 1)
		}
	} else {
		c.Count("reuse_sequential_groups", 1)
		var prior []string
		for i, sc := range gs.Scenarios {
			gs.Results[i] = runSession(c, sc, stls, nil)
			judge(c, sc, gs.Results[i], prior)
			prior = append(prior, sc.Domain)
			c.Count("reuse_sessions", 1)
			if i > 0 && gs.Results[i].Peer.Hellos > 0 && kind == "default" {
				c.Count("reuse_across_domains_observed", 1)
			}
		}
	}
	c.Sig("%s|n=%d", gs.Kind, n)
}

// sliceReuseGroup negotiates 2–3 sessions in turn with the SAME
// []StreamFeature (and, in half of the groups, the same Negotiator value): the
// first completes a real STARTTLS, the later ones face peers that strip it.
func sliceReuseGroup(c *core.Case, r *rand.Rand) {
	n := 2 + r.Intn(2)
	gs := &groupSample{Kind: "slice-reuse"}
	cfg := []string{"default", "explicit"}[r.Intn(2)]
	p := r.Perm(len(domains))
	order := r.Perm(4)
	inst := r.Intn(2) == 0
	for i := 0; i < n; i++ {
		sc := scenario{Tee: "off", Cfg: cfg, Domain: domains[p[i]], Order: order, Inst: inst, TLSHdr: "complete", CfgFunc: "static"}
		if i == 0 {
			sc.Adv = []string{"tls-required", "tls-optional+others", "mechs-only", "tls-required+others"}[r.Intn(4)]
			sc.Answer, sc.InTLS = "proceed-tls", "full"
		} else {
			sc.Adv = []string{"empty", "empty", "unknown-only", "inst-only", "mechs-only", "mechs+bind"}[r.Intn(6)]
			sc.Answer = answerKinds[r.Intn(len(answerKinds))]
			sc.InTLS = inTLSKinds[r.Intn(len(inTLSKinds))]
		}
		gs.Scenarios = append(gs.Scenarios, sc)
	}
	c.Sample(gs)
	sh := &shared{}
	sh.feats = buildFeatures(gs.Scenarios[0], startTLSFor(gs.Scenarios[0]), func(ic instCall) { sh.sink(ic) })
	ws := r.Intn(3) == 0 // the same, in the WebSocket framing
	if ws {
		c.Count("slice_reuse_groups_ws_framed", 1)
	}
	if r.Intn(2) == 0 {
		gs.Kind = "slice-reuse-negotiator"
		f := func(*xmpp.Session, *xmpp.StreamConfig) xmpp.StreamConfig {
			return xmpp.StreamConfig{Features: sh.feats}
		}
		if ws {
			sh.neg = xmppws.Negotiator(f)
		} else {
			sh.neg = xmpp.NewNegotiator(f)
		}
		c.Count("slice_reuse_groups_shared_negotiator", 1)
	} else {
		c.Count("slice_reuse_groups_newclientsession", 1)
	}
	for i := range gs.Scenarios {
		if ws {
			gs.Scenarios[i].WS = "newsession"
			if sh.neg != nil {
				gs.Scenarios[i].WS = "negotiator"
			}
		}
	}
	var prior []string
	firstSecure := false
	for i, sc := range gs.Scenarios {
		res := runSession(c, sc, xmpp.StreamFeature{}, sh)
		gs.Results = append(gs.Results, res)
		judge(c, sc, res, prior)
		prior = append(prior, sc.Domain)
		c.Sig("%s|%d|%s|%s|%s", gs.Kind, i, sc.Adv, sc.Answer, outcomeClass(res))
		if i == 0 {
			firstSecure = res.ready() && res.Handshook
			if firstSecure {
				c.Count("slice_reuse_first_session_ready_over_tls", 1)
			}
			continue
		}
		if firstSecure {
			c.Count("slice_reuse_later_sessions_after_tls", 1)
			if len(res.Peer.Clear) >= 2 && res.Peer.Clear[1] == "{"+nsTLS+"}starttls" {
				c.Count("slice_reuse_later_session_forced_starttls", 1)
			}
		}
	}
}

// realWSGroup negotiates over real WebSocket connections to an in-process
// ws:// endpoint, once per origin scheme: the transport is not TLS whatever
// the origin says.
func realWSGroup(c *core.Case, r *rand.Rand) {
	gs := &groupSample{Kind: "real-websocket"}
	base := genScenario(r)
	base.Tee, base.CfgFunc, base.Wrap, base.ClearTo, base.WS = "off", "static", "", "", "newsession"
	if r.Intn(2) == 0 {
		base.Adv = []string{"mechs-only", "empty", "mechs+bind", "tls-required+others"}[r.Intn(4)]
	}
	origins := []string{"http", "https"}
	if r.Intn(2) == 0 {
		origins = []string{"https", "http"}
	}
	c.Sample(gs)
	for _, o := range origins {
		sc := base
		sc.RealWS = o
		gs.Scenarios = append(gs.Scenarios, sc)
		res := runSession(c, sc, startTLSFor(sc), nil)
		gs.Results = append(gs.Results, res)
		judge(c, sc, res, nil)
		c.Sig("real-ws|%s|%s|%s|%s|%s", o, sc.Adv, sc.Answer, sc.InTLS, outcomeClass(res))
	}
	if len(gs.Results) == 2 && !gs.Results[0].Wedged && !gs.Results[1].Wedged {
		// the origin is not part of the transport: same clear bytes, same outcome
		c.Count("real_ws_origin_pairs_compared", 1)
		a, b := gs.Results[0], gs.Results[1]
		if a.Clear != b.Clear || a.outcome() != b.outcome() {
			c.Violate("ws:origin-changes-outcome", "the same peer script over ws:// gives {%s} clear=%q with origin %s:// and {%s} clear=%q with origin %s:// (scenario %+v)",
				a.outcome(), a.Clear, origins[0], b.outcome(), b.Clear, origins[1], base)
		}
	}
}

func without(l []string, x string) []string {
	var out []string
	for _, s := range l {
		if s != x {
			out = append(out, s)
		}
	}
	return out
}

// fixedCases run at the last case indexes of every tier so that the counters
// they feed do not depend on the PRNG: lists on which STARTTLS and SASL
// mechanisms are advertised together, to clients whose mechanism lists differ,
// negotiated eight times each.
var fixedCases = []scenario{
	{Adv: "tls-required+others", Mechs: "scram"},
	{Adv: "tls-optional+others", Mechs: "scram"},
	{Adv: "tls-required+others", Mechs: "both"},
	{Adv: "tls-required+others", Mechs: "plain"},
}

// fixedGroups follow fixedCases at the next lower indexes.
var fixedGroups = []func(c *core.Case){
	// one caller-owned configuration for sessions with different domains
	func(c *core.Case) { reuseGroupCfg(c, c.Rand, false, "explicit-noname") },
	func(c *core.Case) { reuseGroupCfg(c, c.Rand, false, "explicit-insecure") },
	func(c *core.Case) { reuseGroupCfg(c, c.Rand, true, "explicit-noname") },
	func(c *core.Case) { reuseGroupCfg(c, c.Rand, false, "explicit") },
	// clear-text headers whose addresses are near misses of the session's
	func(c *core.Case) { fixedNear(c, scenario{ClearTo: "near-domain-shift"}) },
	func(c *core.Case) { fixedNear(c, scenario{ClearTo: "near-local-shift"}) },
	func(c *core.Case) { fixedNear(c, scenario{ClearFrom: "near-shift"}) },
	func(c *core.Case) { fixedNear(c, scenario{ClearFrom: "same-length-domain"}) },
	func(c *core.Case) { fixedS2SOthers(c, "tls-required+others") },
	func(c *core.Case) { fixedS2SOthers(c, "tls-optional+others") },
	func(c *core.Case) { fixedNear(c, scenario{ClearTo: "same-length-domain"}) },
	func(c *core.Case) {
		fixedNear(c, scenario{ClearTo: "near-domain-shift", S2S: true, Location: domains[3]})
	},
	func(c *core.Case) { fixedNear(c, scenario{ClearTo: "near-domain-shift", ClearFrom: "near-shift"}) },
	// server-to-server initiators to which STARTTLS is not advertised
	func(c *core.Case) { fixedPlain(c, scenario{S2S: true, Adv: "empty"}, "s2s") },
	func(c *core.Case) { fixedPlain(c, scenario{S2S: true, Adv: "unknown-only"}, "s2s") },
	func(c *core.Case) { fixedPlain(c, scenario{S2S: true, Adv: "mechs-only"}, "s2s") },
	// look-alike elements in the STARTTLS namespace
	func(c *core.Case) {
		fixedPlain(c, scenario{Adv: "empty", PreAuthn: true, InTLS: "features-empty"}, "preauthn")
	},
	func(c *core.Case) {
		fixedPlain(c, scenario{Adv: "mechs+bind", PreAuthn: true, InTLS: "features-empty"}, "preauthn")
	},
	func(c *core.Case) { fixedPlain(c, scenario{Adv: "tlsns-other"}, "tlsns") },
	func(c *core.Case) { fixedPlain(c, scenario{Adv: "tlsns-other+mechs"}, "tlsns") },
	func(c *core.Case) { fixedPlain(c, scenario{Adv: "tlsns-other+others"}, "tlsns") },
	// real sockets
	func(c *core.Case) { fixedPlain(c, scenario{Adv: "mechs+bind", Transport: "unix"}, "unix") },
	func(c *core.Case) { fixedPlain(c, scenario{Adv: "tls-required+others", Transport: "unix"}, "unix") },
	func(c *core.Case) { fixedPlain(c, scenario{Adv: "mechs+bind", Transport: "tcp"}, "tcp") },
	func(c *core.Case) { fixedPlain(c, scenario{Adv: "tls-optional+others", Transport: "tcp"}, "tcp") },
}

// fixedPlain runs one scenario whose peer goes through with TLS when asked
// (so that the only ways out are a protected stream or an error), tee on and off.
func fixedPlain(c *core.Case, sc scenario, what string) {
	inTLS := "full"
	if sc.InTLS != "" {
		inTLS = sc.InTLS
	}
	sc.Answer, sc.InTLS, sc.Cfg, sc.Domain, sc.Order, sc.TLSHdr, sc.CfgFunc, sc.Mechs = "proceed-tls", inTLS, "explicit", domains[2], []int{0, 1, 2, 3}, "complete", "static", "plain"
	c.Count("fixed_"+what+"_groups", 1)
	teeGroupN(c, sc, []string{"both"}, 0)
}

// fixedS2SOthers: a server-to-server initiator whose peer advertises, next to
// STARTTLS, everything else a server may list before TLS (the bidi feature
// among it): the required and the voluntary form.
func fixedS2SOthers(c *core.Case, adv string) {
	sc := scenario{S2S: true, Location: domains[3], Adv: adv}
	sc.Answer, sc.InTLS, sc.Cfg, sc.Domain, sc.Order, sc.TLSHdr, sc.CfgFunc, sc.Mechs, sc.Info = "proceed-tls", "full", "default", domains[1], []int{1, 2, 0, 3}, "complete", "static", "plain", true
	c.Count("fixed_s2s_everything_advertised_groups", 1)
	teeGroupN(c, sc, []string{"in"}, 3)
}

func fixedNear(c *core.Case, sc scenario) {
	sc.Adv, sc.Answer, sc.InTLS, sc.Cfg, sc.Domain, sc.Order, sc.TLSHdr, sc.CfgFunc = "tls-required", "proceed-tls", "full", "default", domains[1], []int{0, 1, 2, 3}, "complete", "static"
	c.Count("fixed_near_miss_header_groups", 1)
	teeGroupN(c, sc, []string{"in"}, 0)
}

func run(c *core.Case) {
	r := c.Rand
	if j := c.Prop.Cases(c.Tier) - 1 - c.Index; j >= 0 && j < len(fixedCases) {
		sc := fixedCases[j]
		sc.Answer, sc.InTLS, sc.Cfg, sc.Domain, sc.Order, sc.TLSHdr, sc.CfgFunc = "proceed-tls", "full", "explicit", domains[j], []int{0, 1, 2, 3}, "complete", "static"
		c.Count("fixed_several_features_groups_mechs_"+mechsKind(sc), 1)
		teeGroupN(c, sc, []string{"both"}, 7)
		return
	} else if j -= len(fixedCases); j >= 0 && j < len(fixedGroups) {
		fixedGroups[j](c)
		return
	}
	switch k := r.Intn(21); {
	case k < 12:
		base := genScenario(r)
		modes := []string{teeKinds[1+r.Intn(3)]}
		if r.Intn(3) == 0 {
			modes = []string{"in", "out", "both"}
		}
		reps := 0
		if strings.HasSuffix(base.Adv, "+others") {
			reps = 3
		}
		teeGroupN(c, base, modes, reps)
	case k < 15:
		reuseGroup(c, r, false)
	case k < 17:
		reuseGroup(c, r, true)
	case k < 19:
		sliceReuseGroup(c, r)
	default:
		realWSGroup(c, r)
	}
}

func witnessTee(adv, answer, intls, tee string) func(*core.Case) {
	return func(c *core.Case) {
		teeGroup(c, scenario{Adv: adv, Answer: answer, InTLS: intls, Cfg: "explicit", Domain: domains[0], Order: []int{0, 1, 2, 3}}, []string{tee})
	}
}

func witnessOne(adv, answer, intls, tee string) func(*core.Case) {
	return func(c *core.Case) {
		sc := scenario{Adv: adv, Answer: answer, InTLS: intls, Tee: tee, Cfg: "explicit", Domain: domains[0], Order: []int{0, 1, 2, 3}}
		gs := &groupSample{Kind: "single-session", Scenarios: []scenario{sc}}
		c.Sample(gs)
		res := runSession(c, sc, startTLSFor(sc), nil)
		gs.Results = []result{res}
		judge(c, sc, res, nil)
	}
}

// Prop returns the C02 check.
func Prop() *core.Prop {
	req := []string{"handshakes_completed", "handshakes_completed_cfg_default", "handshakes_completed_cfg_explicit",
		"pipelined_plaintext_cases", "pipelined_plaintext_then_handshake", "reuse_across_domains_observed", "reuse_concurrent_groups",
		"tee_pairs_compared", "ready_over_tls", "starttls_forced_when_not_advertised", "sni_checked", "instrumented_feature_calls",
		"tee_in_captured", "tee_out_captured", "ready_stream_id_checked"}
	for _, k := range tlsHdrKinds {
		req = append(req, "tls_header_"+k)
	}
	req = append(req, "cfgfunc_session-dependent_forced_starttls", "cfgfunc_session-only_forced_starttls",
		"wrap_connstate_sessions", "wrap_connstate_handshakes", "wrap_rw_sessions", "wrap_connstate-rw_sessions",
		"slice_reuse_groups_shared_negotiator", "slice_reuse_groups_newclientsession",
		"slice_reuse_first_session_ready_over_tls", "slice_reuse_later_session_forced_starttls",
		"slice_reuse_groups_ws_framed", "ws_framed_sessions_negotiator", "ws_framed_sessions_newsession", "ws_framed_forced_starttls",
		"real_ws_sessions_origin_http", "real_ws_sessions_origin_https", "real_ws_starttls_requested_origin_https", "real_ws_origin_pairs_compared",
		"fixed_near_miss_header_groups", "fixed_s2s_everything_advertised_groups", "clear_to_near-domain-shift", "clear_to_near-local-shift", "clear_from_near-shift", "clear_from_same-length-domain", "clear_to_same-length-domain",
		"reuse_caller_config_compared_explicit-noname", "reuse_caller_config_compared_explicit-insecure", "reuse_caller_config_compared_explicit",
		"fixed_several_features_groups_mechs_scram", "fixed_several_features_groups_mechs_both", "fixed_several_features_groups_mechs_plain",
		"sessions_with_several_features_on_one_clear_list_mechs_scram", "repeated_sessions_compared", "in_tls_scram_exchanges_completed",
		"fixed_s2s_groups", "fixed_preauthn_groups", "sessions_created_with_the_authn_bit_set", "fixed_tlsns_groups", "fixed_unix_groups", "fixed_tcp_groups", "transport_unix_sessions", "transport_tcp_sessions", "s2s_sessions", "s2s_forced_starttls",
		"feature_queries_after_handshake", "handshakes_after_clear_only_features", "protected_feature_data_seen",
		"other_location_sni_checked_c2s", "other_location_sni_checked_s2s",
		"clear_to_omitted", "clear_to_foreign-full", "clear_to_foreign-bare", "clear_to_foreign-domain", "clear_to_foreign_stopped_negotiation")
	for _, a := range advKinds {
		req = append(req, "adv_"+a)
	}
	for _, a := range answerKinds {
		req = append(req, "answer_"+a)
	}
	return &core.Prop{
		ID:    "C02",
		Level: core.Exploration,
		Race:  true,
		Units: "sessions",
		Rule:  "a case is a group of client sessions (features StartTLS, SASL PLAIN, BindResource, optionally an instrumented feature with Necessary: Secure, in a PRNG order) over bufconn.Pipe against a concurrent scripted peer: 70% tee comparisons (one script = advertisement [STARTTLS required/optional, alone/among others, absent with mechanisms, empty list, unknown only, wrong namespace] x answer to <starttls/> [<proceed/> + real crypto/tls handshake, <proceed/> + clear text pipelined in the same write then handshake or EOF, <proceed/> then EOF or clear text after the ClientHello, <failure/>, unknown element, wrong namespace, text, EOF, forged <success/>, second features list, stream error] (each of the last nine also led by white space: white space then <proceed/> + handshake, then EOF, then <failure/>, then a clear-text features list inviting SASL and bind) x in-TLS script [full SASL+bind, empty features, EOF, SASL failure] x protected stream headers [complete, without id, without version, without both; the clear-text header always has id and version] x explicit/default TLS config, run without the tee and with 1-3 of tee in/out/both), 20% one StartTLS(nil) value reused sequentially for 2-5 sessions with different domains (every other group addressed to one common location that is none of their domains), 10% the same concurrently (children are built with -race). Oracles per session: bytes before the first TLS record tokenise to XML declaration + one stream header + at most one <starttls/>; only TLS records follow; Ready => Secure, ConnectionState().HandshakeComplete and the peer reached, inside TLS, the point that legitimately makes a client ready; Authn or a Secure-requiring feature only after the handshake; default config => ClientHello server name = domain of the session's address; once the peer has completed a handshake Session.In() (sampled at the end and inside Secure-requiring features) never shows the clear-text header's id, and shows version 1.0 only if a protected header carried it. Tee relation: identical clear-text bytes and outcome class (nil error, state bits, handshake, sequence of client events in clear and inside TLS). distinct = (advertisement, answer, in-TLS script, tee, cfg, instrumented, outcome class).",
		Assumptions: []string{
			"XML clear text never contains a byte sequence that looks like a TLS record header (control bytes 20-23 are not legal XML characters)",
			"the harness certificate is made the process's only system root through SSL_CERT_FILE so that sessions with no TLS configuration can complete a handshake",
			"a wait of both sides for each other (5 s) is inconclusive, not a violation",
		},
		Cases: func(tier string) int {
			if tier == "thorough" {
				return 150000
			}
			return 400
		},
		Run:     run,
		Require: req,
		Setup:   func() { identity() },
		Witnesses: map[string]func(*core.Case){
			// the peer advertises only SASL mechanisms; without the tee the client
			// forces <starttls/>, with it the client gives up after its header
			"tee:clear-bytes": witnessTee("mechs-only", "proceed-tls", "full", "both"),
			"tee:outcome":     witnessTee("mechs-only", "proceed-tls", "full", "both"),
			// tee on, empty features list: Ready in clear text, no <starttls/> sent
			"ready:insecure:no-starttls-sent": witnessOne("empty", "proceed-tls", "full", "in"),
			// STARTTLS advertised without <required/>, <starttls/> answered with <failure/>
			"ready:insecure:after-refused-starttls": witnessOne("tls-optional", "failure", "full", "off"),
			// a list with no required feature, <starttls/> answered with <proceed/>
			"ready:handshake-pending": witnessOne("tls-optional", "proceed-tls", "full", "off"),
			"sni:reuse": func(c *core.Case) {
				stls := newStartTLS(nil)
				var prior []string
				for _, d := range domains[:2] {
					sc := scenario{Adv: "tls-required", Answer: "proceed-tls", InTLS: "full", Tee: "off", Cfg: "default", Domain: d, Order: []int{0, 1, 2, 3}}
					judge(c, sc, runSession(c, sc, stls, nil), prior)
					prior = append(prior, d)
				}
			},
		},
	}
}
