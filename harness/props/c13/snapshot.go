package c13

import (
	"encoding/xml"
	"math/rand"
	"sort"

	"mellium.im/xmpp/jid"
	"mellium.im/xmpp/stanza"
	"mellium.im/xmpp/stream"
	"mellium.im/xmpp/verifharness/core"
)

// The snapshot law (S): a token reader built by one of the TokenReader / Wrap /
// Error constructors of the core types denotes the value as it was when the
// reader was built.  The reader is built, everything the caller can still
// reach is changed (the entries of a stanza error's Text map, the elements of
// a stream error's Text slice, the fields of the variable; or the variable is
// used again as a decode target, which fills its existing Text map in place),
// and only then is the reader consumed: its tokens must equal those of a
// reader built from a deep copy and consumed immediately.

func copyErr(e stanza.Error) stanza.Error {
	c := e
	if e.Text != nil {
		c.Text = make(map[string]string, len(e.Text))
		for k, v := range e.Text {
			c.Text[k] = v
		}
	}
	return c
}

// mutateText changes, empties or deletes every entry and adds a new one.
func mutateText(r *rand.Rand, m map[string]string) {
	var keys []string
	for k := range m {
		keys = append(keys, k)
	}
	sort.Strings(keys)
	for _, k := range keys {
		switch r.Intn(4) {
		case 0:
			delete(m, k)
		case 1:
			m[k] = ""
		default:
			m[k] = "changed after the reader was built <&> " + k
		}
	}
	if m != nil {
		m["zz-added"] = "added after the reader was built"
	}
}

func snapshotDiff(c *core.Case, typ, ctor string, got, want []xml.Token, gerr, werr error) {
	if werr != nil {
		return // the constructor fails on the unchanged value: the other laws report that
	}
	c.Count("snapshot_checks", 1)
	if gerr != nil {
		c.Violate("codec:S:"+typ+":"+ctor+":read-error", "%s: reading the tokens fails after the argument was changed: %v", ctor, gerr)
		return
	}
	d := tokensDiff(got, want)
	if d == "" {
		return
	}
	what := "tokens"
	for i := 0; i < len(got) && i < len(want); i++ {
		if tokStr(got[i]) != tokStr(want[i]) {
			switch got[i].(type) {
			case xml.CharData:
				what = "text"
			case xml.StartElement:
				what = "start-element"
			}
			break
		}
	}
	c.Violate("codec:S:"+typ+":"+ctor+":"+what, "%s: the reader was built, then the value it was built from was changed, then the reader was consumed: it no longer denotes the value it was built from: %s\ngot:  %s\nwant: %s", ctor, d, toksLine(got), toksLine(want))
}

func toksLine(ts []xml.Token) string {
	s := ""
	for _, t := range ts {
		s += tokStr(t) + " "
	}
	if len(s) > 1500 {
		s = s[:1500] + "…"
	}
	return s
}

var otherJID = jid.MustParse("changed@after.example/built")

func checkSnapshotStanzaError(c *core.Case, v Val) {
	orig := v.stanzaError()
	pay := payloadTokens(v.Payload)
	ctors := []struct {
		name string
		f    func(stanza.Error) xml.TokenReader
	}{
		{"Error.TokenReader", func(e stanza.Error) xml.TokenReader { return e.TokenReader() }},
		{"Error.Wrap", func(e stanza.Error) xml.TokenReader { return e.Wrap(reader(pay)) }},
	}
	for _, ct := range ctors {
		var want, got []xml.Token
		var werr, gerr error
		if c.Guard(ct.name, func() { want, werr = collect(ct.f(copyErr(orig))) }) {
			continue
		}
		e := copyErr(orig)
		if c.Guard(ct.name, func() {
			r := ct.f(e)
			mutateText(c.Rand, e.Text)
			e.By, e.Type, e.Condition = otherJID, stanza.Wait, stanza.Conflict
			got, gerr = collect(r)
		}) {
			continue
		}
		if len(orig.Text) > 0 {
			c.Count("snapshot_text_map_mutated", 1)
		}
		snapshotDiff(c, "Error", ct.name, got, want, gerr, werr)
	}

	// the variable is used again as a decode target while a reader built from
	// it is still unread
	second := copyErr(orig)
	for k := range second.Text {
		second.Text[k] = "second error " + k
	}
	if second.Text == nil {
		second.Text = map[string]string{}
	}
	second.Text["en-x-second"] = "only in the second error"
	var b1, b2 []byte
	var err1, err2 error
	if c.Guard("xml.Marshal", func() { b1, err1 = xml.Marshal(orig); b2, err2 = xml.Marshal(second) }) || err1 != nil || err2 != nil {
		return
	}
	var target stanza.Error
	var want, got []xml.Token
	var werr, gerr error
	if c.Guard("reused decode target", func() {
		if err1 = xml.Unmarshal(b1, &target); err1 != nil {
			return
		}
		want, werr = collect(copyErr(target).TokenReader())
		r := target.TokenReader()
		err2 = xml.Unmarshal(b2, &target)
		got, gerr = collect(r)
	}) || err1 != nil || err2 != nil {
		return
	}
	c.Count("snapshot_reused_decode_target", 1)
	snapshotDiff(c, "Error", "Error.TokenReader(reused-decode-target)", got, want, gerr, werr)
	// A copy of a decoded stanza.Error shares the Text map with the variable,
	// and decoding into the variable again fills that map in place (the
	// convention of encoding/json for maps: the existing map is reused).  That
	// is Go's aliasing of maps, not a loss of the decoded value; it is counted,
	// not judged.
	if len(orig.Text) > 0 {
		c.Count("stanza_error_copy_shares_text_map_with_reused_decode_target_not_judged", 1)
	}
}

func checkSnapshotStanza(c *core.Case, v Val) {
	var s stz
	if c.Guard("build", func() { s = newStz(v) }) {
		return
	}
	typ := map[string]string{"iq": "IQ", "message": "Message", "presence": "Presence"}[v.Kind]
	pay := payloadTokens(v.Payload)
	// Error helpers: the stanza error's Text map is changed after the call
	if v.ErrVal != nil {
		ev := v.ErrVal.stanzaError()
		var want, got []xml.Token
		var werr, gerr error
		if !c.Guard(typ+".Error", func() { want, werr = collect(s.errorReply(copyErr(ev))) }) {
			e := copyErr(ev)
			if !c.Guard(typ+".Error", func() {
				r := s.errorReply(e)
				mutateText(c.Rand, e.Text)
				e.By, e.Type, e.Condition = otherJID, stanza.Wait, stanza.Conflict
				got, gerr = collect(r)
			}) {
				c.Count("snapshot_stanza_helpers", 1)
				if len(ev.Text) > 0 {
					c.Count("snapshot_text_map_mutated", 1)
				}
				snapshotDiff(c, typ, typ+".Error", got, want, gerr, werr)
			}
		}
	}
	// Wrap / Result: the variable's fields are changed after the call
	var want, got []xml.Token
	var werr, gerr error
	if c.Guard(typ+".Wrap", func() { want, werr = collect(s.wrap(reader(pay))) }) {
		return
	}
	if c.Guard(typ+".Wrap", func() {
		switch x := s.(type) {
		case iqS:
			val := x.v
			r := val.Wrap(reader(pay))
			val.ID, val.Lang, val.Type, val.To, val.From, val.XMLName = "changed", "xx", stanza.SetIQ, otherJID, otherJID, xml.Name{Space: "urn:changed", Local: "iq"}
			got, gerr = collect(r)
		case msgS:
			val := x.v
			r := val.Wrap(reader(pay))
			val.ID, val.Lang, val.Type, val.To, val.From, val.XMLName = "changed", "xx", stanza.HeadlineMessage, otherJID, otherJID, xml.Name{Space: "urn:changed", Local: "message"}
			got, gerr = collect(r)
		case presS:
			val := x.v
			r := val.Wrap(reader(pay))
			val.ID, val.Lang, val.Type, val.To, val.From, val.XMLName = "changed", "xx", stanza.ProbePresence, otherJID, otherJID, xml.Name{Space: "urn:changed", Local: "presence"}
			got, gerr = collect(r)
		}
	}) {
		return
	}
	c.Count("snapshot_stanza_helpers", 1)
	snapshotDiff(c, typ, typ+".Wrap", got, want, gerr, werr)
}

func checkSnapshotStreamError(c *core.Case, v Val) {
	bare := v
	bare.Payload = nil
	var want, got []xml.Token
	var werr, gerr error
	if c.Guard("stream.Error.TokenReader", func() { want, werr = collect(bare.streamError().TokenReader()) }) {
		return
	}
	if c.Guard("stream.Error.TokenReader", func() {
		se := bare.streamError()
		r := se.TokenReader()
		for i := range se.Text {
			se.Text[i].Value = "changed after the reader was built"
			se.Text[i].Lang = "xx"
		}
		se.Err, se.Content = stream.Conflict.Err, "changed"
		got, gerr = collect(r)
	}) {
		return
	}
	c.Count("snapshot_stream_error", 1)
	snapshotDiff(c, "stream.Error", "stream.Error.TokenReader", got, want, gerr, werr)

	// a decoded value is kept (copied) and the variable is used as the decode
	// target again: the copy must still be the first value
	second := bare
	second.Texts = nil
	for _, t := range bare.Texts {
		second.Texts = append(second.Texts, LangText{"xx", "second error " + t.Lang})
	}
	second.Texts = append(second.Texts, LangText{"yy", "only in the second error"})
	second.Cond = "conflict"
	var b1, b2 []byte
	var e1, e2 error
	if c.Guard("xml.Marshal", func() { b1, e1 = xml.Marshal(bare.streamError()); b2, e2 = xml.Marshal(second.streamError()) }) || e1 != nil || e2 != nil {
		return
	}
	var target, keep stream.Error
	var before, after serrCore
	if c.Guard("reused decode target", func() {
		if e1 = xml.Unmarshal(b1, &target); e1 != nil {
			return
		}
		keep = target
		before = coreSErr(keep)
		e2 = xml.Unmarshal(b2, &target)
		after = coreSErr(keep)
	}) || e1 != nil || e2 != nil {
		return
	}
	c.Count("snapshot_decoded_copy_kept", 1)
	if f := diffSErr(after, before); f != "" {
		c.Violate("codec:S:stream.Error:reused-decode-target:copy-changed:"+f, "a stream.Error was decoded and copied, then the variable was decoded into again: the copy changed in %s: was %+v, is %+v", f, before, after)
	}
}
