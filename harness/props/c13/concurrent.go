package c13

import (
	"encoding/xml"
	"fmt"
	"math/rand"
	"sync"

	"mellium.im/xmpp/verifharness/core"
)

// Law C: independent decoders do not interfere.  Several goroutines decode
// their own stanzas (different addresses) at the same time, with the standard
// unmarshaller and with New{IQ,Message,Presence} on the start token; every
// result must equal the sequential reference.  The children run under the race
// detector, which reports unsynchronised package-level state on its own.

const concurrentDecoders = 4
const concurrentRounds = 120

func genConcurrent(r *rand.Rand, discarded *int) []Val {
	var out []Val
	seen := map[string]bool{}
	for tries := 0; len(out) < concurrentDecoders && tries < 400; tries++ {
		v := gen(r, discarded)
		switch v.Kind {
		case "iq", "message", "presence":
		default:
			continue
		}
		if v.To == "" || v.From == "" || v.To == v.From || seen[v.To] || seen[v.From] || v.Hostile {
			continue
		}
		seen[v.To], seen[v.From] = true, true
		// a decoder that sees the same address again and again (one address
		// attribute only, or the same address twice), next to ones that alternate
		switch r.Intn(4) {
		case 0, 1:
			v.From = ""
		case 2:
			v.From = v.To
		}
		out = append(out, v)
	}
	return out
}

func checkConcurrentDecode(c *core.Case, vals []Val) {
	if len(vals) < 2 {
		return
	}
	var smp []any
	for _, v := range vals {
		smp = append(smp, v.sample())
	}
	c.Sample(map[string]any{"concurrent_decoders": smp})
	type job struct {
		v    Val
		s    stz
		typ  string
		b    []byte
		se   xml.StartElement
		ref  core5
		ref2 core5
		bad  string
		key  string
	}
	var jobs []*job
	for _, v := range vals {
		jb := &job{v: v, typ: map[string]string{"iq": "IQ", "message": "Message", "presence": "Presence"}[v.Kind]}
		var err, e2, e3 error
		if c.Guard("sequential reference", func() {
			jb.s = newStz(v)
			if jb.b, err = xml.Marshal(jb.s.val()); err != nil {
				return
			}
			jb.ref, e2 = jb.s.decode(jb.b)
			if jb.se, e3 = firstStart(jb.b); e3 == nil {
				jb.ref2, e3 = jb.s.parseStart(jb.se)
			}
		}) || err != nil || e2 != nil || e3 != nil {
			return // reported by the sequential laws
		}
		jobs = append(jobs, jb)
	}
	var wg sync.WaitGroup
	start := make(chan struct{})
	for _, jb := range jobs {
		wg.Add(1)
		go func(jb *job) {
			defer wg.Done()
			defer func() {
				if r := recover(); r != nil {
					jb.key, jb.bad = "panic", fmt.Sprint(r)
				}
			}()
			<-start
			for i := 0; i < concurrentRounds && jb.bad == ""; i++ {
				d, err := jb.s.decode(jb.b)
				if err != nil {
					jb.key, jb.bad = "xml.Unmarshal:error", err.Error()
				} else if f := diffCore(d, jb.ref, true); f != "" {
					jb.key, jb.bad = "xml.Unmarshal:"+f, fmt.Sprintf("round %d: got %+v, sequentially %+v", i, d, jb.ref)
				}
				d2, err := jb.s.parseStart(jb.se)
				if err != nil {
					jb.key, jb.bad = "New"+jb.typ+":error", err.Error()
				} else if f := diffCore(d2, jb.ref2, true); f != "" {
					jb.key, jb.bad = "New"+jb.typ+":"+f, fmt.Sprintf("round %d: got %+v, sequentially %+v", i, d2, jb.ref2)
				}
			}
		}(jb)
	}
	close(start)
	wg.Wait()
	c.Count("concurrent_decode_scenarios", 1)
	c.Count("concurrent_decodes", len(jobs)*concurrentRounds*2)
	for _, jb := range jobs {
		if jb.bad != "" {
			c.Violate("codec:C:"+jb.typ+":"+jb.key, "%d goroutines decoding their own stanzas at the same time: the decoder of %q disagrees with its sequential result: %s", len(jobs), jb.b, jb.bad)
		}
	}
}
