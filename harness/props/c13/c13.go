// Package c13 is a law monitor over generated IQ, message, presence,
// stanza-error and stream-error values: every encoding path the library offers
// (encoding/xml with the struct tags or MarshalXML, TokenReader / WriteXML /
// Wrap, and the internal/marshal adapters used by the session) must give
// well-formed XML whatever the text fields contain, the paths must decode to
// the same value, that value must be equivalent to the original, the wrapping
// helpers must produce the right stanza around an unchanged payload with the
// addresses swapped for replies, and New*(v.StartElement()) must give v back.
package c13

import (
	"bytes"
	"encoding/xml"
	"fmt"
	"io"
	"sort"
	"strings"
	"sync"
	"sync/atomic"

	"mellium.im/xmpp/internal/marshal"
	"mellium.im/xmpp/jid"
	"mellium.im/xmpp/stanza"
	"mellium.im/xmpp/stream"
	"mellium.im/xmpp/verifharness/core"
	"mellium.im/xmpp/verifharness/xmltree"
)

const nsXML = "http://www.w3.org/XML/1998/namespace"

// ---------------------------------------------------------------------------
// token helpers (harness side; never the library's own copy loop)

type sliceReader struct {
	toks []xml.Token
	i    int
}

func (s *sliceReader) Token() (xml.Token, error) {
	if s.i >= len(s.toks) {
		return nil, io.EOF
	}
	t := s.toks[s.i]
	s.i++
	return t, nil
}

func reader(toks []xml.Token) xml.TokenReader {
	if len(toks) == 0 {
		return nil
	}
	return &sliceReader{toks: toks}
}

// scratchReader hands out tokens the way (*xml.Decoder).Token does: character
// data and attribute slices live in the reader's own scratch memory and are
// only valid until the next call, which overwrites them.
type scratchReader struct {
	toks  []xml.Token
	i     int
	data  []byte
	attrs []xml.Attr
}

func (s *scratchReader) Token() (xml.Token, error) {
	// what was handed out last time is gone now
	for i := range s.data {
		s.data[i] = '#'
	}
	for i := range s.attrs {
		s.attrs[i] = xml.Attr{Name: xml.Name{Local: "stale"}, Value: "stale"}
	}
	if s.i >= len(s.toks) {
		return nil, io.EOF
	}
	t := s.toks[s.i]
	s.i++
	switch v := t.(type) {
	case xml.CharData:
		s.data = append(s.data[:0], v...)
		return xml.CharData(s.data), nil
	case xml.StartElement:
		s.attrs = append(s.attrs[:0], v.Attr...)
		v.Attr = s.attrs
		return v, nil
	}
	return t, nil
}

// readerForm: "" the tokens themselves, "scratch" a reader whose tokens are
// only valid until the next call.
func readerForm(toks []xml.Token, form string) xml.TokenReader {
	if len(toks) == 0 {
		return nil
	}
	if form == "scratch" {
		return &scratchReader{toks: toks}
	}
	return &sliceReader{toks: toks}
}

// collect drains r (tolerating a token delivered together with io.EOF).
func collect(r xml.TokenReader) ([]xml.Token, error) {
	var out []xml.Token
	for n := 0; n < 100000; n++ {
		t, err := r.Token()
		if t != nil {
			out = append(out, xml.CopyToken(t))
		}
		if err == io.EOF {
			return out, nil
		}
		if err != nil {
			return out, err
		}
	}
	return out, fmt.Errorf("token reader did not end")
}

// encodeTokens writes a token stream through a fresh encoding/xml encoder.
func encodeTokens(r xml.TokenReader) ([]byte, error) {
	toks, err := collect(r)
	if err != nil {
		return nil, err
	}
	var b bytes.Buffer
	e := xml.NewEncoder(&b)
	for _, t := range toks {
		if err := e.EncodeToken(t); err != nil {
			return b.Bytes(), err
		}
	}
	err = e.Flush()
	return b.Bytes(), err
}

func tokStr(t xml.Token) string {
	switch x := t.(type) {
	case xml.StartElement:
		s := "<{" + x.Name.Space + "}" + x.Name.Local
		for _, a := range x.Attr {
			s += fmt.Sprintf(" {%s}%s=%q", a.Name.Space, a.Name.Local, a.Value)
		}
		return s + ">"
	case xml.EndElement:
		return "</{" + x.Name.Space + "}" + x.Name.Local + ">"
	case xml.CharData:
		return fmt.Sprintf("text(%q)", string(x))
	case nil:
		return "nil"
	}
	return fmt.Sprintf("%T", t)
}

// tokensDiff compares two token sequences exactly ("" when equal).
func tokensDiff(got, want []xml.Token) string {
	for i := 0; i < len(got) && i < len(want); i++ {
		if tokStr(got[i]) != tokStr(want[i]) {
			return fmt.Sprintf("token %d: got %s, want %s", i, tokStr(got[i]), tokStr(want[i]))
		}
	}
	if len(got) != len(want) {
		return fmt.Sprintf("%d tokens, want %d", len(got), len(want))
	}
	return ""
}

// ---------------------------------------------------------------------------
// the value of a stanza, reduced to comparable fields

type core5 struct{ Space, Local, ID, To, From, Lang, Type string }

// diffCore names the first differing field ("" when equal).  Space is
// compared only when withSpace is set.
func diffCore(a, b core5, withSpace bool) string {
	switch {
	case withSpace && a.Space != b.Space:
		return "XMLName.Space"
	case a.Local != b.Local:
		return "XMLName.Local"
	case a.ID != b.ID:
		return "ID"
	case a.To != b.To:
		return "To"
	case a.From != b.From:
		return "From"
	case a.Lang != b.Lang:
		return "Lang"
	case a.Type != b.Type:
		return "Type"
	}
	return ""
}

func mustJID(s string) jid.JID {
	if s == "" {
		return jid.JID{}
	}
	return jid.MustParse(s)
}

func jstr(j jid.JID) string {
	if j.Equal(jid.JID{}) {
		return ""
	}
	return j.String()
}

func xmlName(space, local string) xml.Name {
	if space == "" {
		return xml.Name{}
	}
	return xml.Name{Space: space, Local: local}
}

// appPayload is the application payload of the composite values
// (struct{stanza.X; Q appPayload}), the way extension packages embed stanzas.
type appPayload struct {
	XMLName xml.Name `xml:"urn:verif:app q"`
	A       string   `xml:"a,attr"`
	NA      string   `xml:"urn:verif:attr na,attr"` // an attribute in a namespace of its own, after a plain one
	B       string   `xml:"b,attr"`
	NB      string   `xml:"urn:verif:attr2 nb,attr"` // a second attribute namespace
	Text    string   `xml:",chardata"`
	Kids    []appKid `xml:"kid"`
}

type appKid struct {
	NK string `xml:"urn:verif:attr nk,attr"` // a namespaced attribute that comes first
	N  string `xml:"n,attr"`
	V  string `xml:",chardata"`
}

func (p appPayload) tokens() []xml.Token {
	st := xml.StartElement{Name: xml.Name{Space: "urn:verif:app", Local: "q"}, Attr: []xml.Attr{
		{Name: xml.Name{Local: "a"}, Value: p.A},
		{Name: xml.Name{Space: "urn:verif:attr", Local: "na"}, Value: p.NA},
		{Name: xml.Name{Local: "b"}, Value: p.B},
		{Name: xml.Name{Space: "urn:verif:attr2", Local: "nb"}, Value: p.NB}}}
	out := []xml.Token{st}
	if p.Text != "" {
		out = append(out, xml.CharData(p.Text))
	}
	for _, k := range p.Kids {
		ks := xml.StartElement{Name: xml.Name{Space: "urn:verif:app", Local: "kid"}, Attr: []xml.Attr{
			{Name: xml.Name{Space: "urn:verif:attr", Local: "nk"}, Value: k.NK},
			{Name: xml.Name{Local: "n"}, Value: k.N}}}
		out = append(out, ks)
		if k.V != "" {
			out = append(out, xml.CharData(k.V))
		}
		out = append(out, ks.End())
	}
	return append(out, st.End())
}

func (p appPayload) equal(o appPayload) bool {
	if p.A != o.A || p.NA != o.NA || p.B != o.B || p.NB != o.NB || p.Text != o.Text || len(p.Kids) != len(o.Kids) {
		return false
	}
	for i := range p.Kids {
		if p.Kids[i] != o.Kids[i] {
			return false
		}
	}
	return true
}

type iqWith struct {
	stanza.IQ
	Q appPayload
}
type msgWith struct {
	stanza.Message
	Q appPayload
}
type presWith struct {
	stanza.Presence
	Q appPayload
}

// stz adapts the three stanza kinds to one oracle.
type stz interface {
	val() any
	core() core5
	wrap(xml.TokenReader) xml.TokenReader
	start() xml.StartElement
	errorReply(stanza.Error) xml.TokenReader
	decode([]byte) (core5, error)
	parseStart(xml.StartElement) (core5, error)
	with(appPayload) any
	decodeWith([]byte) (core5, appPayload, error)
}

type iqS struct{ v stanza.IQ }

func coreIQ(x stanza.IQ) core5 {
	return core5{x.XMLName.Space, x.XMLName.Local, x.ID, jstr(x.To), jstr(x.From), x.Lang, string(x.Type)}
}
func (s iqS) val() any                                  { return s.v }
func (s iqS) core() core5                               { return coreIQ(s.v) }
func (s iqS) wrap(p xml.TokenReader) xml.TokenReader    { return s.v.Wrap(p) }
func (s iqS) start() xml.StartElement                   { return s.v.StartElement() }
func (s iqS) errorReply(e stanza.Error) xml.TokenReader { return s.v.Error(e) }
func (s iqS) decode(b []byte) (core5, error) {
	var o stanza.IQ
	err := xml.Unmarshal(b, &o)
	return coreIQ(o), err
}
func (s iqS) parseStart(se xml.StartElement) (core5, error) {
	o, err := stanza.NewIQ(se)
	return coreIQ(o), err
}
func (s iqS) with(p appPayload) any { return iqWith{IQ: s.v, Q: p} }
func (s iqS) decodeWith(b []byte) (core5, appPayload, error) {
	var o iqWith
	err := xml.Unmarshal(b, &o)
	return coreIQ(o.IQ), o.Q, err
}

type msgS struct{ v stanza.Message }

func coreMsg(x stanza.Message) core5 {
	return core5{x.XMLName.Space, x.XMLName.Local, x.ID, jstr(x.To), jstr(x.From), x.Lang, string(x.Type)}
}
func (s msgS) val() any                                  { return s.v }
func (s msgS) core() core5                               { return coreMsg(s.v) }
func (s msgS) wrap(p xml.TokenReader) xml.TokenReader    { return s.v.Wrap(p) }
func (s msgS) start() xml.StartElement                   { return s.v.StartElement() }
func (s msgS) errorReply(e stanza.Error) xml.TokenReader { return s.v.Error(e) }
func (s msgS) decode(b []byte) (core5, error) {
	var o stanza.Message
	err := xml.Unmarshal(b, &o)
	return coreMsg(o), err
}
func (s msgS) parseStart(se xml.StartElement) (core5, error) {
	o, err := stanza.NewMessage(se)
	return coreMsg(o), err
}
func (s msgS) with(p appPayload) any { return msgWith{Message: s.v, Q: p} }
func (s msgS) decodeWith(b []byte) (core5, appPayload, error) {
	var o msgWith
	err := xml.Unmarshal(b, &o)
	return coreMsg(o.Message), o.Q, err
}

type presS struct{ v stanza.Presence }

func corePres(x stanza.Presence) core5 {
	return core5{x.XMLName.Space, x.XMLName.Local, x.ID, jstr(x.To), jstr(x.From), x.Lang, string(x.Type)}
}
func (s presS) val() any                                  { return s.v }
func (s presS) core() core5                               { return corePres(s.v) }
func (s presS) wrap(p xml.TokenReader) xml.TokenReader    { return s.v.Wrap(p) }
func (s presS) start() xml.StartElement                   { return s.v.StartElement() }
func (s presS) errorReply(e stanza.Error) xml.TokenReader { return s.v.Error(e) }
func (s presS) decode(b []byte) (core5, error) {
	var o stanza.Presence
	err := xml.Unmarshal(b, &o)
	return corePres(o), err
}
func (s presS) parseStart(se xml.StartElement) (core5, error) {
	o, err := stanza.NewPresence(se)
	return corePres(o), err
}
func (s presS) with(p appPayload) any { return presWith{Presence: s.v, Q: p} }
func (s presS) decodeWith(b []byte) (core5, appPayload, error) {
	var o presWith
	err := xml.Unmarshal(b, &o)
	return corePres(o.Presence), o.Q, err
}

func newStz(v Val) stz {
	to, from := mustJID(v.To), mustJID(v.From)
	switch v.Kind {
	case "iq":
		return iqS{stanza.IQ{XMLName: xmlName(v.NS, "iq"), ID: v.ID, To: to, From: from, Lang: v.Lang, Type: stanza.IQType(v.Type)}}
	case "message":
		return msgS{stanza.Message{XMLName: xmlName(v.NS, "message"), ID: v.ID, To: to, From: from, Lang: v.Lang, Type: stanza.MessageType(v.Type)}}
	}
	return presS{stanza.Presence{XMLName: xmlName(v.NS, "presence"), ID: v.ID, To: to, From: from, Lang: v.Lang, Type: stanza.PresenceType(v.Type)}}
}

func (v Val) stanzaError() stanza.Error {
	e := stanza.Error{By: mustJID(v.By), Type: stanza.ErrorType(v.Type), Condition: stanza.Condition(v.Cond)}
	if len(v.Texts) > 0 {
		e.Text = map[string]string{}
		for _, t := range v.Texts {
			e.Text[t.Lang] = t.Value
		}
	}
	return e
}

func (v Val) streamError() stream.Error {
	e := stream.Error{Err: v.Cond, Content: v.Content}
	for _, t := range v.Texts {
		e.Text = append(e.Text, struct {
			Lang  string
			Value string
		}{t.Lang, t.Value})
	}
	if len(v.Payload) > 0 {
		e = e.ApplicationError(readerForm(payloadTokens(v.Payload), v.PayForm))
	}
	return e
}

// ---------------------------------------------------------------------------
// error values reduced to comparable form

type errCore struct {
	Type, Cond, By string
	Texts          string // sorted "lang=value" list without empty values
}

func coreErr(e stanza.Error) errCore {
	var ts []string
	for l, t := range e.Text {
		if t == "" {
			continue // the encoder documents empty texts as omitted
		}
		ts = append(ts, fmt.Sprintf("%q=%q", l, t))
	}
	sort.Strings(ts)
	return errCore{string(e.Type), string(e.Condition), jstr(e.By), strings.Join(ts, ",")}
}

func diffErr(a, b errCore) string {
	switch {
	case a.Type != b.Type:
		return "Type"
	case a.Cond != b.Cond:
		return "Condition"
	case a.By != b.By:
		return "By"
	case a.Texts != b.Texts:
		return "Text"
	}
	return ""
}

type serrCore struct {
	Err, Content string
	Texts        string
}

func coreSErr(e stream.Error) serrCore {
	var ts []string
	for _, t := range e.Text {
		ts = append(ts, fmt.Sprintf("%q=%q", t.Lang, t.Value))
	}
	return serrCore{e.Err, e.Content, strings.Join(ts, ",")}
}

func diffSErr(a, b serrCore) string {
	switch {
	case a.Err != b.Err:
		return "Err"
	case a.Content != b.Content:
		return "Content"
	case a.Texts != b.Texts:
		return "Text"
	}
	return ""
}

// ---------------------------------------------------------------------------
// the oracle

type encPath struct {
	name string
	f    func() ([]byte, error)
}

// unmarshalable is a value whose marshalling fails after part of it has been
// produced (a map field behind ordinary fields): what an application passes to
// Encode by mistake.  The failure is that call's; the next value must be
// encoded as if it had never happened.
type unmarshalable struct {
	XMLName xml.Name       `xml:"urn:verif:report report"`
	Title   string         `xml:"title"`
	Fields  map[string]int `xml:"fields"`
}

var failedMarshals atomic.Int64

// failFirst makes every third call of the marshal paths preceded by a failing
// marshal through the same package.
func failFirst() {
	if failedMarshals.Add(1)%3 != 0 {
		return
	}
	bad := unmarshalable{Title: "quarterly <numbers>", Fields: map[string]int{"a": 1}}
	if r, err := marshal.TokenReader(bad); err == nil {
		collect(r)
	}
	marshal.EncodeXML(xml.NewEncoder(io.Discard), bad)
}

// viaEncodeXML runs the internal/marshal writer path.
func viaEncodeXML(v any) ([]byte, error) {
	failFirst()
	var b bytes.Buffer
	e := xml.NewEncoder(&b)
	if err := marshal.EncodeXML(e, v); err != nil {
		return b.Bytes(), err
	}
	err := e.Flush()
	return b.Bytes(), err
}

func viaTokenReader(v any) ([]byte, error) {
	failFirst()
	r, err := marshal.TokenReader(v)
	if err != nil {
		return nil, err
	}
	return encodeTokens(r)
}

// attrCensus lists every attribute of the document b that is not a namespace
// declaration as "path {namespace}local=value", with prefixes resolved from
// the raw tokens.  stray holds the attributes whose prefix is bound to the
// literal name "xmlns" (or to nothing): namespace declarations that were
// passed through an encoder as if they were ordinary attributes.
func attrCensus(b []byte) (all, stray []string, err error) {
	d := xml.NewDecoder(bytes.NewReader(b))
	var scopes []map[string]string
	var path []string
	lookup := func(p string) (string, bool) {
		for i := len(scopes) - 1; i >= 0; i-- {
			if u, ok := scopes[i][p]; ok {
				return u, true
			}
		}
		if p == "xml" {
			return nsXML, true
		}
		return "", false
	}
	for {
		tok, terr := d.RawToken()
		if terr == io.EOF {
			sort.Strings(all)
			return all, stray, nil
		}
		if terr != nil {
			return all, stray, terr
		}
		switch t := tok.(type) {
		case xml.StartElement:
			sc := map[string]string{}
			for _, a := range t.Attr {
				if a.Name.Space == "xmlns" {
					sc[a.Name.Local] = a.Value
				}
			}
			scopes = append(scopes, sc)
			path = append(path, t.Name.Local)
			for _, a := range t.Attr {
				if a.Name.Space == "xmlns" || (a.Name.Space == "" && a.Name.Local == "xmlns") {
					continue
				}
				ns := ""
				bound := true
				if a.Name.Space != "" {
					ns, bound = lookup(a.Name.Space)
				}
				desc := fmt.Sprintf("%s {%s}%s=%q", strings.Join(path, "/"), ns, a.Name.Local, a.Value)
				all = append(all, desc)
				if !bound || ns == "xmlns" {
					stray = append(stray, fmt.Sprintf("%s:%s=%q on <%s>", a.Name.Space, a.Name.Local, a.Value, t.Name.Local))
				}
			}
		case xml.EndElement:
			if len(scopes) > 0 {
				scopes = scopes[:len(scopes)-1]
				path = path[:len(path)-1]
			}
		}
	}
}

// sameAttributes is the attribute part of law A for the internal/marshal
// paths, which re-encode what xml.Marshal produced: the output must carry
// exactly the attributes of the xml.Marshal output (compared after parsing,
// prefixes resolved), and no namespace declaration may survive as an attribute.
func sameAttributes(c *core.Case, path string, got, ref []byte) bool {
	ga, stray, gerr := attrCensus(got)
	ra, _, rerr := attrCensus(ref)
	if gerr != nil || rerr != nil {
		return true // not well-formed: reported by law W
	}
	c.Count("attribute_sets_compared", 1)
	if len(stray) > 0 {
		c.Violate("codec:A:stanza:"+path+":stray-namespace-attribute", "the %s output carries namespace declarations as ordinary attributes: %v\n%s: %q\nxml.Marshal: %q", path, stray, path, got, ref)
		return false
	}
	if strings.Join(ga, "\n") != strings.Join(ra, "\n") {
		c.Violate("codec:A:stanza:"+path+":attributes", "the %s output and the xml.Marshal output have different attributes after parsing:\n%v\nvs\n%v\n%s: %q\nxml.Marshal: %q", path, ga, ra, path, got, ref)
		return false
	}
	return true
}

// firstStart returns the first start element of the document b as a decoder
// yields it.
func firstStart(b []byte) (xml.StartElement, error) {
	d := xml.NewDecoder(bytes.NewReader(b))
	for {
		tok, err := d.Token()
		if err != nil {
			return xml.StartElement{}, err
		}
		if se, ok := tok.(xml.StartElement); ok {
			return se.Copy(), nil
		}
	}
}

// crossDecode is law D: what one encoding path wrote is read by the other
// decoder as well.  Every path's output was decoded with xml.Unmarshal; here
// its start element is parsed with New{IQ,Message,Presence} (what the session,
// the multiplexer and a peer's library look at) and must give the original
// value too, and the language must be the attribute xml:lang, not an
// unqualified or otherwise qualified "lang".
func crossDecode(c *core.Case, s stz, typ, path string, b []byte, orig core5, v Val) {
	se, err := firstStart(b)
	if err != nil {
		return
	}
	for _, a := range se.Attr {
		if a.Name.Local == "lang" && a.Name.Space != nsXML {
			c.Violate("codec:D:"+typ+":"+path+":lang-attribute-namespace", "the %s output carries the language as attribute {%s}lang, not xml:lang\n%q", path, a.Name.Space, b)
			return
		}
	}
	var d core5
	var derr error
	if c.Guard("New"+typ, func() { d, derr = s.parseStart(se) }) {
		return
	}
	c.Count("cross_decoded_outputs", 1)
	if v.Lang != "" {
		c.Count("cross_decoded_outputs_with_language", 1)
	}
	if derr != nil {
		c.Violate("codec:D:"+typ+":"+path+":start-unparsable", "New%s does not parse the start element of the %s output: %v\n%q", typ, path, derr, b)
		return
	}
	if v.Hostile {
		return
	}
	if f := diffCore(d, orig, false); f != "" {
		c.Violate("codec:D:"+typ+":"+path+":"+f, "New%s on the start element of the %s output differs from the value in %s: got %+v, want %+v\n%q", typ, path, f, d, orig, b)
	}
}

// wellFormed is law W: b parses strictly into exactly one element.
func wellFormed(c *core.Case, typ, path string, b []byte, err error, rootLocal string) *xmltree.Node {
	if err != nil {
		c.Violate("codec:W:"+typ+":"+path+":encode-error", "%s of the %s value fails: %v (output so far %q)", path, typ, err, b)
		return nil
	}
	n, perr := xmltree.ParseOne(b)
	if perr != nil {
		c.Violate("codec:W:"+typ+":"+path+":malformed", "%s of the %s value is not one well-formed element: %v\n%q", path, typ, perr, b)
		return nil
	}
	if n.Name.Local != rootLocal {
		c.Violate("codec:W:"+typ+":"+path+":root", "%s of the %s value has root %s, want local name %s\n%q", path, typ, n.Name.Local, rootLocal, b)
		return nil
	}
	c.Count("wellformed_outputs", 1)
	return n
}

func fieldsMask(v Val) string {
	b := func(x bool) string {
		if x {
			return "1"
		}
		return "0"
	}
	cls := func(s string) string {
		switch {
		case s == "":
			return "e"
		case !representable(s):
			return "h"
		case strings.ContainsAny(s, "<>&'\""):
			return "s"
		case len(s) != len([]rune(s)):
			return "u"
		}
		return "p"
	}
	txt := ""
	for _, t := range v.Texts {
		txt += cls(t.Lang) + cls(t.Value)
	}
	return v.Kind + "/" + v.NS + "/" + v.Type + "/" + cls(v.ID) + b(v.To != "") + b(v.From != "") + cls(v.Lang) + b(v.By != "") + cls(v.Content) + "/" + txt + "/" + fmt.Sprint(len(v.Payload))
}

func check(c *core.Case, v Val) {
	c.Sample(v.sample())
	switch v.Kind {
	case "iq", "message", "presence":
		checkStanza(c, v)
		checkSnapshotStanza(c, v)
	case "stanza-error":
		checkStanzaError(c, v)
		checkSnapshotStanzaError(c, v)
	case "stream-error":
		checkStreamError(c, v)
		checkSnapshotStreamError(c, v)
	}
	c.Sig("%s", fieldsMask(v))
}

func countTexts(c *core.Case, ss ...string) {
	for _, s := range ss {
		switch {
		case s == "":
			c.Count("empty_fields", 1)
		case !representable(s):
			c.Count("texts_unrepresentable", 1)
		default:
			if strings.ContainsAny(s, "<>&'\"") {
				c.Count("texts_xml_special", 1)
			}
			if len(s) != len([]rune(s)) {
				c.Count("texts_non_ascii", 1)
			}
			if strings.ContainsAny(s, "\t\n\r\x7f") {
				c.Count("texts_control_adjacent", 1)
			}
		}
	}
}

func checkStanza(c *core.Case, v Val) {
	typ := map[string]string{"iq": "IQ", "message": "Message", "presence": "Presence"}[v.Kind]
	nsName := map[string]string{"": "none", "jabber:client": "client", "jabber:server": "server"}[v.NS]
	c.Count(v.Kind+"_ns_"+nsName, 1)
	countTexts(c, v.ID, v.Lang)
	if v.Hostile {
		c.Count("hostile_values", 1)
	}
	var s stz
	if c.Guard("build", func() { s = newStz(v) }) {
		return
	}
	orig := s.core()
	orig.Local = v.Kind

	// --- W, A, R over the encoding paths
	paths := []encPath{
		{"xml.Marshal", func() ([]byte, error) { return xml.Marshal(s.val()) }},
		{"Wrap", func() ([]byte, error) { return encodeTokens(s.wrap(nil)) }},
		{"marshal.TokenReader", func() ([]byte, error) { return viaTokenReader(s.val()) }},
		{"marshal.EncodeXML", func() ([]byte, error) { return viaEncodeXML(s.val()) }},
	}
	var ref core5
	var refBytes []byte
	haveRef := false
	for _, p := range paths {
		var b []byte
		var err error
		if c.Guard(p.name, func() { b, err = p.f() }) {
			continue
		}
		if wellFormed(c, typ, p.name, b, err, v.Kind) == nil {
			continue
		}
		if strings.HasPrefix(p.name, "marshal.") && refBytes != nil {
			sameAttributes(c, p.name, b, refBytes)
		}
		var d core5
		var derr error
		if c.Guard("decode", func() { d, derr = s.decode(b) }) {
			continue
		}
		if derr != nil {
			c.Violate("codec:R:"+typ+":"+p.name+":decode-error", "decoding the %s output fails: %v\n%q", p.name, derr, b)
			continue
		}
		c.Count("decoded_outputs", 1)
		crossDecode(c, s, typ, p.name, b, orig, v)
		generic := strings.HasPrefix(p.name, "marshal.")
		keyTyp := typ
		if generic {
			keyTyp = "stanza" // one key per adapter defect, not one per stanza kind
		}
		if p.name == "xml.Marshal" {
			ref, haveRef = d, true
			refBytes = b
			if v.NS != "" && d.Space == "" {
				// encoding/xml ignores the value of XMLName when the tag names the
				// element, so the standard marshaller cannot carry the namespace;
				// the session supplies it.  Observed, not judged.
				c.Count("xmlname_space_not_carried_by_struct_tags", 1)
			}
			if !v.Hostile {
				if f := diffCore(d, orig, false); f != "" {
					c.Violate("codec:R:"+typ+":xml.Marshal:"+f, "decode(xml.Marshal(v)) differs from v in %s: got %+v, want %+v\n%q", f, d, orig, b)
				} else {
					c.Count("roundtrips", 1)
				}
			}
			continue
		}
		if p.name == "Wrap" && d.Space != v.NS {
			c.Violate("codec:A:"+typ+":Wrap:XMLName.Space", "Wrap(nil) gives an element in namespace %q, the value says %q\n%q", d.Space, v.NS, b)
		}
		if !haveRef {
			continue
		}
		if f := diffCore(d, ref, false); f != "" {
			c.Violate("codec:A:"+keyTyp+":"+p.name+":"+f, "%s and xml.Marshal decode to different values (%s): %+v vs %+v\n%s: %q", p.name, f, d, ref, p.name, b)
		} else {
			c.Count("agreements", 1)
		}
	}

	// --- start-element conversion is the inverse of start-element parsing
	var back core5
	var berr error
	var se xml.StartElement
	if !c.Guard("StartElement", func() { se = s.start(); back, berr = s.parseStart(se) }) {
		want := orig
		want.Space = v.NS
		c.Count("start_inverse_checks", 1)
		if berr != nil {
			c.Violate("codec:start:"+typ+":error", "New%s(v.StartElement()) fails: %v (start %s)", typ, berr, tokStr(se))
		} else if f := diffCore(back, want, true); f != "" {
			c.Violate("codec:start:"+typ+":"+f, "New%s(v.StartElement()) differs from v in %s: got %+v, want %+v (start %s)", typ, f, back, want, tokStr(se))
		}
		// namespace-qualified attributes named like the stanza attributes are not
		// the stanza's id, type, to, from (or xml:lang)
		if berr == nil {
			q := func(space, local, val string) xml.Attr {
				return xml.Attr{Name: xml.Name{Space: space, Local: local}, Value: val}
			}
			own := se.Name.Space
			if own == "" {
				own = "jabber:client"
			}
			seq := se.Copy()
			seq.Attr = append([]xml.Attr{q("urn:verif:q", "type", "error"), q(own, "id", "qualified"), q("urn:verif:q", "lang", "qq")}, seq.Attr...)
			seq.Attr = append(seq.Attr, q("urn:verif:q", "to", "q@qualified.example/to"), q(own, "from", "q@qualified.example/from"), q(own, "type", "unavailable"), q("urn:verif:q", "id", "qualified2"))
			var got core5
			var qerr error
			if !c.Guard("New"+typ, func() { got, qerr = s.parseStart(seq) }) {
				c.Count("qualified_attribute_checks", 1)
				if qerr != nil {
					c.Violate("codec:start:"+typ+":qualified-attribute:error", "New%s fails on a start element that also carries qualified attributes: %v (%s)", typ, qerr, tokStr(seq))
				} else if f := diffCore(got, back, true); f != "" {
					c.Violate("codec:start:"+typ+":qualified-attribute:"+f, "New%s takes a namespace-qualified attribute for the stanza's %s: got %+v, want %+v (%s)", typ, f, got, back, tokStr(seq))
				}
			}
		}
		// and the other way round on the canonical start element
		var se2 xml.StartElement
		if !c.Guard("StartElement", func() {
			se2 = newStz(Val{Kind: v.Kind, NS: back.Space, ID: back.ID, To: back.To, From: back.From, Lang: back.Lang, Type: back.Type}).start()
		}) && berr == nil {
			if d := xmltree.Diff(xmltree.FromStart(se), xmltree.FromStart(se2), xmltree.Options{}); d != "" {
				c.Violate("codec:start:"+typ+":reparse", "StartElement(New%s(se)) differs from se: %s", typ, d)
			}
		}
	}

	// --- Wrap: right kind, payload unchanged
	pay := payloadTokens(v.Payload)
	if len(v.Payload) > 0 {
		c.Count("app_payloads", 1)
	}
	var toks []xml.Token
	var err error
	if !c.Guard("Wrap", func() { toks, err = collect(s.wrap(reader(pay))) }) {
		c.Count("wrap_checks", 1)
		checkWrapped(c, typ, "Wrap", toks, err, s.start(), pay)
		if err == nil {
			b, eerr := encodeTokens(reader(toks))
			if n := wellFormed(c, typ, "Wrap+payload", b, eerr, v.Kind); n != nil && !v.Hostile {
				want, _ := xmltree.FromTokens(&sliceReader{toks: pay})
				got := n.Children()
				if len(got) != len(want) {
					c.Violate("codec:wrap:"+typ+":Wrap:children", "wrapped stanza has %d children, payload has %d\n%q", len(got), len(want), b)
				} else {
					for i := range want {
						if d := xmltree.Diff(got[i], want[i], xmltree.Options{}); d != "" {
							c.Violate("codec:wrap:"+typ+":Wrap:child-tree", "payload child %d changed by encoding the wrapped stanza: %s\n%q", i, d, b)
							break
						}
					}
				}
			}
		}
	}

	// --- Result (IQ only): type result, addresses swapped, payload unchanged
	if iq, ok := s.(iqS); ok && len(v.Payload) > 0 {
		one := payloadTokens(v.Payload[:1])
		if !c.Guard("Result", func() { toks, err = collect(iq.v.Result(reader(one))) }) {
			c.Count("result_checks", 1)
			want := iq.v
			want.Type = stanza.ResultIQ
			want.To, want.From = iq.v.From, iq.v.To
			checkWrapped(c, typ, "Result", toks, err, want.StartElement(), one)
			checkReplyStart(c, typ, "Result", s, toks, orig, v.NS, "result")
		}
	}

	checkHelperPayloads(c, v, s, typ)
	checkEchoedError(c, v, s, typ)

	// --- Error: type error, addresses swapped, the error unchanged
	if v.ErrVal != nil {
		e := v.ErrVal.stanzaError()
		var etoks []xml.Token
		if !c.Guard("Error.TokenReader", func() { etoks, err = collect(e.TokenReader()) }) && err == nil {
			if !c.Guard("Error", func() { toks, err = collect(s.errorReply(e)) }) {
				c.Count("error_reply_checks", 1)
				if err != nil || len(toks) < 2 {
					c.Violate("codec:wrap:"+typ+":Error:tokens", "%s.Error(e) token stream: %d tokens, err %v", typ, len(toks), err)
				} else {
					if d := tokensDiff(toks[1:len(toks)-1], etoks); d != "" {
						c.Violate("codec:wrap:"+typ+":Error:payload", "%s.Error(e) does not contain e.TokenReader() unchanged: %s", typ, d)
					}
					checkReplyStart(c, typ, "Error", s, toks, orig, v.NS, "error")
					// the error parsers read it back
					var ue stanza.Error
					var uerr error
					if !c.Guard("UnmarshalError", func() { ue, uerr = stanza.UnmarshalError(reader(toks[1:])) }) {
						c.Count("unmarshal_error_checks", 1)
						if uerr != nil {
							c.Violate("codec:R:Error:UnmarshalError:decode-error", "UnmarshalError over %s.Error(e) fails: %v", typ, uerr)
						} else if f := diffErr(coreErr(ue), coreErr(e)); f != "" && !v.Hostile {
							c.Violate("codec:R:Error:UnmarshalError:"+f, "UnmarshalError over %s.Error(e) differs from e in %s: got %+v, want %+v", typ, f, coreErr(ue), coreErr(e))
						}
					}
					if st, ok := toks[0].(xml.StartElement); ok && v.Kind == "iq" {
						var uiq stanza.IQ
						if !c.Guard("UnmarshalIQError", func() { uiq, uerr = stanza.UnmarshalIQError(reader(toks[1:]), st) }) {
							c.Count("unmarshal_iq_error_checks", 1)
							ge, isErr := uerr.(stanza.Error)
							switch {
							case !isErr:
								c.Violate("codec:R:Error:UnmarshalIQError:decode-error", "UnmarshalIQError over IQ.Error(e) returns %v (%T), want the stanza error", uerr, uerr)
							case !v.Hostile && diffErr(coreErr(ge), coreErr(e)) != "":
								c.Violate("codec:R:Error:UnmarshalIQError:"+diffErr(coreErr(ge), coreErr(e)), "UnmarshalIQError error %+v, want %+v", coreErr(ge), coreErr(e))
							case uiq.Type != stanza.ErrorIQ || jstr(uiq.To) != orig.From || jstr(uiq.From) != orig.To || uiq.ID != orig.ID:
								c.Violate("codec:wrap:IQ:UnmarshalIQError:start", "UnmarshalIQError IQ %+v does not match the reply to %+v", coreIQ(uiq), orig)
							}
						}
					}
				}
			}
		}
	}

	// --- composite value (embedded stanza + application payload): both paths agree and round-trip
	ap := appPayload{A: v.ID, NA: v.ID, B: v.Type, NB: v.Lang, Text: v.Lang}
	if v.ErrVal != nil {
		for _, t := range v.ErrVal.Texts {
			ap.Kids = append(ap.Kids, appKid{NK: t.Value, N: t.Lang, V: t.Value})
		}
	}
	var mb, tb []byte
	var merr, terr error
	if !c.Guard("xml.Marshal(composite)", func() { mb, merr = xml.Marshal(s.with(ap)) }) &&
		!c.Guard("Wrap(composite)", func() { tb, terr = encodeTokens(s.wrap(reader(ap.tokens()))) }) {
		c.Count("composite_checks", 1)
		okM := wellFormed(c, typ, "xml.Marshal(composite)", mb, merr, v.Kind) != nil
		if okM {
			crossDecode(c, s, typ, "xml.Marshal(composite)", mb, orig, v)
		}
		okT := wellFormed(c, typ, "Wrap(composite)", tb, terr, v.Kind) != nil
		if okM && okT {
			var mc, tc core5
			var mp, tp appPayload
			var e1, e2 error
			if !c.Guard("decode(composite)", func() { mc, mp, e1 = s.decodeWith(mb); tc, tp, e2 = s.decodeWith(tb) }) {
				// encoding/xml does not fill in the XMLName of an embedded struct
				mc.Local, tc.Local = v.Kind, v.Kind
				switch {
				case e1 != nil || e2 != nil:
					c.Violate("codec:R:"+typ+":composite:decode-error", "decoding a composite value fails: %v / %v\n%q\n%q", e1, e2, mb, tb)
				case diffCore(mc, tc, false) != "" || !mp.equal(tp):
					c.Violate("codec:A:"+typ+":composite:"+orDefault(diffCore(mc, tc, false), "payload"), "xml.Marshal and Wrap of a stanza with payload decode differently: %+v %+v vs %+v %+v\n%q\n%q", mc, mp, tc, tp, mb, tb)
				case !v.Hostile && (diffCore(mc, orig, false) != "" || !mp.equal(ap)):
					c.Violate("codec:R:"+typ+":composite:"+orDefault(diffCore(mc, orig, false), "payload"), "a stanza with payload does not round-trip: got %+v %+v, want %+v %+v\n%q", mc, mp, orig, ap, mb)
				}
				// the internal/marshal adapters on the same composite value
				if e1 == nil {
					for _, p := range []encPath{
						{"marshal.TokenReader", func() ([]byte, error) { return viaTokenReader(s.with(ap)) }},
						{"marshal.EncodeXML", func() ([]byte, error) { return viaEncodeXML(s.with(ap)) }},
					} {
						var b []byte
						var err error
						if c.Guard(p.name+"(composite)", func() { b, err = p.f() }) {
							continue
						}
						if wellFormed(c, "stanza", p.name+"(composite)", b, err, v.Kind) == nil {
							continue
						}
						if sameAttributes(c, p.name, b, mb) {
							c.Count("composite_attribute_sets_agree_two_attr_namespaces", 1)
						}
						var dc core5
						var dp appPayload
						var derr error
						if c.Guard("decode(composite)", func() { dc, dp, derr = s.decodeWith(b) }) {
							continue
						}
						dc.Local = v.Kind
						switch {
						case derr != nil:
							c.Violate("codec:R:stanza:"+p.name+":composite-decode-error", "decoding the %s output of a stanza with payload fails: %v\n%q", p.name, derr, b)
						case diffCore(dc, mc, false) != "":
							c.Violate("codec:A:stanza:"+p.name+":"+diffCore(dc, mc, false), "%s and xml.Marshal of a stanza with payload decode differently (%s): %+v vs %+v\n%q", p.name, diffCore(dc, mc, false), dc, mc, b)
						case !dp.equal(mp):
							c.Violate("codec:A:stanza:"+p.name+":payload", "%s and xml.Marshal of a stanza with payload decode to different payloads: %+v vs %+v\n%q", p.name, dp, mp, b)
						default:
							c.Count("agreements", 1)
						}
					}
				}
			}
		}
	}
}

func orDefault(s, d string) string {
	if s == "" {
		return d
	}
	return s
}

// checkWrapped: toks = start, payload tokens unchanged, matching end.
func checkWrapped(c *core.Case, typ, helper string, toks []xml.Token, err error, wantStart xml.StartElement, pay []xml.Token) {
	if err != nil || len(toks) < 2 {
		c.Violate("codec:wrap:"+typ+":"+helper+":tokens", "%s token stream: %d tokens, err %v", helper, len(toks), err)
		return
	}
	st, ok := toks[0].(xml.StartElement)
	end, ok2 := toks[len(toks)-1].(xml.EndElement)
	if !ok || !ok2 || end.Name != st.Name {
		c.Violate("codec:wrap:"+typ+":"+helper+":frame", "%s does not produce one element: first %s, last %s", helper, tokStr(toks[0]), tokStr(toks[len(toks)-1]))
		return
	}
	if d := xmltree.Diff(xmltree.FromStart(st), xmltree.FromStart(wantStart), xmltree.Options{}); d != "" || st.Name != wantStart.Name {
		c.Violate("codec:wrap:"+typ+":"+helper+":start", "%s start element %s, want %s (%s)", helper, tokStr(st), tokStr(wantStart), d)
	}
	if d := tokensDiff(toks[1:len(toks)-1], pay); d != "" {
		c.Violate("codec:wrap:"+typ+":"+helper+":payload", "%s changed the payload: %s", helper, d)
	}
}

// checkReplyStart: the reply's start element parses to the original with to
// and from swapped and the given type.
func checkReplyStart(c *core.Case, typ, helper string, s stz, toks []xml.Token, orig core5, ns, wantType string) {
	if len(toks) == 0 {
		return
	}
	st, ok := toks[0].(xml.StartElement)
	if !ok {
		return
	}
	var got core5
	var err error
	if c.Guard("parse reply start", func() { got, err = s.parseStart(st) }) {
		return
	}
	want := orig
	want.Space, want.Type = ns, wantType
	want.To, want.From = orig.From, orig.To
	if err != nil {
		c.Violate("codec:wrap:"+typ+":"+helper+":start-unparsable", "%s start %s does not parse: %v", helper, tokStr(st), err)
		return
	}
	if f := diffCore(got, want, true); f != "" {
		if f == "To" || f == "From" {
			f = "addresses"
		}
		c.Violate("codec:wrap:"+typ+":"+helper+":"+f, "%s reply is %+v, want %+v (to/from swapped, type %s)", helper, got, want, wantType)
	}
	if got.To != "" || got.From != "" {
		if got.To != got.From {
			c.Count("replies_with_distinct_addresses", 1)
		}
	}
}

func checkStanzaError(c *core.Case, v Val) {
	c.Count("stanza_error", 1)
	if v.Hostile {
		c.Count("hostile_values", 1)
	}
	if len(v.Texts) > 1 {
		c.Count("multi_language_texts", 1)
	}
	for _, t := range v.Texts {
		countTexts(c, t.Value)
	}
	var e stanza.Error
	if c.Guard("build", func() { e = v.stanzaError() }) {
		return
	}
	orig := coreErr(e)
	paths := []encPath{
		{"xml.Marshal", func() ([]byte, error) { return xml.Marshal(e) }},
		{"TokenReader", func() ([]byte, error) { return encodeTokens(e.TokenReader()) }},
		{"WriteXML", func() ([]byte, error) {
			var b bytes.Buffer
			enc := xml.NewEncoder(&b)
			if _, err := e.WriteXML(enc); err != nil {
				return b.Bytes(), err
			}
			err := enc.Flush()
			return b.Bytes(), err
		}},
		{"marshal.TokenReader", func() ([]byte, error) { return viaTokenReader(e) }},
		{"marshal.EncodeXML", func() ([]byte, error) { return viaEncodeXML(e) }},
		{"xml.Marshal(pointer)", func() ([]byte, error) { return xml.Marshal(&e) }},
	}
	var ref errCore
	haveRef := false
	for _, p := range paths {
		var b []byte
		var err error
		if c.Guard(p.name, func() { b, err = p.f() }) {
			continue
		}
		n := wellFormed(c, "Error", p.name, b, err, "error")
		if n == nil {
			continue
		}
		var d stanza.Error
		var derr error
		if c.Guard("decode", func() { derr = xml.Unmarshal(b, &d) }) {
			continue
		}
		if derr != nil {
			c.Violate("codec:R:Error:"+p.name+":decode-error", "decoding the %s output fails: %v\n%q", p.name, derr, b)
			continue
		}
		c.Count("decoded_outputs", 1)
		dc := coreErr(d)
		if p.name == "xml.Marshal" {
			ref, haveRef = dc, true
			if !v.Hostile {
				if f := diffErr(dc, orig); f != "" {
					c.Violate("codec:R:Error:xml.Marshal:"+f, "decode(xml.Marshal(e)) differs from e in %s: got %+v, want %+v\n%q", f, dc, orig, b)
				} else {
					c.Count("roundtrips", 1)
				}
			}
			continue
		}
		if haveRef {
			if f := diffErr(dc, ref); f != "" {
				c.Violate("codec:A:Error:"+p.name+":"+f, "%s and xml.Marshal decode to different values (%s): %+v vs %+v\n%q", p.name, f, dc, ref, b)
			} else {
				c.Count("agreements", 1)
			}
		}
	}

	// An error inside a value that goes the encoding/xml way (a stanza struct
	// with an error field, what Encode and the encoder handed to handlers are
	// given): its condition and texts are siblings in a namespace that is not
	// their parent's.  Both internal/marshal paths must write what xml.Marshal
	// writes, as far as the error read back from it is concerned.
	if !v.Hostile {
		inIQ := struct {
			XMLName xml.Name     `xml:"jabber:client iq"`
			Type    string       `xml:"type,attr"`
			Err     stanza.Error `xml:"error"`
			Items   []struct {
				XMLName xml.Name `xml:"urn:c13:items item"`
				V       string   `xml:"v,attr"`
			}
		}{Type: "error", Err: e}
		for i := 0; i < c.Index%4; i++ {
			inIQ.Items = append(inIQ.Items, struct {
				XMLName xml.Name `xml:"urn:c13:items item"`
				V       string   `xml:"v,attr"`
			}{V: fmt.Sprint(i)})
		}
		type back struct {
			XMLName xml.Name     `xml:"iq"`
			Err     stanza.Error `xml:"error"`
			Items   []struct {
				V string `xml:"v,attr"`
			} `xml:"urn:c13:items item"`
		}
		var ref back
		refB, rerr := xml.Marshal(inIQ)
		if rerr == nil && xml.Unmarshal(refB, &ref) == nil {
			for _, p := range []encPath{
				{"marshal.TokenReader", func() ([]byte, error) { return viaTokenReader(inIQ) }},
				{"marshal.EncodeXML", func() ([]byte, error) { return viaEncodeXML(inIQ) }},
			} {
				var b []byte
				var err error
				if c.Guard(p.name+"(stanza with error field)", func() { b, err = p.f() }) || err != nil {
					continue
				}
				var got back
				if derr := xml.Unmarshal(b, &got); derr != nil {
					c.Violate("codec:A:Error:in-stanza:"+p.name+":decode-error", "a stanza struct with an error field written by %s does not decode: %v\n%q", p.name, derr, b)
					continue
				}
				c.Count("stanza_structs_with_error_field_through_internal_marshal", 1)
				if f := diffErr(coreErr(got.Err), coreErr(ref.Err)); f != "" || len(got.Items) != len(ref.Items) {
					c.Violate("codec:A:Error:in-stanza:"+p.name, "a stanza struct with an error field and %d foreign children: %s and xml.Marshal decode to different values (%s; %d vs %d children)\n%q\n%q", len(inIQ.Items), p.name, f, len(got.Items), len(ref.Items), b, refB)
				}
			}
		}
	}

	// An error that was received is an error like any other: decoded from a
	// stanza of one content namespace and sent on in a stanza of the other (a
	// server relaying between c2s and s2s streams), or written by the standard
	// marshaller, its element belongs to the stanza it is put in.
	if !v.Hostile {
		if b, err := encodeTokens(e.TokenReader()); err == nil {
			from, to := stanza.NSClient, stanza.NSServer
			if c.Index%2 == 1 {
				from, to = to, from
			}
			var rcv struct {
				XMLName xml.Name     `xml:"iq"`
				Err     stanza.Error `xml:"error"`
			}
			src := `<iq xmlns="` + from + `" type="error" id="x">` + string(b) + `</iq>`
			var derr error
			if !c.Guard("decode(received error)", func() { derr = xml.Unmarshal([]byte(src), &rcv) }) && derr == nil {
				errNS := func(out []byte) (string, bool) {
					n, perr := xmltree.ParseOne(out)
					if perr != nil {
						return perr.Error(), false
					}
					for _, ch := range n.Children() {
						if ch.Name.Local == "error" {
							return ch.Name.Space, true
						}
					}
					return "no <error/> child", false
				}
				var out []byte
				var oerr error
				if !c.Guard("IQ.Error(received error)", func() {
					out, oerr = encodeTokens(stanza.IQ{XMLName: xml.Name{Space: to, Local: "iq"}, Type: stanza.ErrorIQ, ID: "y"}.Error(rcv.Err))
				}) && oerr == nil {
					c.Count("received_errors_sent_on_in_the_other_namespace", 1)
					if ns, ok := errNS(out); !ok || ns != to {
						c.Violate("codec:wrap:Error:resent:namespace", "a stanza error decoded from a %s stanza and put into a %s stanza by IQ.Error has its <error/> in %q: %s", from, to, ns, out)
						return
					}
				}
				// the standard marshaller leaves the stanza unqualified: so is the error
				wrapper := struct {
					XMLName xml.Name     `xml:"iq"`
					Type    string       `xml:"type,attr"`
					Err     stanza.Error `xml:"error"`
				}{Type: "error", Err: rcv.Err}
				if !c.Guard("xml.Marshal(received error)", func() { out, oerr = xml.Marshal(wrapper) }) && oerr == nil {
					if ns, ok := errNS(out); !ok || ns != "" {
						c.Violate("codec:wrap:Error:resent:namespace", "a stanza error decoded from a %s stanza and written by xml.Marshal inside an unqualified <iq/> has its <error/> in %q: %s", from, ns, out)
						return
					}
				}
			}
		}
	}

	// Encoding is a read-only operation: the value (its Text map is shared by
	// every copy of it) is what it was before the six encoders ran, ...
	textChanged := func() string {
		if len(e.Text) != len(v.Texts) {
			return fmt.Sprintf("%d texts before, %d after", len(v.Texts), len(e.Text))
		}
		for _, t := range v.Texts {
			if got, ok := e.Text[t.Lang]; !ok || got != t.Value {
				return fmt.Sprintf("text %q was %q, is %q (present=%v)", t.Lang, t.Value, got, ok)
			}
		}
		return ""
	}
	if d := textChanged(); d != "" {
		c.Violate("codec:I:Error:encode:value-changed", "encoding a stanza.Error changed its Text map: %s", d)
		return
	}
	c.Count("stanza_errors_unchanged_by_encoding", 1)
	// ... and so two goroutines may encode one value (a kept-around error that
	// several sessions send) at the same time: the children run under the race
	// detector, and the results must be the sequential ones.
	if c.Index%8 == 0 && len(e.Text) > 0 {
		want, werr := xml.Marshal(e)
		var wg sync.WaitGroup
		bad := make([]string, 4)
		for g := 0; g < 4; g++ {
			g := g
			e2 := e // a copy shares the map
			wg.Add(1)
			go func() {
				defer wg.Done()
				c.Guard("concurrent encode", func() {
					for n := 0; n < 20; n++ {
						var b []byte
						var err error
						if (g+n)%2 == 0 {
							b, err = xml.Marshal(e2)
						} else {
							b, err = encodeTokens(e2.TokenReader())
							if err == nil && werr == nil {
								continue // (another path: compared with xml.Marshal by law A above)
							}
						}
						if (err == nil) != (werr == nil) || (err == nil && !bytes.Equal(b, want)) {
							bad[g] = fmt.Sprintf("got %q (err %v), sequentially %q (err %v)", b, err, want, werr)
							return
						}
					}
				})
			}()
		}
		wg.Wait()
		for _, b := range bad {
			if b != "" {
				c.Violate("codec:I:Error:encode:concurrent", "two goroutines encoding copies of one stanza.Error: %s", b)
				return
			}
		}
		if d := textChanged(); d != "" {
			c.Violate("codec:I:Error:encode:value-changed", "encoding a stanza.Error concurrently changed its Text map: %s", d)
			return
		}
		c.Count("stanza_errors_encoded_by_several_goroutines_at_once", 1)
	}

	// Wrap: the application condition follows the condition and texts, unchanged
	if len(v.Payload) > 0 {
		c.Count("app_payloads", 1)
		if v.BorrowedCond {
			c.Count("stanza_errors_whose_payload_is_named_like_another_defined_condition", 1)
		}
		pay := payloadTokens(v.Payload)
		var plain, with []xml.Token
		var e1, e2 error
		if !c.Guard("Error.Wrap", func() { plain, e1 = collect(e.TokenReader()); with, e2 = collect(e.Wrap(reader(pay))) }) {
			c.Count("wrap_checks", 1)
			if e1 != nil || e2 != nil || len(plain) < 2 || len(with) != len(plain)+len(pay) {
				c.Violate("codec:wrap:Error:Wrap:tokens", "Error.Wrap(payload): %d tokens (err %v), without payload %d (err %v), payload %d", len(with), e2, len(plain), e1, len(pay))
			} else {
				k := len(plain) - 1
				if d := tokensDiff(with[:k], plain[:k]); d != "" {
					c.Violate("codec:wrap:Error:Wrap:head", "Error.Wrap(payload) changes the condition/text part: %s", d)
				}
				if d := tokensDiff(with[k:len(with)-1], pay); d != "" {
					c.Violate("codec:wrap:Error:Wrap:payload", "Error.Wrap changed the payload: %s", d)
				}
				b, eerr := encodeTokens(reader(with))
				if wellFormed(c, "Error", "Wrap+payload", b, eerr, "error") != nil {
					var d stanza.Error
					var derr error
					if !c.Guard("decode", func() { derr = xml.Unmarshal(b, &d) }) {
						if derr != nil {
							c.Violate("codec:R:Error:Wrap+payload:decode-error", "decoding an error with an application condition fails: %v\n%q", derr, b)
						} else if f := diffErr(coreErr(d), orig); f != "" && !v.Hostile {
							c.Violate("codec:R:Error:Wrap+payload:"+f, "an error with an application condition decodes to %+v, want %+v\n%q", coreErr(d), orig, b)
						}
					}
				}
			}
		}
	}
}

func checkStreamError(c *core.Case, v Val) {
	c.Count("stream_error", 1)
	if v.Hostile {
		c.Count("hostile_values", 1)
	}
	if len(v.Texts) > 1 {
		c.Count("multi_language_texts", 1)
	}
	for _, t := range v.Texts {
		countTexts(c, t.Value)
	}
	countTexts(c, v.Content)
	canonical := v.Content == "" || v.Cond == "see-other-host"
	if !canonical {
		c.Count("stream_error_content_on_other_condition_not_judged_for_roundtrip", 1)
	}
	det := "plain"
	if len(v.Payload) > 0 {
		det = "app-payload"
		c.Count("app_payloads", 1)
	}
	bare := v
	bare.Payload = nil
	orig := coreSErr(bare.streamError())

	// the application payload reader is consumed by marshalling, so every path
	// gets a fresh value
	paths := []encPath{
		{"xml.Marshal", func() ([]byte, error) { return xml.Marshal(v.streamError()) }},
		{"TokenReader", func() ([]byte, error) { return encodeTokens(v.streamError().TokenReader()) }},
		{"WriteXML", func() ([]byte, error) {
			var b bytes.Buffer
			enc := xml.NewEncoder(&b)
			if _, err := v.streamError().WriteXML(enc); err != nil {
				return b.Bytes(), err
			}
			err := enc.Flush()
			return b.Bytes(), err
		}},
		{"marshal.TokenReader", func() ([]byte, error) { return viaTokenReader(v.streamError()) }},
		{"marshal.EncodeXML", func() ([]byte, error) { return viaEncodeXML(v.streamError()) }},
	}
	var ref serrCore
	var refTree *xmltree.Node
	haveRef := false
	for _, p := range paths {
		var b []byte
		var err error
		if c.Guard(p.name, func() { b, err = p.f() }) {
			continue
		}
		n := wellFormed(c, "stream.Error", p.name, b, err, "error")
		if n == nil {
			continue
		}
		if n.Name.Space != stream.NS {
			c.Violate("codec:W:stream.Error:"+p.name+":root", "stream error root is in namespace %q\n%q", n.Name.Space, b)
		}
		// application payload present and unchanged
		if len(v.Payload) > 0 && !v.Hostile {
			want, _ := xmltree.FromTokens(reader(payloadTokens(v.Payload)))
			found := false
			for _, ch := range n.Children() {
				if xmltree.Equal(ch, want[0], xmltree.Options{}) {
					found = true
				}
			}
			if !found {
				c.Violate("codec:wrap:stream.Error:"+p.name+":payload", "the application error %s is not among the children unchanged\n%q", v.Payload[0], b)
			}
		}
		var d stream.Error
		var derr error
		if c.Guard("decode", func() { derr = xml.Unmarshal(b, &d) }) {
			continue
		}
		if derr != nil {
			c.Violate("codec:R:stream.Error:decode-error:"+det, "decoding the %s output fails: %v\n%q", p.name, derr, b)
			continue
		}
		c.Count("decoded_outputs", 1)
		dc := coreSErr(d)
		if p.name == "xml.Marshal" {
			// A destination that has been used before (a variable of a read
			// loop, a copy of one of the predefined errors) gets the condition
			// that is on the wire, like a fresh one.
			used := stream.HostGone
			if v.Cond == "host-gone" {
				used = stream.SystemShutdown
			}
			var uerr error
			if !c.Guard("decode(used destination)", func() { uerr = xml.Unmarshal(b, &used) }) && uerr == nil {
				c.Count("stream_errors_decoded_into_a_used_destination", 1)
				if used.Err != d.Err {
					c.Violate("codec:R:stream.Error:used-destination:Err", "the same bytes decode to condition %q in a fresh stream.Error and to %q in one that held another condition before\n%q", d.Err, used.Err, b)
				}
			}
			ref, refTree, haveRef = dc, n, true
			if !v.Hostile && canonical {
				if f := diffSErr(dc, orig); f != "" {
					c.Violate("codec:R:stream.Error:"+f+":"+det, "decode(xml.Marshal(e)) differs from e in %s: got %+v, want %+v\n%q", f, dc, orig, b)
				} else {
					c.Count("roundtrips", 1)
				}
			}
			continue
		}
		if haveRef {
			if f := diffSErr(dc, ref); f != "" {
				c.Violate("codec:A:stream.Error:"+p.name+":"+f, "%s and xml.Marshal decode to different values (%s): %+v vs %+v\n%q", p.name, f, dc, ref, b)
			} else if d := xmltree.Diff(n, refTree, xmltree.Options{}); d != "" && !v.Hostile {
				// the decoder keeps no application payload or foreign content, so
				// agreement is also checked on the trees
				c.Violate("codec:A:stream.Error:"+p.name+":tree", "%s and xml.Marshal give different elements: %s\n%q", p.name, d, b)
			} else {
				c.Count("agreements", 1)
			}
		}
	}
}

func run(c *core.Case) {
	discarded := 0
	v := gen(c.Rand, &discarded)
	if discarded > 0 {
		c.Count("addresses_discarded_unstable_or_invalid", discarded)
	}
	check(c, v)
	if c.Rand.Intn(40) == 0 {
		vals := genConcurrent(c.Rand, &discarded)
		if !c.Violated() {
			checkConcurrentDecode(c, vals)
		}
		return
	}
	switch v.Kind {
	case "iq", "message", "presence":
		if c.Rand.Intn(2) == 0 {
			p := genPlan(c.Rand, &discarded)
			c.Sample(p.sample(v))
			checkInterleaved(c, v, p)
		}
	}
}

// Prop returns the C13 check.
func Prop() *core.Prop {
	req := []string{"stream_errors_decoded_into_a_used_destination", "stanza_errors_whose_payload_is_named_like_another_defined_condition", "stanza_error", "stream_error", "roundtrips", "agreements", "wellformed_outputs", "decoded_outputs",
		"wrap_checks", "result_checks", "error_reply_checks", "start_inverse_checks", "unmarshal_error_checks",
		"unmarshal_iq_error_checks", "composite_checks", "app_payloads", "multi_language_texts",
		"texts_xml_special", "texts_non_ascii", "texts_control_adjacent", "texts_unrepresentable", "empty_fields",
		"replies_with_distinct_addresses", "interleave_scenarios", "interleaved_readers_built_before_consumption",
		"interleaved_three_readers", "interleaved_partial_then_build", "interleaved_encodexml_nested",
		"interleaved_values_beyond_4k", "interleaved_outputs_agree",
		"attribute_sets_compared", "composite_attribute_sets_agree_two_attr_namespaces",
		"echoed_payload_error_checks", "helper_payload_variant_checks", "result_payload_starting_with_non_element",
		"cross_decoded_outputs", "cross_decoded_outputs_with_language", "qualified_attribute_checks", "snapshot_decoded_copy_kept",
		"concurrent_decode_scenarios", "concurrent_decodes",
		"stanza_errors_unchanged_by_encoding", "received_errors_sent_on_in_the_other_namespace", "stanza_structs_with_error_field_through_internal_marshal", "stanza_errors_encoded_by_several_goroutines_at_once", "snapshot_checks", "snapshot_text_map_mutated", "snapshot_reused_decode_target", "snapshot_stanza_helpers", "snapshot_stream_error"}
	for _, k := range []string{"iq", "message", "presence"} {
		for _, n := range []string{"none", "client", "server"} {
			req = append(req, k+"_ns_"+n)
		}
	}
	return &core.Prop{
		ID:    "C13",
		Level: core.Exploration,
		Race:  true,
		Rule:  "values are PRNG-drawn IQ/Message/Presence (every defined type constant, XMLName namespace none/client/server, ids and language tags from pools of empty, ASCII, XML-special, non-ASCII and control-adjacent text, addresses that survive Parse(String()) incl. resourceparts with <>&'\"), stanza.Error (every type x defined condition, by, 0-3 texts in distinct languages incl. empty data, optional application condition) and stream.Error (every defined condition, see-other-host content, 0-3 texts with repeated languages, optional application error). Each value is encoded by xml.Marshal, TokenReader/WriteXML/Wrap, internal/marshal.TokenReader and internal/marshal.EncodeXML; each output must parse strictly (W), decode to the same value as xml.Marshal's (A) and to a value equivalent to the original (R); Wrap/Result/Error are checked on the token level (frame, start element, payload tokens unchanged, to/from swapped), UnmarshalError/UnmarshalIQError read the Error helpers back, New*(v.StartElement()) must equal v. The internal/marshal outputs must also carry exactly the attributes of the xml.Marshal output after parsing (the composite payload has a plain attribute followed by one in a namespace of its own, another plain one, one in a second attribute namespace, and children whose namespaced attribute comes first), and no namespace declaration may survive as an ordinary attribute. Error stanzas that echo a payload containing elements named error at depth 1 and 2, in foreign and stanza namespaces, before and/or after the real <error/>, are read with UnmarshalError, UnmarshalIQError and a field tagged xml:\"error\": all must give the direct child. Every Wrap (and IQ.Result) is also fed payload readers that are nil, empty, start with white space / a comment / text, end with text, or hold several elements: Wrap must pass them unchanged, Result must contain a prefix of the payload reaching at least the end of its first element. Law D: the start element of every path's output is also parsed with New{IQ,Message,Presence} and must give the original value (the language must travel as xml:lang); New* must ignore namespace-qualified attributes named type/id/to/from/lang placed before and after the real ones. One case in 40 decodes four stanzas with different addresses on four goroutines at once (xml.Unmarshal and New*), every result compared with the sequential reference, under the race detector. Snapshot law (S): for every TokenReader/Wrap/Error constructor of the core types the reader is built, then everything the caller can still reach is changed (entries of a stanza error's Text map changed, emptied, deleted and added; elements of a stream error's Text slice; the fields of the variable; or the variable is reused as a decode target, which fills its Text map in place), then the reader is consumed: its tokens must equal those of a reader built from a deep copy and consumed at once. For half of the stanza values the interleaved-readers law (I) is also run on the internal/marshal paths: the marshal.TokenReader readers of two or three different values (bare stanzas and stanzas with payload, a third padded beyond 4 KiB) are built first and consumed token by token in PRNG order, or one is partly consumed, another built, then both finished, or marshal.EncodeXML of one value is interrupted after its k-th token by a complete EncodeXML of another into a second encoder; every output must still decode to what xml.Marshal of its own value decodes to. 5% of values carry characters XML cannot represent and are judged for W and A only. distinct = (kind, namespace, type, class of every text field, payload count).",
		Assumptions: []string{
			"equivalence ignores XMLName as filled in by decoding, nil versus empty text collections, and stanza-error text entries with empty data (documented as omitted by the encoder)",
			"encoding/xml ignores the value of an XMLName field when the struct tag names the element, so xml.Marshal of a stanza cannot carry XMLName.Space; this is counted (xmlname_space_not_carried_by_struct_tags), not judged; the namespace is judged on the Wrap/StartElement path",
			"stream.Error.Content on a condition other than see-other-host is documented as unsupported: such values are judged for well-formedness and agreement only",
			"addresses are restricted to those for which Parse(String()) is the identity (C11 owns the others)",
			"encoding/xml's strict decoder is the well-formedness judge",
		},
		Cases: func(tier string) int {
			if tier == "thorough" {
				return 600000
			}
			return 12000
		},
		Run:       run,
		Require:   req,
		Witnesses: witnesses(),
	}
}
