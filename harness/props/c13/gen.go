package c13

import (
	"encoding/xml"
	"fmt"
	"math/rand"
	"net"
	"strconv"
	"unicode/utf8"

	"mellium.im/xmpp/jid"
	"mellium.im/xmpp/stream"
)

// Val is the written-out form of one generated value.  Everything the oracle
// does is a pure function of a Val, so witnesses are just literal Vals.
type Val struct {
	Kind string // iq | message | presence | stanza-error | stream-error
	NS   string // XMLName.Space of a stanza: "", jabber:client, jabber:server

	ID, To, From, Lang, Type string

	Cond    string     // error condition
	By      string     // stanza error "by"
	Texts   []LangText // error texts (stanza errors: distinct languages)
	Content string     // stream error condition content

	Payload []*PNode // application payload (stanzas: children; errors: application condition)
	// BorrowedCond: the payload of a stanza error is named like another defined
	// condition, in the namespace of the defined conditions
	BorrowedCond bool `json:",omitempty"`
	// PayForm: how the payload's token reader behaves: "" the tokens stay valid,
	// "scratch" each token is only valid until the next one is asked for (as
	// with an *xml.Decoder).
	PayForm string
	ErrVal  *Val // for stanzas: the stanza error used with the Error helper

	// Hostile values contain characters XML cannot represent (NUL, U+FFFE,
	// invalid UTF-8, ...): only well-formedness and agreement are judged.
	Hostile bool
}

// LangText is one error text.
type LangText struct{ Lang, Value string }

// PNode is an application payload element (always namespaced).
type PNode struct {
	Space, Local string
	Attrs        []PAttr
	Text         string // character data before the children
	Kids         []*PNode
}

// PAttr is a payload attribute.
type PAttr struct{ Space, Local, Value string }

func q(s string) string { return strconv.Quote(s) }

// sample renders v with every string quoted (JSON would mangle invalid UTF-8).
func (v Val) sample() map[string]any {
	m := map[string]any{"kind": v.Kind}
	put := func(k, s string) {
		if s != "" {
			m[k] = q(s)
		}
	}
	put("ns", v.NS)
	put("id", v.ID)
	put("to", v.To)
	put("from", v.From)
	put("lang", v.Lang)
	put("cond", v.Cond)
	put("by", v.By)
	put("content", v.Content)
	m["type"] = q(v.Type)
	if len(v.Texts) > 0 {
		var ts []string
		for _, t := range v.Texts {
			ts = append(ts, q(t.Lang)+":"+q(t.Value))
		}
		m["texts"] = ts
	}
	if len(v.Payload) > 0 {
		var ps []string
		for _, p := range v.Payload {
			ps = append(ps, p.String())
		}
		m["payload"] = ps
	}
	if v.ErrVal != nil {
		m["error_value"] = v.ErrVal.sample()
	}
	if v.Hostile {
		m["hostile"] = true
	}
	return m
}

func (p *PNode) String() string {
	s := "<{" + p.Space + "}" + p.Local
	for _, a := range p.Attrs {
		s += fmt.Sprintf(" {%s}%s=%s", a.Space, a.Local, q(a.Value))
	}
	s += ">"
	if p.Text != "" {
		s += q(p.Text)
	}
	for _, k := range p.Kids {
		s += k.String()
	}
	return s + "</>"
}

// tokens appends the token sequence of p.
func (p *PNode) tokens(out []xml.Token) []xml.Token {
	st := xml.StartElement{Name: xml.Name{Space: p.Space, Local: p.Local}}
	for _, a := range p.Attrs {
		st.Attr = append(st.Attr, xml.Attr{Name: xml.Name{Space: a.Space, Local: a.Local}, Value: a.Value})
	}
	out = append(out, st)
	if p.Text != "" {
		out = append(out, xml.CharData(p.Text))
	}
	for _, k := range p.Kids {
		out = k.tokens(out)
	}
	return append(out, st.End())
}

func payloadTokens(ps []*PNode) []xml.Token {
	var out []xml.Token
	for _, p := range ps {
		out = p.tokens(out)
	}
	return out
}

// ---------------------------------------------------------------------------
// pools

var (
	iqTypes   = []string{"get", "set", "result", "error"}
	msgTypes  = []string{"normal", "chat", "error", "groupchat", "headline"}
	presTypes = []string{"", "error", "probe", "subscribe", "subscribed", "unavailable", "unsubscribe", "unsubscribed"}
	errTypes  = []string{"cancel", "auth", "continue", "modify", "wait"}

	stanzaConds = []string{"bad-request", "conflict", "feature-not-implemented", "forbidden", "gone",
		"internal-server-error", "item-not-found", "jid-malformed", "not-acceptable", "not-allowed",
		"not-authorized", "policy-violation", "recipient-unavailable", "redirect", "registration-required",
		"remote-server-not-found", "remote-server-timeout", "resource-constraint", "service-unavailable",
		"subscription-required", "undefined-condition", "unexpected-request"}

	streamConds = []stream.Error{stream.BadFormat, stream.BadNamespacePrefix, stream.Conflict, stream.ConnectionTimeout,
		stream.HostGone, stream.HostUnknown, stream.ImproperAddressing, stream.InternalServerError, stream.InvalidFrom,
		stream.InvalidNamespace, stream.InvalidXML, stream.NotAuthorized, stream.NotWellFormed, stream.PolicyViolation,
		stream.RemoteConnectionFailed, stream.Reset, stream.ResourceConstraint, stream.RestrictedXML, stream.SeeOtherHost,
		stream.SystemShutdown, stream.UndefinedCondition, stream.UnsupportedEncoding, stream.UnsupportedFeature,
		stream.UnsupportedStanzaType, stream.UnsupportedVersion}

	namespaces = []string{"", "jabber:client", "jabber:server"}

	plainPool   = []string{"a", "id-1", "hello world", "x", "Z9", "abc123", "e2e", "0"}
	specialPool = []string{"<", ">", "&", "'", "\"", "<a>", "a&b", "&amp;", "]]>", "<![CDATA[x]]>", "<!--c-->", "a'b\"c", "&#x41;", "</iq>", "<?pi?>", "=\"", "&lt"}
	nonASCII    = []string{"é", "ü", "日本語", "☃", "𝄞", "\u00a0", "\u0085", "\u2028", "\ufffd", "ρ", "\u200d", "\ud7ff", "\ue000", "\U0010ffff"}
	ctrlAdj     = []string{"\t", "\n", "\r", "\r\n", " ", "  ", "\x7f", " lead", "trail ", "\n\nx", "\x20\x09"}
	hostilePool = []string{"\x00", "\x01", "\x0b", "\x0c", "\x1f", "\ufffe", "\uffff", "\xff", "\xc3", "\xed\xa0\x80", "a\x00b"}
	langPool    = []string{"en", "de-CH", "zh-Hant", "x-klingon", "fr", "EN-us"}

	localparts = []string{"", "", "a", "user", "üser", "a.b", "x_y-z", "ユーザー"}
	domains    = []string{"example.net", "x.example.org", "münchen.example", "127.0.0.1", "[::1]", "a"}
	resources  = []string{"", "", "r", "a'b<c&d\"e", "ρ", "res ource", ">", "&amp;", "日本", "r/with/slash", "@"}

	paySpaces = []string{"urn:verif:a", "urn:verif:b", "http://verif.example/ns#x"}
	payLocals = []string{"q", "x", "item", "body", "query", "text", "error"}
	attrNames = []PAttr{{"", "a", ""}, {"", "id", ""}, {"", "type", ""}, {"urn:verif:attr", "n", ""}, {"http://www.w3.org/XML/1998/namespace", "lang", ""}}
)

// representable reports whether s can be carried by XML 1.0 character data or
// an attribute value without loss (the Char production).
func representable(s string) bool {
	if !utf8.ValidString(s) {
		return false
	}
	for _, r := range s {
		ok := r == 0x9 || r == 0xA || r == 0xD || (r >= 0x20 && r <= 0xD7FF) || (r >= 0xE000 && r <= 0xFFFD) || (r >= 0x10000 && r <= 0x10FFFF)
		if !ok {
			return false
		}
	}
	return true
}

type textClass struct{ special, nonascii, ctrl, hostile bool }

// genText draws a text: sometimes empty, otherwise 1-4 pieces from the pools.
func genText(r *rand.Rand, emptyOK, hostile bool) string {
	if emptyOK && r.Intn(5) == 0 {
		return ""
	}
	n := 1 + r.Intn(4)
	s := ""
	for i := 0; i < n; i++ {
		switch k := r.Intn(10); {
		case k < 3:
			s += plainPool[r.Intn(len(plainPool))]
		case k < 6:
			s += specialPool[r.Intn(len(specialPool))]
		case k < 8:
			s += nonASCII[r.Intn(len(nonASCII))]
		case k < 9 || !hostile:
			s += ctrlAdj[r.Intn(len(ctrlAdj))]
		default:
			s += hostilePool[r.Intn(len(hostilePool))]
		}
	}
	if hostile && representable(s) {
		s += hostilePool[r.Intn(len(hostilePool))]
	}
	if r.Intn(40) == 0 {
		for len(s) < 300 {
			s += s + "&<"
		}
	}
	return s
}

func genLang(r *rand.Rand, hostile bool) string {
	switch r.Intn(6) {
	case 0, 1:
		return ""
	case 2:
		return genText(r, false, hostile)
	}
	return langPool[r.Intn(len(langPool))]
}

// genJID returns the string form of a valid address that survives
// Parse(String()) (C11 owns the addresses that do not), or "".
func genJID(r *rand.Rand, discarded *int) string {
	if r.Intn(4) == 0 {
		return ""
	}
	for try := 0; try < 8; try++ {
		l := localparts[r.Intn(len(localparts))]
		d := domains[r.Intn(len(domains))]
		res := resources[r.Intn(len(resources))]
		j, err := jid.New(l, d, res)
		if err != nil {
			*discarded++
			continue
		}
		s := j.String()
		j2, err := jid.Parse(s)
		if err != nil || !j2.Equal(j) || j2.String() != s {
			*discarded++
			continue
		}
		return s
	}
	return "fallback@example.net/r"
}

func genPNode(r *rand.Rand, depth int, hostile bool) *PNode {
	p := &PNode{Space: paySpaces[r.Intn(len(paySpaces))], Local: payLocals[r.Intn(len(payLocals))]}
	perm := r.Perm(len(attrNames))
	for i, n := 0, r.Intn(3); i < n; i++ {
		a := attrNames[perm[i]]
		a.Value = genText(r, true, hostile)
		p.Attrs = append(p.Attrs, a)
	}
	if r.Intn(2) == 0 {
		p.Text = genText(r, true, hostile)
	}
	if depth < 2 {
		for i, n := 0, r.Intn(3); i < n; i++ {
			p.Kids = append(p.Kids, genPNode(r, depth+1, hostile))
		}
	}
	return p
}

func genPayload(r *rand.Rand, max int, hostile bool) []*PNode {
	var out []*PNode
	for i, n := 0, r.Intn(max+1); i < n; i++ {
		out = append(out, genPNode(r, 0, hostile))
	}
	return out
}

func genStanzaError(r *rand.Rand, hostile bool, discarded *int) Val {
	v := Val{Kind: "stanza-error", Hostile: hostile}
	v.Type = errTypes[r.Intn(len(errTypes))]
	v.Cond = stanzaConds[r.Intn(len(stanzaConds))]
	if r.Intn(3) == 0 {
		v.By = genJID(r, discarded)
	}
	seen := map[string]bool{}
	for i, n := 0, r.Intn(4); i < n; i++ {
		l := genLang(r, hostile)
		if seen[l] {
			continue
		}
		seen[l] = true
		v.Texts = append(v.Texts, LangText{l, genText(r, true, hostile)})
	}
	if r.Intn(3) == 0 {
		v.Payload = []*PNode{genPNode(r, 1, hostile)}
		if r.Intn(8) == 0 {
			// an application payload that borrows the namespace and the name of
			// another defined condition: the condition is the first one
			o := stanzaConds[r.Intn(len(stanzaConds))]
			if o != v.Cond {
				v.Payload[0].Space, v.Payload[0].Local = "urn:ietf:params:xml:ns:xmpp-stanzas", o
				v.Payload[0].Attrs = nil
				v.BorrowedCond = true
			}
		}
	}
	return v
}

func genStreamError(r *rand.Rand, hostile bool) Val {
	v := Val{Kind: "stream-error", Hostile: hostile}
	v.Cond = streamConds[r.Intn(len(streamConds))].Err
	if r.Intn(4) == 0 {
		v.Cond = "see-other-host"
	}
	if v.Cond == "see-other-host" {
		switch r.Intn(4) {
		case 0:
			v.Content = stream.SeeOtherHostError(&net.TCPAddr{IP: net.IPv4(192, 0, 2, byte(r.Intn(255))), Port: 5222}).Content
		case 1:
			v.Content = stream.SeeOtherHostError(&net.TCPAddr{IP: net.ParseIP("2001:db8::1"), Port: 5269}).Content
		case 2:
			v.Content = stream.SeeOtherHostError(&net.IPAddr{IP: net.ParseIP("2001:db8::9")}).Content
		default:
			v.Content = genText(r, true, hostile)
		}
	} else if r.Intn(12) == 0 {
		// content on another condition: the type documents this as unsupported,
		// so such values are judged for well-formedness and agreement only
		v.Content = genText(r, false, hostile)
	}
	for i, n := 0, r.Intn(4); i < n; i++ {
		v.Texts = append(v.Texts, LangText{genLang(r, hostile), genText(r, true, hostile)})
	}
	if r.Intn(3) == 0 {
		v.Payload = []*PNode{genPNode(r, 1, hostile)}
		if r.Intn(2) == 0 {
			v.PayForm = "scratch"
		}
	}
	return v
}

// gen draws one value.
func gen(r *rand.Rand, discarded *int) Val {
	hostile := r.Intn(20) == 0
	k := r.Intn(10)
	switch {
	case k >= 8:
		return genStreamError(r, hostile)
	case k >= 6:
		return genStanzaError(r, hostile, discarded)
	}
	v := Val{Hostile: hostile, NS: namespaces[r.Intn(len(namespaces))]}
	switch k / 2 {
	case 0:
		v.Kind, v.Type = "iq", iqTypes[r.Intn(len(iqTypes))]
	case 1:
		v.Kind, v.Type = "message", msgTypes[r.Intn(len(msgTypes))]
	default:
		v.Kind, v.Type = "presence", presTypes[r.Intn(len(presTypes))]
	}
	v.ID = genText(r, true, hostile)
	v.To = genJID(r, discarded)
	v.From = genJID(r, discarded)
	v.Lang = genLang(r, hostile)
	v.Payload = genPayload(r, 3, hostile)
	e := genStanzaError(r, hostile, discarded)
	e.Payload = nil
	v.ErrVal = &e
	return v
}
