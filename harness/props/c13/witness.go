package c13

import "mellium.im/xmpp/verifharness/core"

// witnesses are the pinned minimal values of the defects found on the pinned
// tree, keyed by class key.  Each one runs the ordinary oracle on a literal
// value, so it reports exactly the key the exploration reports.
//
// (The keys codec:A:stanza:marshal.EncodeXML:Lang and
// codec:A:stanza:marshal.EncodeXML:payload fired on the tree as first pinned,
// witnesses Val{Kind: "message", Type: "chat", ID: "m1", Lang: "en"} and
// Val{Kind: "iq", Type: "get", ID: "i1"}; /repo commit 98f7819 repaired
// internal/marshal and they no longer reproduce.  mutations/marshal-rawtoken.diff
// restores the defect.)
func witnesses() map[string]func(*core.Case) {
	return map[string]func(*core.Case){
		// (*stream.Error).UnmarshalXML has no case for children outside the
		// stream-error namespace: it reads on, takes the end tag of the
		// application-specific condition for the end of <stream:error/> and
		// returns early, so decoding fails and the texts after it are lost.
		"codec:R:stream.Error:decode-error:app-payload": func(c *core.Case) {
			check(c, Val{Kind: "stream-error", Cond: "undefined-condition",
				Texts:   []LangText{{"en", "too many"}},
				Payload: []*PNode{{Space: "urn:verif:a", Local: "x"}}})
		},
	}
}
