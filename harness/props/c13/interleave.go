package c13

import (
	"bytes"
	"encoding/xml"
	"fmt"
	"io"
	"math/rand"

	"mellium.im/xmpp/internal/marshal"
	"mellium.im/xmpp/verifharness/core"
	"mellium.im/xmpp/verifharness/xmltree"
)

// The "interleaved readers" law (I): the internal/marshal encodings of
// different values are independent of each other.  marshal.TokenReader is
// lazy, so the readers of two or three values are built first and consumed
// afterwards in a PRNG-chosen interleaving (or one is partly consumed, another
// is built, and the first is finished); marshal.EncodeXML of one value is
// interrupted after its k-th token by a complete EncodeXML of another value
// into a second encoder.  Every output must still denote its own value: it
// must decode to what xml.Marshal of that value decodes to.

// Plan is the written-out interleaving scenario.
type Plan struct {
	Mode     string // build-all | partial-then-build | nested-encodexml
	Others   []Val  // the values next to the primary one
	Pad      []int  // per value: number of extra payload children (big encodings)
	Plain    []bool // per value: bare stanza instead of stanza + payload
	Schedule []int  // build-all: which reader yields the next token(s); else: the cut point
}

type ilItem struct {
	v      Val
	s      stz
	val    any
	plain  bool
	ref    core5
	refP   appPayload
	size   int
	toks   []xml.Token
	done   bool
	rerr   error
	reader xml.TokenReader
}

func genPlan(r *rand.Rand, discarded *int) Plan {
	p := Plan{Mode: []string{"build-all", "build-all", "partial-then-build", "nested-encodexml"}[r.Intn(4)]}
	n := 1
	if p.Mode == "build-all" && r.Intn(2) == 0 {
		n = 2
	}
	for len(p.Others) < n {
		v := gen(r, discarded)
		switch v.Kind {
		case "iq", "message", "presence":
			p.Others = append(p.Others, v)
		}
	}
	for i := 0; i <= n; i++ {
		pad := 0
		if r.Intn(3) == 0 {
			pad = 80 + r.Intn(60) // pushes the encoding past the decoder's 4 KiB read-ahead
		}
		p.Pad = append(p.Pad, pad)
		p.Plain = append(p.Plain, pad == 0 && r.Intn(3) == 0)
	}
	switch p.Mode {
	case "build-all":
		for i := 0; i < 400; i++ {
			p.Schedule = append(p.Schedule, r.Intn(n+1))
		}
	default:
		p.Schedule = []int{r.Intn(6)}
	}
	return p
}

func (p Plan) sample(primary Val) map[string]any {
	var os []any
	for _, o := range p.Others {
		os = append(os, o.sample())
	}
	sch := p.Schedule
	if len(sch) > 24 {
		sch = sch[:24]
	}
	return map[string]any{"primary": primary.sample(), "interleave_mode": p.Mode, "others": os, "pad": p.Pad, "plain": p.Plain, "schedule_head": sch}
}

func newItem(c *core.Case, v Val, pad int, plain bool) *ilItem {
	it := &ilItem{v: v, plain: plain}
	if c.Guard("build", func() { it.s = newStz(v) }) {
		return nil
	}
	if plain {
		it.val = it.s.val()
	} else {
		ap := appPayload{A: v.ID, NA: v.Lang, Text: v.Type}
		for i := 0; i < pad; i++ {
			ap.Kids = append(ap.Kids, appKid{N: fmt.Sprintf("k%d-%s", i, v.ID), V: "pad " + v.Lang + " <&> " + v.To})
		}
		it.val = it.s.with(ap)
	}
	// the reference: what xml.Marshal of this value decodes to
	var b []byte
	var err error
	if c.Guard("xml.Marshal", func() { b, err = xml.Marshal(it.val) }) || err != nil {
		return nil
	}
	it.size = len(b)
	if c.Guard("decode", func() { it.ref, it.refP, err = it.decode(b) }) || err != nil {
		return nil
	}
	return it
}

func (it *ilItem) decode(b []byte) (core5, appPayload, error) {
	if it.plain {
		d, err := it.s.decode(b)
		return d, appPayload{}, err
	}
	d, p, err := it.s.decodeWith(b)
	d.Local = it.v.Kind // encoding/xml does not fill in the XMLName of an embedded struct
	return d, p, err
}

// step reads one token of the item's reader.
func (it *ilItem) step() {
	if it.done {
		return
	}
	tok, err := it.reader.Token()
	if tok != nil {
		it.toks = append(it.toks, xml.CopyToken(tok))
	}
	if err != nil {
		it.done = true
		if err != io.EOF {
			it.rerr = err
		}
	}
	if len(it.toks) > 20000 {
		it.done, it.rerr = true, fmt.Errorf("token reader did not end")
	}
}

// judgeOutput checks that b (or the failure to produce it) still denotes the
// item's own value.
func judgeOutput(c *core.Case, path, mode string, it *ilItem, all []*ilItem, b []byte, err error) {
	pre := "codec:I:stanza:" + path + ":"
	who := fmt.Sprintf("[%s] %s value id=%q (%d bytes marshaled)", mode, it.v.Kind, it.v.ID, it.size)
	if err != nil {
		c.Violate(pre+"read-error", "%s: %s fails when other values are encoded in between: %v (output so far %.300q)", who, path, err, b)
		return
	}
	if _, perr := xmltree.ParseOne(b); perr != nil {
		c.Violate(pre+"malformed", "%s: the %s output is not one well-formed element when other values are encoded in between: %v\n%.600q", who, path, perr, b)
		return
	}
	var d core5
	var dp appPayload
	var derr error
	if c.Guard("decode", func() { d, dp, derr = it.decode(b) }) {
		return
	}
	if derr != nil {
		c.Violate(pre+"decode-error", "%s: the %s output no longer decodes: %v\n%.600q", who, path, derr, b)
		return
	}
	f := diffCore(d, it.ref, false)
	if f == "" && !dp.equal(it.refP) {
		f = "payload"
	}
	if f == "" {
		c.Count("interleaved_outputs_agree", 1)
		return
	}
	for _, o := range all {
		if o != it && diffCore(d, o.ref, false) == "" && dp.equal(o.refP) {
			c.Violate(pre+"denotes-another-value", "%s: the %s output decodes to the value of the %s id=%q that was encoded in between: got %+v, want %+v", who, path, o.v.Kind, o.v.ID, d, it.ref)
			return
		}
	}
	c.Violate(pre+f, "%s: the %s output differs from xml.Marshal of the same value in %s when other values are encoded in between: got %+v, want %+v\n%.600q", who, path, f, d, it.ref, b)
}

type hookWriter struct {
	e    *xml.Encoder
	n, k int
	hook func()
}

func (w *hookWriter) EncodeToken(t xml.Token) error {
	if w.n == w.k && w.hook != nil {
		w.hook()
	}
	w.n++
	return w.e.EncodeToken(t)
}

func checkInterleaved(c *core.Case, primary Val, p Plan) {
	vals := append([]Val{primary}, p.Others...)
	var items []*ilItem
	for i, v := range vals {
		it := newItem(c, v, p.Pad[i], p.Plain[i])
		if it == nil {
			return // the value itself does not marshal or decode: the other laws report that
		}
		items = append(items, it)
	}
	c.Count("interleave_scenarios", 1)
	shape := ""
	for _, it := range items {
		shape += fmt.Sprintf("%s%v%v,", it.v.Kind[:1], it.plain, it.size > 4096)
	}
	c.Sig("interleave/%s/%s", p.Mode, shape)
	for _, it := range items {
		if it.size > 4096 {
			c.Count("interleaved_values_beyond_4k", 1)
		}
	}
	build := func(it *ilItem) bool {
		var err error
		if c.Guard("marshal.TokenReader", func() { it.reader, err = marshal.TokenReader(it.val) }) {
			return false
		}
		if err != nil {
			c.Violate("codec:I:stanza:marshal.TokenReader:build-error", "marshal.TokenReader fails: %v", err)
			return false
		}
		return true
	}
	finish := func(path string) {
		for _, it := range items {
			var b []byte
			err := it.rerr
			if err == nil {
				b, err = encodeTokens(reader(it.toks))
			}
			judgeOutput(c, path, p.Mode, it, items, b, err)
		}
	}

	switch p.Mode {
	case "build-all":
		for _, it := range items {
			if !build(it) {
				return
			}
		}
		c.Count("interleaved_readers_built_before_consumption", len(items))
		if len(items) == 3 {
			c.Count("interleaved_three_readers", 1)
		}
		if c.Guard("Token", func() {
			for _, i := range p.Schedule {
				if i < len(items) {
					items[i].step()
				}
			}
			for _, it := range items {
				for !it.done {
					it.step()
				}
			}
		}) {
			return
		}
		finish("marshal.TokenReader")

	case "partial-then-build":
		a, b := items[0], items[1]
		if !build(a) {
			return
		}
		if c.Guard("Token", func() {
			for i := 0; i < p.Schedule[0]; i++ {
				a.step()
			}
		}) {
			return
		}
		if !build(b) {
			return
		}
		c.Count("interleaved_partial_then_build", 1)
		if c.Guard("Token", func() {
			for !a.done {
				a.step()
			}
			for !b.done {
				b.step()
			}
		}) {
			return
		}
		finish("marshal.TokenReader")

	case "nested-encodexml":
		a, b := items[0], items[1]
		var ba, bb bytes.Buffer
		ea, eb := xml.NewEncoder(&ba), xml.NewEncoder(&bb)
		var erra, errb error
		w := &hookWriter{e: ea, k: p.Schedule[0], hook: func() { errb = marshal.EncodeXML(eb, b.val) }}
		if c.Guard("marshal.EncodeXML", func() { erra = marshal.EncodeXML(w, a.val) }) {
			return
		}
		if w.n <= w.k {
			// the outer value had fewer tokens than the cut point: run the second one now
			if c.Guard("marshal.EncodeXML", func() { errb = marshal.EncodeXML(eb, b.val) }) {
				return
			}
		} else {
			c.Count("interleaved_encodexml_nested", 1)
		}
		if erra == nil {
			erra = ea.Flush()
		}
		if errb == nil {
			errb = eb.Flush()
		}
		judgeOutput(c, "marshal.EncodeXML", p.Mode, a, items, ba.Bytes(), erra)
		judgeOutput(c, "marshal.EncodeXML", p.Mode, b, items, bb.Bytes(), errb)
	}
}
