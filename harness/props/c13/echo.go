package c13

import (
	"encoding/xml"
	"fmt"

	"mellium.im/xmpp/stanza"
	"mellium.im/xmpp/verifharness/core"
)

// --- error stanzas that echo the sender's payload ---------------------------
//
// An error stanza may carry the payload of the stanza it answers next to its
// <error/>.  The echoed payload can itself contain elements named error
// (a forwarded or archived message of type error, a command note): the
// stanza's error is the <error/> that is a direct child, which is what
// encoding/xml gives for a field tagged xml:"error".  UnmarshalError and
// UnmarshalIQError (the token path) must give the same.

func el(space, local string, kids ...[]xml.Token) []xml.Token {
	st := xml.StartElement{Name: xml.Name{Space: space, Local: local}}
	out := []xml.Token{st}
	for _, k := range kids {
		out = append(out, k...)
	}
	return append(out, st.End())
}

func checkEchoedError(c *core.Case, v Val, s stz, typ string) {
	if v.ErrVal == nil {
		return
	}
	e := v.ErrVal.stanzaError()
	other := copyErr(e)
	other.Type, other.Condition = stanza.Wait, stanza.RemoteServerTimeout
	if e.Type == stanza.Wait {
		other.Type = stanza.Modify
	}
	other.Text = map[string]string{"": "the error of an echoed stanza", "en": "nested"}
	var reply, nested []xml.Token
	var err1, err2 error
	if c.Guard("Error", func() { reply, err1 = collect(s.errorReply(e)); nested, err2 = collect(other.TokenReader()) }) || err1 != nil || err2 != nil || len(reply) < 3 {
		return
	}
	ns := v.NS
	if ns == "" {
		ns = "jabber:client"
	}
	text := []xml.Token{xml.CharData("not the stanza's error")}
	before := el("urn:verif:echo", "echo",
		el("urn:verif:a", "error", text),                    // depth 1, foreign namespace
		el(ns, "message", nested),                           // depth 2: the error of a forwarded stanza
		el("urn:verif:echo", "note", el(ns, "error", text))) // depth 2, stanza namespace
	after := el("urn:verif:echo", "result", el("urn:verif:b", "inner", nested)) // depth 2, after the real one
	for _, place := range []string{"before", "after", "both"} {
		all := []xml.Token{reply[0]}
		if place != "after" {
			all = append(all, before...)
		}
		all = append(all, reply[1:len(reply)-1]...)
		if place != "before" {
			all = append(all, after...)
		}
		all = append(all, reply[len(reply)-1])
		c.Count("echoed_payload_error_checks", 1)

		// the reference: encoding/xml's direct child
		type carrier struct {
			XMLName xml.Name
			Err     stanza.Error `xml:"error"`
		}
		if b, err := encodeTokens(reader(all)); err == nil && !v.Hostile {
			var cr carrier
			if !c.Guard("xml.Unmarshal", func() { err = xml.Unmarshal(b, &cr) }) {
				if err != nil {
					c.Violate("codec:R:Error:xml.Unmarshal(echoed-payload):decode-error", "decoding an error stanza that echoes a payload (%s its <error/>) fails: %v\n%q", place, err, b)
				} else if f := diffErr(coreErr(cr.Err), coreErr(e)); f != "" {
					c.Violate("codec:R:Error:xml.Unmarshal(echoed-payload):"+f, "a field tagged xml:\"error\" of an error stanza that echoes a payload (%s its <error/>) decodes to %+v, want %+v\n%q", place, coreErr(cr.Err), coreErr(e), b)
				}
			}
		}
		var ue stanza.Error
		var uerr error
		if !c.Guard("UnmarshalError", func() { ue, uerr = stanza.UnmarshalError(reader(all[1:])) }) {
			if uerr != nil {
				c.Violate("codec:R:Error:UnmarshalError(echoed-payload):decode-error", "UnmarshalError over an error stanza that echoes a payload (%s its <error/>) fails: %v\n%s", place, uerr, toksLine(all))
			} else if f := diffErr(coreErr(ue), coreErr(e)); f != "" && !v.Hostile {
				what := f
				if diffErr(coreErr(ue), coreErr(other)) == "" {
					what = "nested-error-taken"
				}
				c.Violate("codec:R:Error:UnmarshalError(echoed-payload):"+what, "UnmarshalError over an error stanza that echoes a payload (%s its <error/>) gives %+v, the stanza's error (the direct child) is %+v\n%s", place, coreErr(ue), coreErr(e), toksLine(all))
			}
		}
		if st, ok := all[0].(xml.StartElement); ok && v.Kind == "iq" {
			if !c.Guard("UnmarshalIQError", func() { _, uerr = stanza.UnmarshalIQError(reader(all[1:]), st) }) {
				ge, isErr := uerr.(stanza.Error)
				if !isErr {
					c.Violate("codec:R:Error:UnmarshalIQError(echoed-payload):decode-error", "UnmarshalIQError over an error IQ that echoes a payload returns %v (%T)", uerr, uerr)
				} else if f := diffErr(coreErr(ge), coreErr(e)); f != "" && !v.Hostile {
					what := f
					if diffErr(coreErr(ge), coreErr(other)) == "" {
						what = "nested-error-taken"
					}
					c.Violate("codec:R:Error:UnmarshalIQError(echoed-payload):"+what, "UnmarshalIQError over an error IQ that echoes a payload (%s its <error/>) gives %+v, want %+v", place, coreErr(ge), coreErr(e))
				}
			}
		}
	}
}

// --- payload readers of every shape through every wrapping helper -----------

type payloadVariant struct {
	name string
	toks []xml.Token
	nilR bool
}

func payloadVariants(v Val) []payloadVariant {
	pay := payloadTokens(v.Payload)
	ws := xml.CharData("\n  ")
	out := []payloadVariant{
		{name: "nil", nilR: true},
		{name: "empty"},
		{name: "whitespace-first", toks: append([]xml.Token{ws}, pay...)},
		{name: "comment-first", toks: append([]xml.Token{xml.Comment(" c ")}, pay...)},
		{name: "text-first", toks: append([]xml.Token{xml.CharData("text")}, pay...)},
		{name: "text-last", toks: append(append([]xml.Token{}, pay...), xml.CharData("tail"))},
	}
	if len(v.Payload) > 0 {
		two := append(append([]xml.Token{}, pay...), xml.CharData(" "))
		two = append(two, payloadTokens(v.Payload[:1])...)
		out = append(out, payloadVariant{name: "several-elements", toks: two})
	}
	return out
}

func (p payloadVariant) reader() xml.TokenReader {
	if p.nilR {
		return nil
	}
	return &sliceReader{toks: p.toks}
}

// firstElementEnd returns the index after the end of the first element of
// toks (0 when there is none).
func firstElementEnd(toks []xml.Token) int {
	depth := 0
	for i, t := range toks {
		switch t.(type) {
		case xml.StartElement:
			depth++
		case xml.EndElement:
			depth--
			if depth == 0 {
				return i + 1
			}
		}
	}
	return 0
}

func checkHelperPayloads(c *core.Case, v Val, s stz, typ string) {
	for _, pv := range payloadVariants(v) {
		var toks []xml.Token
		var err error
		if c.Guard(typ+".Wrap", func() { toks, err = collect(s.wrap(pv.reader())) }) {
			continue
		}
		c.Count("helper_payload_variant_checks", 1)
		if err != nil || len(toks) < 2 {
			c.Violate("codec:wrap:"+typ+":Wrap("+pv.name+"):tokens", "%s.Wrap of a payload reader (%s): %d tokens, err %v", typ, pv.name, len(toks), err)
		} else if d := tokensDiff(toks[1:len(toks)-1], pv.toks); d != "" {
			c.Violate("codec:wrap:"+typ+":Wrap("+pv.name+"):payload", "%s.Wrap changed a payload (%s): %s\ngot:  %s\nwant: %s", typ, pv.name, d, toksLine(toks[1:len(toks)-1]), toksLine(pv.toks))
		}
		iq, ok := s.(iqS)
		if !ok {
			continue
		}
		// Result: documented as wrapping the first element of the payload; the
		// implementation passes the payload on.  Either is accepted: what is
		// inside the result must be a prefix of the payload's tokens that reaches
		// at least to the end of the payload's first element.
		if c.Guard("IQ.Result", func() { toks, err = collect(iq.v.Result(pv.reader())) }) {
			continue
		}
		c.Count("helper_payload_variant_checks", 1)
		if err != nil || len(toks) < 2 {
			c.Violate("codec:wrap:IQ:Result("+pv.name+"):tokens", "IQ.Result of a payload reader (%s): %d tokens, err %v", pv.name, len(toks), err)
			continue
		}
		in := toks[1 : len(toks)-1]
		need := firstElementEnd(pv.toks)
		if need > 0 && len(pv.toks) > 0 {
			if _, startsWithElement := pv.toks[0].(xml.StartElement); !startsWithElement {
				c.Count("result_payload_starting_with_non_element", 1)
			}
		}
		switch {
		case len(in) > len(pv.toks) || tokensDiff(in, pv.toks[:len(in)]) != "":
			c.Violate("codec:wrap:IQ:Result("+pv.name+"):payload", "IQ.Result changed a payload (%s): %s\ngot:  %s\nwant a prefix of: %s", pv.name, tokensDiff(in, pv.toks[:min(len(in), len(pv.toks))]), toksLine(in), toksLine(pv.toks))
		case len(in) < need:
			c.Violate("codec:wrap:IQ:Result("+pv.name+"):first-element-missing", "IQ.Result of a payload (%s) does not contain the payload's first element: got %s, payload %s", pv.name, fmt.Sprint(toksLine(in)), toksLine(pv.toks))
		}
	}
}
