package c08

// Stand-alone reproductions of the class keys seen on the unchanged tree: the
// real Session.Serve on a harness transport, no oracle.  They only log (run
// with go test -v -run Repro ./props/c08).

import (
	"encoding/xml"
	"io"
	"testing"

	"mellium.im/xmlstream"
	"mellium.im/xmpp"

	"mellium.im/xmpp/verifharness/sess"
	"mellium.im/xmpp/verifharness/xmltree"
)

func serve(t *testing.T, input string, h func(rw xmlstream.TokenReadEncoder, start *xml.StartElement) error) {
	p, err := sess.NewPair(sess.Opts{})
	if err != nil {
		t.Fatal(err)
	}
	p.Send(input)
	p.Peer.CloseWrite()
	n := 0
	err = p.S.Serve(xmpp.HandlerFunc(func(rw xmlstream.TokenReadEncoder, start *xml.StartElement) error {
		n++
		t.Logf("invocation %d: %s", n, xmltree.FromStart(*start))
		return h(rw, start)
	}))
	t.Logf("input %s\nServe returned %v after %d invocations", input, err, n)
}

// elem:outcome:nested-comment (and -procinst, -directive, -stream-element,
// -stream-error, -restart): the handler ignores the read error, the session
// carries on and Serve ends with nil at the closing tag.
func TestReproNestedCommentSwallowed(t *testing.T) {
	serve(t, `<message><body>a</body><!-- c --><x xmlns='urn:x'/></message><message id='second'/></stream:stream>`,
		func(rw xmlstream.TokenReadEncoder, start *xml.StartElement) error {
			ignored := 0
			for {
				tok, err := rw.Token()
				if err == io.EOF {
					return nil
				}
				if err != nil {
					t.Logf("  read error ignored: %v", err)
					if ignored++; ignored > 3 {
						return nil // with the fix the error is sticky
					}
					continue
				}
				t.Logf("  token %T %v", tok, tok)
			}
		})
}

// elem:outcome:handler-eof: the handler returns the io.EOF it read.
func TestReproHandlerEOF(t *testing.T) {
	serve(t, `<message><body>a</body></message><message id='second'/></stream:stream>`,
		func(rw xmlstream.TokenReadEncoder, start *xml.StartElement) error {
			for {
				if _, err := rw.Token(); err != nil {
					return err
				}
			}
		})
}

// elem:start:from-qualified: an attribute q:from is blanked.
func TestReproQualifiedFrom(t *testing.T) {
	serve(t, `<message xmlns:q='urn:q' q:from='me@example.net' from='romeo@example.org'/></stream:stream>`,
		func(rw xmlstream.TokenReadEncoder, start *xml.StartElement) error { return nil })
}
