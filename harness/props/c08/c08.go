// Package c08 monitors the element boundary kept by Session.Serve: the handler
// is invoked once per top-level element in arrival order with that element's
// start tag (from blanked on stanzas when it is the session's own bare
// address) and can read exactly the tokens up to its end tag; stream-level
// constructs never reach a handler and end the session with an error, white
// space keep-alives are ignored, the peer's closing tag ends Serve with nil.
//
// A case is one pre-loaded input stream (element trees in which every start tag
// and text run carries the index of its top-level element, keep-alives, one
// terminating construct at the top level or nested in an element, an optional
// trailer) served single-threaded with recording handler programs.  The
// reference is an independent encoding/xml pass over the same bytes.
package c08

import (
	"bytes"
	"context"
	"encoding/xml"
	"errors"
	"fmt"
	"io"
	"math/rand"
	"net"
	"strconv"
	"strings"
	"sync/atomic"
	"time"

	"mellium.im/xmlstream"
	"mellium.im/xmpp"
	"mellium.im/xmpp/jid"
	"mellium.im/xmpp/stanza"
	"mellium.im/xmpp/stream"

	"mellium.im/xmpp/verifharness/core"
	"mellium.im/xmpp/verifharness/sess"
	"mellium.im/xmpp/verifharness/stall"
	"mellium.im/xmpp/verifharness/xmltree"
)

const nsStreamErr = "urn:ietf:params:xml:ns:xmpp-streams"
const nsFraming = "urn:ietf:params:xml:ns:xmpp-framing"

// ---------------------------------------------------------------------------
// case description

// Prog is the behaviour of the handler in one invocation.
type Prog struct {
	Read  string `json:"read"` // none | k | all | past-eof | swallow | inner-first (the first child, as through xmlstream.Inner)
	K     int    `json:"k,omitempty"`
	Write string `json:"write"` // none | element | split | partial | refused-end | refused-comment | refused-nameless | echo
	Ret   string `json:"ret"`   // nil | read-err | custom | write-err | eof (io.EOF whatever was read) | wrap-eof (an error wrapping io.EOF)
}

// Scenario is a complete case.
type Scenario struct {
	S2S      bool   `json:"s2s"`
	Received bool   `json:"received"`
	Local    string `json:"local,omitempty"`
	// Addr changes the session's local address before the stanzas arrive:
	// "" (no change) | update-neg (Session.UpdateAddr(NewLocal) during
	// negotiation, before Ready) | update-ready (UpdateAddr on the Ready session:
	// documented to have no effect) | bind (a real BindResource negotiation in
	// which the server assigns NewLocal; initiated c2s only).
	Addr     string `json:"addr,omitempty"`
	NewLocal string `json:"new_local,omitempty"`
	// AppClose: the application calls Session.Close while the peer keeps
	// sending: "" (never) | before (before Serve starts) | in-handler
	// (synchronously at the start of invocation CloseAt, when the serve loop does
	// not hold the output lock yet) | goroutine (on its own goroutine started at
	// the start of invocation CloseAt: it lands whenever the output lock is free).
	// WSFlag: the session is marked as a WebSocket session the way
	// websocket.Negotiator does it (the internal wskey context key; not reachable
	// through the public API on this tree), on ordinary stream framing: elements
	// in the framing namespace are then stream-level constructs.
	WSFlag bool `json:"ws_flag,omitempty"`
	// OwnReq: the application has a request of its own pending (SendIQ on
	// another goroutine); Items[OwnReq.Pos] is the peer's response to it, which
	// goes to the requester and not to the handler.
	OwnReq *OwnReq `json:"own_req,omitempty"`
	// ReadFault: the transport's Read fails with an error of the given shape
	// once At bytes of the input (after the stream header) have been delivered.
	ReadFault *ReadFault `json:"read_fault,omitempty"`
	AppClose  string     `json:"app_close,omitempty"`
	CloseAt   int        `json:"close_at,omitempty"`
	// Deadline: the application calls Session.SetCloseDeadline with a time an
	// hour away (it never passes): "" (never) | before (before Serve starts) |
	// in-handler (at the start of invocation DeadlineAt) | goroutine (on its own
	// goroutine started there) | twice (before Serve and again in the handler).
	// Nothing about the elements that follow may change.
	// BadFromLast: the last element before the closing tag is a get/set IQ whose
	// from is not an address: the handler must be given it like any other element
	// (what Serve returns afterwards is not demanded).
	BadFromLast bool     `json:"bad_from_request_last,omitempty"`
	Deadline    string   `json:"deadline,omitempty"`
	DeadlineAt  int      `json:"deadline_at,omitempty"`
	Items       []string `json:"items"`            // raw pieces of the peer's input, in order; the input ends with EOF
	Chunks      []int    `json:"chunks,omitempty"` // read sizes handed to the library, cycled; empty = unlimited
	Programs    []Prog   `json:"programs"`         // invocation i runs Programs[i mod len]
}

// OwnReq describes the application's own pending request.
type OwnReq struct {
	Pos     int    `json:"pos"`
	ID      string `json:"id"`
	Consume string `json:"consume"` // all | start | partial | cancel-hold (the request's context is cancelled after the hand-over, the response is held for a moment, then read to the end and closed)
}

const ownReqMarker = 900

// ReadFault describes a failing transport read.
type ReadFault struct {
	At    int    `json:"at"`
	Shape string `json:"shape"` // see readFaultErr
}

var readFaultShapes = []string{"wrapped-eof", "operror-eof", "custom-is-eof", "custom-unwrap-eof", "unexpected-eof", "wrapped-unexpected-eof", "plain", "bare-eof"}

type isEOFError struct{}

func (isEOFError) Error() string        { return "c08: transport: connection ended" }
func (isEOFError) Is(target error) bool { return target == io.EOF }

type unwrapEOFError struct{ msg string }

func (e unwrapEOFError) Error() string { return e.msg }
func (unwrapEOFError) Unwrap() error   { return io.EOF }

// readFaultErr builds the transport error of a shape.
func readFaultErr(shape string) error {
	switch shape {
	case "wrapped-eof":
		return fmt.Errorf("c08: read tcp: %w", io.EOF)
	case "operror-eof":
		return &net.OpError{Op: "read", Net: "tcp", Err: io.EOF}
	case "custom-is-eof":
		return isEOFError{}
	case "custom-unwrap-eof":
		return unwrapEOFError{msg: "c08: tls: connection reset"}
	case "unexpected-eof":
		return io.ErrUnexpectedEOF
	case "wrapped-unexpected-eof":
		return fmt.Errorf("c08: read: %w", io.ErrUnexpectedEOF)
	case "bare-eof":
		return io.EOF
	}
	return errors.New("c08: transport read failed")
}

// ---------------------------------------------------------------------------
// generation

func pick(r *rand.Rand, xs ...string) string { return xs[r.Intn(len(xs))] }

func esc(s string) string {
	var sb strings.Builder
	xml.EscapeText(&sb, []byte(s))
	return sb.String()
}

func ownBare(local string) string {
	if i := strings.IndexByte(local, '/'); i >= 0 {
		return local[:i]
	}
	return local
}

type gen struct {
	r     *rand.Rand
	o     sess.Opts
	local string   // the address the session ends up with
	other []string // further addresses of interest (the address before a change)
}

// own picks one of the session's addresses (current or former).
func (g *gen) own() string {
	if len(g.other) > 0 && g.r.Intn(2) == 0 {
		return g.other[g.r.Intn(len(g.other))]
	}
	return g.local
}

func (g *gen) text(idx int) string {
	r := g.r
	if r.Intn(8) == 0 {
		// character data without characters: an empty CDATA section, alone or
		// next to text
		return pick(r, "<![CDATA[]]>", fmt.Sprintf("t%d;a<![CDATA[]]>", idx), fmt.Sprintf("<![CDATA[]]>t%d;b", idx), "<![CDATA[]]><![CDATA[]]>")
	}
	switch r.Intn(6) {
	case 0:
		return fmt.Sprintf("t%d;plain text", idx)
	case 1:
		return fmt.Sprintf("t%d;&amp;&lt;&#x20;&gt;", idx)
	case 2:
		return fmt.Sprintf("<![CDATA[t%d;<not a tag>]]>", idx)
	case 3:
		return pick(r, " ", "\n\t", "  \r\n")
	case 4:
		return fmt.Sprintf("t%d;é☃ ", idx)
	default:
		return fmt.Sprintf("t%d;", idx)
	}
}

func (g *gen) fromAttr() string {
	r := g.r
	switch x := r.Intn(14); {
	case x < 4:
		return ""
	case x < 8:
		return " from='" + esc(ownBare(g.own())) + "'"
	case x < 9:
		return " from='" + esc(g.own()) + "'"
	case x < 10:
		return " from=''"
	case x < 12:
		return " from='romeo@example.org/orchard'"
	default:
		return " from='" + esc(g.o.Remote) + "'"
	}
}

// child returns one nested element of top-level element idx.
func (g *gen) child(idx, depth int) string {
	r := g.r
	var name, ns string
	switch r.Intn(9) {
	case 8:
		// local names of stream-level elements, outside the stream namespace
		// (their own, or the one they inherit): ordinary content
		name = pick(r, "stream", "error", "features", "stream")
		if r.Intn(2) == 0 {
			ns = pick(r, "urn:c08:x", "urn:example:media")
		}
	case 0:
		name = "message"
	case 1:
		name = "iq"
	case 2:
		name = "presence"
	case 3:
		name, ns = "x", "urn:c08:x"
	case 4:
		name, ns = "iq", "urn:c08:x"
	case 5:
		name = "body"
	case 6:
		name, ns = "forwarded", "urn:xmpp:forward:0"
	default:
		name = "item"
	}
	var sb strings.Builder
	sb.WriteString("<" + name)
	if ns != "" {
		sb.WriteString(" xmlns='" + ns + "'")
	}
	fmt.Fprintf(&sb, " e='%d'", idx)
	if r.Intn(3) == 0 {
		sb.WriteString(g.fromAttr())
	}
	if r.Intn(3) == 0 {
		sb.WriteString(" type='" + pick(r, "get", "result", "chat", "error") + "'")
	}
	if r.Intn(4) == 0 {
		sb.WriteString(fmt.Sprintf(" id='c%d'", r.Intn(100)))
	}
	n := 0
	if depth < 3 {
		n = r.Intn(4)
	}
	if n == 0 && r.Intn(2) == 0 {
		sb.WriteString("/>")
		return sb.String()
	}
	sb.WriteString(">")
	for i := 0; i < n; i++ {
		if r.Intn(3) == 0 {
			sb.WriteString(g.text(idx))
		} else {
			sb.WriteString(g.child(idx, depth+1))
		}
	}
	sb.WriteString("</" + name + ">")
	return sb.String()
}

// topOpen returns the start tag (without '>') and the name of a top-level element.
func (g *gen) topOpen(idx int) (open, name string) {
	r := g.r
	ns := ""
	switch x := r.Intn(20); {
	case x < 6:
		name = "message"
	case x < 11:
		name = "iq"
	case x < 14:
		name = "presence"
	case x < 16:
		name, ns = pick(r, "foo", "x", "features", "stream", "error"), "urn:c08:top"
	case x < 17:
		name, ns = pick(r, "iq", "message"), "urn:c08:top"
	case x < 18:
		// a stanza name in the other stanza namespace: not a stanza of this stream
		name = pick(r, "message", "iq", "presence")
		ns = "jabber:server"
		if g.o.S2S {
			ns = "jabber:client"
		}
	case x < 19:
		name, ns = pick(r, "message", "iq"), g.o.NS()
	default:
		name = pick(r, "foo", "body", "error", "stream")
	}
	var attrs []string
	attrs = append(attrs, fmt.Sprintf(" e='%d'", idx))
	if ns != "" {
		attrs = append(attrs, " xmlns='"+ns+"'")
	}
	if f := g.fromAttr(); f != "" {
		if r.Intn(12) == 0 {
			// a qualified attribute named from, next to or instead of the real one
			attrs = append(attrs, " xmlns:q='urn:c08:q' q:from='"+pick(r, esc(ownBare(g.local)), "romeo@example.org")+"'")
			if r.Intn(2) == 0 {
				attrs = append(attrs, f)
			}
		} else {
			attrs = append(attrs, f)
		}
	}
	if name == "iq" {
		attrs = append(attrs, " type='"+pick(r, "get", "set", "result", "error")+"'")
		if r.Intn(6) != 0 {
			attrs = append(attrs, fmt.Sprintf(" id='i%d'", idx))
		}
	} else if r.Intn(2) == 0 {
		attrs = append(attrs, " type='"+pick(r, "chat", "error", "unavailable", "normal")+"'")
	}
	if r.Intn(4) == 0 {
		attrs = append(attrs, " to='"+esc(g.local)+"'")
	}
	if r.Intn(8) == 0 {
		attrs = append(attrs, " xml:lang='de'")
	}
	// keep e first or not: order is free
	r.Shuffle(len(attrs), func(i, j int) { attrs[i], attrs[j] = attrs[j], attrs[i] })
	return "<" + name + strings.Join(attrs, ""), name
}

func (g *gen) top(idx int) string {
	r := g.r
	open, name := g.topOpen(idx)
	n := r.Intn(5)
	if n == 0 && r.Intn(2) == 0 {
		return open + "/>"
	}
	var sb strings.Builder
	sb.WriteString(open + ">")
	for i := 0; i < n; i++ {
		if r.Intn(3) == 0 {
			sb.WriteString(g.text(idx))
		} else {
			sb.WriteString(g.child(idx, 2))
		}
	}
	sb.WriteString("</" + name + ">")
	return sb.String()
}

var streamConds = []string{"host-unknown", "not-authorized", "system-shutdown", "conflict", "policy-violation", "undefined-condition"}

// construct returns the raw text of a stream-level construct.
func (g *gen) construct(kind string, nested bool) string {
	r := g.r
	switch kind {
	case "comment":
		return pick(r, "<!-- a comment -->", "<!---->", "<!--<iq/>-->")
	case "procinst":
		return pick(r, "<?target some data?>", "<?xml version='1.0'?>", "<?php echo 1 ?>")
	case "directive":
		return pick(r, "<!DOCTYPE foo>", "<!ENTITY x 'y'>", "<!DOCTYPE foo [<!ENTITY a 'b'>]>")
	case "stream-element":
		return pick(r, "<stream:features/>", "<stream:foo>text</stream:foo>", "<features xmlns='"+sess.NSStream+"'><a/></features>", "<s:x xmlns:s='"+sess.NSStream+"'/>")
	case "stream-error":
		// the defined condition, any number of <text/> with xml:lang, an
		// application-specific condition (RFC 6120 4.9.2) and unknown children,
		// in every order
		c := streamConds[r.Intn(len(streamConds))]
		cond := "<" + c + " xmlns='" + nsStreamErr + "'/>"
		if r.Intn(6) == 0 {
			cond = "<see-other-host xmlns='" + nsStreamErr + "'>other.example.net:5222</see-other-host>"
		}
		if r.Intn(8) == 0 {
			cond = "<" + c + " xmlns='" + nsStreamErr + "'>optional <b xmlns='urn:c08:x'>content</b></" + c + ">"
		}
		parts := []string{cond}
		for i, m := 0, r.Intn(3); i < m; i++ {
			parts = append(parts, "<text xmlns='"+nsStreamErr+"' xml:lang='"+pick(r, "en", "de", "x-klingon")+"'>"+pick(r, "bye", "Auf Wiedersehen &amp; tsch&#252;ss", "")+"</text>")
		}
		if r.Intn(2) == 0 {
			parts = append(parts, pick(r,
				"<escape-your-data xmlns='http://example.org/ns'/>",
				"<escape-your-data xmlns='http://example.org/ns'>some <i>nested</i> detail</escape-your-data>",
				"<app:too-many-kittens xmlns:app='urn:c08:app' count='9'><app:kitten/><app:kitten/></app:too-many-kittens>"))
		}
		if r.Intn(4) == 0 {
			parts = append(parts, pick(r, "<unknown xmlns='urn:c08:x'><text xmlns='"+nsStreamErr+"'>not the text</text></unknown>", "<text xmlns='urn:c08:x'>foreign text</text>", " \n "))
		}
		r.Shuffle(len(parts), func(i, j int) { parts[i], parts[j] = parts[j], parts[i] })
		return "<stream:error>" + strings.Join(parts, "") + "</stream:error>"
	case "restart":
		s := "<stream:stream xmlns='" + g.o.NS() + "' xmlns:stream='" + sess.NSStream + "' version='1.0'>"
		if nested {
			s += pick(r, "", "<a/>") + "</stream:stream>"
		}
		return s
	case "text":
		return pick(r, "hello", " x ", "&amp;", " ")
	case "malformed":
		return pick(r, "<a></b>", "<a b=c/>", "</notopen>", "<a>&undefined;</a>", "<a b='1' b></a>", "<1a/>")
	}
	panic("unknown construct " + kind)
}

var topKinds = []string{"closing", "closing", "closing", "stream-error", "restart", "stream-element", "comment", "procinst", "directive", "text", "malformed", "eof"}
var nestedKinds = []string{"comment", "procinst", "directive", "stream-element", "stream-error", "restart", "malformed", "eof"}

func genProg(r *rand.Rand) Prog {
	var p Prog
	switch x := r.Intn(16); {
	case x < 2:
		p.Read = "none"
	case x < 6:
		p.Read, p.K = "k", 1+r.Intn(8)
	case x < 10:
		p.Read = "all"
	case x < 13:
		p.Read, p.K = "past-eof", 1+r.Intn(4)
	default:
		p.Read, p.K = "swallow", 1+r.Intn(3)
	}
	switch x := r.Intn(12); {
	case x < 7:
		p.Write = "none"
	case x < 10:
		p.Write = "element"
	case x < 11:
		p.Write = "split"
	default:
		p.Write = "partial"
	}
	switch x := r.Intn(12); {
	case x < 9:
		p.Ret = "nil"
	case x < 11:
		p.Ret = "read-err"
	default:
		p.Ret = "custom"
	}
	if r.Intn(10) == 0 {
		// the handler returns a bare io.EOF after reading none / the first child /
		// some tokens / everything
		p.Ret = "eof"
		switch r.Intn(5) {
		case 0:
			p.Read = "none"
		case 1, 2:
			p.Read = "inner-first"
		case 3:
			p.Read, p.K = "k", 1+r.Intn(4)
		default:
			p.Read = "all"
		}
	}
	if r.Intn(25) == 0 {
		p.Ret = "wrap-eof"
	}
	if r.Intn(80) == 0 {
		// a write that xml.Encoder refuses; the program swallows or returns the error
		p.Write = pick(r, "refused-end", "refused-comment", "refused-nameless", "echo")
		p.Ret = pick(r, "nil", "nil", "write-err")
		if p.Write == "echo" {
			p.Read = "none"
		}
	}
	return p
}

func generate(r *rand.Rand) Scenario {
	var sc Scenario
	sc.S2S = r.Intn(3) == 0
	sc.Received = r.Intn(2) == 0
	if !sc.S2S && r.Intn(3) == 0 {
		sc.Local = pick(r, "juliet@example.com/x", "me@example.net")
	}
	o := sess.Opts{S2S: sc.S2S, Received: sc.Received, Local: sc.Local}
	g := &gen{r: r, o: o}
	g.local = o.Local
	if g.local == "" {
		g.local = "me@example.net/lib"
		if o.S2S {
			g.local = "example.net"
		}
	}
	g.o.Remote = "example.net"
	if o.S2S {
		g.o.Remote = "example.org"
	}
	if x := r.Intn(20); x < 3 {
		old := g.local
		switch {
		case x == 0 && !sc.S2S:
			sc.Addr = "bind"
			sc.Received = false
			sc.NewLocal = pick(r, "a1b2c3@example.net/res", "me@example.net/bound", "guest-7@anon.example.net/x")
		case x == 1 || sc.S2S:
			sc.Addr = "update-neg"
			sc.NewLocal = pick(r, "a1b2c3@example.net/res", "renamed@example.com", "example.com")
			if !sc.S2S && r.Intn(4) == 0 {
				sc.NewLocal = ownBare(old) + "/other-resource" // same bare address
			}
		default:
			sc.Addr = "update-ready"
			sc.NewLocal = pick(r, "a1b2c3@example.net/res", "renamed@example.com")
		}
		if sc.Addr == "update-ready" {
			g.other = []string{sc.NewLocal} // never becomes the session's address
		} else {
			g.local, g.other = sc.NewLocal, []string{old}
		}
	}
	ws := func() {
		if r.Intn(4) == 0 {
			sc.Items = append(sc.Items, pick(r, " ", "\n", "\t\r\n ", "   ", "<![CDATA[]]>", " <![CDATA[]]>\n"))
		}
	}
	n := r.Intn(5)
	idx := 0
	var lead []int // item indexes of the leading elements
	for i := 0; i < n; i++ {
		ws()
		idx++
		lead = append(lead, len(sc.Items))
		sc.Items = append(sc.Items, g.top(idx))
	}
	ws()
	lead = append(lead, len(sc.Items)) // where the terminator part begins
	// the terminator
	if r.Intn(3) == 0 {
		// nested in one more element
		kind := nestedKinds[r.Intn(len(nestedKinds))]
		idx++
		open, name := g.topOpen(idx)
		var sb strings.Builder
		sb.WriteString(open + ">")
		for i, m := 0, r.Intn(3); i < m; i++ {
			if r.Intn(2) == 0 {
				sb.WriteString(g.text(idx))
			} else {
				sb.WriteString(g.child(idx, 2))
			}
		}
		wrap := r.Intn(2) == 0
		if wrap {
			fmt.Fprintf(&sb, "<x xmlns='urn:c08:x' e='%d'>%s", idx, g.text(idx))
		}
		if kind == "eof" {
			if r.Intn(2) == 0 {
				fmt.Fprintf(&sb, "<unfinished e='%d' a='", idx)
			}
			sc.Items = append(sc.Items, sb.String())
		} else {
			sb.WriteString(g.construct(kind, true))
			for i, m := 0, r.Intn(3); i < m; i++ {
				if r.Intn(2) == 0 {
					sb.WriteString(g.text(idx))
				} else {
					sb.WriteString(g.child(idx, 2))
				}
			}
			if wrap {
				sb.WriteString("</x>")
			}
			sb.WriteString("</" + name + ">")
			sc.Items = append(sc.Items, sb.String())
		}
		if kind != "eof" {
			// the stream goes on as if nothing had happened
			for i, m := 0, r.Intn(3); i < m; i++ {
				ws()
				idx++
				sc.Items = append(sc.Items, g.top(idx))
			}
			if r.Intn(4) != 0 {
				sc.Items = append(sc.Items, "</stream:stream>")
			}
		}
	} else {
		kind := topKinds[r.Intn(len(topKinds))]
		switch kind {
		case "closing":
			if r.Intn(4) == 0 {
				idx++
				sc.BadFromLast = true
				sc.Items = append(sc.Items, fmt.Sprintf("<iq type='%s' id='bf%d' from='%s' e='%d'><q xmlns='urn:c08:x' e='%d'/></iq>",
					pick(r, "get", "set"), idx, pick(r, "@example.org", "juliet@", "a@b/", "a@b@/c", "@"), idx, idx))
			}
			sc.Items = append(sc.Items, "</stream:stream>")
		case "eof":
		default:
			sc.Items = append(sc.Items, g.construct(kind, false))
		}
		if kind != "eof" && r.Intn(2) == 0 {
			// a trailer that must never be dispatched
			for i, m := 0, 1+r.Intn(2); i < m; i++ {
				idx++
				sc.Items = append(sc.Items, g.top(idx))
			}
			if kind != "closing" {
				sc.Items = append(sc.Items, "</stream:stream>")
			}
		}
	}
	switch r.Intn(4) {
	case 0:
		for i, m := 0, 1+r.Intn(5); i < m; i++ {
			sc.Chunks = append(sc.Chunks, 1+r.Intn(40))
		}
	case 1:
		sc.Chunks = []int{1 + r.Intn(3)}
	}
	for i, m := 0, 1+r.Intn(4); i < m; i++ {
		sc.Programs = append(sc.Programs, genProg(r))
	}
	if r.Intn(8) == 0 {
		sc.AppClose = pick(r, "before", "in-handler", "in-handler", "goroutine")
		sc.CloseAt = r.Intn(3)
	}
	if r.Intn(8) == 0 {
		sc.Deadline = pick(r, "before", "in-handler", "in-handler", "goroutine", "twice")
		sc.DeadlineAt = r.Intn(3)
	}
	if sc.Addr == "" && r.Intn(10) == 0 {
		sc.WSFlag = true
		// framing-namespace elements: a restart (<open/>) or any other one, at the
		// top level before everything else that ends the stream, or nested
		fr := pick(r, "<open xmlns='"+nsFraming+"' version='1.0'/>", "<close xmlns='"+nsFraming+"'/>", "<f:open xmlns:f='"+nsFraming+"'><a/></f:open>")
		at := lead[r.Intn(len(lead))]
		if r.Intn(2) == 0 {
			fr = fmt.Sprintf("<message e='%d'><body e='%d'>t%d;x</body>%s<x xmlns='urn:c08:x' e='%d'/></message>", ownReqMarker+1, ownReqMarker+1, ownReqMarker+1, fr, ownReqMarker+1)
		}
		sc.Items = append(sc.Items[:at:at], append([]string{fr}, sc.Items[at:]...)...)
	} else if sc.Addr == "" && r.Intn(8) == 0 {
		// the application's own request: the response arrives somewhere among the
		// leading elements (or right before the terminator)
		at := lead[r.Intn(len(lead))]
		var sb strings.Builder
		fmt.Fprintf(&sb, "<iq type='%s' id='own1' e='%d' from='%s'>", pick(r, "result", "result", "error"), ownReqMarker, esc(g.o.Remote))
		for i, m := 0, r.Intn(4); i < m; i++ {
			if r.Intn(3) == 0 {
				sb.WriteString(g.text(ownReqMarker))
			} else {
				sb.WriteString(g.child(ownReqMarker, 2))
			}
			if r.Intn(12) == 0 {
				// a stream-level construct inside the response
				sb.WriteString(g.construct(pick(r, "comment", "procinst", "directive", "stream-element"), true))
			}
		}
		sb.WriteString("</iq>")
		ins := []string{sb.String()}
		pos := at
		if r.Intn(2) == 0 {
			// before the response, IQs with the request's id that are no responses
			// (type missing or unknown): they go to the handler like anything else
			for i, m := 0, 1+r.Intn(2); i < m; i++ {
				ins = append([]string{fmt.Sprintf("<iq id='own1' e='%d'%s from='%s'><q xmlns='urn:c08:x' e='%d'/></iq>", ownReqMarker+2+i,
					pick(r, "", " type='bogus'", " type=''", " type='RESULT'"), esc(g.o.Remote), ownReqMarker+2+i)}, ins...)
				pos++
			}
		}
		sc.Items = append(sc.Items[:at:at], append(ins, sc.Items[at:]...)...)
		sc.OwnReq = &OwnReq{Pos: pos, ID: "own1", Consume: pick(r, "all", "all", "start", "partial", "cancel-hold", "cancel-hold")}
		sc.AppClose = ""
	} else if sc.Addr == "" && r.Intn(6) == 0 {
		// a failing transport read: at a boundary between the pieces of the input
		// (between elements, after a keep-alive, before the terminator) or anywhere
		total := 0
		var bounds []int
		for _, it := range sc.Items {
			total += len(it)
			bounds = append(bounds, total)
		}
		at := 0
		if len(bounds) > 0 && r.Intn(2) == 0 {
			at = bounds[r.Intn(len(bounds))]
		} else if total > 0 {
			at = r.Intn(total + 1)
		}
		sc.ReadFault = &ReadFault{At: at, Shape: readFaultShapes[r.Intn(len(readFaultShapes))]}
	}
	return sc
}

// ---------------------------------------------------------------------------
// reference: an independent pass over the same bytes

type refElem struct {
	Start   xml.StartElement
	Tokens  []xml.Token // inner tokens and, if complete, the end tag
	Partial bool        // the terminator is nested in this element: Tokens stop before it
	Idx     string      // marker (value of e)
	QFrom   bool        // has a qualified attribute named from
}

type reference struct {
	Elems      []*refElem
	Term       string // closing | stream-error | restart | stream-element | comment | procinst | directive | text | malformed | eof
	Nested     bool
	Cond       string // stream error condition
	InResponse bool   // the nested terminator lies in the response handed to the application
	AppCond    bool   // the stream error has a child outside the stream error namespace
	Texts      int    // number of <text/> children
}

func isWS(b []byte) bool { return len(bytes.Trim(b, " \t\r\n")) == 0 }

func parseRef(header, input string, wsFlag bool) *reference {
	ref := &reference{}
	d := xml.NewDecoder(strings.NewReader(header + input))
	for {
		tok, err := d.Token()
		if err != nil {
			ref.Term = "malformed"
			return ref
		}
		if _, ok := tok.(xml.StartElement); ok {
			break // the stream header
		}
	}
	depth := 0
	var cur *refElem
	finish := func(kind string) *reference {
		ref.Term = kind
		ref.Nested = depth > 0
		if cur != nil {
			cur.Partial = true
			ref.Elems = append(ref.Elems, cur)
		}
		return ref
	}
	for {
		tok, err := d.Token()
		if err != nil {
			if err == io.EOF {
				return finish("eof")
			}
			var se *xml.SyntaxError
			if errors.As(err, &se) && strings.Contains(se.Msg, "unexpected EOF") {
				return finish("eof")
			}
			return finish("malformed")
		}
		switch t := tok.(type) {
		case xml.StartElement:
			if wsFlag && t.Name.Space == nsFraming {
				return finish("ws-frame")
			}
			if t.Name.Space == sess.NSStream {
				switch t.Name.Local {
				case "error":
					// the condition: first child in the stream error namespace that is not text
					dd := 1
					for dd > 0 {
						tk, e := d.Token()
						if e != nil {
							// the stream error itself is cut short or broken
							var se *xml.SyntaxError
							if e == io.EOF || errors.As(e, &se) && strings.Contains(se.Msg, "unexpected EOF") {
								return finish("eof")
							}
							return finish("malformed")
						}
						switch x := tk.(type) {
						case xml.StartElement:
							if dd == 1 && x.Name.Space == nsStreamErr && x.Name.Local != "text" {
								ref.Cond = x.Name.Local
							}
							if dd == 1 && x.Name.Space != nsStreamErr {
								ref.AppCond = true
							}
							if dd == 1 && x.Name.Space == nsStreamErr && x.Name.Local == "text" {
								ref.Texts++
							}
							dd++
						case xml.EndElement:
							dd--
						}
					}
					return finish("stream-error")
				case "stream":
					return finish("restart")
				}
				return finish("stream-element")
			}
			if depth == 0 {
				cur = &refElem{Start: t.Copy()}
				for _, a := range t.Attr {
					if a.Name.Space == "" && a.Name.Local == "e" {
						cur.Idx = a.Value
					}
					if a.Name.Space != "" && a.Name.Space != "xmlns" && a.Name.Local == "from" {
						cur.QFrom = true
					}
				}
			} else {
				cur.Tokens = append(cur.Tokens, xml.CopyToken(t))
			}
			depth++
		case xml.EndElement:
			if depth == 0 {
				return finish("closing")
			}
			depth--
			cur.Tokens = append(cur.Tokens, xml.CopyToken(t))
			if depth == 0 {
				ref.Elems = append(ref.Elems, cur)
				cur = nil
			}
		case xml.CharData:
			if depth == 0 {
				if isWS(t) {
					continue
				}
				return finish("text")
			}
			cur.Tokens = append(cur.Tokens, xml.CopyToken(t))
		case xml.Comment:
			return finish("comment")
		case xml.ProcInst:
			return finish("procinst")
		case xml.Directive:
			return finish("directive")
		}
	}
}

// ---------------------------------------------------------------------------
// the recording handler

type readRec struct {
	Tok xml.Token
	Err error
}

type invocation struct {
	WhileRespOpen bool  // the handler was invoked while the application still held a response
	WriteErr      error // the error of a write the encoder was expected to refuse
	Refused       bool  // such a write was attempted
	Start         xml.StartElement
	Reads         []readRec
	Ret           error
	RetStr        string
}

var errCustom = errors.New("c08: handler program error")

type recorder struct {
	sc        Scenario
	invs      []*invocation
	progress  atomic.Int64
	s         *xmpp.Session
	closedAt  int           // invocation index from which the output stream is (being) closed; -1 = never
	closeRet  chan struct{} // closed when an asynchronous Session.Close has returned
	rq        *requester    // the application's own request, if any
	deadlines int           // calls of SetCloseDeadline made (or started) so far
}

// requester is the application goroutine with a request of its own.
type requester struct {
	respOpen atomic.Bool // it holds a response that it has not closed yet
	got      bool        // SendIQ returned a response
	err      error
	reads    []readRec // what it read from the response
	done     chan struct{}
	cancel   context.CancelFunc
}

func (rq *requester) run(c *core.Case, s *xmpp.Session, remote string, or *OwnReq, progress *atomic.Int64) {
	defer close(rq.done)
	ctx, cancel := context.WithCancel(context.Background())
	rq.cancel = cancel
	c.Guard("SendIQ", func() {
		to, _ := jid.Parse(remote)
		resp, err := s.SendIQ(ctx, stanza.IQ{ID: or.ID, Type: stanza.GetIQ, To: to}.Wrap(
			xmlstream.Wrap(nil, xml.StartElement{Name: xml.Name{Space: "urn:xmpp:ping", Local: "ping"}})))
		progress.Add(1)
		rq.err = err
		if resp == nil {
			return
		}
		rq.got = true
		rq.respOpen.Store(true)
		read := func() error {
			// a response closes itself when reading it fails: while a read is in
			// progress it may stop being "held" without the requester knowing yet
			rq.respOpen.Store(false)
			tok, err := resp.Token()
			if err == nil {
				rq.respOpen.Store(true)
			}
			if tok != nil {
				tok = xml.CopyToken(tok)
			}
			rq.reads = append(rq.reads, readRec{Tok: tok, Err: err})
			progress.Add(1)
			return err
		}
		n := 100000
		switch or.Consume {
		case "start":
			n = 1
		case "partial":
			n = 3
		case "cancel-hold":
			// the request's context ends while the response is still out
			cancel()
			time.Sleep(3 * time.Millisecond)
		}
		for i := 0; i < n; i++ {
			if read() != nil {
				break
			}
		}
		rq.respOpen.Store(false)
		resp.Close()
	})
}

// appClose is the application calling Session.Close.
func (rc *recorder) appClose(i int, async bool) {
	rc.closedAt = i
	if !async {
		rc.s.Close()
		return
	}
	rc.closeRet = make(chan struct{})
	go func() {
		defer close(rc.closeRet)
		rc.s.Close()
		rc.progress.Add(1)
	}()
}

func (rc *recorder) HandleXMPP(rw xmlstream.TokenReadEncoder, start *xml.StartElement) error {
	i := len(rc.invs)
	p := rc.sc.Programs[i%len(rc.sc.Programs)]
	inv := &invocation{Start: start.Copy()}
	rc.invs = append(rc.invs, inv)
	rc.progress.Add(1)
	if rc.rq != nil && rc.rq.respOpen.Load() {
		inv.WhileRespOpen = true
	}
	if i == rc.sc.DeadlineAt {
		switch rc.sc.Deadline {
		case "in-handler", "twice":
			rc.s.SetCloseDeadline(time.Now().Add(time.Hour))
			rc.deadlines++
		case "goroutine":
			rc.deadlines++
			go rc.s.SetCloseDeadline(time.Now().Add(time.Hour))
		}
	}
	if rc.closedAt < 0 && i == rc.sc.CloseAt {
		switch rc.sc.AppClose {
		case "in-handler":
			rc.appClose(i, false)
		case "goroutine":
			rc.appClose(i, true)
		}
	}
	var last error
	read := func() error {
		rc.progress.Add(1)
		tok, err := rw.Token()
		if tok != nil {
			tok = xml.CopyToken(tok)
		}
		inv.Reads = append(inv.Reads, readRec{Tok: tok, Err: err})
		if err != nil {
			last = err
		}
		return err
	}
	hw := xml.Attr{Name: xml.Name{Local: "hw"}, Value: strconv.Itoa(i)}
	note := xml.StartElement{Name: xml.Name{Space: "urn:c08:out", Local: "seen"}, Attr: []xml.Attr{hw}}
	switch p.Write {
	case "split":
		rw.EncodeToken(note)
	}
	switch p.Read {
	case "k":
		for j := 0; j < p.K; j++ {
			if read() != nil {
				break
			}
		}
	case "all":
		for j := 0; j < 100000; j++ {
			if read() != nil {
				break
			}
		}
	case "past-eof":
		for j := 0; j < 100000; j++ {
			if read() != nil {
				break
			}
		}
		for j := 0; j < p.K; j++ {
			read()
		}
	case "inner-first":
		// the first child element, the way xmlstream.Inner(rw) after its start
		// tag delivers it: up to and including its end tag
		depth := 0
		for j := 0; j < 100000; j++ {
			if read() != nil {
				break
			}
			switch inv.Reads[len(inv.Reads)-1].Tok.(type) {
			case xml.StartElement:
				depth++
			case xml.EndElement:
				depth--
			}
			if depth <= 0 {
				if _, isText := inv.Reads[len(inv.Reads)-1].Tok.(xml.CharData); !isText {
					break
				}
			}
		}
	case "swallow":
		swallowed := 0
		for j := 0; j < 100000; j++ {
			err := read()
			if err == io.EOF {
				break
			}
			if err != nil {
				swallowed++
				if swallowed > p.K {
					break
				}
			}
		}
	}
	switch p.Write {
	case "element":
		rw.EncodeToken(note)
		rw.EncodeToken(note.End())
	case "split":
		rw.EncodeToken(note.End())
	case "partial":
		rw.EncodeToken(note)
	case "refused-end":
		// the classic slip: the end tag of an element whose start was never written
		inv.Refused = true
		inv.WriteErr = rw.EncodeToken(start.End())
	case "refused-comment":
		inv.Refused = true
		inv.WriteErr = rw.EncodeToken(xml.Comment("-->"))
	case "refused-nameless":
		inv.Refused = true
		inv.WriteErr = rw.EncodeToken(xml.StartElement{})
	case "echo":
		// xmlstream.Copy(rw, rw) without encoding *start first
		inv.Refused = true
		readFailed := false
		_, inv.WriteErr = xmlstream.Copy(rw, xmlstream.ReaderFunc(func() (xml.Token, error) {
			err := read()
			if err != nil && err != io.EOF {
				readFailed = true
			}
			var tok xml.Token
			if n := len(inv.Reads); n > 0 && inv.Reads[n-1].Tok != nil {
				// a copy of its own: the session's encoder edits attribute slices in place
				tok = xml.CopyToken(inv.Reads[n-1].Tok)
			}
			return tok, err
		}))
		if readFailed {
			inv.WriteErr = nil // a read error ended the copy, not a refused write
		}
	}
	rc.progress.Add(1)
	switch p.Ret {
	case "write-err":
		inv.Ret = inv.WriteErr
	case "read-err":
		inv.Ret = last
	case "custom":
		inv.Ret = errCustom
	case "eof":
		inv.Ret = io.EOF
	case "wrap-eof":
		inv.Ret = fmt.Errorf("c08: handler: decoding payload: %w", io.EOF)
	}
	return inv.Ret
}

// ---------------------------------------------------------------------------
// oracle

func attrsOf(se xml.StartElement) map[xml.Name]string { return xmltree.FromStart(se).Attrs }

func sameStart(a, b xml.StartElement) bool {
	if a.Name != b.Name {
		return false
	}
	x, y := attrsOf(a), attrsOf(b)
	if len(x) != len(y) {
		return false
	}
	for k, v := range x {
		if w, ok := y[k]; !ok || w != v {
			return false
		}
	}
	return true
}

func sameToken(a, b xml.Token) bool {
	switch x := a.(type) {
	case xml.StartElement:
		y, ok := b.(xml.StartElement)
		return ok && sameStart(x, y)
	case xml.EndElement:
		y, ok := b.(xml.EndElement)
		return ok && x.Name == y.Name
	case xml.CharData:
		y, ok := b.(xml.CharData)
		return ok && bytes.Equal(x, y)
	}
	return false
}

// leakKind names a stream-level construct delivered as a token, or "".
func leakKind(t xml.Token) string {
	switch x := t.(type) {
	case xml.Comment:
		return "comment"
	case xml.ProcInst:
		return "procinst"
	case xml.Directive:
		return "directive"
	case xml.StartElement:
		if x.Name.Space == sess.NSStream {
			return "stream-element"
		}
	case xml.EndElement:
		if x.Name.Space == sess.NSStream {
			return "stream-end-element"
		}
	}
	return ""
}

// foreignMarker reports whether t carries the marker of another top-level element.
func foreignMarker(t xml.Token, idx string) bool {
	switch x := t.(type) {
	case xml.StartElement:
		for _, a := range x.Attr {
			if a.Name.Space == "" && a.Name.Local == "e" {
				return a.Value != idx
			}
		}
	case xml.CharData:
		s := string(x)
		if i := strings.IndexByte(s, 't'); i >= 0 {
			if j := strings.IndexByte(s[i:], ';'); j > 1 {
				if n := s[i+1 : i+j]; isNum(n) {
					return n != idx
				}
			}
		}
	}
	return false
}

func isNum(s string) bool {
	if s == "" {
		return false
	}
	for _, c := range s {
		if c < '0' || c > '9' {
			return false
		}
	}
	return true
}

func tokStr(t xml.Token) string {
	switch x := t.(type) {
	case nil:
		return "<nil>"
	case xml.StartElement:
		return "start " + xmltree.FromStart(x).String()
	case xml.EndElement:
		return "end {" + x.Name.Space + "}" + x.Name.Local
	case xml.CharData:
		return fmt.Sprintf("chardata %q", string(x))
	case xml.Comment:
		return fmt.Sprintf("comment %q", string(x))
	case xml.ProcInst:
		return fmt.Sprintf("procinst %s %q", x.Target, string(x.Inst))
	case xml.Directive:
		return fmt.Sprintf("directive %q", string(x))
	}
	return fmt.Sprintf("%T", t)
}

func termKey(ref *reference) string {
	if ref.InResponse {
		return "response-" + ref.Term
	}
	if ref.Nested {
		return "nested-" + ref.Term
	}
	return ref.Term
}

// Run executes one scenario and judges it.
func Run(c *core.Case, sc Scenario) {
	c.Sample(sc)
	input := strings.Join(sc.Items, "")
	if len(sc.Programs) == 0 {
		sc.Programs = []Prog{{Read: "all", Write: "none", Ret: "nil"}}
	}
	ev, ok := newEnv(c, sc, input)
	if !ok {
		return
	}
	defer ev.done()
	o := ev.Opts
	ns := o.NS()
	// the session's own bare address: what LocalAddr reports now, which must be
	// what the scenario made it
	wantLocal := o.Local
	if sc.Addr == "update-neg" || sc.Addr == "bind" {
		wantLocal = sc.NewLocal
	}
	own := ownBare(ev.S.LocalAddr().String())
	if own != ownBare(wantLocal) {
		c.Count("localaddr_differs_from_scenario", 1)
		c.Notef("LocalAddr() is %q, the scenario expects %q", ev.S.LocalAddr().String(), wantLocal)
	}
	oldOwn := ""
	if sc.Addr == "update-neg" || sc.Addr == "bind" {
		oldOwn = ownBare(o.Local)
		if oldOwn != own {
			c.Count("bare_address_changed_before_serve", 1)
		}
	}
	refInput := input
	if sc.ReadFault != nil && sc.ReadFault.At < len(input) {
		refInput = input[:sc.ReadFault.At] // what the library can have read
	}
	ref := parseRef(sess.Header(o), refInput, sc.WSFlag)
	// the response to the application's own request is not the handler's
	var respElem *refElem
	if sc.OwnReq != nil {
		for k, e := range ref.Elems {
			if e.Idx == strconv.Itoa(ownReqMarker) {
				respElem = e
				ref.Elems = append(ref.Elems[:k:k], ref.Elems[k+1:]...)
				if e.Partial {
					ref.InResponse = true
				}
				break
			}
		}
	}
	rec := &recorder{sc: sc, s: ev.S, closedAt: -1}
	if sc.AppClose == "before" {
		rec.appClose(0, false)
	}
	if sc.Deadline == "before" || sc.Deadline == "twice" {
		ev.S.SetCloseDeadline(time.Now().Add(time.Hour))
		rec.deadlines++
	}
	if len(sc.Chunks) > 0 {
		k := 0
		ev.Lib.SetChunker(func(avail int) int {
			n := sc.Chunks[k%len(sc.Chunks)]
			k++
			return n
		})
	}
	// Serve runs on its own goroutine so that a serve loop that wedges (a leaked
	// lock after a refused write, for example) is decided by the quiescent-stall
	// rule: the whole input including its EOF is already queued, so when the
	// progress counter stands still nothing can wake a parked goroutine any more.
	var serveErr error
	var panicked bool
	done := make(chan struct{})
	go func() {
		defer close(done)
		panicked = c.Guard("Serve", func() { serveErr = ev.S.Serve(xmpp.Handler(rec)) })
	}()
	if sc.OwnReq != nil && ev.feed != nil {
		rec.rq = &requester{done: make(chan struct{})}
		go rec.rq.run(c, ev.S, o.Remote, sc.OwnReq, &rec.progress)
		// the request is registered before it is written: once it is on the wire
		// the peer may answer
		deadline := time.Now().Add(20 * time.Second)
		for {
			onWire := false
			for _, e := range xmltree.ParseStream(ev.Lib.Written(), true).Elems {
				if e.Name.Local == "iq" && e.Attr("id") == sc.OwnReq.ID {
					onWire = true
				}
			}
			if onWire {
				break
			}
			if time.Now().After(deadline) {
				c.Inconclusive("own request: the request did not appear on the wire within 20s")
				rec.rq.cancel()
				ev.feed()
				return
			}
			time.Sleep(200 * time.Microsecond)
		}
		ev.feed()
		defer func() {
			if rec.rq.cancel != nil {
				rec.rq.cancel()
			}
		}()
	}
	progress := func() int64 {
		_, _, ops := ev.Lib.Ops() // transport activity counts as progress too
		return rec.progress.Load() + int64(ops)
	}
	deadline := time.Now().Add(40 * time.Second)
	for {
		finished, quiescent := stall.AwaitQuiet(done, progress, time.Second, 10*time.Second)
		if finished {
			break
		}
		if quiescent {
			// nothing moved: wedged, or merely starved of CPU?  Only a library
			// goroutine parked in a channel operation or on a mutex decides.
			if parked := freshParked(stall.Check(nil, 100*time.Millisecond)); len(parked) > 0 {
				select {
				case <-done: // it moved after all
					continue
				default:
				}
				c.Count("serve_did_not_return", 1)
				for _, g := range parked {
					convicted[g.ID] = true
				}
				last := "none"
				if n := len(rec.invs); n > 0 {
					last = fmt.Sprintf("%d (program %+v)", n-1, sc.Programs[(n-1)%len(sc.Programs)])
				}
				c.Violate(stall.Key(parked[0]), "Serve does not return: the whole input (with EOF) is queued, nothing moves, and %d library goroutine(s) stay parked; last handler invocation: %s\n%s", len(parked), last, parked[0].Stack)
				return
			}
		}
		if time.Now().After(deadline) {
			c.Inconclusive("Serve did not return within 40s and the stall rule found no parked library goroutine")
			return
		}
	}
	if panicked {
		return
	}
	if rec.rq != nil {
		rq := rec.rq
		if rq.cancel != nil {
			rq.cancel() // Serve is over: a request that was never answered ends here
		}
		if !stall.WaitDone(rq.done, 20*time.Second) {
			c.Inconclusive("own request: the requester did not return although Serve did")
			return
		}
		c.Count("own_requests", 1)
		c.Count("own_request_consume_"+sc.OwnReq.Consume, 1)
		for i, inv := range rec.invs {
			if inv.WhileRespOpen {
				c.Violate("elem:handoff:handler-invoked-while-response-open", "invocation %d (%s) began while the application still held the response to its own request open (consume=%s)", i, tokStr(inv.Start), sc.OwnReq.Consume)
				break
			}
		}
		if rq.got && respElem != nil {
			c.Count("own_request_got_response", 1)
			// the tokens of the response are the response's: its start tag, then a
			// prefix of its inner tokens, the end tag optional
			exp := append([]xml.Token{respElem.Start}, respElem.Tokens...)
			pos := 0
			for k, rd := range rq.reads {
				if rd.Tok == nil {
					if rd.Err == nil {
						c.Violate("elem:handoff:response-tokens", "the requester's read %d returned neither a token nor an error (response %s)", k, tokStr(respElem.Start))
					}
					break
				}
				if lk := leakKind(rd.Tok); lk != "" {
					c.Violate("elem:leak:"+lk, "the requester's read %d returned %s", k, tokStr(rd.Tok))
					break
				}
				if pos < len(exp) && sameToken(rd.Tok, exp[pos]) {
					pos++
					continue
				}
				w := "<nothing>"
				if pos < len(exp) {
					w = tokStr(exp[pos])
				}
				key := "elem:handoff:response-tokens"
				if pos >= len(exp) || foreignMarker(rd.Tok, respElem.Idx) {
					key = "elem:handoff:response-overread"
				}
				c.Violate(key, "the requester's read %d returned %s, the response's token %d is %s (consume=%s)", k, tokStr(rd.Tok), pos, w, sc.OwnReq.Consume)
				break
			}
			if pos == len(exp) || pos == len(exp)-1 {
				c.Count("own_response_read_to_the_end", 1)
			}
			if ref.InResponse {
				c.Count("own_response_with_nested_construct", 1)
			}
		}
	}
	if rec.closeRet != nil && !stall.WaitDone(rec.closeRet, 20*time.Second) {
		c.Inconclusive("Session.Close, called on its own goroutine during invocation %d, did not return although Serve did", rec.closedAt)
		return
	}
	if rec.deadlines > 0 {
		c.Count("close_deadline_set_"+sc.Deadline, 1)
		if n := len(rec.invs) - 1 - sc.DeadlineAt; n > 0 || (sc.Deadline == "before" && len(rec.invs) > 0) {
			c.Count("invocations_after_a_close_deadline_was_set", 1)
		}
	}
	if sc.AppClose != "" && rec.closedAt >= 0 {
		c.Count("app_close_"+sc.AppClose, 1)
	}
	c.Count("streams", 1)
	c.Count("terminator_"+termKey(ref), 1)
	c.Count("invocations", len(rec.invs))
	if len(sc.Chunks) > 0 {
		c.Count("chunked_streams", 1)
	}

	expected := len(ref.Elems)
	stopped := -1 // first invocation whose program returned an error
	var stopErr error
	outcomeClass := "nil"
	if serveErr != nil {
		outcomeClass = "err"
	}

	for i, inv := range rec.invs {
		if inv.Ret == io.EOF && i+1 < len(rec.invs) {
			// the session took the handler's io.EOF for "done with this element"
			// and carried on: everything that follows is judged as usual (the next
			// invocation must begin at the next top-level element)
			c.Count("session_carried_on_after_handler_eof", 1)
			continue
		}
		if inv.Ret != nil {
			stopped, stopErr = i, inv.Ret
			break
		}
	}
	after := func(i int) bool { return stopped >= 0 && i > stopped }

	for i, inv := range rec.invs {
		prog := sc.Programs[i%len(sc.Programs)]
		if after(i) {
			// after a handler error nothing more is demanded, but nothing may leak
			c.Count("invocations_after_handler_error", 1)
		}
		if i >= expected {
			// dispatched although the terminating construct came first: the
			// session was not ended by it
			if !after(i) {
				c.Violate("elem:outcome:"+termKey(ref), "invocation %d (%s) although the input has only %d top-level elements before the %s: the session went on after it", i, tokStr(inv.Start), expected, termKey(ref))
			}
			for _, rd := range inv.Reads {
				if k := leakKind(rd.Tok); k != "" {
					c.Violate("elem:leak:"+k, "invocation %d read %s", i, tokStr(rd.Tok))
				}
			}
			continue
		}
		e := ref.Elems[i]
		// ---- start
		want := e.Start.Copy()
		isStanza := want.Name.Space == ns && (want.Name.Local == "iq" || want.Name.Local == "message" || want.Name.Local == "presence")
		blank := false
		for k, a := range want.Attr {
			if a.Name.Space == "" && a.Name.Local == "from" {
				if isStanza && a.Value == own {
					want.Attr[k].Value = ""
					blank = true
				}
				break
			}
		}
		if isStanza {
			c.Count("stanzas_dispatched", 1)
		} else {
			c.Count("non_stanzas_dispatched", 1)
			for _, a := range want.Attr {
				if a.Name.Space == "" && a.Name.Local == "from" && a.Value == own {
					c.Count("non_stanza_with_own_from", 1)
				}
			}
		}
		if blank {
			c.Count("from_blanked_expected", 1)
			if oldOwn != "" && oldOwn != own {
				c.Count("from_blanked_expected_after_addr_change", 1)
			}
		}
		if isStanza && oldOwn != "" && oldOwn != own {
			for _, a := range want.Attr {
				if a.Name.Space == "" && a.Name.Local == "from" && a.Value == oldOwn {
					c.Count("former_bare_from_after_addr_change", 1)
				}
			}
		}
		if prog.Ret == "eof" {
			c.Count("handler_returned_bare_eof", 1)
			eofSeen := false
			for _, rd := range inv.Reads {
				if rd.Err == io.EOF {
					eofSeen = true
				}
			}
			if !eofSeen && len(e.Tokens) > 1 && i+1 < expected {
				c.Count("bare_eof_with_element_partly_unread", 1)
			}
		}
		if inv.Refused {
			c.Count("refused_writes", 1)
			c.Count("refused_write_"+prog.Write, 1)
			switch {
			case inv.WriteErr == nil:
				c.Count("refused_write_was_accepted_or_not_reached", 1)
			case inv.Ret == nil:
				c.Count("refused_write_error_swallowed", 1)
				if i+1 < len(rec.invs) {
					c.Count("refused_write_then_more_elements", 1)
				}
			default:
				c.Count("refused_write_error_returned", 1)
			}
		}
		if k := leakKind(inv.Start); k != "" {
			c.Violate("elem:leak:"+k, "invocation %d was given the start tag %s", i, tokStr(inv.Start))
		} else if !sameStart(inv.Start, want) {
			detail := "other"
			switch {
			case sameStart(inv.Start, e.Start) && blank:
				detail = "from-not-blanked"
			case e.QFrom:
				detail = "from-qualified"
			case sameStartExceptFrom(inv.Start, want):
				detail = "from"
			}
			if detail == "from-not-blanked" && e.QFrom {
				detail = "from-qualified"
			}
			c.Violate("elem:start:"+detail, "invocation %d got %s, the input's top-level element %d is %s (own bare address %q)", i, tokStr(inv.Start), i, tokStr(want), own)
			continue // token comparison against a different element is meaningless
		}
		// ---- tokens
		exp := e.Tokens
		pos := 0
		phase := "normal"
		sawEOF := false
		for k, rd := range inv.Reads {
			if lk := leakKind(rd.Tok); lk != "" {
				c.Violate("elem:leak:"+lk, "invocation %d read %d returned %s", i, k, tokStr(rd.Tok))
				continue
			}
			switch phase {
			case "normal":
				if rd.Tok != nil {
					switch {
					case pos < len(exp) && sameToken(rd.Tok, exp[pos]):
						pos++
					case pos >= len(exp) && !e.Partial, foreignMarker(rd.Tok, e.Idx):
						c.Violate("elem:overread", "invocation %d (element %s) read %d returned %s, which lies beyond its end tag", i, e.Idx, k, tokStr(rd.Tok))
						phase = "broken"
					default:
						w := "<nothing>"
						if pos < len(exp) {
							w = tokStr(exp[pos])
						}
						c.Violate("elem:tokens:mismatch", "invocation %d read %d returned %s, the element's token %d is %s", i, k, tokStr(rd.Tok), pos, w)
						phase = "broken"
					}
				}
				if rd.Err == nil {
					if rd.Tok == nil {
						c.Count("nil_nil_reads", 1)
					}
					continue
				}
				if rd.Err == io.EOF {
					sawEOF = true
					phase = "eof"
					need := len(exp)
					if !e.Partial {
						need-- // the end tag may be withheld
					}
					if pos < need || e.Partial {
						c.Violate("elem:tokens:early-eof", "invocation %d read %d returned io.EOF after %d of the element's %d tokens (partial=%v)", i, k, pos, len(exp), e.Partial)
					} else {
						c.Count("elements_read_to_eof", 1)
						if pos == len(exp) {
							c.Count("end_tag_delivered", 1)
						}
					}
					continue
				}
				// another error
				if !e.Partial || pos < len(exp) {
					if phase != "broken" {
						c.Violate("elem:tokens:spurious-error", "invocation %d read %d failed with %v after %d of %d tokens of a well-formed element", i, k, rd.Err, pos, len(exp))
					}
				} else {
					c.Count("nested_construct_surfaced_as_read_error", 1)
				}
				phase = "aftererr"
			case "eof":
				c.Count("reads_after_eof", 1)
				if rd.Tok != nil {
					c.Violate("elem:overread", "invocation %d (element %s) read %d, after io.EOF, returned %s", i, e.Idx, k, tokStr(rd.Tok))
				}
			case "aftererr":
				c.Count("reads_after_error", 1)
				if rd.Tok != nil && foreignMarker(rd.Tok, e.Idx) {
					c.Violate("elem:overread", "invocation %d (element %s) read %d, after a read error, returned %s of another element", i, e.Idx, k, tokStr(rd.Tok))
				}
			}
		}
		if rec.closedAt >= 0 && i >= rec.closedAt {
			c.Count("invocations_after_app_close", 1)
			t := attrsOf(e.Start)[xml.Name{Local: "type"}]
			writes := prog.Write != "none" || (e.Start.Name.Local == "iq" && (t == "get" || t == "set"))
			if writes && !sawEOF && i+1 < expected {
				// what C08-7 style defects need: a write is attempted on the closed
				// output stream and the element is left partly unread, with more to come
				c.Count("unfinished_element_with_write_after_app_close", 1)
			}
		}
		if pos > 0 && pos < len(exp) {
			c.Count("elements_partly_read", 1)
		}
		if len(inv.Reads) == 0 {
			c.Count("elements_not_read", 1)
		}
		c.Sig("%s|%s|r=%s|w=%s|ret=%s|el=%s|partial=%v|out=%s|closed=%v", termKey(ref), ns, prog.Read, prog.Write, prog.Ret, elemClass(e, ns), e.Partial, outcomeClass, rec.closedAt >= 0 && i >= rec.closedAt)
	}
	if len(rec.invs) == 0 {
		c.Sig("%s|%s|no-invocation|out=%s", termKey(ref), ns, outcomeClass)
	}

	// ---- number of invocations and outcome
	if stopped >= 0 {
		c.Count("streams_ended_by_handler_error", 1)
		// A handler's io.EOF must not be taken for the end of the input: Serve
		// returned nil right after that invocation although more elements or a
		// terminator other than the closing tag were still to come.  (When the
		// session carries on after the handler's io.EOF nothing more is demanded.)
		// (Not judged when that element is the one holding a nested terminator:
		// what follows it is then the business of the nested-construct rule.)
		lastWanted := stopped == expected-1 && (ref.Term == "closing" || ref.Nested) || ref.InResponse
		if stopErr != io.EOF && errors.Is(stopErr, io.EOF) {
			c.Count("handler_returned_error_wrapping_eof", 1)
			if serveErr == nil && len(rec.invs) == stopped+1 && stopped < expected && !lastWanted && ref.Term != "eof" {
				c.Violate("elem:outcome:handler-wrapped-eof", "the handler returned %q for element %d of %d (terminator: %s); Serve returned nil right away as if the peer had closed its stream", stopErr, stopped, expected, termKey(ref))
			}
		}
		if stopErr == io.EOF && serveErr == nil && len(rec.invs) == stopped+1 && stopped < expected && !lastWanted && ref.Term != "eof" {
			c.Violate("elem:outcome:handler-eof", "the handler returned io.EOF for element %d of %d (terminator: %s); Serve returned nil right away without the peer's closing tag having been read", stopped, expected, termKey(ref))
		}
		return
	}
	if len(rec.invs) < expected {
		c.Violate("elem:start:missing", "%d invocations, the input has %d top-level elements before the %s; Serve returned %v", len(rec.invs), expected, termKey(ref), serveErr)
	}
	switch {
	case sc.BadFromLast:
		c.Count("outcome_after_request_with_unusable_from_not_demanded", 1)
	case ref.Term == "closing":
		c.Count("outcome_closing_tag", 1)
		if rec.closedAt >= 0 {
			c.Count("outcome_closing_tag_after_app_close", 1)
		}
		if serveErr != nil {
			c.Violate("elem:outcome:closing", "the peer's closing tag ended the stream but Serve returned %v", serveErr)
		}
	case ref.Term == "stream-error" && !ref.Nested:
		c.Count("outcome_stream_error", 1)
		if ref.AppCond {
			c.Count("outcome_stream_error_with_foreign_child", 1)
		}
		if ref.Texts > 1 {
			c.Count("outcome_stream_error_with_several_texts", 1)
		}
		var se stream.Error
		if !errors.As(serveErr, &se) || se.Err != ref.Cond {
			c.Violate("elem:outcome:stream-error", "the peer sent the stream error %q, Serve returned %v (%T)", ref.Cond, serveErr, serveErr)
		}
	case (ref.Term == "eof" || ref.Term == "malformed") && sc.ReadFault != nil && sc.ReadFault.Shape != "bare-eof":
		// the transport failed (not a clean end of the byte stream): whatever
		// the error wraps, that is not the peer's closing tag
		ferr := readFaultErr(sc.ReadFault.Shape)
		c.Count("read_fault_reached", 1)
		c.Count("read_fault_"+sc.ReadFault.Shape, 1)
		switch {
		case ref.Nested:
			c.Count("read_fault_inside_element", 1)
		case strings.TrimRight(refInput, " \t\r\n") != refInput:
			c.Count("read_fault_after_keepalive", 1)
		default:
			c.Count("read_fault_between_elements", 1)
		}
		if serveErr == nil {
			key := "elem:outcome:read-error"
			if errors.Is(ferr, io.EOF) {
				key = "elem:outcome:read-error-wrapping-eof"
			}
			c.Violate(key, "the transport's Read failed with %T %q after %d input bytes (nested=%v) and Serve returned nil as if the peer had closed its stream", ferr, ferr, sc.ReadFault.At, ref.Nested)
		}
	case ref.Term == "eof":
		c.Count("outcome_eof_not_demanded", 1)
	default:
		c.Count("outcome_must_be_error", 1)
		if serveErr == nil {
			c.Violate("elem:outcome:"+termKey(ref), "the input has a %s before any closing tag and Serve returned nil", termKey(ref))
		}
	}
}

// convicted holds the goroutines that earlier cases of this process left
// parked for good; they must not convict a later case.  (A child runs one case
// at a time.)
var convicted = map[string]bool{}

func freshParked(ps []stall.Parked) []stall.Parked {
	var out []stall.Parked
	for _, g := range ps {
		if !convicted[g.ID] {
			out = append(out, g)
		}
	}
	return out
}

func sameStartExceptFrom(a, b xml.StartElement) bool {
	strip := func(se xml.StartElement) xml.StartElement {
		out := xml.StartElement{Name: se.Name}
		for _, x := range se.Attr {
			if x.Name.Local == "from" {
				continue
			}
			out.Attr = append(out.Attr, x)
		}
		return out
	}
	return sameStart(strip(a), strip(b))
}

func elemClass(e *refElem, ns string) string {
	n := e.Start.Name
	switch {
	case n.Space == ns && (n.Local == "iq" || n.Local == "message" || n.Local == "presence"):
		return n.Local
	case n.Local == "iq" || n.Local == "message" || n.Local == "presence":
		return "stanza-named"
	}
	return "other"
}

func run(c *core.Case) {
	// one case in 150: XML declarations back to back in front of the peer's
	// stream header (read by the library's own negotiator).  The second one is
	// a processing instruction in the stream: the session must not come up.
	if c.Rand.Intn(150) == 0 {
		prologProbe(c)
		return
	}
	Run(c, generate(c.Rand))
}

func prologProbe(c *core.Case) {
	r := c.Rand
	o := sess.Opts{S2S: r.Intn(3) == 0, Default: true}
	if r.Intn(3) == 0 {
		o = sess.Opts{ReceiveDefault: true}
	}
	o.HeaderPrefix = pick(r, `<?xml version="1.0"?>`, `<?xml version='1.0' encoding='UTF-8'?>`, `<?xml version="1.0"?><?xml version="1.0"?>`)
	c.Sample(map[string]any{"kind": "prolog-probe", "prefix": o.HeaderPrefix, "s2s": o.S2S, "received": o.ReceiveDefault})
	var p *sess.Pair
	var err error
	if c.Guard("session constructor", func() { p, err = sess.NewPair(o) }) {
		return
	}
	if err == nil {
		c.Violate("elem:outcome:declaration-after-declaration", "the peer's stream header was preceded by %q and one more XML declaration: a processing instruction in the stream, yet the session was established (state %v)", o.HeaderPrefix, p.S.State())
		p.Peer.Close()
		p.Lib.Close()
		return
	}
	c.Count("prolog_probes_refused", 1)
	c.Sig("prolog|%s|recv=%v", o.HeaderPrefix, o.ReceiveDefault)
}

func witness(sc Scenario) func(*core.Case) {
	return func(c *core.Case) { Run(c, sc) }
}

// witnesses are the minimal deterministic scenarios of the class keys seen on
// the unchanged tree.
func witnesses() map[string]func(*core.Case) {
	w := map[string]func(*core.Case){
		// Serve takes io.EOF returned by a handler (here: the io.EOF it read at the
		// end of its element) for the end of the input stream.
		"elem:outcome:handler-eof": witness(Scenario{
			Items:    []string{`<message e='1'><body e='1'>t1;hi</body></message>`, `<message e='2'/>`, `</stream:stream>`},
			Programs: []Prog{{Read: "all", Write: "none", Ret: "read-err"}}}),
		// the first attribute whose local name is from is blanked, whatever its namespace
		"elem:start:from-qualified": witness(Scenario{
			Items:    []string{`<message e='1' xmlns:q='urn:c08:q' q:from='me@example.net'/>`, `</stream:stream>`},
			Programs: []Prog{{Read: "all", Write: "none", Ret: "nil"}}}),
	}
	// a stream-level construct nested in an element surfaces as a read error in
	// the handler; when the handler ignores it and returns nil the session
	// carries on with the next element
	nested := [][2]string{
		{"comment", `<!-- c -->`},
		{"procinst", `<?target data?>`},
		{"directive", `<!DOCTYPE foo>`},
		{"stream-element", `<stream:features/>`},
		{"stream-error", `<stream:error><host-unknown xmlns='urn:ietf:params:xml:ns:xmpp-streams'/></stream:error>`},
		{"restart", `<stream:stream xmlns='jabber:client' xmlns:stream='http://etherx.jabber.org/streams' version='1.0'></stream:stream>`},
	}
	// the same constructs inside the response to the application's own request:
	// the requester gets the read error, the serve loop skips to the end of the
	// response and carries on
	for _, n := range nested[:3] {
		w["elem:outcome:response-"+n[0]] = witness(Scenario{
			Items: []string{`<iq type='result' id='own1' e='900' from='example.net'><a xmlns='urn:c08:x' e='900'/>` + n[1] + `<b xmlns='urn:c08:x' e='900'/></iq>`,
				`<message e='1'/>`, `</stream:stream>`},
			OwnReq:   &OwnReq{Pos: 0, ID: "own1", Consume: "all"},
			Programs: []Prog{{Read: "all", Write: "none", Ret: "nil"}}})
	}
	for _, n := range nested {
		w["elem:outcome:nested-"+n[0]] = witness(Scenario{
			Items: []string{`<message e='1'><body e='1'>t1;a</body>` + n[1] + `<x xmlns='urn:c08:x' e='1'/></message>`,
				`<message e='2'/>`, `</stream:stream>`},
			Programs: []Prog{{Read: "swallow", K: 1, Write: "none", Ret: "nil"}}})
	}
	return w
}

// Prop returns the C08 check.
func Prop() *core.Prop {
	return &core.Prop{
		ID:    "C08",
		Level: core.Exploration,
		Rule:  "a case is one pre-loaded input stream: 0-4 PRNG element trees (stanzas and others, depth <= 4, stanza-named children, text/CDATA/entities; every start tag and text run carries the index of its top-level element), white-space keep-alives, one terminator out of {closing tag, stream error, restart, other stream-namespace element, comment, PI, directive, non-white text, malformed XML, bare EOF} at the top level or nested in an element, an optional trailer, then EOF; client and server namespaces, initiated and received sessions, PRNG read chunking. Serve runs single-threaded with recording handler programs (read none / k tokens / all / past EOF / swallow read errors; write nothing / an element / split / unclosed / a token the encoder refuses (end tag without start, comment containing the comment terminator, nameless start tag, xmlstream.Copy(rw, rw) without the start); return nil / the error read / an own error / the write error / a bare io.EOF after reading none, the first child, some tokens or everything). Serve runs on its own goroutine; when it does not return the quiescent-stall rule decides. On one session in 8 the application calls Session.Close (before Serve, synchronously at the start of a PRNG-chosen invocation, or on its own goroutine) while the peer keeps sending: the per-element rule and the outcome rule are unchanged. 15% of the sessions have their local address changed first (UpdateAddr during negotiation, UpdateAddr on the Ready session, a real BindResource negotiation with a server-assigned address); the from rule is judged against the address LocalAddr reports when the stanzas arrive, with stanzas from the former and the new bare and full addresses. The reference is an independent encoding/xml pass over the same bytes. Distinct = distinct (terminator, namespace, program, element class, outcome).",
		Assumptions: []string{
			"whether the end tag is delivered to the handler, the outcome for a bare EOF and the exact error values are not demanded",
			"a comment, PI, directive or stream-namespace element nested in an element is a stream-level construct in the sense of the statement (quantifier: at any nesting depth): it must not be delivered as a token and Serve must end with an error",
			"after a handler returned an error nothing more is demanded of Serve except when that error is io.EOF and Serve returns nil before the peer's closing tag was reached",
		},
		Cases: func(tier string) int {
			if tier == "thorough" {
				return 4000000
			}
			return 60000
		},
		Run: run,
		Require: []string{
			"invocations", "stanzas_dispatched", "non_stanzas_dispatched", "from_blanked_expected", "non_stanza_with_own_from",
			"elements_read_to_eof", "elements_partly_read", "elements_not_read", "reads_after_eof", "reads_after_error",
			"nested_construct_surfaced_as_read_error", "chunked_streams",
			"session_flagged_websocket", "terminator_ws-frame", "terminator_nested-ws-frame",
			"own_requests", "own_request_got_response", "own_response_read_to_the_end", "own_request_consume_all", "own_request_consume_start", "own_request_consume_partial", "own_request_consume_cancel-hold",
			"read_fault_reached", "read_fault_wrapped-eof", "read_fault_operror-eof", "read_fault_custom-is-eof", "read_fault_custom-unwrap-eof",
			"read_fault_unexpected-eof", "read_fault_wrapped-unexpected-eof", "read_fault_plain",
			"read_fault_inside_element", "read_fault_after_keepalive", "read_fault_between_elements", "handler_returned_error_wrapping_eof",
			"outcome_stream_error_with_foreign_child", "outcome_stream_error_with_several_texts",
			"handler_returned_bare_eof", "bare_eof_with_element_partly_unread", "session_carried_on_after_handler_eof",
			"outcome_after_request_with_unusable_from_not_demanded", "prolog_probes_refused", "close_deadline_set_before", "close_deadline_set_in-handler", "close_deadline_set_goroutine", "close_deadline_set_twice", "invocations_after_a_close_deadline_was_set",
			"app_close_before", "app_close_in-handler", "app_close_goroutine", "invocations_after_app_close",
			"unfinished_element_with_write_after_app_close", "outcome_closing_tag_after_app_close",
			"addr_update_neg", "addr_update_ready", "addr_bind", "bare_address_changed_before_serve",
			"from_blanked_expected_after_addr_change", "former_bare_from_after_addr_change",
			"refused_writes", "refused_write_refused-end", "refused_write_refused-comment", "refused_write_refused-nameless", "refused_write_echo",
			"refused_write_error_swallowed", "refused_write_error_returned", "refused_write_then_more_elements",
			"outcome_closing_tag", "outcome_stream_error", "outcome_must_be_error",
			"terminator_closing", "terminator_stream-error", "terminator_restart", "terminator_stream-element", "terminator_comment",
			"terminator_procinst", "terminator_directive", "terminator_text", "terminator_malformed", "terminator_eof",
			"terminator_nested-comment", "terminator_nested-procinst", "terminator_nested-directive", "terminator_nested-stream-element",
			"terminator_nested-stream-error", "terminator_nested-restart", "terminator_nested-malformed",
		},
		Witnesses: witnesses(),
	}
}
