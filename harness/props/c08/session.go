package c08

import (
	"context"
	"encoding/xml"
	"fmt"
	"io"
	"time"

	"mellium.im/xmpp"
	"mellium.im/xmpp/internal/wskey"
	"mellium.im/xmpp/jid"
	"mellium.im/xmpp/stream"

	"mellium.im/xmpp/verifharness/bufconn"
	"mellium.im/xmpp/verifharness/core"
	"mellium.im/xmpp/verifharness/sess"
	"mellium.im/xmpp/verifharness/xmltree"
)

// env is a Ready session whose peer input (the whole of it, ending in EOF) has
// been arranged.
type env struct {
	S    *xmpp.Session
	Lib  *bufconn.Conn
	Opts sess.Opts
	done func() // releases the transports
	feed func() // own-request cases: the input is held back until feed is called
}

func xmlText(s string) string { return esc(s) }

// faultRW is the library's transport with a read that fails for good once
// failAt bytes have been delivered.
type faultRW struct {
	*bufconn.Conn
	failAt    int
	delivered int
	err       error
}

func (f *faultRW) Read(p []byte) (int, error) {
	if f.delivered >= f.failAt {
		return 0, f.err
	}
	if rest := f.failAt - f.delivered; len(p) > rest {
		p = p[:rest]
	}
	n, err := f.Conn.Read(p)
	f.delivered += n
	return n, err
}

// updatingNegotiator is sess.NopNegotiator plus a call of Session.UpdateAddr
// before the Ready bit is reported (what resource binding does).
func updatingNegotiator(o sess.Opts, to jid.JID, okp *bool) xmpp.Negotiator {
	return func(ctx context.Context, in, out *stream.Info, s *xmpp.Session, data interface{}) (xmpp.SessionState, io.ReadWriter, interface{}, error) {
		rc := s.TokenReader()
		defer rc.Close()
		for {
			tok, err := rc.Token()
			if err != nil {
				return 0, nil, nil, err
			}
			if se, ok := tok.(xml.StartElement); ok {
				t, f := in.To, in.From
				if err := in.FromStartElement(se); err != nil {
					return 0, nil, nil, err
				}
				in.To, in.From = t, f
				break
			}
		}
		out.XMLNS = o.NS()
		_, err := fmt.Fprintf(s.Conn(), `<?xml version="1.0"?><stream:stream xmlns='%s' xmlns:stream='%s' version='1.0' id='libhdr' from='%s' to='%s'>`,
			o.NS(), sess.NSStream, xmlText(o.Local), xmlText(o.Remote))
		*okp = s.UpdateAddr(to)
		return o.State | xmpp.Ready, nil, nil, err
	}
}

// newEnv builds the session of a scenario and arranges for input + EOF to be
// what the peer sends after negotiation.
func newEnv(c *core.Case, sc Scenario, input string) (*env, bool) {
	o := sess.Opts{S2S: sc.S2S, Received: sc.Received, Local: sc.Local}
	if sc.ReadFault != nil && sc.Addr == "" {
		// a transport whose Read fails once the header and At bytes of the input
		// have been delivered
		probe, err := sess.NewPair(o) // only to learn the defaults
		if err != nil {
			c.Count("setup_failed", 1)
			return nil, false
		}
		o = probe.Opts
		probe.Peer.Close()
		probe.Lib.Close()
		lib, peer := bufconn.Pipe()
		hdr := sess.Header(o)
		peer.Write([]byte(hdr + input))
		peer.CloseWrite()
		frw := &faultRW{Conn: lib, failAt: len(hdr) + sc.ReadFault.At, err: readFaultErr(sc.ReadFault.Shape)}
		s, err := sess.Ready(frw, o)
		if err != nil {
			c.Inconclusive("read-fault: session setup failed: %v", err)
			return nil, false
		}
		return &env{S: s, Lib: lib, Opts: o, done: func() { peer.Close(); lib.Close() }}, true
	}
	if sc.WSFlag && sc.Addr == "" {
		// sess.Ready with the context key that websocket.Negotiator sets
		probe, err := sess.NewPair(o)
		if err != nil {
			c.Count("setup_failed", 1)
			return nil, false
		}
		o = probe.Opts
		probe.Peer.Close()
		probe.Lib.Close()
		local, err1 := jid.Parse(o.Local)
		remote, err2 := jid.Parse(o.Remote)
		if err1 != nil || err2 != nil {
			c.Inconclusive("bad addresses %q %q", o.Local, o.Remote)
			return nil, false
		}
		lib, peer := bufconn.Pipe()
		peer.Write([]byte(sess.Header(o) + input))
		peer.CloseWrite()
		st := o.State
		if o.S2S {
			st |= xmpp.S2S
		}
		ctx, cancel := context.WithTimeout(context.WithValue(context.Background(), wskey.Key{}, struct{}{}), 20*time.Second)
		defer cancel()
		var s *xmpp.Session
		if o.Received {
			s, err = xmpp.NewSession(ctx, local, remote, lib, st|xmpp.Received, sess.NopNegotiator(o))
		} else {
			s, err = xmpp.NewSession(ctx, remote, local, lib, st, sess.NopNegotiator(o))
		}
		if err != nil {
			c.Inconclusive("ws-flag: session setup failed: %v", err)
			return nil, false
		}
		c.Count("session_flagged_websocket", 1)
		return &env{S: s, Lib: lib, Opts: o, done: func() { peer.Close(); lib.Close() }}, true
	}
	if sc.OwnReq != nil && sc.Addr == "" {
		p, err := sess.NewPair(o)
		if err != nil {
			c.Count("setup_failed", 1)
			return nil, false
		}
		return &env{S: p.S, Lib: p.Lib, Opts: p.Opts, done: func() { p.Peer.Close(); p.Lib.Close() },
			feed: func() { p.Send(input); p.Peer.CloseWrite() }}, true
	}
	switch sc.Addr {
	case "", "update-ready":
		p, err := sess.NewPair(o)
		if err != nil {
			c.Notef("session setup failed: %v", err)
			c.Count("setup_failed", 1)
			return nil, false
		}
		if sc.Addr == "update-ready" {
			j, err := jid.Parse(sc.NewLocal)
			if err != nil {
				c.Inconclusive("bad address %q: %v", sc.NewLocal, err)
				return nil, false
			}
			if p.S.UpdateAddr(j) {
				c.Count("updateaddr_on_ready_session_accepted", 1)
			}
			c.Count("addr_update_ready", 1)
		}
		p.Send(input)
		p.Peer.CloseWrite()
		return &env{S: p.S, Lib: p.Lib, Opts: p.Opts, done: func() { p.Peer.Close(); p.Lib.Close() }}, true

	case "update-neg":
		// the same construction as sess.Ready, with the updating negotiator
		probe, err := sess.NewPair(o) // only to learn the defaults
		if err != nil {
			c.Count("setup_failed", 1)
			return nil, false
		}
		o = probe.Opts
		probe.Peer.Close()
		probe.Lib.Close()
		local, err1 := jid.Parse(o.Local)
		remote, err2 := jid.Parse(o.Remote)
		to, err3 := jid.Parse(sc.NewLocal)
		if err1 != nil || err2 != nil || err3 != nil {
			c.Inconclusive("bad addresses %q %q %q", o.Local, o.Remote, sc.NewLocal)
			return nil, false
		}
		lib, peer := bufconn.Pipe()
		peer.Write([]byte(sess.Header(o)))
		st := o.State
		if o.S2S {
			st |= xmpp.S2S
		}
		var s *xmpp.Session
		var accepted bool
		ctx, cancel := context.WithTimeout(context.Background(), 20*time.Second)
		defer cancel()
		if o.Received {
			s, err = xmpp.NewSession(ctx, local, remote, lib, st|xmpp.Received, updatingNegotiator(o, to, &accepted))
		} else {
			s, err = xmpp.NewSession(ctx, remote, local, lib, st, updatingNegotiator(o, to, &accepted))
		}
		if err != nil {
			c.Inconclusive("update-neg: session setup failed: %v", err)
			return nil, false
		}
		if !accepted {
			c.Count("updateaddr_during_negotiation_refused", 1)
		}
		c.Count("addr_update_neg", 1)
		peer.Write([]byte(input))
		peer.CloseWrite()
		return &env{S: s, Lib: lib, Opts: o, done: func() { peer.Close(); lib.Close() }}, true

	case "bind":
		o.S2S, o.Received = false, false
		if o.Local == "" {
			o.Local = "me@example.net/lib"
		}
		o.Remote = "example.net"
		origin, err1 := jid.Parse(ownBare(o.Local))
		server, err2 := jid.Parse(o.Remote)
		if err1 != nil || err2 != nil {
			c.Inconclusive("bad addresses %q %q", o.Local, o.Remote)
			return nil, false
		}
		var acc []byte
		state := 0
		lib := bufconn.NewScripted(func(written []byte) ([]byte, bool) {
			acc = append(acc, written...)
			st := xmltree.ParseStream(acc, true)
			switch state {
			case 0:
				if st.Header == nil {
					return nil, false
				}
				state = 1
				return []byte(fmt.Sprintf(`<?xml version="1.0"?><stream:stream xmlns='jabber:client' xmlns:stream='%s' id='s1' version='1.0' from='%s'>`+
					`<stream:features><bind xmlns='urn:ietf:params:xml:ns:xmpp-bind'/></stream:features>`, sess.NSStream, xmlText(o.Remote))), false
			case 1:
				for _, e := range st.Elems {
					if e.Name.Local == "iq" && e.Child("urn:ietf:params:xml:ns:xmpp-bind", "bind") != nil {
						state = 2
						return []byte(fmt.Sprintf(`<iq type='result' id='%s'><bind xmlns='urn:ietf:params:xml:ns:xmpp-bind'><jid>%s</jid></bind></iq>`,
							xmlText(e.Attr("id")), xmlText(sc.NewLocal)) + input), true
					}
				}
				return nil, false
			}
			return nil, true
		})
		ctx, cancel := context.WithTimeout(context.Background(), 20*time.Second)
		defer cancel()
		s, err := xmpp.NewSession(ctx, server, origin, lib, xmpp.Secure|xmpp.Authn,
			xmpp.NewNegotiator(func(*xmpp.Session, *xmpp.StreamConfig) xmpp.StreamConfig {
				return xmpp.StreamConfig{Features: []xmpp.StreamFeature{xmpp.BindResource()}}
			}))
		if err != nil {
			c.Inconclusive("bind: negotiation failed: %v (state %d, client wrote %q)", err, state, acc)
			lib.Close()
			return nil, false
		}
		c.Count("addr_bind", 1)
		return &env{S: s, Lib: lib, Opts: o, done: func() { lib.Close() }}, true
	}
	c.Inconclusive("unknown address variant %q", sc.Addr)
	return nil, false
}
