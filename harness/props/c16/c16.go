// Package c16 monitors jid.Escape / jid.Unescape (XEP-0106) against a
// reference implementation through every interface the package exports, with
// the streaming interface driven by a contract-correct loop over many source
// splits and destination capacities.
package c16

import (
	"bytes"
	"fmt"
	"io"
	"math/rand"
	"strings"

	"golang.org/x/text/transform"

	"mellium.im/xmpp/jid"
	"mellium.im/xmpp/verifharness/core"
)

const escapable = ` "&'/:<>@\`

func refEscape(s []byte) []byte {
	var out []byte
	for _, c := range s {
		if strings.IndexByte(escapable, c) >= 0 {
			out = append(out, '\\', "0123456789abcdef"[c>>4], "0123456789abcdef"[c&15])
		} else {
			out = append(out, c)
		}
	}
	return out
}

func hexv(c byte) int {
	switch {
	case '0' <= c && c <= '9':
		return int(c - '0')
	case 'a' <= c && c <= 'f':
		return int(c-'a') + 10
	case 'A' <= c && c <= 'F':
		return int(c-'A') + 10
	}
	return -1
}

func refUnescape(s []byte) []byte {
	var out []byte
	for i := 0; i < len(s); i++ {
		if s[i] == '\\' && i+2 < len(s) {
			h, l := hexv(s[i+1]), hexv(s[i+2])
			if h >= 0 && l >= 0 {
				c := byte(h<<4 | l)
				if strings.IndexByte(escapable, c) >= 0 {
					out = append(out, c)
					i += 2
					continue
				}
			}
		}
		out = append(out, s[i])
	}
	return out
}

// gen builds an input aimed at the corners named in the property.
func gen(r *rand.Rand) []byte {
	var n int
	switch r.Intn(10) {
	case 0:
		n = r.Intn(4)
	case 1, 2, 3, 4:
		n = r.Intn(24)
	case 5, 6:
		n = 100 + r.Intn(60) // straddles 127/128
	case 7:
		n = 240 + r.Intn(70)
	case 8:
		n = 4080 + r.Intn(40) // straddles 4095/4096
	default:
		n = r.Intn(300)
	}
	b := make([]byte, 0, n+8)
	dens := r.Intn(4) // density of special material
	for len(b) < n {
		switch x := r.Intn(12); {
		case x <= dens:
			b = append(b, escapable[r.Intn(len(escapable))])
		case x == 5:
			// an escape sequence, valid or near-valid, either hex case
			codes := []string{"20", "22", "26", "27", "2f", "2F", "3a", "3A", "3c", "3C", "3e", "3E", "40", "5c", "5C", "21", "2g", "4", "5", "", "x0", "7f"}
			b = append(b, '\\')
			b = append(b, codes[r.Intn(len(codes))]...)
		case x == 6:
			b = append(b, '\\')
			// any byte values in the two positions after the backslash (control
			// bytes, bytes that differ from a hex digit in one bit, high bytes)
			switch r.Intn(4) {
			case 0:
				b = append(b, "2345"[r.Intn(4)], byte(r.Intn(256)))
			case 1:
				b = append(b, byte(r.Intn(256)), byte(r.Intn(256)))
			case 2:
				d := "0267fFaAcCeE"[r.Intn(12)]
				b = append(b, "2345"[r.Intn(4)]^byte(r.Intn(2)<<uint(r.Intn(8))), d^byte(1<<uint(r.Intn(8))))
			}
		case x == 7:
			b = append(b, []byte{0xff, 0xc3, 0x80, 0xe2, 0x82}[r.Intn(5)])
		case x == 8:
			b = append(b, "é☃𝄞"[r.Intn(9)])
		default:
			b = append(b, "abcXYZ0123456789fF"[r.Intn(18)])
		}
	}
	// force special material around interesting offsets
	for _, off := range []int{2, 3, 127, 128, 4095, 4096} {
		if off < len(b) && r.Intn(3) == 0 {
			b[off] = escapable[r.Intn(len(escapable))]
		}
	}
	return b
}

type tcase struct {
	Dir    string `json:"dir"`
	Input  string `json:"input_quoted"`
	Splits []int  `json:"splits,omitempty"`
	Cap    int    `json:"cap,omitempty"`
	Iface  string `json:"iface,omitempty"`
}

// drive feeds src to t in the given pieces with a destination of capacity
// dcap, following the transform.Transformer contract the way transform.Reader
// does.  It returns the output, or an error string describing a contract
// breach (no progress, over-read, over-write).
func drive(t transform.Transformer, src []byte, cuts []int, dcap int, minUnit int) (out []byte, problem string, legitStall bool) {
	t.Reset()
	// The destination is, in turn, a slice of its own, a window in the middle
	// of a larger buffer (capacity beyond its length: the length is what counts)
	// and such a window with its capacity cut down; the bytes around a window
	// are canaries.
	const guard = 24
	back := make([]byte, dcap+2*guard)
	for i := range back {
		back[i] = 0xA5
	}
	dst := back[guard : guard+dcap]
	switch (len(src) + dcap) % 3 {
	case 0:
		dst = make([]byte, dcap)
	case 2:
		dst = back[guard : guard+dcap : guard+dcap]
	}
	canaries := func() bool {
		for i := 0; i < guard; i++ {
			if back[i] != 0xA5 || back[guard+dcap+i] != 0xA5 {
				return false
			}
		}
		return true
	}
	avail := 0 // bytes of src made available so far
	next := 0  // index into cuts
	pos := 0   // bytes consumed
	calls := 0
	limit := 4*len(src) + 16 + 4*(len(src)/max(dcap, 1)+1)
	advance := func() bool {
		if avail == len(src) {
			return false
		}
		if next < len(cuts) {
			avail = cuts[next]
			next++
		} else {
			avail = len(src)
		}
		return true
	}
	advance()
	for {
		calls++
		if calls > limit {
			return out, fmt.Sprintf("no termination after %d Transform calls (len %d)", calls, len(src)), false
		}
		atEOF := avail == len(src)
		nDst, nSrc, err := t.Transform(dst, src[pos:avail], atEOF)
		if nDst < 0 || nDst > len(dst) || nSrc < 0 || nSrc > avail-pos {
			return out, fmt.Sprintf("Transform returned nDst=%d nSrc=%d for len(dst)=%d len(src)=%d", nDst, nSrc, len(dst), avail-pos), false
		}
		if !canaries() {
			return out, fmt.Sprintf("Transform wrote outside its destination (len(dst)=%d cap(dst)=%d nDst=%d)", len(dst), cap(dst), nDst), false
		}
		out = append(out, dst[:nDst]...)
		pos += nSrc
		switch err {
		case nil:
			if pos != avail {
				return out, fmt.Sprintf("nil error but only %d of %d source bytes consumed", nSrc, avail-pos+nSrc), false
			}
			if atEOF {
				return out, "", false
			}
			advance()
		case transform.ErrShortDst:
			if nDst == 0 && nSrc == 0 {
				if dcap < minUnit {
					return out, "", true // a destination smaller than one unit can legitimately never progress
				}
				return out, fmt.Sprintf("ErrShortDst with an empty destination of capacity %d and no progress", dcap), false
			}
		case transform.ErrShortSrc:
			if atEOF {
				return out, "ErrShortSrc although atEOF was set", false
			}
			if !advance() {
				return out, "ErrShortSrc with the whole source available", false
			}
		default:
			return out, "unexpected error " + err.Error(), false
		}
	}
}

func q(b []byte) string { return fmt.Sprintf("%q", b) }

func firstDiff(a, b []byte) int {
	n := min(len(a), len(b))
	for i := 0; i < n; i++ {
		if a[i] != b[i] {
			return i
		}
	}
	return n
}

// cause names the construct at the first diverging offset, so that different
// root causes get different class keys.
func cause(in []byte, esc bool) string {
	if esc {
		adj := false
		for i := 0; i+1 < len(in); i++ {
			if strings.IndexByte(escapable, in[i]) >= 0 && strings.IndexByte(escapable, in[i+1]) >= 0 {
				adj = true
			}
		}
		first := bytes.IndexAny(in, escapable)
		switch {
		case adj:
			return "adjacent-escapables"
		case first > 0:
			return "escapable-after-text"
		default:
			return "other"
		}
	}
	i := bytes.IndexByte(in, '\\')
	switch {
	case i > 1:
		return "sequence-beyond-offset-1"
	case i >= 0:
		return "sequence-at-start"
	}
	return "other"
}

// 256 case indexes enumerate every two-byte continuation of a
// backslash (case i: first byte i, every second byte), bare and embedded in
// text, through the same interfaces as the random inputs; the remaining cases
// are PRNG inputs.
const exhaustiveCases = 256

func cases(tier string) int {
	if tier == "thorough" {
		return 6000000
	}
	return 40000
}

func run(c *core.Case) {
	// the enumerating cases are spread evenly over the index range (and so over
	// the worker processes)
	stride := cases(c.Tier) / exhaustiveCases
	if c.Index >= 0 && c.Index%stride == 0 && c.Index/stride < exhaustiveCases {
		b1 := byte(c.Index / stride)
		for b2 := 0; b2 < 256; b2++ {
			c.Count("exhaustive_two_byte_continuations", 1)
			check(c, []byte{'\\', b1, byte(b2)}, true)
			check(c, []byte{'x', '\\', b1, byte(b2), 'y'}, true)
			if b2%16 == int(b1)%16 {
				// a sample also behind other sequences and at the end of longer text
				check(c, []byte{'\\', '2', '0', '\\', b1, byte(b2), '\\'}, true)
				check(c, append(bytes.Repeat([]byte{'a'}, 126), '\\', b1, byte(b2), '\\', '5', 'c'), true)
			}
		}
		return
	}
	// one case in thirty drives the shared package-level transformers from
	// several goroutines at once (concurrent.go)
	if c.Rand.Intn(30) == 0 {
		concurrentCase(c)
		return
	}
	check(c, gen(c.Rand), false)
}

// check puts one input through every interface in both directions.  In
// exhaustive mode the streaming interface is additionally driven with every
// single cut position.
func check(c *core.Case, in []byte, exhaustive bool) {
	r := c.Rand
	for _, dir := range []string{"esc", "unesc"} {
		esc := dir == "esc"
		t := jid.Unescape
		ref := refUnescape(in)
		minUnit := 1
		if esc {
			t = jid.Escape
			ref = refEscape(in)
			minUnit = 3
		}
		c.Sample(tcase{Dir: dir, Input: q(in)})
		c.Count("inputs", 1)
		hasSpecial := !bytes.Equal(ref, in)
		if hasSpecial {
			if exhaustive {
				c.Sig("%s:exhaustive:%02x", dir, in[bytes.IndexByte(in, '\\')+1])
			} else {
				c.Sig("%s:%x", dir, core.SubSeed(0, string(in), 0, ""))
			}
			c.Count("inputs_changed_by_transform", 1)
		}
		if i := bytes.IndexAny(in, escapable); i > 2 {
			c.Count("special_beyond_offset_2", 1)
		}
		if len(in) > 128 {
			c.Count("longer_than_128", 1)
		}

		// String / Bytes
		var gotS string
		var gotB []byte
		if c.Guard(dir+".String", func() { gotS = t.String(string(in)) }) {
			continue
		}
		if c.Guard(dir+".Bytes", func() { gotB = t.Bytes(append([]byte(nil), in...)) }) {
			continue
		}
		if gotS != string(ref) {
			c.Violate("esc:ref:"+dir+":String:"+cause(in, esc), "%s.String(%s) = %q, reference %q (first difference at %d)", dir, q(in), gotS, ref, firstDiff([]byte(gotS), ref))
		}
		if !bytes.Equal(gotB, ref) && !(len(gotB) == 0 && len(ref) == 0) {
			c.Violate("esc:ref:"+dir+":Bytes:"+cause(in, esc), "%s.Bytes(%s) = %q, reference %q", dir, q(in), gotB, ref)
		}
		if esc {
			// output alphabet and round trip through the library itself
			if i := strings.IndexAny(gotS, ` "&'/:<>@`); i >= 0 {
				c.Violate("esc:alphabet:esc", "Escape.String(%s) = %q contains disallowed %q at %d", q(in), gotS, gotS[i], i)
			}
			var back string
			if !c.Guard("unesc.String(roundtrip)", func() { back = jid.Unescape.String(gotS) }) && back != string(in) {
				c.Violate("esc:roundtrip:"+cause(in, true), "Unescape(Escape(%s)) = %q (escaped form %q)", q(in), back, gotS)
			}
			c.Count("roundtrips", 1)
		}

		// Span
		for _, atEOF := range []bool{true, false} {
			var n int
			var err error
			if c.Guard(dir+".Span", func() { n, err = t.Span(in, atEOF) }) {
				continue
			}
			c.Count("span_calls", 1)
			if n < 0 || n > len(in) {
				c.Violate("esc:span:"+dir+":range", "%s.Span(%s,%v) = %d out of range", dir, q(in), atEOF, n)
				continue
			}
			var refPrefix []byte
			if esc {
				refPrefix = refEscape(in[:n])
			} else {
				// the prefix must be text the transform leaves alone, judged with
				// the bytes that follow it in view (a trailing partial sequence is
				// completed by what follows)
				full := refUnescape(in)
				if len(full) >= n {
					refPrefix = full[:n]
				}
			}
			if !bytes.Equal(refPrefix, in[:n]) {
				c.Violate("esc:span:"+dir+":prefix", "%s.Span(%s,%v) = %d but that prefix is changed by the transform", dir, q(in), atEOF, n)
			}
			if !esc && !atEOF {
				// not at the end of the input: whatever follows, the prefix must
				// still come out unchanged (a backslash at the very end may begin a
				// sequence that the next chunk completes)
				for _, tail := range []string{"20", "2F", "0", "c", "5c", "\\40", "x"} {
					c.Count("span_continuations", 1)
					full := refUnescape(append(append([]byte(nil), in...), tail...))
					if len(full) < n || !bytes.Equal(full[:n], in[:n]) {
						c.Violate("esc:span:"+dir+":prefix-changed-by-continuation", "%s.Span(%s,false) = %d, %v but when %q follows the input decodes to %q: the spanned prefix is not final (Transform leaves the trailing backslash unconsumed with ErrShortSrc)", dir, q(in), n, err, tail, full)
						break
					}
				}
			}
			if err == nil && n != len(in) {
				c.Violate("esc:span:"+dir+":short", "%s.Span(%s,%v) = %d,nil but input has %d bytes", dir, q(in), atEOF, n, len(in))
			}
			if err == nil && atEOF && !bytes.Equal(ref, in) {
				c.Violate("esc:span:"+dir+":missed", "%s.Span(%s,true) = %d,nil but the transform changes the input", dir, q(in), n)
			}
			if err != nil && err != transform.ErrEndOfSpan && err != transform.ErrShortSrc {
				c.Violate("esc:span:"+dir+":err", "%s.Span(%s,%v) error %v", dir, q(in), atEOF, err)
			}
			if err == transform.ErrShortSrc && atEOF {
				c.Violate("esc:span:"+dir+":shortsrc-at-eof", "%s.Span(%s,true) = ErrShortSrc", dir, q(in))
			}
		}

		// streaming Transform: splits × capacities
		nDrives := 6
		if len(in) > 1000 {
			nDrives = 2
		}
		if exhaustive {
			nDrives = 2 + len(in) - 1
			if len(in) > 16 {
				nDrives = 4
			}
		}
		for k := 0; k < nDrives; k++ {
			var cuts []int
			for j, m := 0, r.Intn(4); j < m && len(in) > 0; j++ {
				cuts = append(cuts, r.Intn(len(in)+1))
			}
			sortInts(cuts)
			var dcap int
			if exhaustive && k >= 2 && len(in) <= 16 {
				// every single cut position, roomy destination
				cuts = []int{k - 1}
			}
			switch x := r.Intn(5); {
			case exhaustive && k >= 2 && len(in) <= 16:
				dcap = len(ref) + 3 + r.Intn(4)
			case x == 0:
				dcap = 1 + r.Intn(3)
			case x == 1:
				dcap = 3 + r.Intn(6)
			case x == 2:
				dcap = len(ref) + r.Intn(9)
			case x == 3:
				dcap = max(1, len(ref)-r.Intn(4))
			default:
				dcap = 1 + r.Intn(len(in)+8)
			}
			c.Sample(tcase{Dir: dir, Input: q(in), Splits: cuts, Cap: dcap, Iface: "Transform"})
			var out []byte
			var problem string
			var legit bool
			if c.Guard(dir+".Transform", func() { out, problem, legit = drive(t, in, cuts, dcap, minUnit) }) {
				continue
			}
			c.Count("transform_drives", 1)
			if dcap < 3 {
				c.Count("capacity_below_3", 1)
			}
			if len(cuts) > 0 {
				c.Count("split_sources", 1)
			}
			if legit {
				c.Count("legit_short_dst_stalls", 1)
				continue
			}
			if problem != "" {
				c.Violate("esc:contract:"+dir+":"+strings.SplitN(problem, " ", 2)[0], "%s.Transform on %s cuts=%v cap=%d: %s", dir, q(in), cuts, dcap, problem)
				continue
			}
			if !bytes.Equal(out, ref) {
				kind := "cap"
				if dcap >= len(ref)+3 {
					kind = "split"
				}
				c.Violate("esc:chunk:"+dir+":"+kind, "%s.Transform on %s cuts=%v cap=%d gives %q, reference %q (first difference at %d)", dir, q(in), cuts, dcap, out, ref, firstDiff(out, ref))
			}
		}

		// x/text reader and writer adapters
		if len(in) < 600 && !(exhaustive && len(in) == 3) {
			var rd []byte
			var rerr error
			if !c.Guard(dir+".NewReader", func() {
				rd, rerr = io.ReadAll(transform.NewReader(&chunkReader{b: in, r: r}, t))
			}) {
				c.Count("reader_runs", 1)
				if rerr != nil || !bytes.Equal(rd, ref) {
					c.Violate("esc:chunk:"+dir+":reader", "transform.NewReader(%s) on %s gives %q err=%v, reference %q", dir, q(in), rd, rerr, ref)
				}
			}
			var wb bytes.Buffer
			var werr error
			if !c.Guard(dir+".NewWriter", func() {
				w := transform.NewWriter(&wb, t)
				rest := in
				for len(rest) > 0 {
					n := 1 + r.Intn(len(rest))
					if _, werr = w.Write(rest[:n]); werr != nil {
						return
					}
					rest = rest[n:]
				}
				werr = w.Close()
			}) {
				c.Count("writer_runs", 1)
				if werr != nil || !bytes.Equal(wb.Bytes(), ref) {
					c.Violate("esc:chunk:"+dir+":writer", "transform.NewWriter(%s) on %s gives %q err=%v, reference %q", dir, q(in), wb.Bytes(), werr, ref)
				}
			}
		}
	}
}

type chunkReader struct {
	b []byte
	r *rand.Rand
}

func (c *chunkReader) Read(p []byte) (int, error) {
	if len(c.b) == 0 {
		return 0, io.EOF
	}
	n := 1 + c.r.Intn(len(c.b))
	if n > len(p) {
		n = len(p)
	}
	copy(p, c.b[:n])
	c.b = c.b[n:]
	return n, nil
}

func sortInts(a []int) {
	for i := 1; i < len(a); i++ {
		for j := i; j > 0 && a[j-1] > a[j]; j-- {
			a[j-1], a[j] = a[j], a[j-1]
		}
	}
}

// Prop returns the C16 check.
func Prop() *core.Prop {
	return &core.Prop{
		ID:            "C16",
		Level:         core.Exploration,
		Race:          true,
		Setup:         coldStart,
		ReplayRepeats: 20,
		Units:         "inputs",
		Rule:          "every child process (64 per run) begins with the first use of the transformers made by eight goroutines at once, literal expected outputs (coldstart.go); 256 cases spread evenly over the index range enumerate all 65536 two-byte continuations of a backslash (bare, embedded in text, and a sample behind other sequences / across offset 128) with every single cut position; the other inputs are PRNG byte strings over escapable characters, backslash/hex sequences (valid, near-valid, both hex cases), invalid UTF-8 and filler, lengths 0-4120 with special material forced at offsets 2,3,127,128,4095,4096; each input goes through String, Bytes, Span (atEOF both ways), Transform under 2-6 (source split, destination capacity) pairs, transform.NewReader and NewWriter, in both directions. A case is non-trivial when the transform changes the input; distinct = distinct (direction, input) among those.",
		Assumptions: []string{
			"the 15-line reference implementation of XEP-0106 in props/c16 is correct",
			"a destination smaller than one output unit (3 bytes for Escape) may legitimately never progress; such drives are counted, not judged",
		},
		Cases: cases,
		Witnesses: map[string]func(*core.Case){
			"esc:span:unesc:prefix-changed-by-continuation": func(c *core.Case) { check(c, []byte("a\\\\"), false) },
		},
		Run: run,
		Require: []string{"inputs_changed_by_transform", "special_beyond_offset_2", "longer_than_128", "capacity_below_3", "split_sources", "reader_runs", "writer_runs", "roundtrips", "exhaustive_two_byte_continuations", "span_continuations",
			"concurrent_cases", "concurrent_operations", "concurrent_cases_with_overlapping_goroutines", "concurrent_cases_with_4_or_more_goroutines_at_once", "concurrent_cases_with_gomaxprocs_ge_4"},
	}
}
