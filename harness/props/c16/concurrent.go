package c16

import (
	"bytes"
	"fmt"
	"io"
	"math/rand"
	"runtime"
	"runtime/debug"
	"sync"
	"sync/atomic"

	"golang.org/x/text/transform"

	"mellium.im/xmpp/jid"
	"mellium.im/xmpp/verifharness/core"
)

// Concurrent part.  jid.Escape and jid.Unescape are package-level values that
// every user of the package shares, so several goroutines drive them at the
// same time, each on its own inputs and into its own buffers, through every
// interface, and every result is compared with the reference.  The children
// run under the race detector, which reports unsynchronised state behind the
// shared values even when the outputs happen to come out right.

const concGoroutines = 8

type concProblem struct {
	key, detail string
}

// genDense builds an input in which most bytes are escapable characters (or,
// for the other direction, escape sequences), a different favourite character
// per goroutine so that values written by one goroutine are recognisably wrong
// in another one's output.
func genDense(r *rand.Rand, g int) []byte {
	n := 20 + r.Intn(200)
	fav := escapable[g%len(escapable)]
	b := make([]byte, 0, n+4)
	for len(b) < n {
		switch x := r.Intn(10); {
		case x < 5:
			b = append(b, fav)
		case x < 7:
			b = append(b, escapable[r.Intn(len(escapable))])
		case x < 8:
			b = append(b, '\\', "0123456789abcdef"[fav>>4], "0123456789abcdefABCDEF"[fav&15])
		default:
			b = append(b, "abcXYZ019"[r.Intn(9)])
		}
	}
	return b
}

func concurrentCase(c *core.Case) {
	r := c.Rand
	seeds := make([]int64, concGoroutines)
	for g := range seeds {
		seeds[g] = r.Int63()
	}
	reps := 12
	c.Sample(map[string]any{"kind": "concurrent", "goroutines": concGoroutines, "repetitions": reps, "goroutine_seeds": seeds})
	c.Count("concurrent_cases", 1)
	if runtime.GOMAXPROCS(0) >= 4 {
		c.Count("concurrent_cases_with_gomaxprocs_ge_4", 1)
	}
	var (
		wg       sync.WaitGroup
		start    = make(chan struct{})
		active   int32
		maxAct   int32
		problems [concGoroutines][]concProblem
		ops      [concGoroutines]int
	)
	for g := 0; g < concGoroutines; g++ {
		wg.Add(1)
		go func(g int) {
			defer wg.Done()
			add := func(key, format string, a ...any) {
				if len(problems[g]) < 4 {
					problems[g] = append(problems[g], concProblem{key, fmt.Sprintf(format, a...)})
				}
			}
			defer func() {
				if rec := recover(); rec != nil {
					st := string(debug.Stack())
					add(core.PanicKey("concurrent", rec, st), "panic in goroutine %d: %v\n%s", g, rec, core.TrimStack(st))
				}
			}()
			rg := rand.New(rand.NewSource(seeds[g]))
			<-start
			a := atomic.AddInt32(&active, 1)
			for {
				m := atomic.LoadInt32(&maxAct)
				if a <= m || atomic.CompareAndSwapInt32(&maxAct, m, a) {
					break
				}
			}
			defer atomic.AddInt32(&active, -1)
			for rep := 0; rep < reps; rep++ {
				in := genDense(rg, g)
				for _, dir := range []string{"esc", "unesc"} {
					t, ref, minUnit := jid.Unescape, refUnescape(in), 1
					if dir == "esc" {
						t, ref, minUnit = jid.Escape, refEscape(in), 3
					}
					if got := t.String(string(in)); got != string(ref) {
						add("esc:concurrent:"+dir+":String", "goroutine %d: %s.String(%s) = %q, reference %q (first difference at %d)", g, dir, q(in), got, ref, firstDiff([]byte(got), ref))
					}
					if got := t.Bytes(append([]byte(nil), in...)); !bytes.Equal(got, ref) && len(got)+len(ref) > 0 {
						add("esc:concurrent:"+dir+":Bytes", "goroutine %d: %s.Bytes(%s) = %q, reference %q", g, dir, q(in), got, ref)
					}
					n, _ := t.Span(in, true)
					if n < 0 || n > len(in) || (dir == "esc" && !bytes.Equal(refEscape(in[:n]), in[:n])) || (dir == "unesc" && (len(ref) < n || !bytes.Equal(ref[:n], in[:n]))) {
						add("esc:concurrent:"+dir+":Span", "goroutine %d: %s.Span(%s,true) = %d but that prefix is changed by the transform", g, dir, q(in), n)
					}
					cuts := []int{rg.Intn(len(in) + 1)}
					dcap := 3 + rg.Intn(len(in)+8)
					out, problem, legit := drive(t, in, cuts, dcap, minUnit)
					if !legit {
						if problem != "" {
							add("esc:concurrent:"+dir+":Transform", "goroutine %d: %s.Transform on %s cuts=%v cap=%d: %s", g, dir, q(in), cuts, dcap, problem)
						} else if !bytes.Equal(out, ref) {
							add("esc:concurrent:"+dir+":Transform", "goroutine %d: %s.Transform on %s cuts=%v cap=%d gives %q, reference %q (first difference at %d)", g, dir, q(in), cuts, dcap, out, ref, firstDiff(out, ref))
						}
					}
					rd, rerr := io.ReadAll(transform.NewReader(&chunkReader{b: in, r: rg}, t))
					if rerr != nil || !bytes.Equal(rd, ref) {
						add("esc:concurrent:"+dir+":reader", "goroutine %d: transform.NewReader(%s) on %s gives %q err=%v, reference %q", g, dir, q(in), rd, rerr, ref)
					}
					var wb bytes.Buffer
					w := transform.NewWriter(&wb, t)
					_, werr := w.Write(in)
					if werr == nil {
						werr = w.Close()
					}
					if werr != nil || !bytes.Equal(wb.Bytes(), ref) {
						add("esc:concurrent:"+dir+":writer", "goroutine %d: transform.NewWriter(%s) on %s gives %q err=%v, reference %q", g, dir, q(in), wb.Bytes(), werr, ref)
					}
					ops[g] += 6
				}
				if rep%4 == 3 {
					runtime.Gosched()
				}
			}
		}(g)
	}
	close(start)
	wg.Wait()
	total := 0
	for g := range ops {
		total += ops[g]
	}
	c.Count("concurrent_operations", total)
	if atomic.LoadInt32(&maxAct) >= 2 {
		c.Count("concurrent_cases_with_overlapping_goroutines", 1)
	}
	if atomic.LoadInt32(&maxAct) >= 4 {
		c.Count("concurrent_cases_with_4_or_more_goroutines_at_once", 1)
	}
	c.Sig("concurrent:%d", atomic.LoadInt32(&maxAct))
	for g := range problems {
		for _, p := range problems[g] {
			c.Violate(p.key, "%s", p.detail)
		}
	}
}
