package c16

import (
	"fmt"
	"os"
	"sync"

	"mellium.im/xmpp/jid"
)

// coldStart is the very first use of the transformers in a child process, made
// by several goroutines at once (a server answering its first connections):
// nothing has warmed up whatever the package builds lazily.  The expected
// outputs are literals, so that computing them does not touch the package
// either.  A wrong result ends the child with a message that the parent
// reports; unsynchronised initialisation shows in the race detector's log.
func coldStart() {
	const in = `d'artagnan & "the three" <musketeers>@paris:17/c:\fr`
	const esc = `d\27artagnan\20\26\20\22the\20three\22\20\3cmusketeers\3e\40paris\3a17\2fc\3a\5cfr`
	const workers = 8
	start := make(chan struct{})
	var wg sync.WaitGroup
	bad := make([]string, workers)
	for i := 0; i < workers; i++ {
		i := i
		wg.Add(1)
		go func() {
			defer wg.Done()
			<-start
			if i%2 == 0 {
				if got := jid.Escape.String(in); got != esc {
					bad[i] = fmt.Sprintf("Escape.String(%q) = %q, want %q", in, got, esc)
				}
				if got := string(jid.Escape.Bytes([]byte(in))); got != esc {
					bad[i] = fmt.Sprintf("Escape.Bytes(%q) = %q, want %q", in, got, esc)
				}
			} else {
				if got := jid.Unescape.String(esc); got != in {
					bad[i] = fmt.Sprintf("Unescape.String(%q) = %q, want %q", esc, got, in)
				}
				if got := jid.Escape.String(in); got != esc {
					bad[i] = fmt.Sprintf("Escape.String(%q) = %q, want %q", in, got, esc)
				}
			}
		}()
	}
	close(start)
	wg.Wait()
	for _, b := range bad {
		if b != "" {
			fmt.Fprintf(os.Stderr, "CASE 0\nfirst concurrent use of the transformers in this process: %s\n", b)
			panic("c16 cold start: " + b)
		}
	}
}
