// Package c15 monitors XEP-0047 in-band bytestreams (mellium.im/xmpp/ibb) as a
// reliable ordered byte pipe: real library sessions joined by an in-memory
// transport transfer PRNG payloads under PRNG write partitions, block sizes,
// carriers and timings; a raw IBB speaker exercises refusals; forced
// interleavings at the reader's wait decide lost wake-ups with the stall rule.
package c15

import (
	"os"
	"time"

	"mellium.im/xmpp/verifharness/core"
)

// wrapIndex is the case that feeds the receiving side 65 541 packets from the
// raw speaker.  It is early so that it runs alongside everything else.
const wrapIndex = 3

// kindOf maps a case index to the part of the workload it runs.
func kindOf(i int) string {
	if i%20 == 17 {
		return "close-fail"
	}
	switch i % 10 {
	case 5:
		return "listener"
	case 6, 7:
		return "raw-recv"
	case 8:
		return "raw-send"
	case 9:
		return "forced"
	}
	return "transfer"
}

func run(c *core.Case) {
	if w := os.Getenv("C15_WITNESS"); w != "" {
		// debugging aid: run a pinned witness as the case
		if f := witnesses()[w]; f != nil {
			f(c)
		}
		return
	}
	if c.Tier == "thorough" && c.Index == 0 {
		runWrap(c)
		return
	}
	if c.Index == wrapIndex {
		// in every tier: the receiver's sequence counter passes 65535 → 0
		runRawWrap(c)
		return
	}
	switch kindOf(c.Index) {
	case "transfer":
		runTransfer(c)
	case "raw-recv":
		runRawRecv(c)
	case "raw-send":
		runRawSend(c)
	case "forced":
		runForced(c)
	case "listener":
		runListener(c)
	case "close-fail":
		runCloseFail(c)
	}
}

// caseTimeout: the engine's watchdog is only a backstop (waits inside a case
// are bounded by hardLimit); the thorough tier's 65 537-packet transfer needs
// minutes.
func caseTimeout() time.Duration {
	thorough := os.Getenv("VERIF_TIER") == "thorough"
	for _, a := range os.Args {
		if a == "thorough" || a == "--tier=thorough" {
			thorough = true
		}
	}
	if thorough {
		return 12 * time.Minute
	}
	return 90 * time.Second
}

// Prop returns the C15 check.
func Prop() *core.Prop {
	return &core.Prop{
		ID:    "C15",
		Level: core.Exploration,
		Race:  true,
		Rule: "case i runs one of: (transfer, 5/10) two real sessions joined by bufconn.Pipe, each serving a mux with ibb.Handle; 1-2 streams opened from either end with block size in {1,2,3,4,5,63,64,4095,4096,65535,default}, IQ or message carrier, payload lengths around multiples of the block size, of 3 and of 768/1024, PRNG partitions into Write/Flush, both directions at once, PRNG reader buffer sizes and start delays, transport read chunking and write yields; either side closes; " +
			"(raw-recv, 2/10) the library accepts a stream from a raw XEP-0047 speaker that interleaves valid data with packets for unknown/closed sids, out-of-sequence numbers, undecodable base64 and packets exceeding SetReadBuffer; (raw-send, 1/10) the library opens towards the raw speaker, which refuses or accepts and then acts as an independent receiver; " +
			"(listener, 1/10) the accepting side's API — Listen, Accept, Expect (live, cancelled, expired, replaced), Listener.Close idle and while an <open/> waits for Accept, several Expects and an Accept at once, re-Listen — against the raw speaker and against a second library session; streams must go to the entitled call, nothing may panic, and the serve loop may not stay parked in the IBB handler unless it is the application that keeps an <open/> waiting; (close-fail, 1/20) a local Close that does not go through (its <close/> unanswered until the write deadline, answered with an error, transport write failing) or that runs while data is coming in, followed by data / out-of-sequence data / a <close/> from the speaker for that sid and a barrier: no panic, answers as for a stream that is either still open or gone, EOF for the reader if the speaker's close is accepted; (raw-wrap, case 3 of every tier) the raw speaker sends 65 541 one-byte packets numbered 0…65535,0…4 in batches without waiting (message carrier: no refusal stanza may come back; IQ carrier: every packet acknowledged), a reader drains, bytes must be equal; (forced, 1/10) scenarios I1-I3 park the reader at ibb.read.wait or the handler at ibb.data.notify with the controller, I4 parks the serve loop at ibb.open.handoff between the lookup of an expected stream and its hand-over while the Expect call gives up, I5 parks the handler at ibb.data.notify while a local Close fails on a write deadline that has passed (nothing may panic, on the caller's goroutine or on the serve loop; whether the session still answers afterwards is counted, not judged). Thorough case 0 sends 65 537+ packets on one stream. Oracle: byte equality per direction, consecutive seq on a wire tap, EOF placement, error condition per injected packet, stall rule for parked readers, race detector. distinct = distinct (shape, outcome) signatures.",
		Assumptions: []string{
			"bufconn.Pipe is a faithful reliable ordered transport",
			"the closing side's reader is only required to deliver a prefix of what the other side wrote; the non-closing side's last 0-2 bytes (incomplete base64 group) may legitimately wait for its own close",
			"after a packet of the stream itself was refused (out-of-sequence, undecodable) nothing more is demanded of that stream than that bytes delivered before stay unchanged; for a packet refused for exceeding the receive buffer the reader's bytes must in addition be a prefix of the accepted packets (the refused packet is never delivered)",
		},
		Cases: func(tier string) int {
			if tier == "thorough" {
				return 20000
			}
			return 500
		},
		Run:           run,
		CaseTimeout:   caseTimeout(),
		ReplayRepeats: 20,
		Witnesses:     witnesses(),
		Require: []string{
			"transfers", "carrier_iq", "carrier_message", "dir_opener_to_acceptor", "dir_acceptor_to_opener", "bidirectional",
			"eof_after_close", "data_packets_on_wire", "concurrent_stream_cases",
			"inject_unknown_sid", "inject_no_sid", "inject_closed_sid", "inject_bad_seq", "inject_bad_base64", "inject_oversize",
			"refused_opens", "raw_receiver_transfers", "raw_wrap_runs",
			"close_fail_cases", "close_answered_cases", "post_close_contract_checked", "close_answered_while_write-blocked", "close_answered_while_read-blocked", "local_close_failed_timeout", "local_close_failed_write-fails", "close_concurrent_with_inbound_data", "packets_after_failed_or_concurrent_close", "serve_loop_alive_after_failed_close",
			"listener_cases", "listener_expects_given_up", "listener_expect_took_precedence", "listener_expect_replaced", "listener_closed_while_open_pending",
			"listener_close_unblocked_accept", "listener_relisten_works", "listener_concurrent_expects", "listener_open_refused_closed_listener", "listener_streams_used",
			"data_packets_text_in_several_tokens_or_wrapped", "flush_checkpoints", "flush_checkpoints_read_by_peer", "packets_for_sid_closed_by_peer_during_write", "two_writer_cases", "second_writer_queued_behind_unacknowledged_packet", "malformed_refusals_of_data_iq", "refused_packet_reported_to_writer",
			"oversize_refusals_checked_against_reader", "set_read_buffer_unlimited", "set_read_buffer_below_block", "passive_side_holds_base64_remainder_at_close", "passive_side_unflushed_at_close", "serve_loops_alive_after_transfer",
			"forced_I1_reached", "forced_I2_reached", "forced_I3_reached", "forced_I4_reached", "forced_I4_stream_went_to_accept", "forced_I5_reached", "forced_I5_close_failed_while_the_handler_was_about_to_signal",
		},
	}
}
