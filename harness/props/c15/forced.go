package c15

import (
	"bytes"
	"context"
	"encoding/base64"
	"fmt"
	"io"
	"net"
	"strings"
	"time"

	"mellium.im/xmpp/ibb"
	"mellium.im/xmpp/jid"

	"mellium.im/xmpp/verifharness/core"
	"mellium.im/xmpp/verifharness/ctrl"
	"mellium.im/xmpp/verifharness/stall"
	"mellium.im/xmpp/verifharness/xmltree"
)

// forcedCase is one of the scenarios I1-I3 of DESIGN.md appendix C.
type forcedCase struct {
	Kind     string `json:"kind"`
	Scenario string `json:"scenario"` // I1 | I2 | I3
	Carrier  string `json:"carrier"`
	N        int    `json:"data_bytes"`
	Packets  int    `json:"packets"`
	Seed     int64  `json:"payload_seed"`
}

func runForced(c *core.Case) {
	fc := &forcedCase{Kind: "forced", Seed: c.Rand.Int63()}
	fc.Scenario = []string{"I1", "I2", "I3", "I4", "I5"}[(c.Index/10)%5]
	fc.Carrier = []string{"iq", "message"}[c.Rand.Intn(2)]
	fc.N = 1 + c.Rand.Intn(40)
	fc.Packets = 1 + c.Rand.Intn(2)
	if fc.Scenario == "I3" && c.Rand.Intn(3) == 0 {
		fc.Packets = 0
	}
	c.Sample(fc)
	if fc.Scenario == "I4" {
		execForcedExpect(c, fc)
		return
	}
	execForced(c, fc)
}

// execForcedExpect is scenario I4: an Expect call waits for a stream; the peer
// opens it; the serve loop has looked the waiting call up and is parked just
// before it hands the stream over; the Expect call gives up (its context is
// cancelled) and returns; the serve loop continues.  It must not wait for a
// receiver that is gone: the stream is one like any other (Accept gets it) and
// the session goes on serving.
func execForcedExpect(c *core.Case, fc *forcedCase) {
	base := stall.Snapshot(nil)
	rp, err := newRawPeer()
	if err != nil {
		c.Count("setup_failures", 1)
		return
	}
	defer rp.shutdown()
	ctl := ctrl.New()
	defer ctl.Close()
	const sid = "forced-expect"
	ln := rp.h.Listen(rp.p.S)
	ectx, cancel := context.WithCancel(context.Background())
	defer cancel()
	type expRes struct {
		conn net.Conn
		err  error
	}
	ech := make(chan expRes, 1)
	go func() {
		var r expRes
		c.Guard("ibb.Listener.Expect", func() { r.conn, r.err = ln.Expect(ectx, jid.MustParse(peerAddr), sid) })
		ech <- r
	}()
	// the call is registered once it is parked in its select
	registered := false
	for i := 0; i < 2000 && !registered; i++ {
		for id, p := range stall.Snapshot(func(fn string) bool { return strings.HasPrefix(fn, "ibb.(*Listener).Expect") }) {
			if _, old := base[id]; !old && p.State == "select" {
				registered = true
			}
		}
		if !registered {
			time.Sleep(time.Millisecond)
		}
	}
	if !registered {
		c.Notef("I4: Expect never reached its wait")
		return
	}
	rule := ctl.Park("ibb.open.handoff", sid)
	openDone := make(chan *xmltree.Node, 1)
	go func() { openDone <- rp.open(sid, 4096, fc.Carrier) }()
	if !rule.WaitArrived(grace) {
		c.Notef("I4: the serve loop never reached ibb.open.handoff")
		rule.Release()
		return
	}
	c.Count("forced_I4_reached", 1)
	cancel()
	var er expRes
	select {
	case er = <-ech:
	case <-time.After(grace):
		c.Inconclusive("I4: Expect did not return after its context was cancelled")
		rule.Release()
		return
	}
	if er.err == nil {
		// the hand-over had not begun: a cancelled Expect cannot have a stream
		c.Violate("ibb:expect:stream-after-cancel", "I4: Expect returned a stream although its context was cancelled before the serve loop offered one")
		rule.Release()
		return
	}
	ach := acceptOne(ln)
	rule.Release()
	outcome := "ok"
	select {
	case conn := <-ach:
		if conn == nil {
			c.Violate("ibb:accept:nil", "I4: Accept returned no stream")
			outcome = "nil"
		} else {
			c.Count("forced_I4_stream_went_to_accept", 1)
		}
	case <-time.After(grace):
		if stuck := newParked(base, func(fn string) bool { return strings.HasPrefix(fn, "ibb.handleOpen") }); len(stuck) > 0 {
			c.Violate(stall.Key(stuck[0]), "I4: the Expect call the stream had been looked up for gave up before the hand-over; the serve loop waits for it for good (Accept is waiting, nothing else can happen):\n%s", stuck[0].Stack)
			c.Sig("forced I4 %s outcome=stall", fc.Carrier)
			return
		}
		// The serve loop is not parked in the hand-over.  If it answers a ping
		// sent now, it has left handleOpen for this <open/> (one element at a
		// time): whatever it did with the stream is done, and the only call
		// left that could have been given it is this Accept.
		if rep := <-openDone; rep != nil && rep.Attr("type") == "result" && rp.barrier() {
			select {
			case conn := <-ach:
				if conn != nil {
					// merely late
					c.Count("forced_I4_stream_went_to_accept", 1)
					rp.closeSID(sid)
					c.Count("forced_scenarios", 1)
					c.Sig("forced I4 %s outcome=ok", fc.Carrier)
					return
				}
			case <-time.After(grace):
			}
			c.Violate("ibb:open:accepted-stream-lost", "I4: the Expect call the stream had been looked up for gave up before the hand-over; <open/> was answered with a result, the serve loop has gone on (it answers a ping), and the waiting Accept never got the stream")
			c.Sig("forced I4 %s outcome=lost", fc.Carrier)
			return
		}
		c.Inconclusive("I4: Accept did not get the stream and the stall rule does not apply")
		return
	}
	if rep := <-openDone; rep == nil || rep.Attr("type") != "result" {
		c.Violate("ibb:open:listener-refused", "I4: <open/> for a stream with a listener was answered with %v", rep)
		outcome = "refused"
	}
	if !rp.barrier() {
		c.Violate("ibb:session-ended", "I4: after the hand-over the session no longer answers")
		outcome = "dead"
	}
	rp.closeSID(sid)
	c.Count("forced_scenarios", 1)
	c.Sig("forced I4 %s outcome=%s", fc.Carrier, outcome)
}

type readRes struct {
	n   int
	err error
	buf []byte
}

func readOnce(c *core.Case, conn *ibb.Conn, size int) chan readRes {
	ch := make(chan readRes, 1)
	go func() {
		var r readRes
		r.buf = make([]byte, size)
		c.Guard("ibb.Conn.Read", func() { r.n, r.err = conn.Read(r.buf) })
		ch <- r
	}()
	return ch
}

// sendHandled sends one valid packet and returns once the library has handled
// and (for the IQ carrier) acknowledged it.  When the handler itself is parked
// by the controller the wait is skipped.
func (rp *rawPeer) sendHandled(carrier, sid string, seq int, chunk []byte, wait bool) bool {
	id := rp.data(carrier, sid, seq, base64.StdEncoding.EncodeToString(chunk))
	if !wait {
		return true
	}
	if carrier == "iq" {
		rep := rp.expect(byID(id), hardLimit)
		return rep != nil && rep.Attr("type") == "result"
	}
	return rp.barrier()
}

func execForced(c *core.Case, fc *forcedCase) {
	base := stall.Snapshot(nil)
	rp, err := newRawPeer()
	if err != nil {
		c.Count("setup_failures", 1)
		return
	}
	defer rp.shutdown()
	ctl := ctrl.New()
	defer ctl.Close()

	const sid = "forced"
	ln := rp.h.Listen(rp.p.S)
	conn := rp.openAccepted(c, ln, sid, 4096, fc.Carrier)
	if conn == nil {
		return
	}
	// whatever happens, end the stream so that a parked reader is woken and
	// does not outlive the case
	defer rp.closeSID(sid)

	data := payload(fc.Seed, 0, fc.N*max(fc.Packets, 1))
	outcome := "ok"
	switch fc.Scenario {
	case "I1", "I3":
		// The reader finds the buffer empty, releases the lock and is parked
		// just before it waits.
		rule := ctl.Park("ibb.read.wait", sid)
		rch := readOnce(c, conn, len(data)+8)
		if !rule.WaitArrived(grace) {
			c.Notef("%s: reader never reached ibb.read.wait", fc.Scenario)
			return
		}
		c.Count("forced_"+fc.Scenario+"_reached", 1)
		// Meanwhile data packets are handled and acknowledged …
		sent := 0
		for k := 0; k < fc.Packets; k++ {
			if !rp.sendHandled(fc.Carrier, sid, k, data[k*fc.N:(k+1)*fc.N], true) {
				c.Violate("ibb:refusal:valid-packet", "%s: valid packet %d was not acknowledged", fc.Scenario, k)
				return
			}
			sent += fc.N
		}
		if fc.Scenario == "I3" {
			// … and the peer closes the stream.
			if rep := rp.closeSID(sid); rep == nil || rep.Attr("type") != "result" {
				c.Violate("ibb:close:refused", "I3: <close/> answered with %v", rep)
				return
			}
		}
		rule.Release()
		var first readRes
		select {
		case first = <-rch:
		case <-time.After(grace):
			stuck := newParked(base, isReadFrame)
			if len(stuck) == 0 {
				select {
				case first = <-rch:
				case <-time.After(hardLimit):
					{
						c.Inconclusive("a wait ran out and the stall rule does not apply")
						return
					}
				}
				break
			}
			// All actors are done: the packets were acknowledged, the peer sends
			// nothing more, no deadline is set.  The reader waits for a signal that
			// was given while it was between its check and its wait.
			what := fmt.Sprintf("%d byte(s) in %d packet(s) were handled and acknowledged", sent, fc.Packets)
			if fc.Scenario == "I3" {
				what += " and the peer closed the stream"
			}
			c.Violate(stall.Key(stuck[0]), "%s (%s carrier): while the reader was between its buffer check and its wait, %s; Read never returns:\n%s", fc.Scenario, fc.Carrier, what, stuck[0].Stack)
			c.Count("stalled_readers", 1)
			c.Sig("forced %s %s packets=%d outcome=stall", fc.Scenario, fc.Carrier, fc.Packets)
			return
		}
		// drain: Read may legitimately return less than everything at once
		got := append([]byte(nil), first.buf[:first.n]...)
		rerr := first.err
		for rerr == nil && (len(got) < sent || fc.Scenario == "I3") {
			var r readRes
			select {
			case r = <-readOnce(c, conn, len(data)+8):
			case <-time.After(grace):
				if stuck := newParked(base, isReadFrame); len(stuck) > 0 {
					c.Violate(stall.Key(stuck[0]), "%s: after %d of %d acknowledged bytes the next Read never returns:\n%s", fc.Scenario, len(got), sent, stuck[0].Stack)
					return
				}
				{
					c.Inconclusive("a wait ran out and the stall rule does not apply")
					return
				}
			}
			got = append(got, r.buf[:r.n]...)
			rerr = r.err
		}
		if !bytes.Equal(got, data[:sent]) {
			class, at := diffClass(got, data[:sent])
			key := "ibb:" + class + ":receiver"
			if class == "short" {
				key = "ibb:eof:early:receiver"
			}
			c.Violate(key, "%s: %d bytes acknowledged, Read returned %d (%v); departure (%s) at %d", fc.Scenario, sent, len(got), rerr, class, at)
			outcome = class
		}
		if fc.Scenario == "I3" && rerr != io.EOF {
			c.Violate("ibb:eof:error", "I3: after the peer's close the reader got %d bytes and then %v instead of io.EOF", len(got), rerr)
			outcome = "no-eof"
		}
		if fc.Scenario == "I3" && rerr == io.EOF {
			c.Count("eof_after_close", 1)
		}
	case "I2":
		// The handler has stored the data and is parked just before it signals;
		// the reader calls Read now.
		rule := ctl.Park("ibb.data.notify", sid)
		rp.sendHandled(fc.Carrier, sid, 0, data[:fc.N], false)
		if !rule.WaitArrived(grace) {
			c.Notef("I2: handler never reached ibb.data.notify")
			return
		}
		c.Count("forced_I2_reached", 1)
		rch := readOnce(c, conn, fc.N+8)
		time.Sleep(2 * time.Millisecond) // let the reader run into the handler's lock
		rule.Release()
		var r readRes
		select {
		case r = <-rch:
		case <-time.After(grace):
			if stuck := newParked(base, isReadFrame); len(stuck) > 0 {
				c.Violate(stall.Key(stuck[0]), "I2: the handler stored %d bytes and signalled after the reader had called Read; Read never returns:\n%s", fc.N, stuck[0].Stack)
				c.Sig("forced I2 %s outcome=stall", fc.Carrier)
				return
			}
			{
				c.Inconclusive("a wait ran out and the stall rule does not apply")
				return
			}
		}
		if r.err != nil || !bytes.Equal(r.buf[:r.n], data[:min(r.n, fc.N)]) || r.n == 0 {
			c.Violate("ibb:corrupt:receiver", "I2: %d bytes stored, Read returned n=%d err=%v", fc.N, r.n, r.err)
			outcome = "wrong"
		}
	case "I5":
		// The handler has stored a packet and is parked just before it signals
		// the reader.  The application closes the stream now, with a write
		// deadline that has passed already, so that its <close/> cannot go
		// through and Close returns an error.  The handler continues.  Whatever
		// the failed Close did to the stream, the serve loop must survive it
		// (a panic there ends the process) and go on serving.
		rule := ctl.Park("ibb.data.notify", sid)
		rp.sendHandled(fc.Carrier, sid, 0, data[:fc.N], false)
		if !rule.WaitArrived(grace) {
			c.Notef("I5: handler never reached ibb.data.notify")
			return
		}
		c.Count("forced_I5_reached", 1)
		conn.SetWriteDeadline(time.Unix(1, 0))
		var cerr error
		closed := make(chan struct{})
		go func() {
			defer close(closed)
			c.Guard("ibb.Conn.Close", func() { cerr = conn.Close() })
		}()
		select {
		case <-closed:
		case <-time.After(grace):
			// Close may legitimately wait for the handler (locks): go on
		}
		rule.Release()
		select {
		case <-closed:
		case <-time.After(hardLimit):
			c.Inconclusive("I5: Close did not return")
			return
		}
		if cerr != nil {
			c.Count("forced_I5_close_failed_while_the_handler_was_about_to_signal", 1)
			outcome = "close-failed"
		}
		// Whether the session still answers afterwards is not judged: the
		// request that Close sends under a context whose deadline has passed may
		// be cut off by that deadline in the transport, and what a session owes
		// after a transmit call that failed in mid-write is C05's and C10's
		// question, not this scenario's.  What is judged is that nothing panics:
		// on the test goroutine (Guard above) or on the serve loop (the child
		// dies and the parent reports it).
		if rp.barrier() {
			c.Count("forced_I5_session_answers_afterwards", 1)
		} else {
			c.Count("forced_I5_session_silent_afterwards_not_judged", 1)
			outcome = "silent"
		}
	}
	c.Count("forced_scenarios", 1)
	c.Sig("forced %s %s packets=%d outcome=%s", fc.Scenario, fc.Carrier, fc.Packets, outcome)
}

// ---------------------------------------------------------------------------
// thorough only: more than 65 536 packets on one stream, so that the sequence
// number wraps

func runWrap(c *core.Case) {
	defer func(d time.Duration) { hardLimit = d }(hardLimit)
	hardLimit = 8 * time.Minute
	tc := &transferCase{Kind: "transfer-seq-wrap", PayloadSeed: c.Rand.Int63()}
	const packets = 65536 + 40
	sp := streamSpec{Opener: "A", Block: 3, Carrier: []string{"iq", "message"}[c.Rand.Intn(2)], Closer: "opener", SID: "wrap"}
	d := dirSpec{Len: 3 * packets, LenClass: "wrap", Part: "flush-each", ReadBuf: 4096}
	for i := 0; i < packets; i++ {
		d.Steps = append(d.Steps, wstep{N: 3, Flush: true})
	}
	d.NSteps = len(d.Steps)
	sp.Dir[0] = d
	sp.Dir[1] = dirSpec{LenClass: "none", Part: "none"}
	tc.Streams = []streamSpec{sp}
	c.Sample(tc)
	execTransfer(c, tc)
	c.Count("seq_wrap_runs", 1)
}

// ---------------------------------------------------------------------------
// pinned witnesses for class keys that may be listed as known findings

func witnesses() map[string]func(*core.Case) {
	forced := func(sc, carrier string, packets int) func(*core.Case) {
		return func(c *core.Case) {
			fc := &forcedCase{Kind: "forced", Scenario: sc, Carrier: carrier, N: 5, Packets: packets, Seed: 1}
			c.Sample(fc)
			execForced(c, fc)
		}
	}
	rawRecv := func(rc *rawRecvCase) func(*core.Case) {
		return func(c *core.Case) {
			c.Sample(rc)
			execRawRecv(c, rc)
		}
	}
	listener := func(template, giveUp string) func(*core.Case) {
		return func(c *core.Case) {
			lc := &listenCase{Kind: "listener", Template: template, Seed: 1, Carrier: "iq", GiveUp: giveUp, N: 2, Order: []int{0, 1, 2}}
			c.Sample(lc)
			execListener(c, lc)
		}
	}
	closeFail := func(after ...string) func(*core.Case) {
		return func(c *core.Case) {
			cf := &closeFailCase{Kind: "close-fail", Seed: 1, Carrier: "iq", Mode: "timeout", Before: 1, After: after, Reader: true}
			c.Sample(cf)
			execCloseFail(c, cf)
		}
	}
	return map[string]func(*core.Case){
		// a local Close times out waiting for its acknowledgement; the peer then
		// closes the stream (accepted), yet the stream stays registered …
		"ibb:close-fail:wrong-answer": closeFail("close", "data"),
		// … and its reader is never woken
		"ibb:eof:missing:peer-close-after-failed-local-close": closeFail("close"),
		// an Expect is cancelled, then the stream it waited for is opened: the
		// handler sends on the channel nobody receives from any more
		"stall:ibb.handleOpen:chan-send": listener("expect-gave-up-then-open", "cancel"),
		// Listener.Close while the handler holds an <open/> for Accept
		"panic:ibb.handleOpen:closed-chan": listener("close-while-handing-over", ""),
		// Listener.Close twice
		"panic:ibb.(*Listener).Close:closed-chan": listener("close-idle", ""),
		// I1: the smallest lost wake-up
		"stall:ibb.(*Conn).Read:chan-receive": forced("I1", "iq", 1),
		"ibb:open:succeeded-after-refusal": func(c *core.Case) {
			rs := &rawSendCase{Kind: "raw-send", PayloadSeed: 1, Carrier: "iq", Block: 4096, Refuse: "not-acceptable", RefuseType: "cancel"}
			c.Sample(rs)
			execRawSend(c, rs)
		},
		// the peer's <close/> arrives while Write waits for an acknowledgement: the
		// close handler flushes the same buffer again through the shared writer
		"ibb:seq:numbering": func(c *core.Case) {
			rs := &rawSendCase{Kind: "raw-send", PayloadSeed: 1, Carrier: "iq", Block: 4, CloseAt: 1,
				Dir: dirSpec{Len: 8, LenClass: "block", Part: "flush-each", Steps: []wstep{{N: 4, Flush: true}, {N: 4, Flush: true}}, NSteps: 2}}
			rs.Dir.StepsHead = rs.Dir.Steps
			c.Sample(rs)
			execRawSend(c, rs)
		},
		"ibb:refusal:closed-sid-lib:wrong-answer": rawRecv(&rawRecvCase{Kind: "raw-recv", PayloadSeed: 1, Carrier: "iq", Block: 64, End: "peer-close",
			Steps: []rawStep{{Op: "data", N: 3}, {Op: "closed-sid-lib", N: 3, Seq: 1}}}),
		// an empty data packet wakes the reader, which reports EOF on an open stream
		"ibb:eof:before-close": rawRecv(&rawRecvCase{Kind: "raw-recv", PayloadSeed: 1, Carrier: "iq", Block: 64, End: "peer-close", EmptyPacket: true,
			Steps: []rawStep{{Op: "data", N: 0}, {Op: "data", N: 5}}}),
		// data for a stream the library closed itself: the handler still has it and
		// signals on the closed channel (the serve goroutine panics)
		"panic:ibb.handlePayload:closed-chan": rawRecv(&rawRecvCase{Kind: "raw-recv", PayloadSeed: 1, Carrier: "iq", Block: 64, End: "peer-close",
			Steps: []rawStep{{Op: "data", N: 3}, {Op: "closed-sid-lib", N: 3, Seq: 0}}}),
		"ibb:refusal:bad-b64-trunc:session-ended": rawRecv(&rawRecvCase{Kind: "raw-recv", PayloadSeed: 1, Carrier: "message", Block: 64, End: "peer-close",
			Steps: []rawStep{{Op: "data", N: 3}, {Op: "bad-b64-trunc", N: 4}}}),
	}
}
