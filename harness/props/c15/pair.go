package c15

import (
	"context"
	"encoding/base64"
	"encoding/xml"
	"fmt"
	"io"
	"runtime"
	"strconv"
	"strings"
	"sync/atomic"
	"time"

	"mellium.im/xmpp"
	"mellium.im/xmpp/ibb"
	"mellium.im/xmpp/jid"
	"mellium.im/xmpp/mux"
	"mellium.im/xmpp/stanza"
	"mellium.im/xmpp/stream"

	"mellium.im/xmpp/verifharness/bufconn"
	"mellium.im/xmpp/verifharness/sess"
	"mellium.im/xmpp/verifharness/xmltree"
)

const nsIBB = "http://jabber.org/protocol/ibb"
const nsStanzas = "urn:ietf:params:xml:ns:xmpp-stanzas"

// Addresses of the library-to-library pair: A is the initiating (client) end,
// B the receiving end of one c2s stream.
const (
	addrA = "a@example.net/A"
	addrB = "example.net"
)

// headerFirst is a negotiator for a library-to-library connection: both ends
// write their stream header first (bufconn writes never block) and then read
// the peer's, so neither waits for the other.  No features are negotiated.
func headerFirst(local, remote string) xmpp.Negotiator {
	return func(ctx context.Context, in, out *stream.Info, s *xmpp.Session, data interface{}) (xmpp.SessionState, io.ReadWriter, interface{}, error) {
		_, err := fmt.Fprintf(s.Conn(), `<?xml version="1.0"?><stream:stream xmlns='%s' xmlns:stream='%s' version='1.0' id='h' from='%s' to='%s'>`,
			sess.NSClient, sess.NSStream, local, remote)
		if err != nil {
			return 0, nil, nil, err
		}
		rc := s.TokenReader()
		defer rc.Close()
		for {
			tok, err := rc.Token()
			if err != nil {
				return 0, nil, nil, err
			}
			if se, ok := tok.(xml.StartElement); ok {
				to, from := in.To, in.From
				if err := in.FromStartElement(se); err != nil {
					return 0, nil, nil, err
				}
				in.To, in.From = to, from
				break
			}
		}
		out.XMLNS = sess.NSClient
		return xmpp.Ready, nil, nil, nil
	}
}

// end is one library session of a pair with its IBB handler.
type end struct {
	name  string
	s     *xmpp.Session
	conn  *bufconn.Conn
	h     *ibb.Handler
	ended chan struct{} // closed when Serve returned
	err   error         // what Serve returned (read after ended)
}

// libPair is two real library sessions joined by a bufconn pipe.
type libPair struct {
	A, B *end
	dead chan struct{} // closed as soon as either serve loop has returned
}

// deadWhy describes which serve loop ended and how.
func (p *libPair) deadWhy() string {
	var out []string
	for _, e := range []*end{p.A, p.B} {
		select {
		case <-e.ended:
			out = append(out, fmt.Sprintf("Serve on end %s returned %v", e.name, e.err))
		default:
		}
	}
	return strings.Join(out, "; ")
}

// noise derives scheduling perturbations from the case seed without sharing a
// rand.Rand between goroutines.
type noise struct {
	seed uint64
	n    atomic.Uint64
}

func mix(x uint64) uint64 {
	x += 0x9e3779b97f4a7c15
	x = (x ^ (x >> 30)) * 0xbf58476d1ce4e5b9
	x = (x ^ (x >> 27)) * 0x94d049bb133111eb
	return x ^ (x >> 31)
}

func (z *noise) next() uint64 { return mix(z.seed ^ mix(z.n.Add(1))) }

type shaping struct {
	Chunk bool `json:"chunk,omitempty"` // transport reads return PRNG-sized pieces
	Yield bool `json:"yield,omitempty"` // transport writes are followed by Gosched / short sleeps
}

func shape(c *bufconn.Conn, z *noise, sh shaping) {
	if sh.Chunk {
		c.SetChunker(func(avail int) int {
			v := z.next()
			switch v % 4 {
			case 0:
				return 1 + int((v>>8)%7)
			case 1:
				return 1 + int((v>>8)%uint64(avail))
			}
			return avail
		})
	}
	if sh.Yield {
		c.SetAfterWrite(func(int) {
			v := z.next()
			switch v % 8 {
			case 0, 1, 2:
				// runtime.Gosched is what a pre-empted writer looks like
				runtime.Gosched()
			case 3:
				time.Sleep(time.Duration(20+(v>>8)%200) * time.Microsecond)
			}
		})
	}
}

// newLibPair builds the two sessions concurrently (each waits for the other's
// header) and starts their serve loops with a mux carrying ibb.Handle.
func newLibPair(seed int64, sh shaping) (*libPair, error) {
	ca, cb := bufconn.Pipe()
	z := &noise{seed: uint64(seed)}
	shape(ca, z, sh)
	shape(cb, z, sh)
	ja, jb := jid.MustParse(addrA), jid.MustParse(addrB)
	type res struct {
		s   *xmpp.Session
		err error
	}
	ra, rb := make(chan res, 1), make(chan res, 1)
	go func() {
		s, err := xmpp.NewSession(context.Background(), jb, ja, ca, 0, headerFirst(addrA, addrB))
		ra <- res{s, err}
	}()
	go func() {
		s, err := xmpp.NewSession(context.Background(), jb, ja, cb, xmpp.Received, headerFirst(addrB, addrA))
		rb <- res{s, err}
	}()
	a, b := <-ra, <-rb
	if a.err != nil || b.err != nil {
		ca.Close()
		cb.Close()
		return nil, fmt.Errorf("session setup: A: %v, B: %v", a.err, b.err)
	}
	p := &libPair{
		A:    &end{name: "A", s: a.s, conn: ca, h: &ibb.Handler{}, ended: make(chan struct{})},
		B:    &end{name: "B", s: b.s, conn: cb, h: &ibb.Handler{}, ended: make(chan struct{})},
		dead: make(chan struct{}),
	}
	for _, e := range []*end{p.A, p.B} {
		e := e
		m := mux.New(stanza.NSClient, ibb.Handle(e.h))
		go func() {
			e.err = e.s.Serve(m)
			close(e.ended)
		}()
	}
	go func() {
		select {
		case <-p.A.ended:
		case <-p.B.ended:
		}
		close(p.dead)
	}()
	return p, nil
}

// shutdown closes both streams and transports and waits for the serve loops.
// Nothing here may block for good: a session whose output lock is held by a
// wedged goroutine is abandoned (its transport is closed under it).
func (p *libPair) shutdown() (errA, errB error, ok bool) {
	closed := make(chan struct{}, 2)
	for _, e := range []*end{p.A, p.B} {
		e := e
		go func() {
			e.s.Close()
			closed <- struct{}{}
		}()
	}
	ok = true
	dl := time.After(2 * time.Second)
	for i := 0; i < 2; i++ {
		select {
		case <-closed:
		case <-dl:
			ok = false
		}
	}
	wait := func(e *end) error {
		select {
		case <-e.ended:
			return e.err
		case <-time.After(2 * time.Second):
			ok = false
			return nil
		}
	}
	if ok {
		errA = wait(p.A)
		errB = wait(p.B)
	}
	p.A.conn.Close()
	p.B.conn.Close()
	return
}

// ---------------------------------------------------------------------------
// wire tap: an independent parse of what one end wrote

type wirePacket struct {
	Stanza string // iq | message
	ID     string
	SID    string
	Seq    int
	SeqRaw string
	B64    string
}

type wireReply struct {
	Stanza string
	ID     string
	Type   string
	Cond   string // error condition, "" for results
}

type wireView struct {
	Data    []wirePacket
	Opens   []*xmltree.Node
	Closes  []*xmltree.Node
	Replies []wireReply
	Err     error
}

func errCond(n *xmltree.Node) string {
	e := n.Child("*", "error")
	if e == nil {
		return ""
	}
	for _, c := range e.Children() {
		if c.Name.Space == nsStanzas && c.Name.Local != "text" {
			return c.Name.Local
		}
	}
	return "?"
}

func errType(n *xmltree.Node) string {
	if e := n.Child("*", "error"); e != nil {
		return e.Attr("type")
	}
	return ""
}

func classify(v *wireView, n *xmltree.Node) {
	typ := n.Attr("type")
	switch n.Name.Local {
	case "iq":
		if typ == "result" || typ == "error" {
			v.Replies = append(v.Replies, wireReply{Stanza: "iq", ID: n.Attr("id"), Type: typ, Cond: errCond(n)})
			return
		}
	case "message":
		if typ == "error" {
			v.Replies = append(v.Replies, wireReply{Stanza: "message", ID: n.Attr("id"), Type: typ, Cond: errCond(n)})
			return
		}
	}
	for _, c := range n.Children() {
		if c.Name.Space != nsIBB {
			continue
		}
		switch c.Name.Local {
		case "data":
			seq, err := strconv.Atoi(c.Attr("seq"))
			if err != nil {
				seq = -1
			}
			v.Data = append(v.Data, wirePacket{Stanza: n.Name.Local, ID: n.Attr("id"), SID: c.Attr("sid"), Seq: seq, SeqRaw: c.Attr("seq"), B64: c.Text()})
		case "open":
			v.Opens = append(v.Opens, n)
		case "close":
			v.Closes = append(v.Closes, n)
		}
	}
}

// tap parses everything one end wrote.
func tap(written []byte) *wireView {
	st := xmltree.ParseStream(written, true)
	v := &wireView{Err: st.Err}
	for _, n := range st.Elems {
		classify(v, n)
	}
	return v
}

// checkSeq reports the first departure from 0,1,2,… mod 65536 among the data
// packets of one sid, and returns the decoded payload (standard base64, each
// packet on its own, the way any XEP-0047 receiver handles them).
func checkSeq(pk []wirePacket, sid string) (n int, decoded []byte, problem string) {
	want := 0
	for _, p := range pk {
		if p.SID != sid {
			continue
		}
		if p.Seq != want {
			if problem == "" {
				problem = fmt.Sprintf("packet %d of sid %q carries seq=%q, want %d", n, sid, p.SeqRaw, want)
			}
		}
		want = (want + 1) % 65536
		n++
		b, err := base64.StdEncoding.DecodeString(p.B64)
		if err != nil && problem == "" {
			problem = fmt.Sprintf("packet %d (seq %q) of sid %q does not decode as base64 on its own: %v (%.40q)", n-1, p.SeqRaw, sid, err, p.B64)
		}
		decoded = append(decoded, b...)
	}
	return
}
