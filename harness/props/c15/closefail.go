package c15

import (
	"encoding/base64"
	"fmt"
	"io"
	"math/rand"
	"time"

	"mellium.im/xmpp/verifharness/bufconn"
	"mellium.im/xmpp/verifharness/core"
	"mellium.im/xmpp/verifharness/stall"
	"mellium.im/xmpp/verifharness/xmltree"
)

// closeFailCase: the library's own Close on an accepted stream does not go
// through — its <close/> is never acknowledged before the write deadline, is
// answered with an error, or cannot be written — or runs while data is still
// coming in.  Afterwards the raw speaker goes on naming the sid: data with the
// expected number, data out of sequence, a <close/> of its own.  Whatever
// state the failed Close left the stream in, none of that may bring the
// session down, every packet gets one of the answers the statement allows for
// a stream that is either still open or gone, and if the speaker's <close/> is
// accepted the reader drains and reads EOF.
type closeFailCase struct {
	Kind    string   `json:"kind"`
	Seed    int64    `json:"payload_seed"`
	Carrier string   `json:"carrier"`
	Mode    string   `json:"mode"` // timeout | error-reply | write-fails | concurrent-data
	Before  int      `json:"packets_before"`
	After   []string `json:"after"` // data | bad-seq | close, in this order
	Unsent  int      `json:"unflushed_bytes_written_locally"`
	Reader  bool     `json:"reader_blocked_in_read"`
	Answer  string   `json:"peer_answers_close_with,omitempty"` // mode answered
	Local   string   `json:"local_side,omitempty"`              // mode answered
}

var closeFailModes = []string{"timeout", "answered", "answered", "write-fails", "concurrent-data"}

// closeAnswers: what the peer says to the library's <close/>.  Whatever it is,
// the peer has spoken: the stream is over for both sides.
var closeAnswers = []string{"result", "item-not-found", "service-unavailable", "not-acceptable", "feature-not-implemented", "no-payload", "empty-error"}

// closeLocals: what the local side is doing when Close is called.
var closeLocals = []string{"read-blocked", "write-blocked", "nothing"}

func closeAnswer(kind, id string) string {
	head := fmt.Sprintf(`<iq type='error' id='%s' from='%s' to='%s'>`, id, peerAddr, libAddr)
	switch kind {
	case "result":
		return fmt.Sprintf(`<iq type='result' id='%s' from='%s' to='%s'/>`, id, peerAddr, libAddr)
	case "no-payload":
		return head + "</iq>"
	case "empty-error":
		return head + "<error/></iq>"
	}
	return head + fmt.Sprintf(`<error type='cancel'><%s xmlns='%s'/></error></iq>`, kind, nsStanzas)
}

func genCloseFail(r *rand.Rand, idx int) *closeFailCase {
	cf := &closeFailCase{Kind: "close-fail", Seed: r.Int63()}
	cf.Mode = closeFailModes[(idx/20)%len(closeFailModes)]
	cf.Carrier = []string{"iq", "iq", "message"}[r.Intn(3)]
	cf.Before = r.Intn(3)
	cf.Unsent = []int{0, 0, 1, 5}[r.Intn(4)]
	cf.Reader = r.Intn(4) != 0
	after := []string{"data", "bad-seq", "close", "data"}
	r.Shuffle(len(after), func(i, j int) { after[i], after[j] = after[j], after[i] })
	cf.After = after[:1+r.Intn(len(after))]
	if cf.Mode == "timeout" {
		// fixed orders, so that "the peer closes, then names the sid again" is
		// there in every run (and within the first cases)
		cf.After = [][]string{{"close", "data", "bad-seq"}, {"data", "close", "data"}, {"bad-seq", "data", "close"}, {"close", "bad-seq", "data"}}[(idx/100)%4]
		cf.Carrier = "iq"
	}
	if cf.Mode == "answered" {
		q := idx / 20
		ord := (q/5)*2 + q%5 - 1 // the how-manieth answered case this is
		cf.Answer = closeAnswers[ord%len(closeAnswers)]
		cf.Local = closeLocals[ord%len(closeLocals)]
		cf.Carrier = "iq"
		cf.Reader = cf.Local == "read-blocked"
		cf.After = after // all of them: the whole contract for the dead sid
		if cf.Local == "write-blocked" {
			cf.Unsent = 0
		}
	}
	return cf
}

func runCloseFail(c *core.Case) {
	cf := genCloseFail(c.Rand, c.Index)
	c.Sample(cf)
	execCloseFail(c, cf)
}

func execCloseFail(c *core.Case, cf *closeFailCase) {
	base := stall.Snapshot(nil)
	rp, err := newRawPeer()
	if err != nil {
		c.Count("setup_failures", 1)
		return
	}
	defer rp.shutdown()
	const sid = "cf"
	ln := rp.h.Listen(rp.p.S)
	conn := rp.openAccepted(c, ln, sid, 4096, cf.Carrier)
	if conn == nil {
		return
	}
	all := payload(cf.Seed, 0, 4096)
	off, seq := 0, 0
	var accepted []byte // bytes of packets the library has taken (acknowledged / handled)
	sendData := func(n int) string {
		chunk := all[off : off+n]
		id := rp.data(cf.Carrier, sid, seq, base64.StdEncoding.EncodeToString(chunk))
		return id
	}
	took := func(n int) {
		accepted = append(accepted, all[off:off+n]...)
		off += n
		seq++
	}
	for k := 0; k < cf.Before; k++ {
		id := sendData(9)
		if cf.Carrier == "iq" {
			if rep := rp.expect(byID(id), hardLimit); rep == nil || rep.Attr("type") != "result" {
				c.Violate("ibb:refusal:valid-packet", "valid packet %d before the Close was answered with %v", k, rep)
				return
			}
		} else if !rp.barrier() {
			c.Violate("ibb:session-ended:close-fail", "the session stopped answering before Close was even called")
			return
		}
		took(9)
	}
	var rd *reader
	if cf.Reader {
		rd = startReader(conn, 64, 0, cf.Seed)
	}
	if cf.Unsent > 0 {
		// something for Close to flush (the speaker acknowledges it)
		var werr error
		c.Guard("ibb.Conn.Write", func() { _, werr = conn.Write(payload(cf.Seed, 1, cf.Unsent)) })
		if werr != nil {
			c.Notef("Write before Close: %v", werr)
		}
	}

	isClose := func(n *xmltree.Node) bool {
		cl := n.Child(nsIBB, "close")
		return n.Name.Local == "iq" && n.Attr("type") == "set" && cl != nil && cl.Attr("sid") == sid
	}
	isOwnData := func(n *xmltree.Node) bool {
		d := n.Child(nsIBB, "data")
		return d != nil && d.Attr("sid") == sid && n.Attr("type") != "error" && n.Attr("type") != "result"
	}
	ackOwnData := func(d time.Duration) {
		// what Close flushes arrives as data packets from the library
		for {
			n := rp.expect(isOwnData, d)
			if n == nil {
				return
			}
			if n.Name.Local == "iq" {
				rp.send(fmt.Sprintf(`<iq type='result' id='%s' from='%s' to='%s'/>`, n.Attr("id"), peerAddr, libAddr))
			}
			d = 5 * time.Millisecond
		}
	}

	closeRes := make(chan error, 1)
	callClose := func() {
		go func() {
			var cerr error
			c.Guard("ibb.Conn.Close", func() { cerr = conn.Close() })
			closeRes <- cerr
		}()
	}
	closeFailed := false
	answered := false // the peer has answered the <close/>: the stream is over, whatever the answer
	sessionUsable := true
	switch cf.Mode {
	case "timeout":
		// the acknowledgement of <close/> does not come before the write deadline
		conn.SetWriteDeadline(time.Now().Add(60 * time.Millisecond))
		callClose()
		if cf.Unsent > 0 {
			ackOwnData(40 * time.Millisecond)
		}
		rp.expect(isClose, hardLimit) // seen, and left unanswered
		select {
		case cerr := <-closeRes:
			closeFailed = cerr != nil
			if cerr == nil {
				c.Notef("Close returned nil although its <close/> was never answered")
			}
		case <-time.After(hardLimit):
			c.Inconclusive("Close with a write deadline did not return")
			return
		}
	case "answered":
		var wres chan error
		if cf.Local == "write-blocked" {
			// a writer is inside Flush, its packet unacknowledged, when Close is
			// called; the acknowledgement comes, then the <close/> goes out
			wres = make(chan error, 1)
			go func() {
				var werr error
				c.Guard("ibb.Conn.Write", func() {
					if _, werr = conn.Write(payload(cf.Seed, 2, 3)); werr == nil {
						werr = conn.Flush()
					}
				})
				wres <- werr
			}()
			held := rp.expect(isOwnData, hardLimit)
			if held == nil {
				c.Inconclusive("the writer's packet never came")
				return
			}
			callClose()
			time.Sleep(2 * time.Millisecond) // let Close queue behind the writer
			rp.send(fmt.Sprintf(`<iq type='result' id='%s' from='%s' to='%s'/>`, held.Attr("id"), peerAddr, libAddr))
		} else {
			callClose()
		}
		if cf.Unsent > 0 {
			ackOwnData(grace)
		}
		cl := rp.expect(isClose, hardLimit)
		if cl == nil {
			c.Inconclusive("Close sent no <close/>")
			return
		}
		rp.send(closeAnswer(cf.Answer, cl.Attr("id")))
		select {
		case cerr := <-closeRes:
			closeFailed = cerr != nil
		case <-time.After(hardLimit):
			if pk := findWedged(base); pk != nil {
				c.Violate(stall.Key(*pk), "Close never returns after its <close/> was answered (%s):\n%s", cf.Answer, pk.Stack)
			} else {
				c.Inconclusive("Close did not return after its <close/> was answered (%s)", cf.Answer)
			}
			return
		}
		if wres != nil {
			select {
			case <-wres:
			case <-time.After(hardLimit):
				c.Inconclusive("the blocked writer did not return")
				return
			}
		}
		answered = true
		c.Count("close_answered_cases", 1)
		c.Count("close_answered_"+cf.Answer, 1)
		c.Count("close_answered_while_"+cf.Local, 1)
	case "write-fails":
		// the transport refuses the next write: whatever Close sends first
		_, w, _ := rp.p.Lib.Ops()
		f := bufconn.NoFault()
		f.FailWrite = w + 1
		rp.p.Lib.SetFault(f)
		callClose()
		select {
		case cerr := <-closeRes:
			closeFailed = cerr != nil
		case <-time.After(hardLimit):
			c.Inconclusive("Close did not return after a transport write error")
			return
		}
		sessionUsable = false // a session whose transport failed a write owes no more answers
	case "concurrent-data":
		// data keeps coming in while Close runs; the speaker acknowledges the
		// <close/> as soon as it sees it
		callClose()
		var ids []string
		for k := 0; k < 6; k++ {
			ids = append(ids, sendData(5))
			off += 5 // provisional: which of them were taken is decided by the answers
			seq++
		}
		off -= 5 * len(ids)
		seq -= len(ids)
		if cf.Unsent > 0 {
			ackOwnData(grace)
		}
		if cl := rp.expect(isClose, hardLimit); cl != nil {
			rp.send(fmt.Sprintf(`<iq type='result' id='%s' from='%s' to='%s'/>`, cl.Attr("id"), peerAddr, libAddr))
		}
		select {
		case cerr := <-closeRes:
			if cerr != nil {
				c.Violate("ibb:close:error", "Close while data was coming in returned %v although its <close/> was acknowledged", cerr)
			}
		case <-time.After(hardLimit):
			if pk := findWedged(base); pk != nil {
				c.Violate(stall.Key(*pk), "Close while data was coming in never returns:\n%s", pk.Stack)
			} else {
				c.Inconclusive("Close while data was coming in did not return")
			}
			return
		}
		if !rp.barrier() {
			closed, lerr := rp.loop.State()
			c.Violate("ibb:session-ended:close-fail", "Close ran while data was coming in; the session no longer answers (stream from the library closed=%v err=%v)", closed, lerr)
			return
		}
		gone := false
		for k, id := range ids {
			if cf.Carrier != "iq" {
				break
			}
			rep := rp.expect(byID(id), 0)
			switch {
			case rep == nil:
				c.Violate("ibb:refusal:valid-packet:no-reply", "data IQ %d sent while Close was running was never answered", k)
				return
			case rep.Attr("type") == "result" && gone:
				c.Violate("ibb:refusal:closed-sid-lib:wrong-answer", "packet %d was acknowledged after an earlier one had been refused because the stream was gone", k)
				return
			case rep.Attr("type") == "result":
				took(5)
			case errCond(rep) == "item-not-found":
				gone = true
			default:
				c.Violate("ibb:refusal:valid-packet", "packet %d sent while Close was running was answered with <%s/>", k, errCond(rep))
				return
			}
		}
		c.Count("close_concurrent_with_inbound_data", 1)
	}
	if closeFailed {
		c.Count("local_close_failed", 1)
		c.Count("local_close_failed_"+cf.Mode, 1)
	} else if cf.Mode != "concurrent-data" {
		c.Count("local_close_returned_nil_"+cf.Mode, 1)
	}

	// The speaker goes on naming the sid.
	peerCloseAccepted := false
	streamGone := answered
	for i, what := range cf.After {
		if cf.Mode == "concurrent-data" && what != "data" {
			continue
		}
		var id, kind string
		switch what {
		case "data":
			id, kind = sendData(7), "data with the expected number"
		case "bad-seq":
			id, kind = rp.data(cf.Carrier, sid, (seq+3)%65536, "QUJD"), "data out of sequence"
		case "close":
			id, kind = rp.id("close"), "<close/>"
			rp.send(fmt.Sprintf(`<iq type='set' id='%s' from='%s' to='%s'><close xmlns='%s' sid='%s'/></iq>`, id, peerAddr, libAddr, nsIBB, sid))
		}
		c.Count("packets_after_failed_or_concurrent_close", 1)
		if !sessionUsable {
			continue
		}
		carriedByIQ := what == "close" || cf.Carrier == "iq"
		var rep *xmltree.Node
		if carriedByIQ {
			rep = rp.expect(byID(id), hardLimit)
		} else if rp.barrier() {
			rep = rp.expect(byID(id), 0)
		}
		closed, lerr := rp.loop.State()
		if (carriedByIQ && rep == nil) || closed || lerr != nil {
			c.Violate("ibb:session-ended:close-fail", "after a local Close (%s, failed=%v) the speaker sent %s (step %d): no answer, the session is gone (stream from the library closed=%v err=%v)", cf.Mode, closeFailed, kind, i, closed, lerr)
			return
		}
		cond := ""
		if rep != nil && rep.Attr("type") == "error" {
			cond = errCond(rep)
		}
		ok := false
		switch what {
		case "data":
			if rep == nil || rep.Attr("type") == "result" {
				ok = !streamGone
				took(7)
			} else {
				ok = cond == "item-not-found"
				streamGone = streamGone || ok
			}
		case "bad-seq":
			ok = cond == "unexpected-request" || cond == "item-not-found"
			streamGone = streamGone || cond == "item-not-found"
		case "close":
			if rep.Attr("type") == "result" {
				ok, peerCloseAccepted = !streamGone, true
				streamGone = true
			} else {
				ok = cond == "item-not-found"
				streamGone = streamGone || ok
			}
		}
		if !ok {
			typ := "(no reply)"
			if rep != nil {
				typ = rep.Attr("type")
			}
			c.Violate("ibb:close-fail:wrong-answer", "after a local Close (%s, failed=%v), %s (step %d of %v) was answered with type=%q <%s/> (stream already known to be gone: %v)", cf.Mode, closeFailed, kind, i, cf.After, typ, cond, streamGone)
			return
		}
	}
	if sessionUsable && !rp.barrier() {
		closed, lerr := rp.loop.State()
		c.Violate("ibb:session-ended:close-fail", "after a local Close (%s, failed=%v) and the speaker's further packets the session no longer answers (closed=%v err=%v)", cf.Mode, closeFailed, closed, lerr)
		return
	}
	if !sessionUsable {
		// give a panic in the serve goroutine the time to happen before the case is booked
		time.Sleep(20 * time.Millisecond)
	}
	if sessionUsable {
		c.Count("serve_loop_alive_after_failed_close", 1)
	}
	if answered {
		// the rest of the contract of a finished close handshake
		if rd != nil && !stall.WaitDone(rd.done, grace) {
			for _, pk := range newParked(base, isReadFrame) {
				if pk.ID == rd.goroutine() {
					c.Violate("ibb:eof:missing:local-close-answered", "Close returned (err=%v) after the peer answered its <close/> with %s, but the Read that was blocked is never unblocked (%s):\n%s", closeFailed, cf.Answer, stall.Key(pk), pk.Stack)
					return
				}
			}
			if !stall.WaitDone(rd.done, hardLimit) {
				c.Inconclusive("the blocked Read did not return after Close")
				return
			}
		}
		second := make(chan error, 1)
		go func() {
			var err error
			c.Guard("ibb.Conn.Close(second)", func() { err = conn.Close() })
			second <- err
		}()
		select {
		case <-second:
		case <-time.After(hardLimit):
			c.Inconclusive("a second Close did not return")
			return
		}
		// the handler has forgotten the stream: the same sid can be opened anew
		conn2 := rp.openAccepted(c, ln, sid, 4096, cf.Carrier)
		if conn2 == nil {
			if !c.Violated() {
				c.Violate("ibb:open:listener-refused", "after the closed stream %q a new <open/> with the same sid was not handed to Accept", sid)
			}
			return
		}
		rd2 := startReader(conn2, 64, 0, cf.Seed)
		fresh := payload(cf.Seed, 9, 6)
		id := rp.data(cf.Carrier, sid, 0, base64.StdEncoding.EncodeToString(fresh))
		if rep := rp.expect(byID(id), hardLimit); rep == nil || rep.Attr("type") != "result" {
			c.Violate("ibb:refusal:valid-packet", "first packet of the stream re-opened under the sid of a closed one was answered with %v", rep)
			return
		}
		if rep := rp.closeSID(sid); rep == nil || rep.Attr("type") != "result" {
			c.Violate("ibb:close:refused", "<close/> of the re-opened stream answered with %v", rep)
			return
		}
		if !stall.WaitDone(rd2.done, hardLimit) {
			c.Inconclusive("reader of the re-opened stream did not end")
			return
		}
		if got, rerr := rd2.snapshot(); string(got) != string(fresh) || rerr != io.EOF {
			c.Violate("ibb:corrupt:receiver", "re-opened stream: sent %x and closed, reader got %x then %v", fresh, got, rerr)
			return
		}
		c.Count("post_close_contract_checked", 1)
		c.Count("close_fail_cases", 1)
		c.Sig("close-answered %s local=%s close-err=%v", cf.Answer, cf.Local, closeFailed)
		return
	}
	// The reader: if the speaker's own <close/> was accepted the stream ended
	// in the regular way for this side: drain, then EOF.
	if rd != nil && peerCloseAccepted && cf.Carrier == "iq" {
		if !stall.WaitDone(rd.done, grace) {
			for _, pk := range newParked(base, isReadFrame) {
				if pk.ID == rd.goroutine() {
					// (decided by the stall rule; its own key, because the cause is not the
					// reader's wait but a close that never reached it)
					c.Violate("ibb:eof:missing:peer-close-after-failed-local-close", "a local Close had failed (%s); the speaker then closed the stream and got a result, but the reader (%d of %d accepted bytes) never reads EOF; it is parked for good (%s):\n%s", cf.Mode, rd.count(), len(accepted), stall.Key(pk), pk.Stack)
					return
				}
			}
			if !stall.WaitDone(rd.done, hardLimit) {
				c.Inconclusive("reader did not end after the speaker's accepted <close/>")
				return
			}
		}
		got, rerr := rd.snapshot()
		if class, at := diffClass(got, accepted); class != "" {
			c.Violate("ibb:"+class+":receiver", "%d bytes were acknowledged in all; the reader got %d (then %v), departure (%s) at %d", len(accepted), len(got), rerr, class, at)
		} else if rerr != io.EOF {
			c.Violate("ibb:eof:error", "reader got all %d bytes and then %v instead of io.EOF", len(got), rerr)
		} else {
			c.Count("eof_after_close", 1)
		}
	} else if rd != nil && sessionUsable {
		// otherwise only: what it has is a prefix of what was accepted (known
		// only while the answers can be read)
		got, _ := rd.snapshot()
		if len(got) > len(accepted) || string(got) != string(accepted[:len(got)]) {
			if cf.Carrier == "iq" {
				c.Violate("ibb:corrupt:receiver", "reader has %x, accepted were %x", got, accepted)
			}
		}
	}
	c.Count("close_fail_cases", 1)
	c.Sig("close-fail %s %s failed=%v after=%v reader=%v peer-close-accepted=%v", cf.Mode, cf.Carrier, closeFailed, cf.After, cf.Reader, peerCloseAccepted)
}
