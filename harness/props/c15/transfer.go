package c15

import (
	"bytes"
	"context"
	"encoding/xml"
	"errors"
	"fmt"
	"io"
	"math/rand"
	"strings"
	"sync"
	"time"

	"mellium.im/xmlstream"
	"mellium.im/xmpp/ibb"
	"mellium.im/xmpp/jid"
	"mellium.im/xmpp/stanza"

	"mellium.im/xmpp/verifharness/core"
	"mellium.im/xmpp/verifharness/stall"
	"mellium.im/xmpp/verifharness/xmltree"
)

// ---------------------------------------------------------------------------
// payloads: byte i of direction d is a function of the case seed, so the case
// description stays small.

func payload(seed int64, dir int, n int) []byte {
	b := make([]byte, n)
	x := mix(uint64(seed)*31 + uint64(dir) + 1)
	for i := range b {
		if i%8 == 0 {
			x = mix(x + uint64(i))
		}
		b[i] = byte(x >> (8 * uint(i%8)))
	}
	return b
}

// diffClass names the way got departs from want: "" (equal), "short" (a proper
// prefix), "loss" (bytes skipped), "dup" (bytes repeated), "order", "corrupt",
// "extra" (want is a proper prefix of got).
func diffClass(got, want []byte) (class string, at int) {
	n := len(got)
	if len(want) < n {
		n = len(want)
	}
	i := 0
	for i < n && got[i] == want[i] {
		i++
	}
	switch {
	case i == len(got) && i == len(want):
		return "", i
	case i == len(got):
		return "short", i
	case i == len(want):
		return "extra", i
	}
	// resynchronise on a 12-byte window (payloads are pseudo-random)
	win := 12
	if len(got)-i < win {
		win = len(got) - i
	}
	if win >= 4 {
		probe := got[i : i+win]
		if j := bytes.Index(want[i:], probe); j > 0 {
			return "loss", i
		}
		if j := bytes.LastIndex(want[:min(i+win-1, len(want))], probe); j >= 0 && j < i {
			return "dup", i
		}
	}
	if len(got) == len(want) {
		var ca, cb [256]int
		for k := range got {
			ca[got[k]]++
			cb[want[k]]++
		}
		if ca == cb {
			return "order", i
		}
	}
	return "corrupt", i
}

// ---------------------------------------------------------------------------
// case description

type wstep struct {
	N     int  `json:"n"`
	Flush bool `json:"flush,omitempty"`
	// Deadline: before this Write the writer pushes a deadline an hour ahead
	// (the idle-timeout idiom of net.Conn users): "write" SetWriteDeadline,
	// "both" SetDeadline.  It never passes; the bytes must not care.
	Deadline string `json:"deadline,omitempty"`
}

type dirSpec struct {
	Len       int     `json:"len"`
	LenClass  string  `json:"len_class"`
	Part      string  `json:"partition"`
	Steps     []wstep `json:"-"`
	StepsHead []wstep `json:"steps_head,omitempty"` // first steps, for the reader of a witness
	NSteps    int     `json:"n_steps"`
	ReadBuf   int     `json:"read_buf"`        // 0: PRNG size per Read
	DelayUS   int     `json:"reader_delay_us"` // reader starts late
	// SetReadBuffer, when not nil, is passed to Conn.SetReadBuffer on the
	// receiving Conn of this direction before anything is written (0 and
	// negative: unlimited; otherwise larger than everything that will be
	// sent); the reader then starts only after the writer has finished, so the
	// writer is as far ahead as it can get.
	SetReadBuffer *int `json:"set_read_buffer,omitempty"`
}

type streamSpec struct {
	Opener  string     `json:"opener"`  // A | B
	Block   int        `json:"block"`   // 0: Handler.Open (default block size)
	Carrier string     `json:"carrier"` // iq | message
	Closer  string     `json:"closer"`  // opener | acceptor
	SID     string     `json:"sid"`
	Dir     [2]dirSpec `json:"dir"` // 0: opener→acceptor, 1: acceptor→opener
	StartUS int        `json:"start_delay_us,omitempty"`
	ReClose bool       `json:"other_side_closes_after_eof,omitempty"`
	// NoFinalFlush: the side that does not close leaves what it wrote last in
	// its write buffer; the peer's close finds it there.
	NoFinalFlush bool `json:"passive_side_does_not_flush,omitempty"`
	Abort        bool `json:"closer_does_not_wait_for_peer,omitempty"`
}

type transferCase struct {
	Kind        string       `json:"kind"`
	PayloadSeed int64        `json:"payload_seed"`
	Shaping     shaping      `json:"shaping"`
	Streams     []streamSpec `json:"streams"`
}

var blockSizes = []int{1, 2, 3, 4, 5, 63, 64, 4095, 4096, 65535, 0}

func blockClass(b int) string {
	if b == 0 {
		return "default"
	}
	return fmt.Sprint(b)
}

func effBlock(b int) int {
	if b == 0 {
		return ibb.BlockSize
	}
	return b
}

// genLen picks a payload length near a boundary named in the property.
func genLen(r *rand.Rand, block, maxLen int) (int, string) {
	eb := effBlock(block)
	type cand struct {
		base  int
		class string
	}
	var cs []cand
	for _, k := range []int{1, 2, 3, 7} {
		cs = append(cs, cand{k * eb, "block"})
	}
	for _, k := range []int{1, 2, 5, 33, 100} {
		cs = append(cs, cand{3 * k, "b64group"})
	}
	for _, k := range []int{1, 2, 3} {
		cs = append(cs, cand{768 * k, "enc768"}, cand{1024 * k, "enc1024"})
	}
	if r.Intn(6) == 0 {
		// a handful of bytes: the base64 encoder keeps 1 or 2 of them until close
		return []int{0, 1, 2, 4, 5, 7, 8}[r.Intn(7)], "tiny"
	}
	if r.Intn(6) == 0 {
		n := r.Intn(maxLen + 1)
		return n, "random"
	}
	for try := 0; try < 20; try++ {
		c := cs[r.Intn(len(cs))]
		n := c.base + r.Intn(5) - 2
		if n >= 0 && n <= maxLen {
			return n, c.class
		}
	}
	return r.Intn(maxLen + 1), "random"
}

var partClasses = []string{"single", "bytes", "block", "block+1", "random", "random+flush", "flush-each", "big+small"}

// genSteps partitions n bytes into Write calls with Flush calls in between.
func genSteps(r *rand.Rand, n, block int, class string) []wstep {
	eb := effBlock(block)
	var st []wstep
	rem := n
	deadlines := r.Intn(4) == 0 // this writer refreshes a deadline before its writes
	add := func(k int, fl bool) {
		if k > rem {
			k = rem
		}
		ws := wstep{N: k, Flush: fl}
		if deadlines {
			ws.Deadline = []string{"", "write", "both", ""}[r.Intn(4)]
		}
		st = append(st, ws)
		rem -= k
	}
	if n == 0 {
		// a zero-length Write (and perhaps a Flush) is still a call the pipe must survive
		if r.Intn(2) == 0 {
			add(0, r.Intn(2) == 0)
		}
		return st
	}
	for rem > 0 {
		switch class {
		case "single":
			add(rem, false)
		case "bytes":
			add(1, r.Intn(7) == 0)
		case "block":
			add(eb, false)
		case "block+1":
			add(eb+r.Intn(3)-1, r.Intn(5) == 0)
		case "random":
			add(1+r.Intn(2*eb+2), false)
		case "random+flush":
			add(1+r.Intn(2*eb+2), r.Intn(3) == 0)
		case "flush-each":
			add(1+r.Intn(eb+1), true)
		default: // big+small
			if r.Intn(2) == 0 {
				add(1+r.Intn(4), r.Intn(4) == 0)
			} else {
				add(700+r.Intn(400), r.Intn(4) == 0)
			}
		}
		if st[len(st)-1].N == 0 && rem > 0 { // block-1 with block 1
			add(1, false)
		}
	}
	return st
}

func genDir(r *rand.Rand, block, maxLen, maxSteps int) dirSpec {
	var d dirSpec
	d.Len, d.LenClass = genLen(r, block, maxLen)
	for try := 0; ; try++ {
		d.Part = partClasses[r.Intn(len(partClasses))]
		d.Steps = genSteps(r, d.Len, block, d.Part)
		if len(d.Steps) <= maxSteps || try > 8 {
			break
		}
	}
	if len(d.Steps) > maxSteps {
		d.Part = "single"
		d.Steps = genSteps(r, d.Len, block, d.Part)
	}
	d.NSteps = len(d.Steps)
	d.StepsHead = d.Steps
	if len(d.StepsHead) > 24 {
		d.StepsHead = d.StepsHead[:24]
	}
	switch r.Intn(4) {
	case 0:
		d.ReadBuf = 1 + r.Intn(4)
		if d.Len > 2000 {
			d.ReadBuf = 64 + r.Intn(64)
		}
	case 1:
		d.ReadBuf = 4096
	case 2:
		d.ReadBuf = 1 + r.Intn(700)
	}
	if r.Intn(3) == 0 {
		d.DelayUS = r.Intn(3000)
	}
	return d
}

func genStream(r *rand.Rand, tier string, k int) streamSpec {
	var sp streamSpec
	sp.Opener = []string{"A", "B"}[r.Intn(2)]
	sp.Block = blockSizes[r.Intn(len(blockSizes))]
	sp.Carrier = "iq"
	if sp.Block != 0 && r.Intn(2) == 0 {
		sp.Carrier = "message"
	}
	sp.Closer = []string{"opener", "acceptor"}[r.Intn(2)]
	sp.SID = fmt.Sprintf("s%d-%d", k, r.Intn(1000))
	if sp.Block == 0 {
		sp.SID = "" // chosen by Handler.Open
	}
	maxPk, maxLen := 300, 20<<10
	if tier == "thorough" {
		maxPk, maxLen = 1500, 120<<10
	}
	eb := effBlock(sp.Block)
	if eb*maxPk < maxLen {
		maxLen = eb * maxPk
	}
	for d := 0; d < 2; d++ {
		sp.Dir[d] = genDir(r, sp.Block, maxLen, maxPk*2)
	}
	switch r.Intn(4) {
	case 0: // one direction only
		sp.Dir[r.Intn(2)] = dirSpec{LenClass: "none", Part: "none"}
	}
	sp.ReClose = r.Intn(2) == 0
	sp.NoFinalFlush = r.Intn(4) == 0
	for d := 0; d < 2; d++ {
		if sp.Dir[d].Len == 0 || r.Intn(3) != 0 {
			continue
		}
		v := []int{0, -1, -4096, 0}[r.Intn(4)]
		class := "unlimited"
		if r.Intn(3) == 0 {
			v = sp.Dir[d].Len + 2*effBlock(sp.Block) + 1024
			class = "ample"
		} else if tier == "thorough" && effBlock(sp.Block) >= 2048 && r.Intn(4) == 0 {
			// more than the default limit of 256 KiB: unlimited means unlimited
			sp.Dir[d].Len = ibb.MaxBufferSize + 4096 + r.Intn(5000)
			sp.Dir[d].LenClass = "beyond-default-buffer"
			sp.Dir[d].Part = "random"
			sp.Dir[d].ReadBuf = 4096
			sp.Dir[d].Steps = genSteps(r, sp.Dir[d].Len, 4096, "random")
			sp.Dir[d].NSteps = len(sp.Dir[d].Steps)
			sp.Dir[d].StepsHead = sp.Dir[d].Steps[:min(24, len(sp.Dir[d].Steps))]
		}
		sp.Dir[d].SetReadBuffer = &v
		sp.Dir[d].LenClass += "+rb-" + class
	}
	// sometimes the closing side closes as soon as it has written its own data,
	// while the other side may still be writing
	sp.Abort = r.Intn(8) == 0
	return sp
}

func genTransfer(r *rand.Rand, tier string) *transferCase {
	tc := &transferCase{Kind: "transfer", PayloadSeed: r.Int63()}
	tc.Shaping = shaping{Chunk: r.Intn(2) == 0, Yield: r.Intn(2) == 0}
	n := 1
	if r.Intn(4) == 0 {
		n = 2
	}
	for k := 0; k < n; k++ {
		sp := genStream(r, tier, k)
		if k > 0 {
			sp.StartUS = r.Intn(2000)
		}
		tc.Streams = append(tc.Streams, sp)
	}
	return tc
}

// ---------------------------------------------------------------------------
// accept dispatcher: one per end, hands accepted streams out by sid

type dispatcher struct {
	mu   sync.Mutex
	bySI map[string]chan *ibb.Conn
	any  chan *ibb.Conn
	ln   *ibb.Listener
}

func startDispatcher(e *end) *dispatcher {
	d := &dispatcher{bySI: map[string]chan *ibb.Conn{}, any: make(chan *ibb.Conn, 8)}
	d.ln = e.h.Listen(e.s)
	go func() {
		for {
			nc, err := d.ln.Accept()
			if err != nil {
				return
			}
			conn := nc.(*ibb.Conn)
			d.chanFor(conn.SID()) <- conn
		}
	}()
	return d
}

func (d *dispatcher) chanFor(sid string) chan *ibb.Conn {
	d.mu.Lock()
	defer d.mu.Unlock()
	ch := d.bySI[sid]
	if ch == nil {
		ch = make(chan *ibb.Conn, 1)
		d.bySI[sid] = ch
	}
	return ch
}

// ---------------------------------------------------------------------------
// running one stream

type reader struct {
	mu   sync.Mutex
	got  []byte
	err  error // the error that ended the loop (io.EOF for a clean end)
	done chan struct{}
	prog chan struct{} // signalled (non-blocking) on progress
	gid  string        // the goroutine that reads
}

func (rd *reader) snapshot() ([]byte, error) {
	rd.mu.Lock()
	defer rd.mu.Unlock()
	return append([]byte(nil), rd.got...), rd.err
}

func (rd *reader) goroutine() string {
	rd.mu.Lock()
	defer rd.mu.Unlock()
	return rd.gid
}

func (rd *reader) count() int {
	rd.mu.Lock()
	defer rd.mu.Unlock()
	return len(rd.got)
}

func startReader(conn io.Reader, bufSize, delayUS int, seed int64) *reader {
	return startReaderAfter(nil, conn, bufSize, delayUS, seed)
}

// startReaderAfter is startReader with a gate: the first Read happens only
// once gate is closed.
func startReaderAfter(gate <-chan struct{}, conn io.Reader, bufSize, delayUS int, seed int64) *reader {
	rd := &reader{done: make(chan struct{}), prog: make(chan struct{}, 1)}
	go func() {
		defer close(rd.done)
		rd.mu.Lock()
		rd.gid = goroutineID()
		rd.mu.Unlock()
		if gate != nil {
			<-gate
		}
		if delayUS > 0 {
			time.Sleep(time.Duration(delayUS) * time.Microsecond)
		}
		r := rand.New(rand.NewSource(seed))
		zero := 0
		for {
			sz := bufSize
			if sz == 0 {
				sz = 1 + r.Intn(3000)
			}
			buf := make([]byte, sz)
			n, err := conn.Read(buf)
			rd.mu.Lock()
			rd.got = append(rd.got, buf[:n]...)
			if err != nil {
				rd.err = err
			}
			rd.mu.Unlock()
			select {
			case rd.prog <- struct{}{}:
			default:
			}
			if err != nil {
				return
			}
			if n == 0 {
				zero++
				if zero > 100000 {
					rd.mu.Lock()
					rd.err = errors.New("harness: Read returned (0, nil) 100000 times in a row")
					rd.mu.Unlock()
					return
				}
			} else {
				zero = 0
			}
		}
	}()
	return rd
}

// waitCount waits until the reader has n bytes or has ended; false on timeout.
func (rd *reader) waitCount(n int, d time.Duration) bool {
	dl := time.After(d)
	for {
		if rd.count() >= n {
			return true
		}
		select {
		case <-rd.done:
			return rd.count() >= n
		case <-rd.prog:
		case <-dl:
			return false
		}
	}
}

const grace = 1 * time.Second // how long a merely slow goroutine is given before the stall rule is consulted

// hardLimit: beyond this a wait that the stall rule cannot decide makes the
// case inconclusive.  (A variable: the 65 537-packet run needs more.)
var hardLimit = 20 * time.Second

func isReadFrame(fn string) bool { return strings.HasPrefix(fn, "ibb.(*Conn).Read") }

// newParked applies the stall rule to ibb.(*Conn).Read, ignoring goroutines
// that were already parked there before the case began (left over from an
// earlier case in the same child whose stream was never closed).
func newParked(base map[string]stall.Parked, match func(string) bool) []stall.Parked {
	var out []stall.Parked
	for _, p := range stall.Check(match, 0) {
		if _, old := base[p.ID]; !old {
			out = append(out, p)
		}
	}
	return out
}

type streamOutcome struct {
	sid        string
	opened     bool
	wrote      [2]bool // all writes (and the final flush of the non-closing side) returned nil
	closeErr   error
	closed     bool
	readers    [2]*reader
	stalledEOF bool
}

// errStop ends a writer whose case has already been decided.
var errStop = errors.New("harness: stop")

// writeAll performs the Write / Flush calls of a plan.  flushed, if not nil,
// is called after every Flush that returned nil with the number of bytes
// written so far.
func writeAll(conn *ibb.Conn, data []byte, steps []wstep, flushed func(off int) error) error {
	off := 0
	for i, st := range steps {
		switch st.Deadline {
		case "write":
			conn.SetWriteDeadline(time.Now().Add(time.Hour))
		case "both":
			conn.SetDeadline(time.Now().Add(time.Hour))
		}
		n, err := conn.Write(data[off : off+st.N])
		if err != nil {
			return fmt.Errorf("Write #%d of %d bytes at offset %d: n=%d err=%v", i, st.N, off, n, err)
		}
		if n != st.N {
			return fmt.Errorf("Write #%d of %d bytes at offset %d returned n=%d with a nil error", i, st.N, off, n)
		}
		off += n
		if st.Flush {
			if err := conn.Flush(); err != nil {
				return fmt.Errorf("Flush after Write #%d: %v", i, err)
			}
			if flushed != nil {
				if err := flushed(off); err != nil {
					return err
				}
			}
		}
	}
	return nil
}

// onWire returns how many payload bytes of the stream are in the data packets
// an end has handed to its transport so far.
func onWire(written []byte, sid string) int {
	_, wire, _ := checkSeq(tap(written).Data, sid)
	return len(wire)
}

// waitOutcome says how a wait ended.
type waitOutcome int

const (
	waitOK      waitOutcome = iota
	waitDead                // a serve loop ended under the stream
	waitTimeout             // hard limit: undecided
)

// await waits for done, giving up when the session died or at the hard limit.
func await(done <-chan struct{}, dead <-chan struct{}, d time.Duration) waitOutcome {
	select {
	case <-done:
		return waitOK
	default:
	}
	select {
	case <-done:
		return waitOK
	case <-dead:
		// the thing awaited may just have completed as well
		select {
		case <-done:
			return waitOK
		case <-time.After(50 * time.Millisecond):
		}
		return waitDead
	case <-time.After(d):
		return waitTimeout
	}
}

// sessionDied reports a serve loop that ended while streams were in use.
func sessionDied(c *core.Case, p *libPair, k int, sp *streamSpec, doing string) {
	why := p.deadWhy()
	class := "other"
	switch {
	case strings.Contains(why, "XML syntax") || strings.Contains(why, "xml:"):
		class = "xml"
	case strings.Contains(why, "returned <nil>") && !strings.Contains(why, "returned <nil>;"):
		class = "stream-closed"
	}
	c.Violate("ibb:session-ended:"+class, "stream %d (%s, block %d, closer=%s, abort=%v) %s: %s", k, sp.Carrier, sp.Block, sp.Closer, sp.Abort, doing, why)
	c.Count("sessions_ended_mid_transfer", 1)
}

// findWedged applies the stall rule to two shapes that nothing can resolve: a
// library goroutine parked on a mutex, and the serve loop parked inside the
// IBB handler (it can only be waiting for something the serve loop itself
// would have to read or release).  Goroutines parked before the case began
// are ignored.
func findWedged(base map[string]stall.Parked) *stall.Parked {
	for _, pk := range stall.Check(func(string) bool { return true }, 0) {
		inHandler := strings.Contains(pk.Stack, "mellium.im/xmpp.handleInputStream(") && strings.Contains(pk.Stack, "mellium.im/xmpp/ibb.")
		if _, old := base[pk.ID]; !old && (strings.Contains(pk.State, "Mutex") || inHandler) {
			pk := pk
			return &pk
		}
	}
	return nil
}

// runStream drives one bytestream between the two ends and judges it.
func runStream(c *core.Case, tc *transferCase, k int, p *libPair, disp map[string]*dispatcher, base map[string]stall.Parked) {
	sp := &tc.Streams[k]
	if sp.StartUS > 0 {
		time.Sleep(time.Duration(sp.StartUS) * time.Microsecond)
	}
	ends := [2]*end{p.A, p.B}
	if sp.Opener == "B" {
		ends = [2]*end{p.B, p.A}
	}
	to := jid.MustParse(addrB)
	if sp.Opener == "B" {
		to = jid.MustParse(addrA)
	}
	ctx, cancel := context.WithTimeout(context.Background(), hardLimit)
	defer cancel()
	// wedged: is a library goroutine (the serve loop, say) parked on a lock
	// that nobody will release?
	wedged := func(what string) bool {
		if pk := findWedged(base); pk != nil {
			c.Violate(stall.Key(*pk), "stream %d (%s, block %d, closer=%s, abort=%v, %d/%d bytes): %s, and a library goroutine is parked on something nobody will provide (a lock that is never released, or the serve loop waiting inside the IBB handler for an answer only the serve loop could read):\n%s",
				k, sp.Carrier, sp.Block, sp.Closer, sp.Abort, sp.Dir[0].Len, sp.Dir[1].Len, what, pk.Stack)
			c.Count("wedged_library_goroutines", 1)
			return true
		}
		return false
	}
	undecided := func(what string) {
		if !wedged(what) {
			c.Inconclusive("stream %d: %s within %v and the stall rule does not apply", k, what, hardLimit)
		}
	}

	var conns [2]*ibb.Conn
	var err error
	c.Guard("ibb.Open", func() {
		if sp.Block == 0 {
			conns[0], err = ends[0].h.Open(ctx, ends[0].s, to)
		} else {
			conns[0], err = ends[0].h.OpenIQ(ctx, stanza.IQ{To: to}, ends[0].s, sp.Carrier == "iq", uint16(sp.Block), sp.SID)
		}
	})
	if err != nil || conns[0] == nil {
		select {
		case <-p.dead:
			sessionDied(c, p, k, sp, "while opening")
		default:
			if errors.Is(err, context.DeadlineExceeded) {
				undecided("Open was not answered")
			} else {
				c.Violate("ibb:open:failed-though-accepted", "stream %d: Open towards a listening peer returned %v", k, err)
			}
		}
		return
	}
	sid := conns[0].SID()
	select {
	case conns[1] = <-disp[ends[1].name].chanFor(sid):
	case <-p.dead:
		sessionDied(c, p, k, sp, "while accepting")
		return
	case <-time.After(hardLimit):
		c.Violate("ibb:open:not-accepted", "stream %d: Open returned nil but the listener never produced a stream with sid %q", k, sid)
		return
	}
	c.Count("streams_opened", 1)
	if conns[1].Stanza() != sp.Carrier || conns[0].Stanza() != sp.Carrier {
		c.Violate("ibb:open:carrier", "stream %d: opened with carrier %s, Conn.Stanza() is %q (opener) / %q (acceptor)", k, sp.Carrier, conns[0].Stanza(), conns[1].Stanza())
	}

	data := [2][]byte{payload(tc.PayloadSeed, 2*k, sp.Dir[0].Len), payload(tc.PayloadSeed, 2*k+1, sp.Dir[1].Len)}
	closer := 0
	if sp.Closer == "acceptor" {
		closer = 1
	}
	other := 1 - closer
	sideName := []string{"opening", "accepting"}

	// parkedReader applies the stall rule to this case's readers.
	parkedReader := func(rd *reader, format string, a ...any) bool {
		// only the reader in question: with two streams in one case the other
		// stream's reader may rightly be waiting
		var stuck []stall.Parked
		for _, pk := range newParked(base, isReadFrame) {
			if pk.ID == rd.goroutine() {
				stuck = append(stuck, pk)
			}
		}
		if len(stuck) == 0 {
			return false
		}
		c.Violate(stall.Key(stuck[0]), "stream %d (%s, block %d): %s; it is parked:\n%s", k, sp.Carrier, sp.Block, fmt.Sprintf(format, a...), stuck[0].Stack)
		c.Count("stalled_readers", 1)
		return true
	}

	// role r reads what role 1-r writes
	var rds [2]*reader
	var werr [2]error
	var wdone [2]chan struct{}
	for r := 0; r < 2; r++ {
		wdone[r] = make(chan struct{})
	}
	for r := 0; r < 2; r++ {
		var gate <-chan struct{}
		if rb := sp.Dir[1-r].SetReadBuffer; rb != nil {
			conns[r].SetReadBuffer(*rb)
			gate = wdone[1-r]
			c.Count("set_read_buffer_streams", 1)
			if *rb <= 0 {
				c.Count("set_read_buffer_unlimited", 1)
			}
		}
		rds[r] = startReaderAfter(gate, conns[r], sp.Dir[1-r].ReadBuf, sp.Dir[1-r].DelayUS, tc.PayloadSeed+int64(r))
	}
	for r := 0; r < 2; r++ {
		r := r
		go func() {
			defer close(wdone[r])
			c.Guard("ibb.Conn.Write", func() {
				// Checkpoints: when Flush has returned, every complete 3-byte group
				// written so far is in a data packet that has been handed to the
				// transport — not parked in some buffer until the next unrelated send
				// — and the peer's reader can take those bytes before this side sends
				// anything else.
				nflush := 0
				checkpoint := func(off int) error {
					nflush++
					if nflush > 2 && nflush != 5 {
						return nil // (parsing the whole output each time would be quadratic)
					}
					need := off - off%3
					if got := onWire(ends[r].conn.Written(), sid); got < need {
						c.Violate("ibb:flush:not-delivered:"+sp.Carrier, "stream %d (%s, block %d): the %s side wrote %d bytes and Flush returned nil, but only %d of the %d complete-group bytes are in data packets handed to the transport; the rest waits for some later send",
							k, sp.Carrier, sp.Block, sideName[r], off, got, need)
						return errStop
					}
					c.Count("flush_checkpoints", 1)
					if sp.Dir[r].SetReadBuffer != nil {
						return nil // this direction's reader only starts when the writer is done
					}
					if !rds[1-r].waitCount(need, hardLimit) {
						select {
						case <-rds[1-r].done:
							// the peer's reader has ended (its side closed the stream
							// meanwhile): nothing to wait for
							return nil
						case <-p.dead:
						default:
							if sp.Carrier == "iq" && parkedReader(rds[1-r], "checkpoint: %d bytes were flushed and acknowledged, the reader has %d", off, rds[1-r].count()) {
								return errStop
							}
							c.Inconclusive("stream %d: checkpoint after %d flushed bytes: the reader has %d", k, off, rds[1-r].count())
						}
						return errStop
					}
					c.Count("flush_checkpoints_read_by_peer", 1)
					return nil
				}
				werr[r] = writeAll(conns[r], data[r], sp.Dir[r].Steps, checkpoint)
				if werr[r] == nil && r == other && !sp.NoFinalFlush {
					// the side that will not call Close hands its buffered bytes over
					if err := conns[r].Flush(); err != nil {
						werr[r] = fmt.Errorf("final Flush: %v", err)
					} else {
						nflush = 0
						werr[r] = checkpoint(len(data[r]))
					}
				}
			})
		}()
	}
	// waitWriter reports whether the case can go on.
	waitWriter := func(r int, mayFail bool) bool {
		switch await(wdone[r], p.dead, hardLimit) {
		case waitDead:
			sessionDied(c, p, k, sp, "while the "+sideName[r]+" side was writing")
			return false
		case waitTimeout:
			undecided("the writer on the " + sideName[r] + " side did not return")
			return false
		}
		if werr[r] == errStop {
			return false // decided at a checkpoint
		}
		if werr[r] != nil && !mayFail {
			select {
			case <-p.dead:
				sessionDied(c, p, k, sp, "while the "+sideName[r]+" side was writing ("+werr[r].Error()+")")
			default:
				c.Violate("ibb:write:error", "stream %d (%s, block %d): writer on the %s side failed although the peer accepts everything: %v", k, sp.Carrier, sp.Block, sideName[r], werr[r])
			}
			return false
		}
		return true
	}
	if !waitWriter(closer, false) {
		return
	}
	if !sp.Abort {
		if !waitWriter(other, false) {
			return
		}
		// Before closing, the closing side's reader must have been able to take
		// everything the other side's encoder has emitted (all complete 3-byte
		// groups; the last 0-2 bytes legitimately wait for that side's close).
		need := len(data[other]) - len(data[other])%3
		if sp.NoFinalFlush {
			need = 0 // how much left the write buffer is its business
			c.Count("passive_side_unflushed_at_close", 1)
		}
		if len(data[other])%3 != 0 {
			c.Count("passive_side_holds_base64_remainder_at_close", 1)
		}
		if sp.Carrier == "message" && !rds[closer].waitCount(need, 0) {
			// Message-carried packets are not acknowledged.  An IQ sent after them
			// on the same stream is answered only after they were all handled
			// (one serve loop, in order): that is this carrier's acknowledgement.
			bctx, bcancel := context.WithTimeout(context.Background(), hardLimit)
			berr := ends[other].s.UnmarshalIQElement(bctx, xmlstream.Wrap(nil, xml.StartElement{Name: xml.Name{Space: "urn:xmpp:ping", Local: "ping"}}),
				stanza.IQ{Type: stanza.GetIQ, To: ends[closer].s.LocalAddr()}, nil)
			bcancel()
			if errors.Is(berr, context.DeadlineExceeded) || errors.Is(berr, context.Canceled) {
				select {
				case <-p.dead:
					sessionDied(c, p, k, sp, "while waiting for the barrier after message-carried data")
				default:
					undecided("the barrier IQ after message-carried data was not answered")
				}
				return
			}
		}
		// Every packet has now been handled by the closing side's serve loop
		// (acknowledged IQs, or the barrier): nothing else will arrive, so a
		// reader that is parked in its wait has lost its wake-up.
		if !rds[closer].waitCount(need, grace) {
			select {
			case <-p.dead:
				sessionDied(c, p, k, sp, "while the closing side was reading")
				return
			default:
			}
			// Were the bytes put on the wire at all?  If not this is loss at the
			// sender, not a reader that missed its wake-up.
			_, wire, _ := checkSeq(tap(ends[other].conn.Written()).Data, sid)
			if len(wire) < need {
				c.Violate("ibb:loss:sender", "stream %d (%s, block %d, partition %s): the %s side wrote and flushed %d bytes, only %d are in the data packets it sent", k, sp.Carrier, sp.Block, sp.Dir[other].Part, sideName[other], len(data[other]), len(wire))
				return
			}
			// (a reader that has meanwhile taken everything is rightly parked: it
			// waits for more)
			if rds[closer].waitCount(need, 0) {
				// slow, not stuck
			} else if !parkedReader(rds[closer], "the %s side flushed %d bytes and every packet was handled by the peer's serve loop, but the reader has %d", sideName[other], len(data[other]), rds[closer].count()) {
				if !rds[closer].waitCount(need, hardLimit) {
					undecided("the closing side's reader did not get the flushed bytes")
					return
				}
			}
			// (after a reported stall the case goes on: Close wakes the reader)
		}
	}

	var cerr error
	cdone := make(chan struct{})
	go func() {
		defer close(cdone)
		c.Guard("ibb.Conn.Close", func() { cerr = conns[closer].Close() })
	}()
	if await(cdone, p.dead, 2*grace) == waitTimeout && wedged("Close does not return") {
		return
	}
	switch await(cdone, p.dead, hardLimit) {
	case waitDead:
		sessionDied(c, p, k, sp, "while Close was waiting for its answer")
		return
	case waitTimeout:
		undecided("Close did not return")
		return
	}
	if cerr != nil {
		c.Violate("ibb:close:error", "stream %d (%s, block %d): Close on the %s side returned %v", k, sp.Carrier, sp.Block, sp.Closer, cerr)
	}

	if sp.Abort {
		// the interrupted writer must come back (with whatever error)
		if !waitWriter(other, true) {
			return
		}
		c.Count("closed_while_peer_writing", 1)
		if werr[other] != nil {
			c.Count("interrupted_writer_errors", 1)
		}
	}

	// The other side drains and reads EOF.
	eofSeen := true
	if !stall.WaitDone(rds[other].done, grace) {
		if parkedReader(rds[other], "Close returned on the %s side, the peer's reader has %d of %d bytes and never reads EOF", sp.Closer, rds[other].count(), len(data[closer])) {
			eofSeen = false
		} else {
			switch await(rds[other].done, p.dead, hardLimit) {
			case waitDead:
				sessionDied(c, p, k, sp, "after Close")
				return
			case waitTimeout:
				undecided("the peer's reader did not end after Close")
				return
			}
		}
	}
	if eofSeen {
		got, rerr := rds[other].snapshot()
		judgeDir(c, tc, k, closer, got, rerr, data[closer], true, p)
		if rerr == io.EOF {
			c.Count("eof_after_close", 1)
		}
		if sp.ReClose {
			var e2 error
			c.Guard("ibb.Conn.Close(second)", func() { e2 = conns[other].Close() })
			if e2 != nil {
				c.Violate("ibb:close:error-after-eof", "stream %d: Close on the side that had already read EOF returned %v", k, e2)
			}
			c.Count("close_after_eof", 1)
		}
	}
	// The closing side's own reader: whatever it got must be a prefix.
	if stall.WaitDone(rds[closer].done, grace) {
		got, rerr := rds[closer].snapshot()
		judgeDir(c, tc, k, other, got, rerr, data[other], false, p)
		if len(got) == len(data[other]) && len(data[other])%3 != 0 {
			c.Count("tail_reached_closing_side", 1)
		}
	} else {
		got, _ := rds[closer].snapshot()
		judgeDir(c, tc, k, other, got, nil, data[other], false, p)
		c.Count("closing_side_reader_left_blocked", 1)
	}

	c.Count("transfers", 1)
	c.Count("carrier_"+sp.Carrier, 1)
	for d := 0; d < 2; d++ {
		if sp.Dir[d].Len > 0 {
			c.Count([]string{"dir_opener_to_acceptor", "dir_acceptor_to_opener"}[d], 1)
			c.Count("bytes", sp.Dir[d].Len)
		}
	}
	if sp.Dir[0].Len > 0 && sp.Dir[1].Len > 0 {
		c.Count("bidirectional", 1)
	}
	c.Count("closed_by_"+sp.Closer, 1)
	c.Sig("transfer block=%s %s closer=%s opener=%s abort=%v len=%s/%s part=%s/%s", blockClass(sp.Block), sp.Carrier, sp.Closer, sp.Opener, sp.Abort,
		sp.Dir[0].LenClass, sp.Dir[1].LenClass, sp.Dir[0].Part, sp.Dir[1].Part)
}

// judgeDir decides one direction of one stream: writer role w wrote want, the
// opposite reader got got and ended with rerr.  full says that the writer
// closed, so everything must have arrived, followed by EOF.
func judgeDir(c *core.Case, tc *transferCase, k, w int, got []byte, rerr error, want []byte, full bool, p *libPair) {
	sp := &tc.Streams[k]
	side := []string{"opener→acceptor", "acceptor→opener"}[w]
	class, at := diffClass(got, want)
	if class == "short" && !full && len(got) >= len(want)-len(want)%3 {
		class = "" // the unflushed base64 remainder of the side that did not close
	}
	if class == "short" && !full {
		// the closing side stopped listening; nothing is demanded of the rest
		class = ""
	}
	if class != "" {
		// Where did it go wrong?  Ask the wire.
		where := "receiver"
		wEnd := writerEnd(sp, w, p)
		view := tap(wEnd.conn.Written())
		_, wire, _ := checkSeq(view.Data, sidOf(sp, view))
		if wc, _ := diffClass(wire, want); wc != "" && !(wc == "short" && !full) {
			where = "sender"
		}
		key := "ibb:" + class + ":" + where
		if class == "short" {
			key = "ibb:eof:early:" + where
			if rerr != io.EOF {
				key = "ibb:loss:" + where
			}
		}
		c.Violate(key, "stream %d %s (%s, block %d, %d bytes, partition %s): reader got %d bytes ending with %v; first departure (%s) at offset %d: got %s want %s",
			k, side, sp.Carrier, sp.Block, len(want), sp.Dir[w].Part, len(got), rerr, class, at, around(got, at), around(want, at))
		return
	}
	if full && rerr != io.EOF {
		c.Violate("ibb:eof:error", "stream %d %s: reader got all %d bytes but then %v instead of io.EOF", k, side, len(got), rerr)
	}
}

func writerEnd(sp *streamSpec, w int, p *libPair) *end {
	opener, acceptor := p.A, p.B
	if sp.Opener == "B" {
		opener, acceptor = p.B, p.A
	}
	if w == 0 {
		return opener
	}
	return acceptor
}

func sidOf(sp *streamSpec, v *wireView) string {
	if sp.SID != "" {
		return sp.SID
	}
	for _, o := range v.Opens {
		if s := o.Child(nsIBB, "open").Attr("sid"); s != "" {
			return s
		}
	}
	for _, d := range v.Data {
		return d.SID
	}
	return ""
}

func around(b []byte, at int) string {
	lo, hi := at-4, at+8
	if lo < 0 {
		lo = 0
	}
	if hi > len(b) {
		hi = len(b)
	}
	if lo > hi {
		lo = hi
	}
	return fmt.Sprintf("%x|%x", b[lo:min(at, hi)], b[min(at, hi):hi])
}

// ---------------------------------------------------------------------------

func runTransfer(c *core.Case) {
	tc := genTransfer(c.Rand, c.Tier)
	c.Sample(tc)
	execTransfer(c, tc)
}

func execTransfer(c *core.Case, tc *transferCase) {
	base := stall.Snapshot(nil)
	p, err := newLibPair(tc.PayloadSeed, tc.Shaping)
	if err != nil {
		c.Notef("pair setup failed: %v", err)
		c.Count("setup_failures", 1)
		return
	}
	disp := map[string]*dispatcher{}
	for i := range tc.Streams {
		acc := "B"
		if tc.Streams[i].Opener == "B" {
			acc = "A"
		}
		if disp[acc] == nil {
			e := p.B
			if acc == "A" {
				e = p.A
			}
			disp[acc] = startDispatcher(e)
		}
	}
	var wg sync.WaitGroup
	for k := range tc.Streams {
		k := k
		wg.Add(1)
		go func() {
			defer wg.Done()
			c.Guard("stream", func() { runStream(c, tc, k, p, disp, base) })
		}()
	}
	wg.Wait()
	if len(tc.Streams) > 1 {
		c.Count("concurrent_stream_cases", 1)
	}

	// Both serve loops must still be alive: each end pings the other.
	for _, pr := range [][2]*end{{p.A, p.B}, {p.B, p.A}} {
		if c.Violated() {
			break // already refuted; a wedged end would only cost time
		}
		from, to := pr[0], pr[1]
		var perr error
		for _, limit := range []time.Duration{3 * grace, hardLimit} {
			pctx, pcancel := context.WithTimeout(context.Background(), limit)
			perr = from.s.UnmarshalIQElement(pctx, xmlstream.Wrap(nil, xml.StartElement{Name: xml.Name{Space: "urn:xmpp:ping", Local: "ping"}}),
				stanza.IQ{Type: stanza.GetIQ, To: to.s.LocalAddr()}, nil)
			pcancel()
			if !errors.Is(perr, context.DeadlineExceeded) {
				break
			}
			select {
			case <-p.dead:
			default:
				if pk := findWedged(base); pk != nil {
					if !c.Violated() {
						c.Violate(stall.Key(*pk), "after the streams were closed end %s no longer answers a ping from end %s; a library goroutine is parked for good:\n%s", to.name, from.name, pk.Stack)
					}
					perr = nil
				}
			}
			if perr == nil {
				break
			}
		}
		select {
		case <-p.dead:
			if !c.Violated() {
				c.Violate("ibb:session-ended:after-transfer", "a serve loop ended although both ends only opened, used and closed streams: %s", p.deadWhy())
			}
		default:
			if errors.Is(perr, context.DeadlineExceeded) && !c.Violated() {
				c.Inconclusive("end %s did not answer a ping after the transfer and the stall rule does not apply", to.name)
			} else {
				c.Count("serve_loops_alive_after_transfer", 1)
			}
		}
	}

	// wire tap: consecutive numbering per direction and sid
	views := map[string]*wireView{}
	ibbIDs := map[string]map[string]bool{} // ids of the IBB stanzas an end sent
	for _, e := range []*end{p.A, p.B} {
		v := tap(e.conn.Written())
		views[e.name] = v
		ids := map[string]bool{}
		for _, d := range v.Data {
			ids[d.ID] = true
		}
		for _, n := range append(append([]*xmltree.Node{}, v.Opens...), v.Closes...) {
			ids[n.Attr("id")] = true
		}
		ibbIDs[e.name] = ids
	}
	aborted := false
	for i := range tc.Streams {
		aborted = aborted || tc.Streams[i].Abort
	}
	for _, e := range []*end{p.A, p.B} {
		view := views[e.name]
		if view.Err != nil {
			c.Violate("ibb:wire:malformed", "what end %s wrote does not parse: %v", e.name, view.Err)
			continue
		}
		sids := map[string]bool{}
		var order []string
		for _, d := range view.Data {
			if !sids[d.SID] {
				sids[d.SID] = true
				order = append(order, d.SID)
			}
		}
		for _, sid := range order {
			n, _, problem := checkSeq(view.Data, sid)
			c.Count("data_packets_on_wire", n)
			if problem != "" {
				key := "ibb:seq:numbering"
				if strings.Contains(problem, "base64") {
					key = "ibb:corrupt:packet-base64"
				}
				c.Violate(key, "end %s: %s", e.name, problem)
			}
		}
		peer := "A"
		if e.name == "A" {
			peer = "B"
		}
		for _, r := range view.Replies {
			// packets sent into a close are rightly refused
			if r.Type == "error" && !aborted && ibbIDs[peer][r.ID] {
				c.Violate("ibb:refusal:valid-packet", "end %s answered an IBB stanza of a healthy transfer with <%s/> (stanza id %q)", e.name, r.Cond, r.ID)
				break
			}
		}
	}
	for _, d := range disp {
		d.ln.Close()
	}
	ea, eb, ok := p.shutdown()
	if !ok {
		c.Notef("serve loops did not end after shutdown (A: %v, B: %v)", ea, eb)
		c.Count("serve_not_ended", 1)
	}
}
