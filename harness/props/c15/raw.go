package c15

import (
	"context"
	"encoding/base64"
	"errors"
	"fmt"
	"io"
	"math/rand"
	"strconv"
	"strings"
	"sync"
	"time"

	"mellium.im/xmpp/ibb"
	"mellium.im/xmpp/jid"
	"mellium.im/xmpp/mux"
	"mellium.im/xmpp/stanza"

	"mellium.im/xmpp/verifharness/core"
	"mellium.im/xmpp/verifharness/sess"
	"mellium.im/xmpp/verifharness/stall"
	"mellium.im/xmpp/verifharness/xmltree"
)

const (
	libAddr  = "me@example.net/lib"
	peerAddr = "peer@example.net/raw"
)

// rawPeer is the harness end of a session whose other end is the library: it
// speaks XEP-0047 in hand-written XML and parses replies with encoding/xml.
type rawPeer struct {
	p      *sess.Pair
	h      *ibb.Handler
	served chan error
	loop   *sess.PeerLoop

	mu      sync.Mutex
	queue   []*xmltree.Node
	notify  chan struct{}
	backlog []*xmltree.Node
	nextID  int
}

func newRawPeer() (*rawPeer, error) {
	p, err := sess.NewPair(sess.Opts{Local: libAddr, Remote: "example.net"})
	if err != nil {
		return nil, err
	}
	rp := &rawPeer{p: p, h: &ibb.Handler{}, served: make(chan error, 1), notify: make(chan struct{}, 1)}
	m := mux.New(stanza.NSClient, ibb.Handle(rp.h))
	go func() { rp.served <- p.S.Serve(m) }()
	rp.loop = sess.RunPeerLoop(p.Peer, func(n *xmltree.Node) {
		rp.mu.Lock()
		rp.queue = append(rp.queue, n)
		rp.mu.Unlock()
		select {
		case rp.notify <- struct{}{}:
		default:
		}
	})
	return rp, nil
}

func (rp *rawPeer) id(prefix string) string {
	rp.nextID++
	return fmt.Sprintf("%s%d", prefix, rp.nextID)
}

// expect returns the first element from the library satisfying pred; others
// are kept for later calls.  nil on timeout / end of stream.
func (rp *rawPeer) expect(pred func(*xmltree.Node) bool, d time.Duration) *xmltree.Node {
	for i, n := range rp.backlog {
		if pred(n) {
			rp.backlog = append(rp.backlog[:i:i], rp.backlog[i+1:]...)
			return n
		}
	}
	dl := time.After(d)
	for {
		rp.mu.Lock()
		q := rp.queue
		rp.queue = nil
		rp.mu.Unlock()
		for i, n := range q {
			if pred(n) {
				rp.backlog = append(rp.backlog, q[i+1:]...)
				return n
			}
			rp.backlog = append(rp.backlog, n)
		}
		select {
		case <-rp.notify:
		case <-rp.loop.Done():
			rp.mu.Lock()
			left := len(rp.queue)
			rp.mu.Unlock()
			if left == 0 {
				return nil
			}
		case <-dl:
			return nil
		}
	}
}

func byID(id string) func(*xmltree.Node) bool {
	return func(n *xmltree.Node) bool { return n.Attr("id") == id }
}

func (rp *rawPeer) send(s string) { rp.p.Send(s) }

// barrier sends a ping and waits for whatever the session answers: everything
// sent before has then been handled by the serve loop.
func (rp *rawPeer) barrier() bool {
	id := rp.id("bar")
	rp.send(fmt.Sprintf(`<iq type='get' id='%s' from='%s' to='%s'><ping xmlns='urn:xmpp:ping'/></iq>`, id, peerAddr, libAddr))
	return rp.expect(byID(id), hardLimit) != nil
}

func (rp *rawPeer) shutdown() {
	// nothing here may block for good: with a wedged serve loop the session's
	// output lock is never released
	closed := make(chan struct{})
	go func() { rp.p.S.Close(); close(closed) }()
	select {
	case <-closed:
	case <-time.After(2 * time.Second):
	}
	rp.p.ClosePeer()
	select {
	case <-rp.served:
	case <-time.After(2 * time.Second):
	}
	rp.p.Lib.Close()
	rp.p.Peer.Close()
}

// open sends an <open/> for sid and returns the reply.
func (rp *rawPeer) open(sid string, block int, carrier string) *xmltree.Node {
	id := rp.id("open")
	st := ""
	if carrier != "" {
		st = fmt.Sprintf(" stanza='%s'", carrier)
	}
	rp.send(fmt.Sprintf(`<iq type='set' id='%s' from='%s' to='%s'><open xmlns='%s' block-size='%d' sid='%s'%s/></iq>`, id, peerAddr, libAddr, nsIBB, block, sid, st))
	return rp.expect(byID(id), hardLimit)
}

func (rp *rawPeer) closeSID(sid string) *xmltree.Node {
	id := rp.id("close")
	rp.send(fmt.Sprintf(`<iq type='set' id='%s' from='%s' to='%s'><close xmlns='%s' sid='%s'/></iq>`, id, peerAddr, libAddr, nsIBB, sid))
	return rp.expect(byID(id), hardLimit)
}

// data sends one data packet and returns its stanza id.
func (rp *rawPeer) data(carrier, sid string, seq int, b64 string) string {
	id := rp.id("d")
	if carrier == "iq" {
		rp.send(fmt.Sprintf(`<iq type='set' id='%s' from='%s' to='%s'><data xmlns='%s' seq='%d' sid='%s'>%s</data></iq>`, id, peerAddr, libAddr, nsIBB, seq, sid, b64))
	} else {
		rp.send(fmt.Sprintf(`<message id='%s' from='%s' to='%s'><data xmlns='%s' seq='%d' sid='%s'>%s</data></message>`, id, peerAddr, libAddr, nsIBB, seq, sid, b64))
	}
	return id
}

// dataNoSID sends a data packet that names no session at all (no sid
// attribute; with emptySID an empty one).
func (rp *rawPeer) dataNoSID(carrier string, seq int, b64 string, emptySID bool) string {
	id := rp.id("d")
	sid := ""
	if emptySID {
		sid = " sid=''"
	}
	name := "iq type='set'"
	end := "iq"
	if carrier != "iq" {
		name, end = "message", "message"
	}
	rp.send(fmt.Sprintf(`<%s id='%s' from='%s' to='%s'><data xmlns='%s' seq='%d'%s>%s</data></%s>`, name, id, peerAddr, libAddr, nsIBB, seq, sid, b64, end))
	return id
}

// ---------------------------------------------------------------------------
// raw-recv: the raw speaker sends, the library receives

type rawStep struct {
	Op  string `json:"op"` // data | unknown-sid | closed-sid-peer | closed-sid-lib | bad-seq | bad-b64-char | bad-b64-trunc | oversize
	N   int    `json:"n,omitempty"`
	Seq int    `json:"seq,omitempty"`
	// Form: how the base64 text of a valid packet is spelled in the XML (data
	// steps only); Cut steers where it is split.
	Form string `json:"text_form,omitempty"`
	Cut  int    `json:"cut,omitempty"`
}

// textForms: spellings of one and the same base64 text that an XML parser
// hands to the application as several character-data tokens, or with line
// breaks the way senders wrap base64.  The first group is the same XML content
// as the plain text and has to be taken like it; the line-wrapped ones may be
// taken (with exactly the bytes) or refused as undecodable, never taken with
// other bytes.
var textForms = []string{"cdata-split", "cdata-first", "cdata-all", "charref", "charref-padding", "mixed", "newline-wrap", "crlf-wrap", "lead-trail-newline"}

func equivalentForm(f string) bool {
	switch f {
	case "", "plain", "cdata-split", "cdata-first", "cdata-all", "charref", "charref-padding", "mixed":
		return true
	}
	return false
}

// spell writes base64 text b in the given form.
func spell(b, form string, cut int) string {
	if len(b) < 4 {
		if form == "cdata-all" {
			return "<![CDATA[" + b + "]]>"
		}
		return b
	}
	// cut positions: on a 4-character group boundary, or one or two off
	at := (1 + cut/3%max(len(b)/4, 1)) * 4
	if at >= len(b) {
		at = len(b) - 4
	}
	at += []int{0, 1, -2}[cut%3]
	if at <= 0 || at >= len(b) {
		at = 4
		if at >= len(b) {
			at = len(b) / 2
		}
	}
	ref := func(ch byte, hex bool) string {
		if hex {
			return fmt.Sprintf("&#x%X;", ch)
		}
		return fmt.Sprintf("&#%d;", ch)
	}
	switch form {
	case "cdata-split":
		return b[:at] + "<![CDATA[" + b[at:] + "]]>"
	case "cdata-first":
		return "<![CDATA[" + b[:at] + "]]>" + b[at:]
	case "cdata-all":
		return "<![CDATA[" + b + "]]>"
	case "charref":
		return b[:at] + ref(b[at], cut%2 == 0) + b[at+1:]
	case "charref-padding":
		if i := strings.IndexByte(b, '='); i >= 0 {
			return b[:i] + strings.ReplaceAll(b[i:], "=", "&#61;")
		}
		return b[:len(b)-1] + ref(b[len(b)-1], true)
	case "mixed":
		return "<![CDATA[" + b[:at] + "]]>" + ref(b[at], false) + "<![CDATA[]]>" + b[at+1:]
	case "newline-wrap", "crlf-wrap":
		nl := "\n"
		if form == "crlf-wrap" {
			nl = "\r\n"
		}
		var sb strings.Builder
		w := []int{4, 8, 64, 76}[cut%4]
		for i := 0; i < len(b); i += w {
			sb.WriteString(b[i:min(i+w, len(b))])
			sb.WriteString(nl)
		}
		return sb.String()
	case "lead-trail-newline":
		return "\n" + b + "\r\n"
	}
	return b
}

type rawRecvCase struct {
	Kind        string    `json:"kind"`
	PayloadSeed int64     `json:"payload_seed"`
	Carrier     string    `json:"carrier"`
	Block       int       `json:"block"`
	SetRB       bool      `json:"calls_set_read_buffer,omitempty"`
	ReadBuffer  int       `json:"set_read_buffer"` // ≤ 0: unlimited; below the block size: the block size applies
	ReaderLate  bool      `json:"reader_starts_after_steps,omitempty"`
	Steps       []rawStep `json:"steps"`
	End         string    `json:"end"` // peer-close | lib-close
	NoListener  bool      `json:"probe_open_without_listener,omitempty"`
	EmptyPacket bool      `json:"one_valid_packet_is_empty,omitempty"`
}

var wantCond = map[string]string{
	"unknown-sid":     "item-not-found",
	"no-sid":          "item-not-found",
	"empty-sid":       "item-not-found",
	"closed-sid-peer": "item-not-found",
	"closed-sid-lib":  "item-not-found",
	"bad-seq":         "unexpected-request",
	"bad-b64-char":    "bad-request",
	"bad-b64-trunc":   "bad-request",
	"oversize":        "resource-constraint",
}

var counterFor = map[string]string{
	"unknown-sid":     "inject_unknown_sid",
	"no-sid":          "inject_no_sid",
	"empty-sid":       "inject_no_sid",
	"closed-sid-peer": "inject_closed_sid",
	"closed-sid-lib":  "inject_closed_sid",
	"bad-seq":         "inject_bad_seq",
	"bad-b64-char":    "inject_bad_base64",
	"bad-b64-trunc":   "inject_bad_base64",
	"oversize":        "inject_oversize",
}

func liveRefusal(op string) bool {
	switch op {
	case "bad-seq", "bad-b64-char", "bad-b64-trunc", "oversize":
		return true
	}
	return false
}

func genRawRecv(r *rand.Rand) *rawRecvCase {
	rc := &rawRecvCase{Kind: "raw-recv", PayloadSeed: r.Int63()}
	rc.Carrier = []string{"iq", "message"}[r.Intn(2)]
	rc.Block = []int{16, 64, 256, 4096}[r.Intn(4)]
	rc.End = []string{"peer-close", "lib-close"}[r.Intn(2)]
	rc.NoListener = r.Intn(4) == 0
	// (no-sid / empty-sid: a packet that names no session, numbered like the
	// live stream's next one)
	foreign := []string{"unknown-sid", "closed-sid-peer", "closed-sid-lib", "no-sid", "empty-sid"}
	live := []string{"bad-seq", "bad-b64-char", "bad-b64-trunc", "oversize"}
	final := ""
	if r.Intn(5) != 0 {
		final = live[r.Intn(len(live))]
	}
	budget := 1 << 30
	nvalid := 1 + r.Intn(8)
	switch {
	case final == "oversize":
		rc.SetRB, rc.ReaderLate = true, true
		limit := rc.Block * (1 + r.Intn(3))
		rc.ReadBuffer = limit
		if r.Intn(3) == 0 {
			// a value below the block size is documented to mean the block size
			rc.ReadBuffer = []int{1, rc.Block / 2, rc.Block - 1}[r.Intn(3)]
			limit = rc.Block
		}
		// The size check may count base64 padding as payload: stay three bytes
		// clear of the limit with what must be accepted, and go at least one byte
		// beyond it with what must be refused.
		budget = limit - 3
	case r.Intn(3) == 0:
		// "If max is zero or less buffer growth is not limited": nobody reads
		// while several blocks arrive, and every one must be taken
		rc.SetRB, rc.ReaderLate = true, true
		rc.ReadBuffer = []int{0, -1, -rc.Block}[r.Intn(3)]
		nvalid = 4 + r.Intn(8)
	}
	rc.EmptyPacket = r.Intn(8) == 0
	empty := r.Intn(nvalid)
	for i := 0; i < nvalid; i++ {
		n := 1 + r.Intn(rc.Block)
		if rc.EmptyPacket && i == empty {
			n = 0
		}
		if n > budget {
			n = budget
		}
		budget -= n
		st := rawStep{Op: "data", N: n}
		if !(rc.SetRB && rc.ReadBuffer > 0) && r.Intn(2) == 0 {
			// (not where a receive limit is probed: the size estimate counts the
			// characters of the text)
			st.Form, st.Cut = textForms[r.Intn(len(textForms))], r.Intn(24)
		}
		rc.Steps = append(rc.Steps, st)
		for r.Intn(3) == 0 {
			rc.Steps = append(rc.Steps, rawStep{Op: foreign[r.Intn(len(foreign))], N: 1 + r.Intn(8), Seq: r.Intn(3)})
		}
	}
	switch final {
	case "bad-seq":
		// any number but the expected one: ahead, behind, far away
		// (65536 and 131072: the expected number plus a multiple of 65536, written
		// out as such: not a 16-bit number at all)
		rc.Steps = append(rc.Steps, rawStep{Op: final, N: 1 + r.Intn(8), Seq: []int{1, 2, -1, 7, 65535, 40000, 65536, 131072}[r.Intn(8)]})
	case "oversize":
		rc.Steps = append(rc.Steps, rawStep{Op: final, N: budget + 4 + r.Intn(3)})
	case "":
	default:
		rc.Steps = append(rc.Steps, rawStep{Op: final, N: 4 + r.Intn(8)})
	}
	if final != "" {
		for r.Intn(2) == 0 {
			rc.Steps = append(rc.Steps, rawStep{Op: foreign[r.Intn(len(foreign))], N: 1 + r.Intn(8), Seq: r.Intn(3)})
		}
	}
	return rc
}

func runRawRecv(c *core.Case) {
	rc := genRawRecv(c.Rand)
	c.Sample(rc)
	execRawRecv(c, rc)
}

// acceptOne waits for the listener to hand out the next stream.
func acceptOne(ln *ibb.Listener) chan *ibb.Conn {
	ch := make(chan *ibb.Conn, 1)
	go func() {
		nc, err := ln.Accept()
		if err != nil {
			close(ch)
			return
		}
		ch <- nc.(*ibb.Conn)
	}()
	return ch
}

// openAccepted opens sid from the raw side and returns the library's Conn.
func (rp *rawPeer) openAccepted(c *core.Case, ln *ibb.Listener, sid string, block int, carrier string) *ibb.Conn {
	ch := acceptOne(ln)
	rep := rp.open(sid, block, carrier)
	if rep == nil || rep.Attr("type") != "result" {
		c.Violate("ibb:open:listener-refused", "a listener is registered, yet <open sid=%q block-size=%d stanza=%q/> was answered with %v", sid, block, carrier, rep)
		return nil
	}
	select {
	case conn := <-ch:
		return conn
	case <-time.After(hardLimit):
		return nil
	}
}

func execRawRecv(c *core.Case, rc *rawRecvCase) {
	base := stall.Snapshot(nil)
	rp, err := newRawPeer()
	if err != nil {
		c.Count("setup_failures", 1)
		return
	}
	defer rp.shutdown()

	if rc.NoListener {
		rep := rp.open("nolisten", rc.Block, rc.Carrier)
		if rep != nil && rep.Attr("type") == "error" {
			c.Count("open_refused_without_listener", 1)
		} else {
			c.Violate("ibb:open:accepted-without-listener", "no listener exists, yet <open/> was answered with %v", rep)
		}
	}
	ln := rp.h.Listen(rp.p.S)

	need := map[string]bool{}
	for _, st := range rc.Steps {
		need[st.Op] = true
	}
	if need["closed-sid-peer"] {
		if conn := rp.openAccepted(c, ln, "dead-by-peer", rc.Block, rc.Carrier); conn == nil {
			return
		}
		if rep := rp.closeSID("dead-by-peer"); rep == nil || rep.Attr("type") != "result" {
			c.Violate("ibb:close:refused", "<close/> for an open stream was answered with %v", rep)
			return
		}
	}
	if need["closed-sid-lib"] {
		conn := rp.openAccepted(c, ln, "dead-by-lib", rc.Block, rc.Carrier)
		if conn == nil {
			return
		}
		cerr := make(chan error, 1)
		go func() {
			var err error
			c.Guard("ibb.Conn.Close", func() { err = conn.Close() })
			cerr <- err
		}()
		cl := rp.expect(func(n *xmltree.Node) bool { return n.Name.Local == "iq" && n.Child(nsIBB, "close") != nil }, hardLimit)
		if cl == nil {
			c.Violate("ibb:close:nothing-sent", "Conn.Close sent no <close/>")
			return
		}
		rp.send(fmt.Sprintf(`<iq type='result' id='%s' from='%s' to='%s'/>`, cl.Attr("id"), peerAddr, libAddr))
		select {
		case err := <-cerr:
			if err != nil {
				c.Violate("ibb:close:error", "Close of an idle accepted stream returned %v although the peer answered with a result", err)
			}
		case <-time.After(hardLimit):
			{
				c.Inconclusive("a wait ran out and the stall rule does not apply")
				return
			}
		}
	}

	conn := rp.openAccepted(c, ln, "live", rc.Block, rc.Carrier)
	if conn == nil {
		return
	}
	if rc.SetRB {
		conn.SetReadBuffer(rc.ReadBuffer)
		c.Count("set_read_buffer_streams", 1)
		if rc.ReadBuffer <= 0 {
			c.Count("set_read_buffer_unlimited", 1)
		} else if rc.ReadBuffer < rc.Block {
			c.Count("set_read_buffer_below_block", 1)
		}
	}
	var rd *reader
	if !rc.ReaderLate {
		rd = startReader(conn, 0, 0, rc.PayloadSeed)
	}

	all := payload(rc.PayloadSeed, 0, 1<<16)
	off, seq := 0, 0
	var valid []byte
	oversizeRefused := false // … for exceeding the receive buffer, and answered so
	refused := false         // a packet of the live stream itself was refused
	outcome := "clean"
	for i, st := range rc.Steps {
		if refused && st.Op == "data" {
			continue // nothing valid is sent on a stream after one of its packets was refused
		}
		if liveRefusal(st.Op) && rd != nil {
			// what was delivered so far must not be touched by what follows: let
			// the reader take it first so that a shortfall has one cause
			if !settle(c, rd, len(valid), base, "before the refused packet") {
				return
			}
		}
		chunk := all[off : off+st.N]
		b64 := base64.StdEncoding.EncodeToString(chunk)
		var id, carrier string
		carrier = rc.Carrier
		switch st.Op {
		case "data":
			id = rp.data(carrier, "live", seq, spell(b64, st.Form, st.Cut))
			if st.Form != "" {
				c.Count("data_packets_text_in_several_tokens_or_wrapped", 1)
			}
			seq = (seq + 1) % 65536
			off += st.N
			valid = append(valid, chunk...)
		case "unknown-sid":
			id = rp.data(carrier, "never-opened", st.Seq, b64)
		case "no-sid", "empty-sid":
			id = rp.dataNoSID(carrier, seq, b64, st.Op == "empty-sid")
		case "closed-sid-peer":
			id = rp.data(carrier, "dead-by-peer", st.Seq, b64)
		case "closed-sid-lib":
			id = rp.data(carrier, "dead-by-lib", st.Seq, b64)
		case "bad-seq":
			bad := (seq + st.Seq + 65536) % 65536
			if st.Seq >= 65536 {
				bad = seq + st.Seq
				c.Count("inject_bad_seq_beyond_16_bits", 1)
			}
			id = rp.data(carrier, "live", bad, b64)
		case "bad-b64-char":
			// an illegal character in the middle of otherwise valid base64
			raw := base64.StdEncoding.EncodeToString(all[off : off+st.N+3])
			id = rp.data(carrier, "live", seq, raw[:2]+"*"+raw[3:])
		case "bad-b64-trunc":
			// a quantum cut short: length not a multiple of four, no padding
			k := st.N / 3
			raw := base64.StdEncoding.EncodeToString(all[off:off+3*k]) + "QUJD"[:1+st.N%3]
			id = rp.data(carrier, "live", seq, raw)
		case "oversize":
			id = rp.data(carrier, "live", seq, b64)
		}
		want := wantCond[st.Op]
		if cn := counterFor[st.Op]; cn != "" {
			c.Count(cn, 1)
		}
		var rep *xmltree.Node
		if carrier == "iq" {
			rep = rp.expect(byID(id), hardLimit)
			if rep == nil {
				closed, lerr := rp.loop.State()
				key := "ibb:refusal:" + st.Op + ":no-reply"
				if closed || lerr != nil {
					key = "ibb:refusal:" + st.Op + ":session-ended"
				}
				c.Violate(key, "step %d (%s): the data IQ %s was never answered (stream from the library closed=%v err=%v)", i, st.Op, id, closed, lerr)
				return
			}
		} else {
			if !rp.barrier() {
				closed, lerr := rp.loop.State()
				c.Violate("ibb:refusal:"+st.Op+":session-ended", "step %d (%s): after the message-carried packet %s the session no longer answers (stream from the library closed=%v err=%v)", i, st.Op, id, closed, lerr)
				return
			}
			rep = rp.expect(byID(id), 0)
		}
		got := ""
		if rep != nil && rep.Attr("type") == "error" {
			got = errCond(rep)
		}
		if st.Op == "bad-seq" && st.Seq >= 65536 && got == "bad-request" {
			// a number that is no 16-bit number at all is as much an unusable packet
			// as an unexpected number: either refusal will do
			want = got
		}
		switch {
		case want == "" && got == "bad-request" && !equivalentForm(st.Form):
			// line-wrapped base64 may be refused as undecodable; then it was not
			// taken, and nothing more is sent on this stream
			valid = valid[:len(valid)-st.N]
			refused = true
			c.Count("line_wrapped_base64_refused", 1)
		case want == "" && got != "":
			c.Violate("ibb:refusal:valid-packet", "step %d: valid packet seq=%d of the live stream was answered with <%s/>", i, seq-1, got)
			return
		case want != "" && got == "":
			what := "accepted (result)"
			if rep == nil {
				what = "ignored (no error stanza)"
			}
			c.Violate("ibb:refusal:"+st.Op+":wrong-answer", "step %d: %s packet was %s, want <%s/>", i, st.Op, what, want)
			outcome = "wrongly-accepted"
		case want != got:
			c.Violate("ibb:refusal:"+st.Op+":wrong-answer", "step %d: %s packet answered with <%s/>, want <%s/>", i, st.Op, got, want)
			outcome = "wrong-condition"
		case want != "":
			c.Count("refusal_"+strings.ReplaceAll(want, "-", "_"), 1)
			if st.Op == "oversize" {
				oversizeRefused = true
			}
		}
		if liveRefusal(st.Op) {
			refused = true
		}
	}

	if rd == nil {
		rd = startReader(conn, 0, 0, rc.PayloadSeed)
	}
	// everything valid was acknowledged (IQ) or handled (barrier): the reader
	// must be able to take it
	if !refused || rc.ReaderLate {
		if !settle(c, rd, len(valid), base, "before the close") {
			return
		}
	}

	switch rc.End {
	case "peer-close":
		rep := rp.closeSID("live")
		if !refused && (rep == nil || rep.Attr("type") != "result") {
			c.Violate("ibb:close:refused", "<close/> for the live stream was answered with %v", rep)
		}
	case "lib-close":
		cerr := make(chan error, 1)
		go func() {
			var err error
			c.Guard("ibb.Conn.Close", func() { err = conn.Close() })
			cerr <- err
		}()
		cl := rp.expect(func(n *xmltree.Node) bool {
			cc := n.Child(nsIBB, "close")
			return n.Name.Local == "iq" && cc != nil && cc.Attr("sid") == "live"
		}, hardLimit)
		if cl != nil {
			rp.send(fmt.Sprintf(`<iq type='result' id='%s' from='%s' to='%s'/>`, cl.Attr("id"), peerAddr, libAddr))
		}
		select {
		case err := <-cerr:
			if err != nil && !refused {
				c.Violate("ibb:close:error", "Close returned %v although the peer answered with a result", err)
			}
		case <-time.After(hardLimit):
			{
				c.Inconclusive("a wait ran out and the stall rule does not apply")
				return
			}
		}
	}
	ended := stall.WaitDone(rd.done, grace)
	got, rerr := rd.snapshot()
	if !ended && !refused && rc.End == "peer-close" {
		if stuck := newParked(base, isReadFrame); len(stuck) > 0 {
			c.Violate(stall.Key(stuck[0]), "the peer closed the stream, the reader has %d of %d bytes and never reads EOF; it is parked:\n%s", len(got), len(valid), stuck[0].Stack)
		}
	}
	// bytes delivered before any refusal are unchanged
	pre := got
	if len(pre) > len(valid) {
		pre = pre[:len(valid)]
	}
	if class, at := diffClass(pre, valid[:len(pre)]); class != "" {
		c.Violate("ibb:"+class+":receiver", "raw speaker sent %d valid bytes; the reader's first %d bytes depart (%s) at offset %d: got %s want %s", len(valid), len(pre), class, at, around(got, at), around(valid, at))
	} else if !refused && ended {
		switch {
		case len(got) < len(valid) && rc.End == "peer-close":
			key := "ibb:loss:receiver"
			if rerr == io.EOF {
				key = "ibb:eof:early:receiver"
			}
			c.Violate(key, "raw speaker sent %d valid bytes and closed; the reader got %d and then %v", len(valid), len(got), rerr)
		case len(got) > len(valid):
			c.Violate("ibb:extra:receiver", "raw speaker sent %d valid bytes; the reader got %d", len(valid), len(got))
		case rc.End == "peer-close" && rerr != io.EOF:
			c.Violate("ibb:eof:error", "raw speaker closed after %d bytes; the reader got them and then %v instead of io.EOF", len(valid), rerr)
		case rc.End == "peer-close":
			c.Count("eof_after_close", 1)
		}
	} else if refused && len(got) < len(valid) && ended {
		c.Violate("ibb:loss:after-refusal", "a refused packet disturbed data already delivered: %d valid bytes were acknowledged before it, the reader got %d and then %v", len(valid), len(got), rerr)
	} else if oversizeRefused {
		// A packet refused for exceeding the receive buffer was not taken: the
		// reader's bytes are always a prefix of the accepted packets.  (For
		// undecodable packets whether a partial decode is dropped is not demanded.)
		if len(got) > len(valid) {
			c.Violate("ibb:refusal:oversize:refused-packet-delivered", "the packet that was refused with <resource-constraint/> reached the reader all the same: %d bytes were accepted (SetReadBuffer(%d), block %d), the reader got %d (then %v); beyond the accepted bytes: %s",
				len(valid), rc.ReadBuffer, rc.Block, len(got), rerr, around(got, len(valid)))
		} else {
			c.Count("oversize_refusals_checked_against_reader", 1)
		}
	}
	c.Count("raw_sender_streams", 1)
	c.Count("carrier_"+rc.Carrier, 1)
	last := "none"
	if n := len(rc.Steps); n > 0 {
		for _, st := range rc.Steps {
			if liveRefusal(st.Op) {
				last = st.Op
			}
		}
	}
	c.Sig("raw-recv %s end=%s live-refusal=%s foreign=%v/%v/%v outcome=%s", rc.Carrier, rc.End, last, need["unknown-sid"], need["closed-sid-peer"], need["closed-sid-lib"], outcome)
}

// settle waits until the reader has n bytes.  It reports a reader that ended
// while the stream was still open, or one that is parked although everything
// was acknowledged; false means the case cannot go on.
func settle(c *core.Case, rd *reader, n int, base map[string]stall.Parked, when string) bool {
	if rd.waitCount(n, grace) {
		return true
	}
	select {
	case <-rd.done:
		got, rerr := rd.snapshot()
		c.Violate("ibb:eof:before-close", "%s: %d valid bytes were acknowledged and the stream is open, but the reader got %d bytes and then %v", when, n, len(got), rerr)
		return false
	default:
	}
	if stuck := newParked(base, isReadFrame); len(stuck) > 0 {
		c.Violate(stall.Key(stuck[0]), "%s: %d valid bytes were acknowledged, the reader has %d and is parked:\n%s", when, n, rd.count(), stuck[0].Stack)
		c.Count("stalled_readers", 1)
		return false
	}
	if !rd.waitCount(n, hardLimit) {
		c.Inconclusive("%s: the reader did not get the acknowledged bytes and the stall rule does not apply", when)
		return false
	}
	return true
}

// twoWriters: goroutine A's packet waits for its acknowledgement (A holds the
// Conn's write lock), goroutine B queues behind it with a Write of its own;
// the speaker closes the stream and only then acknowledges A's packet.  B's
// bytes cannot be delivered any more: its Write (or, failing that, the calls
// that follow) has to say so.
func twoWriters(c *core.Case, rs *rawSendCase, rp *rawPeer, conn *ibb.Conn, sid string, base map[string]stall.Parked) {
	// (B's bytes fit the write buffer: a Write that does not notice the close
	// just buffers them and returns)
	a, b := payload(rs.PayloadSeed, 0, 4), payload(rs.PayloadSeed, 1, 2)
	ares := make(chan error, 1)
	go func() {
		var err error
		c.Guard("ibb.Conn.Write(A)", func() {
			if _, err = conn.Write(a); err == nil {
				err = conn.Flush()
			}
		})
		ares <- err
	}()
	isData := func(n *xmltree.Node) bool { d := n.Child(nsIBB, "data"); return d != nil && n.Attr("type") == "set" }
	first := rp.expect(isData, hardLimit)
	if first == nil {
		c.Inconclusive("two writers: the first packet never came")
		return
	}
	type bres struct {
		n                int
		werr, ferr, cerr error
	}
	bch := make(chan bres, 1)
	gid := make(chan string, 1)
	go func() {
		gid <- goroutineID()
		var r bres
		c.Guard("ibb.Conn.Write(B)", func() {
			r.n, r.werr = conn.Write(b)
			if rs.BFlushes {
				r.ferr = conn.Flush()
			}
			r.cerr = conn.Close()
		})
		bch <- r
	}()
	bID := <-gid
	// B is queued on the Conn's write lock
	queued := false
	for dl := time.Now().Add(grace); time.Now().Before(dl) && !queued; time.Sleep(500 * time.Microsecond) {
		for _, pk := range stall.Snapshot(func(fn string) bool { return strings.HasPrefix(fn, "ibb.(*Conn).") }) {
			if pk.ID == bID && strings.Contains(pk.State, "Mutex") {
				queued = true
			}
		}
	}
	if queued {
		c.Count("second_writer_queued_behind_unacknowledged_packet", 1)
	}
	if rep := rp.closeSID(sid); rep == nil || rep.Attr("type") != "result" {
		c.Violate("ibb:close:refused", "<close/> while a packet was unacknowledged and a second writer queued was answered with %v", rep)
		return
	}
	rp.send(fmt.Sprintf(`<iq type='result' id='%s' from='%s' to='%s'/>`, first.Attr("id"), peerAddr, libAddr))
	var aerr error
	var rb bres
	for got := 0; got < 2; {
		select {
		case aerr = <-ares:
			got++
		case rb = <-bch:
			got++
		case <-time.After(20 * time.Millisecond):
			// whatever the writers still send is refused: the stream is gone here
			for {
				m := rp.expect(func(n *xmltree.Node) bool { return isData(n) || n.Child(nsIBB, "close") != nil }, 0)
				if m == nil {
					break
				}
				if m.Name.Local == "iq" {
					rp.send(fmt.Sprintf(`<iq type='error' id='%s' from='%s' to='%s'><error type='cancel'><item-not-found xmlns='%s'/></error></iq>`, m.Attr("id"), peerAddr, libAddr, nsStanzas))
				}
			}
			if pk := findWedged(base); pk != nil {
				c.Violate(stall.Key(*pk), "two writers, peer close in between: a library goroutine is parked for good:\n%s", pk.Stack)
				return
			}
		}
	}
	if !rp.barrier() {
		c.Violate("ibb:session-ended:two-writers", "after two writers and a peer close in between the session no longer answers")
		return
	}
	_ = aerr
	// What reached the transport after the first packet?
	sent := onWire(rp.p.Lib.Written(), sid)
	delivered := sent >= len(a)+len(b)-(len(a)+len(b))%3
	reported := rb.werr != nil || rb.ferr != nil || rb.cerr != nil
	switch {
	case rb.werr == nil && rb.n == len(b) && !reported && !delivered:
		c.Violate("ibb:loss:write-accepted-on-closed-stream", "writer B's Write of %d bytes returned (%d, nil) after the peer had closed the stream (B was queued behind A's unacknowledged packet: %v); Flush called: %v; Close returned nil; of the %d bytes written by A and B only %d ever reached the transport: B's bytes are lost and no call said so",
			len(b), rb.n, queued, rs.BFlushes, len(a)+len(b), sent)
	case reported:
		c.Count("second_writer_told_stream_is_closed", 1)
	}
	c.Count("two_writer_cases", 1)
	c.Count("raw_receiver_transfers", 1)
	c.Sig("raw-send two-writers queued=%v bflush=%v reported=%v", queued, rs.BFlushes, reported)
}

// ---------------------------------------------------------------------------
// raw-send: the library opens towards the raw speaker

type rawSendCase struct {
	Kind        string  `json:"kind"`
	PayloadSeed int64   `json:"payload_seed"`
	Carrier     string  `json:"carrier"`
	Block       int     `json:"block"`
	Refuse      string  `json:"refuse_with,omitempty"` // stanza error condition, "" = accept
	RefuseType  string  `json:"refuse_type,omitempty"`
	Dir         dirSpec `json:"write"`
	// CloseAt > 0: instead of acknowledging that data packet (1-based) the
	// speaker sends <close/>, and acknowledges afterwards.
	CloseAt int `json:"peer_closes_instead_of_acking_packet,omitempty"`
	// RefuseAt > 0: that data IQ (1-based) is answered with type='error' in the
	// given shape instead of a result.
	RefuseAt    int    `json:"refuse_packet,omitempty"`
	RefuseShape string `json:"refusal_shape,omitempty"`
	// TwoWriters: two goroutines write to the one Conn; the speaker withholds
	// the first packet's acknowledgement, closes the stream, then acknowledges.
	TwoWriters bool `json:"two_writers,omitempty"`
	BFlushes   bool `json:"second_writer_flushes,omitempty"`
}

// errorShapes: ways of answering a data IQ with type='error'.
var errorShapes = []string{"well-formed", "no-error-child", "echo-only", "bad-by-attribute", "empty-error"}

func errorReply(shape, id string, req *xmltree.Node) string {
	head := fmt.Sprintf(`<iq type='error' id='%s' from='%s' to='%s'>`, id, peerAddr, libAddr)
	switch shape {
	case "no-error-child":
		return head + "</iq>"
	case "echo-only":
		d := req.Child(nsIBB, "data")
		return head + fmt.Sprintf(`<data xmlns='%s' seq='%s' sid='%s'>%s</data></iq>`, nsIBB, d.Attr("seq"), d.Attr("sid"), d.Text())
	case "bad-by-attribute":
		return head + fmt.Sprintf(`<error type='cancel' by='@@not a jid@@/'><item-not-found xmlns='%s'/></error></iq>`, nsStanzas)
	case "empty-error":
		return head + "<error/></iq>"
	}
	return head + fmt.Sprintf(`<error type='wait'><resource-constraint xmlns='%s'/></error></iq>`, nsStanzas)
}

var refusals = [][2]string{
	{"not-acceptable", "cancel"}, {"service-unavailable", "cancel"}, {"feature-not-implemented", "cancel"},
	{"resource-constraint", "modify"}, {"forbidden", "auth"}, {"item-not-found", "cancel"},
}

func genRawSend(r *rand.Rand, tier string, idx int) *rawSendCase {
	rs := &rawSendCase{Kind: "raw-send", PayloadSeed: r.Int63()}
	if (idx/10)%5 == 0 {
		rs.Carrier, rs.Block, rs.TwoWriters, rs.BFlushes = "iq", 4, true, r.Intn(3) == 0
		return rs
	}
	if (idx/10)%5 == 2 {
		// the speaker's <close/> overtakes the acknowledgement of a data IQ; it
		// then goes on sending packets for the dead sid
		rs.Carrier, rs.Block = "iq", []int{3, 4, 64}[r.Intn(3)]
		rs.CloseAt = 1 + r.Intn(2)
		rs.Dir = dirSpec{Len: 8 * rs.Block, LenClass: "block", Part: "flush-each"}
		for i := 0; i < 8; i++ {
			rs.Dir.Steps = append(rs.Dir.Steps, wstep{N: rs.Block, Flush: true})
		}
		rs.Dir.NSteps, rs.Dir.StepsHead = len(rs.Dir.Steps), rs.Dir.Steps
		return rs
	}
	if (idx/10)%5 == 1 {
		// a data IQ answered with type='error' in one of several shapes
		rs.Carrier, rs.Block = "iq", []int{3, 4, 64}[r.Intn(3)]
		rs.RefuseAt, rs.RefuseShape = 1+r.Intn(2), errorShapes[(idx/50)%len(errorShapes)]
		rs.Dir = dirSpec{Len: 12 * rs.Block, LenClass: "block", Part: "flush-each"}
		for i := 0; i < 12; i++ {
			rs.Dir.Steps = append(rs.Dir.Steps, wstep{N: rs.Block, Flush: true})
		}
		rs.Dir.NSteps, rs.Dir.StepsHead = len(rs.Dir.Steps), rs.Dir.Steps
		return rs
	}
	rs.Block = blockSizes[r.Intn(len(blockSizes))]
	rs.Carrier = "iq"
	if rs.Block != 0 && r.Intn(2) == 0 {
		rs.Carrier = "message"
	}
	if r.Intn(2) == 0 {
		x := refusals[r.Intn(len(refusals))]
		rs.Refuse, rs.RefuseType = x[0], x[1]
		return rs
	}
	maxPk, maxLen := 200, 12<<10
	if eb := effBlock(rs.Block); eb*maxPk < maxLen {
		maxLen = eb * maxPk
	}
	rs.Dir = genDir(r, rs.Block, maxLen, 2*maxPk)
	if rs.Carrier == "iq" {
		switch r.Intn(3) {
		case 0:
			rs.CloseAt = 1 + r.Intn(3)
		case 1:
			rs.RefuseAt = 1 + r.Intn(3)
			rs.RefuseShape = errorShapes[r.Intn(len(errorShapes))]
		}
	}
	return rs
}

func runRawSend(c *core.Case) {
	rs := genRawSend(c.Rand, c.Tier, c.Index)
	c.Sample(rs)
	execRawSend(c, rs)
}

func execRawSend(c *core.Case, rs *rawSendCase) {
	base := stall.Snapshot(nil)
	rp, err := newRawPeer()
	if err != nil {
		c.Count("setup_failures", 1)
		return
	}
	defer rp.shutdown()

	to := jid.MustParse(peerAddr)
	type opened struct {
		conn *ibb.Conn
		err  error
	}
	och := make(chan opened, 1)
	ctx, cancel := context.WithTimeout(context.Background(), hardLimit)
	defer cancel()
	go func() {
		var o opened
		c.Guard("ibb.Open", func() {
			if rs.Block == 0 {
				o.conn, o.err = rp.h.Open(ctx, rp.p.S, to)
			} else {
				o.conn, o.err = rp.h.OpenIQ(ctx, stanza.IQ{To: to}, rp.p.S, rs.Carrier == "iq", uint16(rs.Block), "out1")
			}
		})
		och <- o
	}()
	op := rp.expect(func(n *xmltree.Node) bool { return n.Name.Local == "iq" && n.Child(nsIBB, "open") != nil }, hardLimit)
	if op == nil {
		c.Violate("ibb:open:nothing-sent", "Open sent no <open/>")
		return
	}
	oe := op.Child(nsIBB, "open")
	sid := oe.Attr("sid")
	wantBlock := effBlock(rs.Block)
	wantStanza := rs.Carrier
	gotStanza := oe.Attr("stanza")
	if gotStanza == "" {
		gotStanza = "iq"
	}
	if op.Attr("type") != "set" || sid == "" || oe.Attr("block-size") != strconv.Itoa(wantBlock) || gotStanza != wantStanza {
		c.Violate("ibb:open:request", "Open(block %d, %s) sent %v", rs.Block, rs.Carrier, op)
	}
	if rs.Refuse != "" {
		rp.send(fmt.Sprintf(`<iq type='error' id='%s' from='%s' to='%s'><error type='%s'><%s xmlns='%s'/></error></iq>`,
			op.Attr("id"), peerAddr, libAddr, rs.RefuseType, rs.Refuse, nsStanzas))
		o := <-och
		c.Count("refused_opens", 1)
		outcome := "error"
		if o.err == nil {
			outcome = "success"
			c.Violate("ibb:open:succeeded-after-refusal", "the peer answered <open/> with <%s/> (type %s), yet Open returned a Conn (sid %q) and a nil error", rs.Refuse, rs.RefuseType, sid)
		} else {
			var se stanza.Error
			if errors.As(o.err, &se) {
				if string(se.Condition) == rs.Refuse {
					c.Count("refused_open_error_is_peers", 1)
				}
			}
		}
		c.Sig("raw-send refuse=%s outcome=%s", rs.Refuse, outcome)
		return
	}
	rp.send(fmt.Sprintf(`<iq type='result' id='%s' from='%s' to='%s'/>`, op.Attr("id"), peerAddr, libAddr))
	o := <-och
	if o.err != nil || o.conn == nil {
		c.Violate("ibb:open:failed-though-accepted", "the peer answered <open/> with a result, Open returned %v", o.err)
		return
	}
	if rs.TwoWriters {
		twoWriters(c, rs, rp, o.conn, sid, base)
		return
	}
	data := payload(rs.PayloadSeed, 0, rs.Dir.Len)
	wres := make(chan error, 1)
	go func() {
		var err error
		c.Guard("ibb.Conn.Write", func() {
			// when Flush has returned, the complete groups written so far are in
			// packets handed to the transport
			nflush := 0
			err = writeAll(o.conn, data, rs.Dir.Steps, func(off int) error {
				if nflush++; nflush > 3 {
					return nil
				}
				if got, need := onWire(rp.p.Lib.Written(), sid), off-off%3; got < need {
					c.Violate("ibb:flush:not-delivered:"+rs.Carrier, "library → raw receiver (%s, block %d): %d bytes written and Flush returned nil, but only %d of the %d complete-group bytes are in packets handed to the transport", rs.Carrier, rs.Block, off, got, need)
					return errStop
				}
				c.Count("flush_checkpoints", 1)
				return nil
			})
			if err == nil {
				if e := o.conn.Close(); e != nil {
					err = fmt.Errorf("Close: %v", e)
				}
			}
		})
		wres <- err
	}()
	// the raw speaker as an independent XEP-0047 receiver
	var recv []byte
	want, npk := 0, 0
	problem := ""
	isStreamEl := func(n *xmltree.Node) bool {
		return n.Child(nsIBB, "data") != nil || n.Child(nsIBB, "close") != nil
	}
	takeData := func(n *xmltree.Node) {
		d := n.Child(nsIBB, "data")
		if n.Name.Local != rs.Carrier && problem == "" {
			problem = fmt.Sprintf("packet %d is carried by <%s/>, the stream was opened with stanza=%s", npk, n.Name.Local, rs.Carrier)
		}
		if d.Attr("sid") != sid && problem == "" {
			problem = fmt.Sprintf("packet %d names sid %q, the stream is %q", npk, d.Attr("sid"), sid)
		}
		if d.Attr("seq") != strconv.Itoa(want) && problem == "" {
			problem = fmt.Sprintf("packet %d carries seq=%q, want %d", npk, d.Attr("seq"), want)
		}
		b, err := base64.StdEncoding.DecodeString(d.Text())
		if err != nil && problem == "" {
			problem = fmt.Sprintf("packet %d does not decode as base64 on its own: %v (%.40q)", npk, err, d.Text())
		}
		recv = append(recv, b...)
		want = (want + 1) % 65536
		npk++
	}
	ack := func(n *xmltree.Node) {
		if n.Name.Local == "iq" {
			rp.send(fmt.Sprintf(`<iq type='result' id='%s' from='%s' to='%s'/>`, n.Attr("id"), peerAddr, libAddr))
		}
	}
	peerClosed := false
	refusedPacket := false
	writerBack := false
	var werr error
	deadline := time.Now().Add(hardLimit)
	for {
		n := rp.expect(isStreamEl, 20*time.Millisecond)
		if n == nil {
			// has the writer given up (a refused packet, a decided checkpoint)?
			select {
			case werr = <-wres:
				writerBack = true
			default:
			}
			if writerBack {
				break
			}
			if time.Now().After(deadline) {
				c.Inconclusive("raw receiver: no <close/> after %d packets", npk)
				return
			}
			continue
		}
		deadline = time.Now().Add(hardLimit)
		if cl := n.Child(nsIBB, "close"); cl != nil {
			if cl.Attr("sid") != sid && problem == "" {
				problem = fmt.Sprintf("<close/> names sid %q, the stream is %q", cl.Attr("sid"), sid)
			}
			ack(n)
			break
		}
		if rs.RefuseAt > 0 && npk+1 == rs.RefuseAt && n.Name.Local == "iq" && !refusedPacket {
			// this packet is refused: it does not count as received, and the
			// writer has to learn of it
			refusedPacket = true
			npk++
			want = (want + 1) % 65536
			rp.send(errorReply(rs.RefuseShape, n.Attr("id"), n))
			c.Count("data_iq_refused_"+rs.RefuseShape, 1)
			if rs.RefuseShape != "well-formed" {
				c.Count("malformed_refusals_of_data_iq", 1)
			}
			continue
		}
		takeData(n)
		if rs.CloseAt > 0 && npk == rs.CloseAt && n.Name.Local == "iq" {
			// The writer is inside Write/Flush waiting for this packet's
			// acknowledgement.  Instead of it, the peer's <close/> arrives.
			rep := rp.closeSID(sid)
			if rep == nil || rep.Attr("type") != "result" {
				c.Violate("ibb:close:refused", "<close/> for the open stream (sent while a data packet was unacknowledged) was answered with %v", rep)
				return
			}
			// The stream is closed: a late or duplicated packet of the speaker's
			// own for that sid — while the acknowledgement is still outstanding,
			// and after it — must be refused like any packet for an unknown
			// session (both carriers), and must not hurt the session.
			late := func(when string) bool {
				id := rp.data("iq", sid, 0, "QUJD")
				rep := rp.expect(byID(id), hardLimit)
				if rep == nil {
					closed, lerr := rp.loop.State()
					c.Violate("ibb:session-ended:after-peer-close", "%s: a data IQ for the sid the speaker had closed is never answered (stream from the library closed=%v err=%v)", when, closed, lerr)
					return false
				}
				if rep.Attr("type") != "error" || errCond(rep) != "item-not-found" {
					c.Violate("ibb:refusal:closed-sid-peer:wrong-answer", "%s: a data IQ for the sid the speaker had closed (its <close/> was answered with a result) got type=%q <%s/>, want <item-not-found/>", when, rep.Attr("type"), errCond(rep))
					return false
				}
				mid := rp.data("message", sid, 0, "QUJD")
				if !rp.barrier() {
					closed, lerr := rp.loop.State()
					c.Violate("ibb:session-ended:after-peer-close", "%s: after a message-carried packet for the closed sid the session no longer answers (closed=%v err=%v)", when, closed, lerr)
					return false
				}
				if mrep := rp.expect(byID(mid), 0); mrep != nil && errCond(mrep) != "item-not-found" {
					c.Violate("ibb:refusal:closed-sid-peer:wrong-answer", "%s: a message-carried packet for the closed sid was answered with <%s/>", when, errCond(mrep))
					return false
				}
				c.Count("packets_for_sid_closed_by_peer_during_write", 2)
				return true
			}
			if !late("before the acknowledgement of the in-flight packet") {
				return
			}
			ack(n)
			if !late("after the acknowledgement of the in-flight packet") {
				return
			}
			peerClosed = true
			// The stream is gone on this side: whatever the interrupted Write still
			// sends is refused like any packet for an unknown session, until the
			// writer gives up.
			deadline := time.Now().Add(hardLimit)
			for back := false; !back; {
				select {
				case werr = <-wres:
					back = true
					continue
				default:
				}
				if time.Now().After(deadline) {
					var where []string
					for _, pk := range stall.Snapshot(nil) {
						if _, old := base[pk.ID]; !old {
							where = append(where, pk.Func+" ["+pk.State+"]")
						}
					}
					c.Inconclusive("raw receiver: the interrupted writer did not return; parked library goroutines: %v", where)
					return
				}
				m := rp.expect(isStreamEl, 20*time.Millisecond)
				if m == nil {
					continue
				}
				if m.Child(nsIBB, "data") != nil {
					takeData(m)
				}
				// (a <close/> of the library's own that crosses ours is refused the same way)
				if m.Name.Local == "iq" {
					rp.send(fmt.Sprintf(`<iq type='error' id='%s' from='%s' to='%s'><error type='cancel'><item-not-found xmlns='%s'/></error></iq>`, m.Attr("id"), peerAddr, libAddr, nsStanzas))
				}
			}
			// whatever else the library put on the wire
			if !rp.barrier() {
				c.Violate("ibb:session-ended:after-peer-close", "after the peer's <close/> during a Write the session no longer answers")
				return
			}
			for {
				m := rp.expect(isStreamEl, 0)
				if m == nil {
					break
				}
				if m.Child(nsIBB, "data") != nil {
					takeData(m)
				}
			}
			c.Count("peer_closed_during_write", 1)
			break
		}
		ack(n)
	}
	if !peerClosed && !writerBack {
		select {
		case werr = <-wres:
		case <-time.After(hardLimit):
			c.Inconclusive("raw receiver: the writer did not return after its <close/> was answered")
			return
		}
	}
	if werr == errStop {
		return
	}
	if refusedPacket {
		// a packet answered with type='error', whatever else the answer looks
		// like, was not taken: some call of the writer has to say so
		if werr == nil {
			c.Violate("ibb:write:refusal-ignored:"+rs.RefuseShape, "library → raw receiver (iq, block %d): data IQ %d was answered with type='error' (%s), yet every Write, Flush and the Close returned nil", rs.Block, rs.RefuseAt, rs.RefuseShape)
		} else {
			c.Count("refused_packet_reported_to_writer", 1)
		}
		c.Count("raw_receiver_transfers", 1)
		c.Sig("raw-send refuse-packet shape=%s reported=%v", rs.RefuseShape, werr != nil)
		return
	}
	if !peerClosed && werr != nil {
		c.Violate("ibb:write:error", "raw receiver acknowledged everything, yet the writer failed: %v", werr)
	}
	if problem != "" {
		key := "ibb:seq:numbering"
		if strings.Contains(problem, "base64") {
			key = "ibb:corrupt:packet-base64"
		} else if !strings.Contains(problem, "seq=") {
			key = "ibb:wire:addressing"
		}
		c.Violate(key, "library → raw receiver (%s, block %d, peer closed during write: %v): %s", rs.Carrier, rs.Block, peerClosed, problem)
	}
	// (a numbering problem already explains repeated or missing bytes)
	if class, at := diffClass(recv, data); class != "" && problem == "" && !(peerClosed && class == "short") {
		if class == "short" {
			class = "loss"
		}
		c.Violate("ibb:"+class+":sender", "library → raw receiver (%s, block %d, %d bytes, partition %s, peer closed during write: %v): %d bytes arrived in %d packets; first departure (%s) at offset %d: got %s want %s",
			rs.Carrier, rs.Block, len(data), rs.Dir.Part, peerClosed, len(recv), npk, class, at, around(recv, at), around(data, at))
	}
	c.Count("raw_receiver_transfers", 1)
	c.Count("data_packets_on_wire", npk)
	c.Count("carrier_"+rs.Carrier, 1)
	c.Sig("raw-send block=%s %s len=%s part=%s peer-closed=%v", blockClass(rs.Block), rs.Carrier, rs.Dir.LenClass, rs.Dir.Part, peerClosed)
}
