package c15

import (
	"encoding/base64"
	"io"
	"strconv"
	"strings"
	"time"

	"mellium.im/xmpp/verifharness/core"
	"mellium.im/xmpp/verifharness/stall"
)

// rawWrapCase feeds the library's receiving Conn more than 65 536 data
// packets from the hand-written speaker, so that the sequence number passes
// 65535 → 0 in the quick tier too: one-byte payloads, written in large batches,
// never waiting for an acknowledgement in between, with a draining reader.
type rawWrapCase struct {
	Kind    string `json:"kind"`
	Seed    int64  `json:"payload_seed"`
	Carrier string `json:"carrier"`
	Packets int    `json:"packets"`
}

const wrapPackets = 65536 + 5

func runRawWrap(c *core.Case) {
	rw := &rawWrapCase{Kind: "raw-wrap", Seed: c.Rand.Int63(), Packets: wrapPackets}
	// quick: the cheaper message carrier (with IQ-carried packets around the
	// turn-over so that acknowledgements are seen there); thorough: either
	rw.Carrier = "message"
	if c.Tier == "thorough" {
		rw.Carrier = []string{"message", "iq"}[c.Rand.Intn(2)]
	}
	c.Sample(rw)
	execRawWrap(c, rw)
}

func execRawWrap(c *core.Case, rw *rawWrapCase) {
	defer func(d time.Duration) { hardLimit = d }(hardLimit)
	hardLimit = 75 * time.Second
	base := stall.Snapshot(nil)
	rp, err := newRawPeer()
	if err != nil {
		c.Count("setup_failures", 1)
		return
	}
	defer rp.shutdown()
	ln := rp.h.Listen(rp.p.S)
	conn := rp.openAccepted(c, ln, "wrap", 4096, rw.Carrier)
	if conn == nil {
		return
	}
	rd := startReader(conn, 4096, 0, rw.Seed)
	data := payload(rw.Seed, 0, rw.Packets)
	var b64 [256]string
	for i := range b64 {
		b64[i] = base64.StdEncoding.EncodeToString([]byte{byte(i)})
	}
	// The packets go out in batches of a few hundred stanzas per transport
	// write; the stanza id names the packet so that a refusal can be attributed.
	var sb strings.Builder
	flush := func() {
		if sb.Len() > 0 {
			rp.send(sb.String())
			sb.Reset()
		}
	}
	for i := 0; i < rw.Packets; i++ {
		seq := i % 65536
		// On the message carrier the packets around the turn-over (65533 … 2)
		// travel in IQs: the library takes data for a stream from either stanza
		// kind, and an IQ gets an answer that can be checked.
		asIQ := rw.Carrier == "iq" || (i >= 65533 && i <= 65538)
		if asIQ {
			sb.WriteString("<iq type='set' id='w")
			sb.WriteString(strconv.Itoa(i))
			sb.WriteString("'><data xmlns='" + nsIBB + "' seq='")
		} else {
			sb.WriteString("<message id='w")
			sb.WriteString(strconv.Itoa(i))
			sb.WriteString("'><data xmlns='" + nsIBB + "' seq='")
		}
		sb.WriteString(strconv.Itoa(seq))
		sb.WriteString("' sid='wrap'>")
		sb.WriteString(b64[data[i]])
		if asIQ {
			sb.WriteString("</data></iq>")
		} else {
			sb.WriteString("</data></message>")
		}
		if i%400 == 399 {
			flush()
		}
	}
	flush()
	if !rp.barrier() {
		closed, lerr := rp.loop.State()
		c.Violate("ibb:session-ended:during-wrap", "after %d %s-carried packets the session no longer answers (stream from the library closed=%v err=%v)", rw.Packets, rw.Carrier, closed, lerr)
		return
	}
	// Everything the library answered up to the barrier.
	rp.mu.Lock()
	replies := append(rp.backlog, rp.queue...)
	rp.backlog, rp.queue = nil, nil
	rp.mu.Unlock()
	acks := 0
	firstBad, firstBadCond := -1, ""
	otherCarrierRefused := false
	for _, n := range replies {
		id := n.Attr("id")
		if !strings.HasPrefix(id, "w") {
			continue
		}
		k, err := strconv.Atoi(id[1:])
		if err != nil {
			continue
		}
		switch {
		case n.Attr("type") == "error" && n.Name.Local == "iq" && rw.Carrier == "message" && errCond(n) != "unexpected-request":
			// an implementation may insist on the negotiated carrier: not a
			// sequence problem, and nothing the statement forbids
			otherCarrierRefused = true
		case n.Attr("type") == "error":
			if firstBad < 0 || k < firstBad {
				firstBad, firstBadCond = k, errCond(n)
			}
		case n.Name.Local == "iq" && n.Attr("type") == "result":
			acks++
		}
	}
	wrapKey := func(packet int) string {
		if packet >= 65535 {
			return "ibb:seq:wrap" // the first 65 535 packets were fine: the counter's turn-over
		}
		return "ibb:refusal:valid-packet"
	}
	if firstBad >= 0 {
		c.Violate(wrapKey(firstBad), "raw speaker → library (%s carrier, %d packets numbered 0…65535,0…): packet %d (seq %d) was refused with <%s/>", rw.Carrier, rw.Packets, firstBad, firstBad%65536, firstBadCond)
	} else if rw.Carrier == "iq" && acks != rw.Packets {
		c.Violate("ibb:refusal:valid-packet:no-reply", "raw speaker → library (iq carrier): %d of %d data IQs were acknowledged", acks, rw.Packets)
	}
	if otherCarrierRefused {
		c.Count("wrap_iq_on_message_stream_refused", 1)
		c.Count("raw_wrap_runs", 1)
		return // the byte stream rightly has holes where those packets were
	}
	if rw.Carrier == "message" && firstBad < 0 && acks != 6 {
		c.Violate("ibb:refusal:valid-packet:no-reply", "raw speaker → library: %d of the 6 IQ-carried packets around the turn-over (65533…2) were acknowledged", acks)
	}
	c.Count("wrap_acks_checked", acks)
	// The reader must have been able to take every byte, in order.
	if firstBad < 0 && !settle(c, rd, rw.Packets, base, "after the last packet of the wrap run") {
		return
	}
	if rep := rp.closeSID("wrap"); firstBad < 0 && (rep == nil || rep.Attr("type") != "result") {
		c.Violate("ibb:close:refused", "<close/> after the wrap run was answered with %v", rep)
	}
	ended := stall.WaitDone(rd.done, grace)
	got, rerr := rd.snapshot()
	if class, at := diffClass(got, data); class != "" {
		key := "ibb:" + class + ":receiver"
		if class == "short" {
			key = "ibb:loss:receiver"
		}
		if at >= 65535 {
			key = "ibb:seq:wrap"
		}
		if firstBad < 0 || key != wrapKey(firstBad) {
			c.Violate(key, "raw speaker → library (%s carrier): %d one-byte packets sent, the reader got %d bytes (then %v); first departure (%s) at byte/packet %d: got %s want %s",
				rw.Carrier, rw.Packets, len(got), rerr, class, at, around(got, at), around(data, at))
		}
	} else if ended && rerr != io.EOF {
		c.Violate("ibb:eof:error", "wrap run: reader got all %d bytes but then %v instead of io.EOF", len(got), rerr)
	} else if !ended {
		if stuck := newParked(base, isReadFrame); len(stuck) > 0 {
			c.Violate(stall.Key(stuck[0]), "wrap run: the peer closed, the reader has all %d bytes and never reads EOF:\n%s", len(got), stuck[0].Stack)
		}
	} else {
		c.Count("eof_after_close", 1)
	}
	c.Count("raw_wrap_runs", 1)
	c.Count("data_packets_on_wire", rw.Packets)
	c.Count("carrier_"+rw.Carrier, 1)
	c.Sig("raw-wrap %s refused=%v", rw.Carrier, firstBad >= 0)
}
