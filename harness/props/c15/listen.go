package c15

import (
	"bytes"
	"context"
	"encoding/base64"
	"encoding/xml"
	"errors"
	"fmt"
	"io"
	"math/rand"
	"runtime"
	"strings"
	"time"

	"mellium.im/xmlstream"
	"mellium.im/xmpp/ibb"
	"mellium.im/xmpp/jid"
	"mellium.im/xmpp/stanza"

	"mellium.im/xmpp/verifharness/core"
	"mellium.im/xmpp/verifharness/stall"
	"mellium.im/xmpp/verifharness/xmltree"
)

// The accepting side's API: Handler.Listen, Listener.Accept / Expect / Close.
// The raw speaker (or, in two templates, a second library session) opens
// streams while the application waits for them, gives up waiting, or closes
// the listener.  Demanded: no panic; every stream goes to the call that is
// entitled to it (Expect for its sid before Accept); an <open/> is never left
// hanging in the handler once the application has cancelled or closed what it
// could have been handed to — a pending <open/> with a live listener that
// nobody calls Accept on is the application's backlog and is not judged.

type listenCase struct {
	Kind     string `json:"kind"`
	Template string `json:"template"`
	Seed     int64  `json:"seed"`
	Carrier  string `json:"carrier"`
	// NoFrom: the <open/> carries no from attribute, Expect is called with the
	// zero JID.
	NoFrom bool `json:"open_without_from,omitempty"`
	// How the Expect that gives up ends: cancel (while waiting), expired (its
	// deadline has passed before the call), replaced (a second Expect for the
	// same key).
	GiveUp string `json:"give_up,omitempty"`
	// OtherFirst: an <open/> for an unrelated sid comes before the interesting one.
	OtherFirst bool  `json:"other_sid_first,omitempty"`
	N          int   `json:"n,omitempty"`
	Order      []int `json:"order,omitempty"`
}

var listenTemplates = []string{
	"expect-gave-up-then-open", "expect-gave-up-then-open", "expect-live", "expect-replaced",
	"close-while-handing-over", "close-idle", "many", "lib-expect-gave-up", "lib-closed-listener",
}

func genListen(r *rand.Rand, idx int) *listenCase {
	lc := &listenCase{Kind: "listener", Seed: r.Int63()}
	lc.Template = listenTemplates[(idx/10)%len(listenTemplates)]
	lc.Carrier = []string{"iq", "message"}[r.Intn(2)]
	lc.NoFrom = r.Intn(3) == 0
	lc.GiveUp = []string{"cancel", "expired", "cancel"}[r.Intn(3)]
	lc.OtherFirst = r.Intn(2) == 0
	lc.N = 2 + r.Intn(3)
	lc.Order = r.Perm(lc.N + 1) // the last index is a sid nobody expects
	return lc
}

func runListener(c *core.Case) {
	lc := genListen(c.Rand, c.Index)
	c.Sample(lc)
	execListener(c, lc)
}

type taken struct {
	conn *ibb.Conn
	err  error
}

// listenWorld is one library session with a listener and the raw speaker.
type listenWorld struct {
	c    *core.Case
	lc   *listenCase
	rp   *rawPeer
	ln   *ibb.Listener
	base map[string]stall.Parked
	from jid.JID
	dead bool
	gids map[chan taken]string // goroutine running each pending call
}

func goroutineID() string {
	buf := make([]byte, 64)
	buf = buf[:runtime.Stack(buf, false)]
	if f := strings.Fields(string(buf)); len(f) >= 2 {
		return f[1] // "goroutine 123 [running]:"
	}
	return ""
}

func (lw *listenWorld) remember(ch chan taken, gid chan string) {
	if lw.gids == nil {
		lw.gids = map[chan taken]string{}
	}
	lw.gids[ch] = <-gid
}

func (lw *listenWorld) accept(ln *ibb.Listener) chan taken {
	ch := make(chan taken, 1)
	gid := make(chan string, 1)
	defer lw.remember(ch, gid)
	go func() {
		gid <- goroutineID()
		var t taken
		lw.c.Guard("ibb.Listener.Accept", func() {
			nc, err := ln.Accept()
			t.err = err
			if nc != nil {
				t.conn, _ = nc.(*ibb.Conn)
			}
		})
		ch <- t
	}()
	return ch
}

func (lw *listenWorld) expect(ctx context.Context, sid string) chan taken {
	ch := make(chan taken, 1)
	gid := make(chan string, 1)
	defer lw.remember(ch, gid)
	go func() {
		gid <- goroutineID()
		var t taken
		lw.c.Guard("ibb.Listener.Expect", func() {
			nc, err := lw.ln.Expect(ctx, lw.from, sid)
			t.err = err
			if nc != nil {
				t.conn, _ = nc.(*ibb.Conn)
			}
		})
		ch <- t
	}()
	return ch
}

// parked waits until a goroutine that did not exist before the case is parked
// in a library function with the given prefix.
func (lw *listenWorld) parked(prefix string, d time.Duration) *stall.Parked {
	dl := time.Now().Add(d)
	for {
		for _, p := range stall.Snapshot(func(fn string) bool { return strings.HasPrefix(fn, prefix) }) {
			if _, old := lw.base[p.ID]; !old {
				p := p
				return &p
			}
		}
		if time.Now().After(dl) {
			return nil
		}
		time.Sleep(500 * time.Microsecond)
	}
}

// nParked counts such goroutines.
func (lw *listenWorld) nParked(prefix string) int {
	n := 0
	for _, p := range stall.Snapshot(func(fn string) bool { return strings.HasPrefix(fn, prefix) }) {
		if _, old := lw.base[p.ID]; !old {
			n++
		}
	}
	return n
}

func (lw *listenWorld) waitNParked(prefix string, n int, d time.Duration) bool {
	dl := time.Now().Add(d)
	for lw.nParked(prefix) < n {
		if time.Now().After(dl) {
			return false
		}
		time.Sleep(500 * time.Microsecond)
	}
	return true
}

// openAsync sends <open/> and returns its stanza id.
func (lw *listenWorld) openAsync(sid string) string {
	rp := lw.rp
	id := rp.id("open")
	from := " from='" + peerAddr + "'"
	if lw.lc.NoFrom {
		from = ""
	}
	rp.send(fmt.Sprintf(`<iq type='set' id='%s'%s to='%s'><open xmlns='%s' block-size='4096' sid='%s' stanza='%s'/></iq>`, id, from, libAddr, nsIBB, sid, lw.lc.Carrier))
	return id
}

// reply waits for the answer to an <open/>.  entitled says that some call of
// the application is (or was, and has been withdrawn) in a position to decide
// the stream's fate, so the handler has no business waiting; then a serve loop
// that stays parked inside the IBB handler is a violation.
func (lw *listenWorld) reply(id, what string, entitled bool) *xmltree.Node {
	rp := lw.rp
	if rep := rp.expect(byID(id), grace); rep != nil {
		return rep
	}
	if entitled {
		if pk := findWedged(lw.base); pk != nil {
			lw.c.Violate(stall.Key(*pk), "%s: the <open/> is never answered; the serve loop is parked inside the IBB handler although the application is not keeping it waiting:\n%s", what, pk.Stack)
			lw.c.Count("listener_handler_wedged", 1)
			lw.dead = true
			return nil
		}
	}
	rep := rp.expect(byID(id), hardLimit)
	if rep == nil && !lw.dead {
		closed, lerr := rp.loop.State()
		if closed || lerr != nil {
			lw.c.Violate("ibb:listen:session-ended", "%s: the session ended (stream from the library closed=%v err=%v)", what, closed, lerr)
		} else {
			lw.c.Inconclusive("%s: the <open/> was not answered and the stall rule does not apply", what)
		}
		lw.dead = true
	}
	return rep
}

func (lw *listenWorld) take(ch chan taken, what string) (taken, bool) {
	select {
	case t := <-ch:
		return t, true
	case <-time.After(grace):
	}
	// Every call awaited here has been given what it was waiting for (its
	// stream was accepted on the wire, its listener closed, its context ended,
	// its Expect replaced): a call that is still parked will stay so.
	select {
	case t := <-ch:
		return t, true
	default:
	}
	for _, pk := range stall.Check(func(fn string) bool { return strings.HasPrefix(fn, "ibb.(*Listener).") }, 0) {
		if pk.ID == lw.gids[ch] && !lw.dead {
			lw.c.Violate(stall.Key(pk), "%s does not return although what it waits for has happened:\n%s", what, pk.Stack)
			lw.dead = true
			return taken{}, false
		}
	}
	select {
	case t := <-ch:
		return t, true
	case <-time.After(hardLimit):
		if !lw.dead {
			lw.c.Inconclusive("%s did not return", what)
			lw.dead = true
		}
		return taken{}, false
	}
}

func pingPayload() xml.TokenReader {
	return xmlstream.Wrap(nil, xml.StartElement{Name: xml.Name{Space: "urn:xmpp:ping", Local: "ping"}})
}

// use sends a few bytes over an accepted stream from the raw side, closes it
// and checks that the Conn delivers them followed by EOF.
func (lw *listenWorld) use(conn *ibb.Conn, sid string) {
	rp := lw.rp
	data := payload(lw.lc.Seed, len(sid), 7)
	rd := startReader(conn, 64, 0, lw.lc.Seed)
	id := rp.data(lw.lc.Carrier, sid, 0, base64.StdEncoding.EncodeToString(data))
	if lw.lc.Carrier == "iq" {
		if rep := rp.expect(byID(id), hardLimit); rep == nil || rep.Attr("type") != "result" {
			lw.c.Violate("ibb:refusal:valid-packet", "first packet on the accepted stream %q answered with %v", sid, rep)
			return
		}
	}
	if rep := rp.closeSID(sid); rep == nil || rep.Attr("type") != "result" {
		lw.c.Violate("ibb:close:refused", "<close/> for the accepted stream %q answered with %v", sid, rep)
		return
	}
	if !stall.WaitDone(rd.done, hardLimit) {
		lw.c.Inconclusive("reader of accepted stream %q did not end", sid)
		return
	}
	got, rerr := rd.snapshot()
	if !bytes.Equal(got, data) || rerr != io.EOF {
		lw.c.Violate("ibb:corrupt:receiver", "accepted stream %q: sent %x and closed, reader got %x then %v", sid, data, got, rerr)
		return
	}
	lw.c.Count("listener_streams_used", 1)
}

// handedTo checks that a call returned the stream with the wanted sid.
func (lw *listenWorld) handedTo(t taken, call, sid string) bool {
	if t.err != nil || t.conn == nil {
		lw.c.Violate("ibb:listen:taker-failed", "%s was entitled to stream %q but returned %v", call, sid, t.err)
		return false
	}
	if t.conn.SID() != sid {
		lw.c.Violate("ibb:listen:wrong-taker", "%s returned the stream with sid %q, the stream meant for it is %q", call, t.conn.SID(), sid)
		return false
	}
	return true
}

func isResult(n *xmltree.Node) bool { return n != nil && n.Attr("type") == "result" }

func execListener(c *core.Case, lc *listenCase) {
	switch lc.Template {
	case "lib-expect-gave-up", "lib-closed-listener":
		execListenerLib(c, lc)
		return
	}
	base := stall.Snapshot(nil)
	rp, err := newRawPeer()
	if err != nil {
		c.Count("setup_failures", 1)
		return
	}
	defer rp.shutdown()
	lw := &listenWorld{c: c, lc: lc, rp: rp, base: base}
	if !lc.NoFrom {
		lw.from = jid.MustParse(peerAddr)
	}
	lw.ln = rp.h.Listen(rp.p.S)
	outcome := "ok"
	defer func() {
		if c.Violated() {
			outcome = "violated"
		}
		c.Count("listener_cases", 1)
		c.Count("listener_"+strings.ReplaceAll(lc.Template, "-", "_"), 1)
		c.Sig("listener %s %s nofrom=%v giveup=%s otherfirst=%v outcome=%s", lc.Template, lc.Carrier, lc.NoFrom, lc.GiveUp, lc.OtherFirst, outcome)
	}()
	alive := func(what string) bool {
		if lw.dead {
			return false
		}
		if !rp.barrier() {
			closed, lerr := rp.loop.State()
			c.Violate("ibb:listen:session-ended", "%s: the session no longer answers (stream from the library closed=%v err=%v)", what, closed, lerr)
			return false
		}
		return true
	}
	// other: an unrelated stream that goes to a pending Accept
	other := func(k int) bool {
		sid := fmt.Sprintf("other%d", k)
		ach := lw.accept(lw.ln)
		if !lw.waitNParked("ibb.(*Listener).Accept", 1, grace) {
			return true
		}
		rep := lw.reply(lw.openAsync(sid), "unrelated stream", true)
		if lw.dead {
			return false
		}
		if !isResult(rep) {
			c.Violate("ibb:open:listener-refused", "Accept is waiting, yet <open sid=%q/> was answered with %v", sid, rep)
			return false
		}
		t, ok := lw.take(ach, "Accept")
		if !ok || !lw.handedTo(t, "Accept", sid) {
			return false
		}
		lw.use(t.conn, sid)
		return !c.Violated()
	}

	switch lc.Template {
	case "expect-gave-up-then-open":
		// An Expect gives up; later the stream it was waiting for is opened
		// after all.  An Accept is waiting, so nothing keeps the handler.
		const sid = "wanted"
		var ech chan taken
		switch lc.GiveUp {
		case "expired":
			ctx, cancel := context.WithDeadline(context.Background(), time.Now().Add(-time.Second))
			defer cancel()
			ech = lw.expect(ctx, sid)
		default:
			ctx, cancel := context.WithCancel(context.Background())
			ech = lw.expect(ctx, sid)
			lw.parked("ibb.(*Listener).Expect", grace)
			cancel()
		}
		t, ok := lw.take(ech, "the Expect that gave up")
		if !ok {
			return
		}
		if t.err == nil || !(errors.Is(t.err, context.Canceled) || errors.Is(t.err, context.DeadlineExceeded)) {
			c.Violate("ibb:listen:expect-result", "Expect with a %s context returned conn=%v err=%v", lc.GiveUp, t.conn != nil, t.err)
			return
		}
		c.Count("listener_expects_given_up", 1)
		if lc.OtherFirst && !other(1) {
			return
		}
		ach := lw.accept(lw.ln)
		lw.waitNParked("ibb.(*Listener).Accept", 1, grace)
		rep := lw.reply(lw.openAsync(sid), "<open/> for a sid whose Expect had given up ("+lc.GiveUp+"), Accept waiting", true)
		if lw.dead {
			return
		}
		if isResult(rep) {
			t, ok := lw.take(ach, "Accept")
			if !ok || !lw.handedTo(t, "Accept (after the Expect for the sid gave up)", sid) {
				return
			}
			lw.use(t.conn, sid)
		} else {
			// refusing it would also be a decision; the Accept then stays pending
			c.Count("listener_open_refused_after_expect_gave_up", 1)
		}
		if !lc.OtherFirst && !c.Violated() && isResult(rep) {
			other(2)
		}
		alive("after the streams")

	case "expect-live":
		// Expect takes precedence over Accept for its sid, Accept gets the rest.
		const sid = "wanted"
		ctx, cancel := context.WithCancel(context.Background())
		defer cancel()
		ech := lw.expect(ctx, sid)
		ach := lw.accept(lw.ln)
		if lw.parked("ibb.(*Listener).Expect", grace) == nil || !lw.waitNParked("ibb.(*Listener).Accept", 1, grace) {
			return
		}
		sids := []string{sid, "unexpected"}
		if lc.OtherFirst {
			sids = []string{"unexpected", sid}
		}
		for _, s := range sids {
			rep := lw.reply(lw.openAsync(s), "<open sid="+s+"/> with Expect(wanted) and Accept both waiting", true)
			if lw.dead {
				return
			}
			if !isResult(rep) {
				c.Violate("ibb:open:listener-refused", "Expect and Accept are waiting, yet <open sid=%q/> was answered with %v", s, rep)
				return
			}
			ch, call := ach, "Accept"
			if s == sid {
				ch, call = ech, "Expect(wanted)"
			}
			t, ok := lw.take(ch, call)
			if !ok || !lw.handedTo(t, call, s) {
				return
			}
			lw.use(t.conn, s)
			if c.Violated() {
				return
			}
		}
		c.Count("listener_expect_took_precedence", 1)
		alive("after the streams")

	case "expect-replaced":
		// A second Expect for the same key cancels the first and takes over.
		const sid = "wanted"
		e1 := lw.expect(context.Background(), sid)
		if lw.parked("ibb.(*Listener).Expect", grace) == nil {
			return
		}
		e2 := lw.expect(context.Background(), sid)
		t1, ok := lw.take(e1, "the first Expect")
		if !ok {
			return
		}
		if t1.conn != nil || !errors.Is(t1.err, context.Canceled) {
			c.Violate("ibb:listen:expect-not-replaced", "a second Expect for the same sender and sid was made; the first returned conn=%v err=%v, want a context error", t1.conn != nil, t1.err)
			return
		}
		lw.waitNParked("ibb.(*Listener).Expect", 1, grace)
		rep := lw.reply(lw.openAsync(sid), "<open/> for a sid with a replaced Expect", true)
		if lw.dead {
			return
		}
		if !isResult(rep) {
			c.Violate("ibb:open:listener-refused", "an Expect is waiting, yet <open sid=%q/> was answered with %v", sid, rep)
			return
		}
		t2, ok := lw.take(e2, "the second Expect")
		if !ok || !lw.handedTo(t2, "the second Expect", sid) {
			return
		}
		lw.use(t2.conn, sid)
		c.Count("listener_expect_replaced", 1)
		alive("after the stream")

	case "close-while-handing-over":
		// Nobody accepts; the handler is holding an <open/> for the backlog when
		// the application closes the listener.
		id := lw.openAsync("backlog")
		pk := lw.parked("ibb.handleOpen", grace)
		if pk == nil {
			// answered straight away (refused, or queued elsewhere): nothing to force
			c.Count("listener_backlog_not_held_by_handler", 1)
		} else {
			c.Count("listener_closed_while_open_pending", 1)
		}
		var cerr error
		closed := make(chan struct{})
		go func() {
			defer close(closed)
			c.Guard("ibb.Listener.Close", func() { cerr = lw.ln.Close() })
		}()
		select {
		case <-closed:
		case <-time.After(grace):
			// Close waits for something.  The only other actor is the handler,
			// which holds the <open/> until the listener is closed or somebody
			// accepts: if both are parked (three samples), neither will ever move.
			var inClose, inOpen *stall.Parked
			for _, p := range stall.Check(func(fn string) bool {
				return strings.HasPrefix(fn, "ibb.(*Listener).Close") || strings.HasPrefix(fn, "ibb.handleOpen")
			}, 0) {
				p := p
				if _, old := lw.base[p.ID]; old {
					continue
				}
				if strings.HasPrefix(p.Func, "ibb.(*Listener).Close") {
					inClose = &p
				} else {
					inOpen = &p
				}
			}
			if inClose != nil && inOpen != nil {
				c.Violate(stall.Key(*inClose), "Listener.Close was called while the handler held an <open/> for Accept; Close never returns and the handler never lets go (nobody accepts, nothing else can happen):\n%s\n%s", inClose.Stack, inOpen.Stack)
				lw.dead = true
				return
			}
			select {
			case <-closed:
			case <-time.After(hardLimit):
				c.Inconclusive("Listener.Close did not return and the stall rule does not apply")
				lw.dead = true
				return
			}
		}
		if cerr != nil {
			c.Notef("Close returned %v", cerr)
		}
		rep := lw.reply(id, "Listener.Close while an <open/> was waiting for Accept", true)
		if lw.dead {
			return
		}
		if !alive("after Listener.Close with an <open/> pending") {
			return
		}
		// the listener is gone: Accept fails, new streams are refused
		t, ok := lw.take(lw.accept(lw.ln), "Accept on the closed listener")
		if !ok {
			return
		}
		if t.err == nil {
			if t.conn != nil && t.conn.SID() == "backlog" && isResult(rep) {
				// handing the pending stream to a late Accept is a defensible reading
				c.Count("listener_backlog_survived_close", 1)
			} else {
				c.Violate("ibb:listen:accept-after-close", "Accept on a closed listener returned a stream and no error")
				return
			}
		}
		rep2 := lw.reply(lw.openAsync("late"), "<open/> after Listener.Close", true)
		if lw.dead {
			return
		}
		if isResult(rep2) {
			c.Violate("ibb:listen:open-accepted-after-close", "the listener was closed (Accept reports it), yet a new <open/> was answered with a result")
			return
		}
		if isResult(rep) {
			// the pending stream was accepted on the wire although nobody will
			// ever hold its Conn; its packets must at least be answered
			did := rp.data("iq", "backlog", 0, "QUJD")
			if rp.expect(byID(did), hardLimit) == nil {
				c.Violate("ibb:listen:session-ended", "a packet for the stream that was pending at Close is never answered")
				return
			}
		}
		alive("at the end")

	case "close-idle":
		ach := lw.accept(lw.ln)
		if !lw.waitNParked("ibb.(*Listener).Accept", 1, grace) {
			return
		}
		c.Guard("ibb.Listener.Close", func() { lw.ln.Close() })
		t, ok := lw.take(ach, "the Accept that was pending at Close")
		if !ok {
			return
		}
		if t.err == nil {
			c.Violate("ibb:listen:accept-after-close", "Listener.Close returned, the pending Accept returned conn=%v and a nil error", t.conn != nil)
			return
		}
		c.Count("listener_close_unblocked_accept", 1)
		// closing again must not blow up
		c.Guard("ibb.Listener.Close(second)", func() { lw.ln.Close() })
		if c.Violated() {
			return
		}
		if rep := lw.reply(lw.openAsync("late"), "<open/> after Listener.Close", true); isResult(rep) {
			c.Violate("ibb:listen:open-accepted-after-close", "the listener was closed, yet a new <open/> was answered with a result")
			return
		}
		if lw.dead {
			return
		}
		// a new listener for the session works
		ln2 := rp.h.Listen(rp.p.S)
		if ln2 == lw.ln {
			c.Violate("ibb:listen:closed-listener-returned", "Handler.Listen after Listener.Close returned the closed listener")
			return
		}
		lw.ln = ln2
		if other(3) {
			c.Count("listener_relisten_works", 1)
		}
		alive("at the end")

	case "many":
		// several Expects and an accept loop at once, streams opened in PRNG order
		var ech []chan taken
		for k := 0; k < lc.N; k++ {
			ech = append(ech, lw.expect(context.Background(), fmt.Sprintf("want%d", k)))
		}
		ach := lw.accept(lw.ln)
		if !lw.waitNParked("ibb.(*Listener).Expect", lc.N, grace) || !lw.waitNParked("ibb.(*Listener).Accept", 1, grace) {
			return
		}
		for _, k := range lc.Order {
			sid, ch, call := "", ach, "Accept"
			if k < lc.N {
				sid, ch, call = fmt.Sprintf("want%d", k), ech[k], fmt.Sprintf("Expect(want%d)", k)
			} else {
				sid = "unexpected"
			}
			rep := lw.reply(lw.openAsync(sid), "<open sid="+sid+"/> with "+fmt.Sprint(lc.N)+" Expects and an Accept waiting", true)
			if lw.dead {
				return
			}
			if !isResult(rep) {
				c.Violate("ibb:open:listener-refused", "takers are waiting, yet <open sid=%q/> was answered with %v", sid, rep)
				return
			}
			t, ok := lw.take(ch, call)
			if !ok || !lw.handedTo(t, call, sid) {
				return
			}
			lw.use(t.conn, sid)
			if c.Violated() {
				return
			}
		}
		c.Count("listener_concurrent_expects", lc.N)
		alive("at the end")
	}
}

// execListenerLib: the opener is a second library session, so that what Open
// returns is judged too.
func execListenerLib(c *core.Case, lc *listenCase) {
	base := stall.Snapshot(nil)
	p, err := newLibPair(lc.Seed, shaping{})
	if err != nil {
		c.Count("setup_failures", 1)
		return
	}
	defer p.shutdown()
	lw := &listenWorld{c: c, lc: lc, base: base} // A's stanzas carry no from: the zero JID is the key
	lw.ln = p.B.h.Listen(p.B.s)
	outcome := "ok"
	defer func() {
		if c.Violated() {
			outcome = "violated"
		}
		c.Count("listener_cases", 1)
		c.Count("listener_"+strings.ReplaceAll(lc.Template, "-", "_"), 1)
		c.Sig("listener %s %s giveup=%s outcome=%s", lc.Template, lc.Carrier, lc.GiveUp, outcome)
	}()
	type opened struct {
		conn *ibb.Conn
		err  error
	}
	open := func(sid string) (opened, bool) {
		och := make(chan opened, 1)
		ctx, cancel := context.WithTimeout(context.Background(), hardLimit)
		defer cancel()
		go func() {
			var o opened
			c.Guard("ibb.OpenIQ", func() {
				o.conn, o.err = p.A.h.OpenIQ(ctx, stanza.IQ{To: jid.MustParse(addrB)}, p.A.s, lc.Carrier == "iq", 4096, sid)
			})
			och <- o
		}()
		select {
		case o := <-och:
			return o, true
		case <-time.After(2 * grace):
		}
		if pk := findWedged(base); pk != nil {
			c.Violate(stall.Key(*pk), "Open(sid %q) is not answered; the accepting side's serve loop is parked inside the IBB handler although the application is not keeping it waiting:\n%s", sid, pk.Stack)
			c.Count("listener_handler_wedged", 1)
			return opened{}, false
		}
		select {
		case o := <-och:
			return o, true
		case <-time.After(hardLimit + grace):
			c.Inconclusive("Open did not return")
			return opened{}, false
		}
	}
	switch lc.Template {
	case "lib-expect-gave-up":
		const sid = "wanted"
		ctx, cancel := context.WithCancel(context.Background())
		if lc.GiveUp == "expired" {
			cancel()
			ctx, cancel = context.WithDeadline(context.Background(), time.Now().Add(-time.Second))
		}
		ech := lw.expect(ctx, sid)
		if lc.GiveUp != "expired" {
			lw.parked("ibb.(*Listener).Expect", grace)
		}
		cancel()
		t, ok := lw.take(ech, "the Expect that gave up")
		if !ok {
			return
		}
		if t.err == nil {
			c.Violate("ibb:listen:expect-result", "Expect with a %s context returned a nil error", lc.GiveUp)
			return
		}
		c.Count("listener_expects_given_up", 1)
		ach := lw.accept(lw.ln)
		lw.waitNParked("ibb.(*Listener).Accept", 1, grace)
		o, ok := open(sid)
		if !ok {
			return
		}
		if o.err != nil {
			// a refusal is a decision as well
			c.Count("listener_open_refused_after_expect_gave_up", 1)
			return
		}
		ta, ok := lw.take(ach, "Accept")
		if !ok || !lw.handedTo(ta, "Accept (after the Expect for the sid gave up)", sid) {
			return
		}
		// a few bytes across, then close
		data := payload(lc.Seed, 1, 11)
		rd := startReader(ta.conn, 64, 0, lc.Seed)
		var werr error
		c.Guard("ibb.Conn.Write", func() {
			if _, werr = o.conn.Write(data); werr == nil {
				werr = o.conn.Close()
			}
		})
		if werr != nil {
			c.Violate("ibb:write:error", "writing 11 bytes to the stream accepted after a withdrawn Expect: %v", werr)
			return
		}
		if !stall.WaitDone(rd.done, hardLimit) {
			c.Inconclusive("reader did not end")
			return
		}
		if got, rerr := rd.snapshot(); !bytes.Equal(got, data) || rerr != io.EOF {
			c.Violate("ibb:corrupt:receiver", "sent %x and closed, reader got %x then %v", data, got, rerr)
			return
		}
		c.Count("listener_streams_used", 1)
	case "lib-closed-listener":
		// the accepting application has closed its listener: Open must not succeed
		c.Guard("ibb.Listener.Close", func() { lw.ln.Close() })
		o, ok := open("nobody-home")
		if !ok {
			return
		}
		if o.err == nil {
			c.Violate("ibb:open:succeeded-without-listener", "the peer's listener is closed, yet Open returned a Conn and a nil error")
			return
		}
		c.Count("refused_opens", 1)
		c.Count("listener_open_refused_closed_listener", 1)
	}
	// both serve loops still answer
	for _, pr := range [][2]*end{{p.A, p.B}, {p.B, p.A}} {
		pctx, pcancel := context.WithTimeout(context.Background(), hardLimit)
		perr := pr[0].s.UnmarshalIQElement(pctx, pingPayload(), stanza.IQ{Type: stanza.GetIQ, To: pr[1].s.LocalAddr()}, nil)
		pcancel()
		if errors.Is(perr, context.DeadlineExceeded) {
			if pk := findWedged(base); pk != nil {
				c.Violate(stall.Key(*pk), "end %s no longer answers a ping:\n%s", pr[1].name, pk.Stack)
			} else {
				c.Inconclusive("end %s does not answer a ping", pr[1].name)
			}
			return
		}
	}
}
