package c07

// Stand-alone reproductions of the class keys seen on the unchanged tree: the
// real Session.Serve on a harness transport, no oracle.  They only log (run
// with go test -v -run Repro ./props/c07).

import (
	"encoding/xml"
	"testing"

	"mellium.im/xmlstream"
	"mellium.im/xmpp"
	"mellium.im/xmpp/mux"
	"mellium.im/xmpp/stanza"

	"mellium.im/xmpp/verifharness/sess"
)

func serve(t *testing.T, input string, h xmpp.Handler) {
	p, err := sess.NewPair(sess.Opts{})
	if err != nil {
		t.Fatal(err)
	}
	p.Send(input + "<iq type='get' id='next'><q xmlns='urn:x'/></iq></stream:stream>")
	p.Peer.CloseWrite()
	err = p.S.Serve(h)
	t.Logf("input  %s\nServe  %v\nwire   %s", input, err, p.Lib.Written())
}

// reply:missing:bare:handler-eof — a handler returning io.EOF ends Serve with
// nil: the request is not answered, the following request is never read.
func TestReproHandlerEOF(t *testing.T) {
	serve(t, `<iq type='get' id='q1'><q xmlns='urn:x'/></iq>`, xmpp.HandlerFunc(func(rw xmlstream.TokenReadEncoder, start *xml.StartElement) error {
		for {
			if _, err := rw.Token(); err != nil {
				return err // io.EOF at the end of the element
			}
		}
	}))
}

// reply:missing:mux:payloadless — the multiplexer returns io.EOF for a get/set
// IQ without payload (mux_test.go cases 42/43 pin that value), which Serve
// takes for the end of the stream.
func TestReproMuxPayloadless(t *testing.T) {
	serve(t, `<iq type='get' id='q1'/>`, mux.New(stanza.NSClient))
}

// reply:missing:bare:pseudo-reply-type — an IQ with the request's id and a
// type that is neither result nor error suppresses the automatic reply.
func TestReproPseudoReply(t *testing.T) {
	serve(t, `<iq type='get' id='q1'><q xmlns='urn:x'/></iq>`, xmpp.HandlerFunc(func(rw xmlstream.TokenReadEncoder, start *xml.StartElement) error {
		for _, a := range start.Attr {
			if a.Name.Local == "id" && a.Value != "q1" {
				return nil
			}
		}
		se := xml.StartElement{Name: xml.Name{Local: "iq"}, Attr: []xml.Attr{
			{Name: xml.Name{Local: "id"}, Value: "q1"}, {Name: xml.Name{Local: "type"}, Value: "answer"}}}
		rw.EncodeToken(se)
		return rw.EncodeToken(se.End())
	}))
}
