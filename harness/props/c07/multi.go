package c07

import (
	"encoding/xml"
	"fmt"
	"strings"
	"sync"

	"mellium.im/xmlstream"
	"mellium.im/xmpp"

	"mellium.im/xmpp/verifharness/core"
	"mellium.im/xmpp/verifharness/sess"
	"mellium.im/xmpp/verifharness/xmltree"
)

// Several sessions served at once in one process (a server, a client with
// several accounts): 3-4 sessions, each fed 150 get/set IQs that its handler
// leaves unanswered, all serve loops started together.  Every request must be
// answered on its own session, once, with its own id and addressed to its own
// sender: what one session uses to build its default reply is not shared with
// the others.

type multiSample struct {
	Kind     string `json:"kind"`
	Sessions int    `json:"sessions"`
	Requests int    `json:"requests_per_session"`
}

func runMulti(c *core.Case) {
	r := c.Rand
	n := 3 + r.Intn(2)
	const m = 150
	c.Sample(multiSample{Kind: "concurrent-sessions", Sessions: n, Requests: m})
	c.Count("multi_session_cases", 1)
	pairs := make([]*sess.Pair, n)
	for k := range pairs {
		p, err := sess.NewPair(sess.Opts{S2S: k%3 == 2})
		if err != nil {
			c.Inconclusive("multi: cannot build session %d: %v", k, err)
			return
		}
		pairs[k] = p
		defer func() { p.Peer.Close(); p.Lib.Close() }()
	}
	sender := func(k int) string { return fmt.Sprintf("user%d@example.org/r%d", k, k) }
	for k, p := range pairs {
		var sb strings.Builder
		for i := 0; i < m; i++ {
			fmt.Fprintf(&sb, "<iq type='%s' id='s%d-%d' from='%s'><q xmlns='urn:c07:multi'/></iq>", pick(r, "get", "set"), k, i, sender(k))
		}
		p.Send(sb.String())
		p.ClosePeer()
		p.Peer.CloseWrite()
	}
	start := make(chan struct{})
	var wg sync.WaitGroup
	errs := make([]error, n)
	for k, p := range pairs {
		k, p := k, p
		wg.Add(1)
		go func() {
			defer wg.Done()
			<-start
			c.Guard("Serve", func() {
				errs[k] = p.S.Serve(xmpp.HandlerFunc(func(xmlstream.TokenReadEncoder, *xml.StartElement) error { return nil }))
			})
		}()
	}
	close(start)
	wg.Wait()
	for k, p := range pairs {
		if errs[k] != nil {
			c.Violate("multi:serve-ended", "session %d of %d served concurrently: well-formed requests, a handler that does nothing, the peer's closing tag, and Serve returned %v", k, n, errs[k])
			return
		}
		seen := map[string]int{}
		for _, e := range xmltree.ParseStream(p.Lib.Written(), true).Elems {
			if e.Name.Local != "iq" {
				continue
			}
			id := e.Attr("id")
			if !strings.HasPrefix(id, fmt.Sprintf("s%d-", k)) {
				c.Violate("multi:reply:foreign-id", "session %d of %d served concurrently wrote a reply with id %q, which is not the id of any request it received (its requests are s%d-0 … s%d-%d): %s", k, n, id, k, k, m-1, e)
				return
			}
			if to := e.Attr("to"); to != sender(k) {
				c.Violate("multi:reply:to", "session %d of %d served concurrently addressed the reply to %q to %q, the request came from %q", k, n, id, to, sender(k))
				return
			}
			seen[id]++
		}
		for i := 0; i < m; i++ {
			id := fmt.Sprintf("s%d-%d", k, i)
			if seen[id] != 1 {
				c.Violate("multi:reply:count", "session %d of %d served concurrently answered request %q %d times", k, n, id, seen[id])
				return
			}
		}
		c.Count("multi_session_requests_answered", m)
	}
	c.Sig("multi|n=%d", n)
}
