package c07

import (
	"encoding/xml"
	"fmt"
	"runtime"
	"strings"
	"sync"
	"sync/atomic"

	"mellium.im/xmlstream"
	"mellium.im/xmpp"
	"mellium.im/xmpp/mux"
	"mellium.im/xmpp/stanza"

	"mellium.im/xmpp/verifharness/core"
	"mellium.im/xmpp/verifharness/sess"
	"mellium.im/xmpp/verifharness/xmltree"
)

// Several sessions served at once in one process (a server, a client with
// several accounts): 3-4 sessions, each fed 150 get/set IQs that its handler
// leaves unanswered, all serve loops started together.  Every request must be
// answered on its own session, once, with its own id and addressed to its own
// sender: what one session uses to build its default reply is not shared with
// the others.
//
// Every other such case serves all the sessions through ONE multiplexer value
// (a server that has one ServeMux for all its clients) whose IQ handler answers
// every second request itself: before it writes, it yields until a handler
// call for another session has begun (or 300 yields have passed), so that the
// calls of different sessions overlap inside the multiplexer.  The handler's
// own reply must then be the only one for its request, on its own session.

type multiSample struct {
	Kind     string `json:"kind"`
	Shared   bool   `json:"one_multiplexer_for_all_sessions,omitempty"`
	Sessions int    `json:"sessions"`
	Requests int    `json:"requests_per_session"`
}

func runMulti(c *core.Case, shared bool) {
	r := c.Rand
	n := 3 + r.Intn(2)
	const m = 150
	c.Sample(multiSample{Kind: "concurrent-sessions", Shared: shared, Sessions: n, Requests: m})
	c.Count("multi_session_cases", 1)
	var handler xmpp.Handler = xmpp.HandlerFunc(func(xmlstream.TokenReadEncoder, *xml.StartElement) error { return nil })
	var entered, overlapped int64
	if shared {
		c.Count("multi_session_cases_with_one_multiplexer", 1)
		answer := func(iq stanza.IQ, t xmlstream.TokenReadEncoder, _ *xml.StartElement) error {
			mine := atomic.AddInt64(&entered, 1)
			if !strings.HasSuffix(iq.ID, "0") && !strings.HasSuffix(iq.ID, "2") && !strings.HasSuffix(iq.ID, "5") && !strings.HasSuffix(iq.ID, "7") {
				return nil // left to the session
			}
			for y := 0; y < 300 && atomic.LoadInt64(&entered) == mine; y++ {
				runtime.Gosched()
			}
			if atomic.LoadInt64(&entered) != mine {
				atomic.AddInt64(&overlapped, 1)
			}
			_, err := xmlstream.Copy(t, xmlstream.Wrap(
				xmlstream.Wrap(nil, xml.StartElement{Name: xml.Name{Space: "urn:c07:multi", Local: "answer"}}),
				xml.StartElement{Name: xml.Name{Local: "iq"}, Attr: []xml.Attr{
					{Name: xml.Name{Local: "type"}, Value: "result"},
					{Name: xml.Name{Local: "id"}, Value: iq.ID},
					{Name: xml.Name{Local: "to"}, Value: iq.From.String()},
				}}))
			return err
		}
		// one multiplexer per stream namespace would not be one value: the cases
		// of this kind have client sessions only
		c.Guard("mux.New", func() {
			handler = mux.New(stanza.NSClient,
				mux.IQFunc(stanza.GetIQ, xml.Name{Space: "urn:c07:multi", Local: "q"}, answer),
				mux.IQFunc(stanza.SetIQ, xml.Name{Space: "urn:c07:multi", Local: "q"}, answer))
		})
	}
	pairs := make([]*sess.Pair, n)
	for k := range pairs {
		p, err := sess.NewPair(sess.Opts{S2S: k%3 == 2 && !shared})
		if err != nil {
			c.Inconclusive("multi: cannot build session %d: %v", k, err)
			return
		}
		pairs[k] = p
		defer func() { p.Peer.Close(); p.Lib.Close() }()
	}
	sender := func(k int) string { return fmt.Sprintf("user%d@example.org/r%d", k, k) }
	for k, p := range pairs {
		var sb strings.Builder
		for i := 0; i < m; i++ {
			fmt.Fprintf(&sb, "<iq type='%s' id='s%d-%d' from='%s'><q xmlns='urn:c07:multi'/></iq>", pick(r, "get", "set"), k, i, sender(k))
		}
		p.Send(sb.String())
		p.ClosePeer()
		p.Peer.CloseWrite()
	}
	start := make(chan struct{})
	var wg sync.WaitGroup
	errs := make([]error, n)
	for k, p := range pairs {
		k, p := k, p
		wg.Add(1)
		go func() {
			defer wg.Done()
			<-start
			c.Guard("Serve", func() {
				errs[k] = p.S.Serve(handler)
			})
		}()
	}
	close(start)
	wg.Wait()
	for k, p := range pairs {
		if errs[k] != nil {
			c.Violate("multi:serve-ended", "session %d of %d served concurrently: well-formed requests, a handler that does nothing, the peer's closing tag, and Serve returned %v", k, n, errs[k])
			return
		}
		seen := map[string]int{}
		for _, e := range xmltree.ParseStream(p.Lib.Written(), true).Elems {
			if e.Name.Local != "iq" {
				continue
			}
			id := e.Attr("id")
			if !strings.HasPrefix(id, fmt.Sprintf("s%d-", k)) {
				c.Violate("multi:reply:foreign-id", "session %d of %d served concurrently wrote a reply with id %q, which is not the id of any request it received (its requests are s%d-0 … s%d-%d): %s", k, n, id, k, k, m-1, e)
				return
			}
			if to := e.Attr("to"); to != sender(k) {
				c.Violate("multi:reply:to", "session %d of %d served concurrently addressed the reply to %q to %q, the request came from %q", k, n, id, to, sender(k))
				return
			}
			seen[id]++
			own := e.Child("urn:c07:multi", "answer") != nil
			wantOwn := shared && (strings.HasSuffix(id, "0") || strings.HasSuffix(id, "2") || strings.HasSuffix(id, "5") || strings.HasSuffix(id, "7"))
			if own != wantOwn {
				c.Violate("multi:reply:wrong-author", "session %d of %d served concurrently through one multiplexer: the reply to %q is %s (handler answered it itself: %v)", k, n, id, e, wantOwn)
				return
			}
		}
		for i := 0; i < m; i++ {
			id := fmt.Sprintf("s%d-%d", k, i)
			if seen[id] != 1 {
				c.Violate("multi:reply:count", "session %d of %d served concurrently answered request %q %d times", k, n, id, seen[id])
				return
			}
		}
		c.Count("multi_session_requests_answered", m)
	}
	if shared {
		c.Count("multi_session_handler_calls_overlapping_another_sessions_call", int(atomic.LoadInt64(&overlapped)))
	}
	c.Sig("multi|n=%d|shared=%v", n, shared)
}
