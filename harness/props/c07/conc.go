package c07

import (
	"context"
	"encoding/xml"
	"fmt"
	"io"
	"math/rand"
	"sync"
	"sync/atomic"
	"time"

	"mellium.im/xmlstream"
	"mellium.im/xmpp/jid"
	"mellium.im/xmpp/stanza"

	"mellium.im/xmpp/verifharness/core"
	"mellium.im/xmpp/verifharness/ctrl"
	"mellium.im/xmpp/verifharness/stall"
	"mellium.im/xmpp/verifharness/xmltree"
)

// Concurrent scenarios: the application uses the session while Serve runs on
// its own goroutine and the peer sends get/set IQs (Input, one program each,
// none of which fails).  Whatever the application does, every request must
// still be answered exactly once and Serve must run until the peer's closing
// tag.  All waits are bounded and end in INCONCLUSIVE; pauses only make a
// misbehaviour more likely to show, they never decide a verdict.
//
//   own-request    the application has a request of its own pending; the
//                  peer's response arrives before/between/after the incoming
//                  requests and is consumed in one of several patterns
//   parked-send    the application transmits a multi-token stanza whose
//                  payload reader pauses after the start tag until a handler
//                  is about to write its reply (or has returned)
//   stalled-reply  the transport stops accepting writes while the serve loop
//                  writes a reply; meanwhile the application calls Send with a
//                  context that expires while it waits; then the transport is
//                  released

// Conc describes a concurrent scenario.
type Conc struct {
	Kind    string `json:"kind"`
	Consume string `json:"consume,omitempty"`  // own-request: start | payload | nested-stop | to-end | decode | copy
	RespPos int    `json:"resp_pos,omitempty"` // own-request: the response comes before incoming request number RespPos
	Via     string `json:"via,omitempty"`      // own-request: SendIQ | SendIQElement | IterIQ | IterIQElement | UnmarshalIQ | UnmarshalIQElement; parked-send / stalled-reply: Send | SendElement
	// RespType (own-request): the type of the peer's response to our own
	// request: "" or result, or error (a well-formed error reply, which the
	// Iter/Unmarshal helpers turn into an error value themselves).
	RespType string `json:"resp_type,omitempty"`
	// CancelAtHandover (own-request): the requester's context is cancelled on the
	// serve loop's goroutine right after the response was handed over, before the
	// requester has taken a step with it.  Whatever the call returns, the
	// response must be disposed of and the requests that follow answered.
	CancelAtHandover bool `json:"cancel_at_handover,omitempty"`
}

const ownID = "c07-own"

func genConc(r *rand.Rand, sc *Scenario, streamNS string) {
	cc := &Conc{Kind: pick(r, "own-request", "own-request", "own-request", "parked-send", "parked-send", "stalled-reply")}
	n := 1 + r.Intn(3)
	from := pick(r, "juliet@example.org/balcony", "example.org", "romeo@example.org")
	for i := 0; i < n; i++ {
		sc.Input = append(sc.Input, fmt.Sprintf("<iq type='%s' id='q%d' from='%s'>%s</iq>", pick(r, "get", "set"), i+1, from, pick(r, `<q xmlns='urn:c07:a'/>`, `<query xmlns='urn:c07:b' node='n'>text</query>`)))
		p := genProgram(r, streamNS)
		p.Ret = "nil"
		for k := range p.Writes {
			p.Writes[k].Abandon = 0
		}
		sc.Programs = append(sc.Programs, p)
	}
	switch cc.Kind {
	case "own-request":
		cc.Consume = pick(r, "start", "payload", "nested-stop", "to-end", "to-end", "decode", "copy")
		cc.RespPos = r.Intn(n + 1)
		cc.Via = pick(r, "SendIQ", "SendIQElement", "IterIQ", "IterIQElement", "UnmarshalIQ", "UnmarshalIQElement")
		cc.RespType = pick(r, "result", "error")
		cc.CancelAtHandover = r.Intn(3) == 0
	case "parked-send":
		cc.Via = pick(r, "Send", "SendElement")
		// the first request's handler writes its reply as the first thing it does
		sc.Programs[0].ReadBefore = 0
		sc.Programs[0].Writes = append([]Write{{Kind: pick(r, "result", "error", "result-payload"), Via: "tokens"}}, sc.Programs[0].Writes...)
	case "stalled-reply":
		cc.Via = pick(r, "Send", "SendElement")
	}
	sc.Conc = cc
}

// parkedReader yields the tokens of a stanza and pauses after the first one
// until release is closed (or the bound passes).
type parkedReader struct {
	toks    []xml.Token
	n       int
	started chan struct{}
	once    sync.Once
	release <-chan struct{}
	byWrite *atomic.Bool
}

func (p *parkedReader) Token() (xml.Token, error) {
	if p.n == 1 {
		p.once.Do(func() { close(p.started) })
		select {
		case <-p.release:
			// give the goroutine that released us the time to get stuck behind the
			// output lock in the middle of what it was about to do
			time.Sleep(2 * time.Millisecond)
		case <-time.After(time.Second):
		}
	}
	if p.n >= len(p.toks) {
		return nil, io.EOF
	}
	t := p.toks[p.n]
	p.n++
	return t, nil
}

func runConc(c *core.Case, sc Scenario) {
	cc := sc.Conc
	p, st, outer, ok := build(c, sc)
	if !ok {
		return
	}
	o := p.Opts
	remote, err := jid.Parse(o.Remote)
	if err != nil {
		c.Inconclusive("conc: bad remote address %q", o.Remote)
		return
	}
	c.Count("streams", 1)
	c.Count("mode_"+sc.Mode, 1)
	c.Count("conc_"+cc.Kind, 1)

	var progress atomic.Int64
	ctx, cancel := context.WithCancel(context.Background())
	defer func() {
		cancel()
		p.Lib.StallWrites(false)
		p.Peer.Close()
		p.Lib.Close()
	}()
	if cc.Kind == "stalled-reply" {
		p.Lib.StallWrites(true)
	}

	// hooks into the handler programs
	release := make(chan struct{})
	var releaseOnce sync.Once
	var byWrite atomic.Bool
	st.onWrite = func() {
		progress.Add(1)
		releaseOnce.Do(func() { byWrite.Store(true); close(release) })
	}
	st.onReturn = func() {
		progress.Add(1)
		releaseOnce.Do(func() { close(release) })
	}
	st.onInvoke = func() {
		// whatever handles the element (a program, the multiplexer's fallback,
		// the session's default reply): the pause ends a moment after it began
		progress.Add(1)
		go func() {
			time.Sleep(5 * time.Millisecond)
			releaseOnce.Do(func() { close(release) })
		}()
	}

	serveDone := make(chan struct{})
	var serveErr error
	go func() {
		defer close(serveDone)
		c.Guard("Serve", func() { serveErr = p.S.Serve(outer) })
		progress.Add(1)
		releaseOnce.Do(func() { close(release) })
	}()

	await := func(what string, cond func() bool, also ...<-chan struct{}) bool {
		deadline := time.Now().Add(waitMax)
		for {
			if cond() {
				return true
			}
			for _, ch := range also {
				select {
				case <-ch:
					return cond()
				default:
				}
			}
			if time.Now().After(deadline) {
				c.Inconclusive("conc %s: %s did not happen within %v", cc.Kind, what, waitMax)
				return false
			}
			time.Sleep(200 * time.Microsecond)
		}
	}
	appMsg := func(marker string) (xml.StartElement, []xml.Token) {
		start := xml.StartElement{Name: xml.Name{Local: "message"}, Attr: []xml.Attr{
			{Name: xml.Name{Local: "to"}, Value: o.Remote}, {Name: xml.Name{Local: "hw"}, Value: marker}}}
		body := xml.StartElement{Name: xml.Name{Local: "body"}}
		return start, []xml.Token{body, xml.CharData("a rather long message from the application"), body.End()}
	}

	appDone := make(chan struct{})
	var ownRequest func(*xmltree.Node) bool
	closing := func() {
		p.ClosePeer()
		p.Peer.CloseWrite()
		progress.Add(1)
	}

	switch cc.Kind {
	case "own-request":
		var got struct {
			name, typ string
			err       error
			toEnd     bool
		}
		reqCtx, reqCancel := context.WithCancel(ctx)
		defer reqCancel()
		if cc.CancelAtHandover {
			ct := ctrl.New()
			defer ct.Close()
			ct.Do("serve.handoff", ownID, func() {
				reqCancel()
				c.Count("conc_own_request_cancelled_at_the_hand_over", 1)
			})
		}
		ctx := reqCtx
		go func() {
			defer close(appDone)
			c.Guard(cc.Via, func() {
				iq := stanza.IQ{ID: ownID, Type: stanza.GetIQ, To: remote}
				ping := xmlstream.Wrap(nil, xml.StartElement{Name: xml.Name{Space: "urn:xmpp:ping", Local: "ping"}})
				var resp xmlstream.TokenReadCloser
				var err error
				switch cc.Via {
				case "SendIQElement":
					resp, err = p.S.SendIQElement(ctx, ping, iq)
				case "IterIQ", "IterIQElement":
					// the iterator helpers: the response's children one by one (how far is
					// Consume's business); an error reply comes back as an error value
					var it *xmlstream.Iter
					if cc.Via == "IterIQ" {
						it, _, err = p.S.IterIQ(ctx, iq.Wrap(ping))
					} else {
						it, _, err = p.S.IterIQElement(ctx, ping, iq)
					}
					got.err = err
					if it != nil {
						got.name, got.typ = "iq", "result"
						for n := 0; it.Next(); n++ {
							if cc.Consume == "start" || (cc.Consume == "payload" && n > 0) {
								break
							}
							if _, r := it.Current(); r != nil && cc.Consume != "nested-stop" {
								xmlstream.Copy(xmlstream.Discard(), r)
							}
						}
						it.Close()
					}
					progress.Add(1)
					return
				case "UnmarshalIQ", "UnmarshalIQElement":
					var v struct {
						XMLName xml.Name `xml:"urn:c07:pong pong"`
					}
					if cc.Via == "UnmarshalIQ" {
						err = p.S.UnmarshalIQ(ctx, iq.Wrap(ping), &v)
					} else {
						err = p.S.UnmarshalIQElement(ctx, ping, iq, &v)
					}
					got.err = err
					if err == nil {
						got.name, got.typ = "iq", "result"
					}
					progress.Add(1)
					return
				default:
					resp, err = p.S.SendIQ(ctx, iq.Wrap(ping))
				}
				got.err = err
				if resp == nil {
					return
				}
				defer resp.Close()
				switch cc.Consume {
				case "decode":
					var v struct {
						XMLName xml.Name
						Type    string `xml:"type,attr"`
						Inner   []byte `xml:",innerxml"`
					}
					got.err = xml.NewTokenDecoder(resp).Decode(&v)
					got.name, got.typ, got.toEnd = v.XMLName.Local, v.Type, true
				case "copy":
					tok, _ := resp.Token()
					if se, ok := tok.(xml.StartElement); ok {
						got.name, got.typ = se.Name.Local, attrOf(&se, "type")
					}
					_, got.err = xmlstream.Copy(xmlstream.Discard(), resp)
					got.toEnd = true
				default:
					limit := map[string]int{"start": 1, "payload": 2, "nested-stop": 3, "to-end": 1 << 20}[cc.Consume]
					for i := 0; i < limit; i++ {
						tok, err := resp.Token()
						if i == 0 {
							if se, ok := tok.(xml.StartElement); ok {
								got.name, got.typ = se.Name.Local, attrOf(&se, "type")
							}
						}
						if err != nil {
							got.toEnd = err == io.EOF
							break
						}
					}
				}
				progress.Add(1)
			})
		}()
		ownRequest = func(e *xmltree.Node) bool {
			return e.Name.Local == "iq" && e.Attr("id") == ownID && e.Attr("type") == "get" && !e.HasAttr("hw")
		}
		if !await("our own request appearing on the wire", func() bool {
			for _, e := range xmltree.ParseStream(p.Lib.Written(), true).Elems {
				if ownRequest(e) {
					return true
				}
			}
			return false
		}, appDone) {
			return
		}
		resp := fmt.Sprintf("<iq type='result' id='%s' from='%s'><pong xmlns='urn:c07:pong'><deep><x/>text</deep>tail</pong></iq>", ownID, esc(o.Remote))
		wantTyp := "result"
		if cc.RespType == "error" {
			wantTyp = "error"
			resp = fmt.Sprintf("<iq type='error' id='%s' from='%s'><ping xmlns='urn:xmpp:ping'/><error type='cancel'><item-not-found xmlns='%s'/><text xmlns='%s'>no</text></error></iq>", ownID, esc(o.Remote), nsStanzaErr, nsStanzaErr)
		}
		c.Count("conc_own_request_via_"+cc.Via+"_answered_with_"+wantTyp, 1)
		for i, raw := range sc.Input {
			if i == cc.RespPos {
				p.Send(resp)
			}
			p.Send(raw)
		}
		if cc.RespPos >= len(sc.Input) {
			p.Send(resp)
		}
		closing()
		defer func() {
			if got.toEnd {
				c.Count("conc_own_response_read_to_the_end", 1)
			}
			helper := cc.Via != "SendIQ" && cc.Via != "SendIQElement"
			switch {
			case cc.CancelAtHandover:
				// either outcome (the response, or the context's error) is the call's
			case helper && wantTyp == "error":
				// the helpers report an error reply as an error value
				if got.err == nil {
					c.Violate("conc:own-request:error-reply-taken-for-success", "the requester (%s) returned a nil error for the peer's error reply", cc.Via)
				}
			case got.name != "" && (got.name != "iq" || got.typ != wantTyp):
				c.Violate("conc:own-request:wrong-response", "the requester (%s, consume %s) got <%s type=%q> err=%v instead of the peer's %s", cc.Via, cc.Consume, got.name, got.typ, got.err, wantTyp)
			}
		}()

	case "parked-send":
		start, payload := appMsg("app-parked")
		pr := &parkedReader{started: make(chan struct{}), release: release, byWrite: &byWrite}
		go func() {
			defer close(appDone)
			c.Guard(cc.Via, func() {
				if cc.Via == "SendElement" {
					// the start tag is written by SendElement itself: pause before the
					// first payload token
					pr.toks, pr.n = append([]xml.Token{nil}, payload...), 1
					p.S.SendElement(ctx, pr, start)
				} else {
					pr.toks = append(append([]xml.Token{start}, payload...), start.End())
					p.S.Send(ctx, pr)
				}
				progress.Add(1)
			})
		}()
		// the application is in mid-stanza (start tag encoded, holding the output lock)
		if !await("the application's transmission reaching its pause", func() bool {
			select {
			case <-pr.started:
				return true
			default:
				return false
			}
		}, appDone) {
			return
		}
		p.Send(st.input)
		closing()
		defer func() {
			if byWrite.Load() {
				c.Count("conc_parked_send_released_by_handler_write", 1)
			}
		}()

	case "stalled-reply":
		_, w0, _ := p.Lib.Ops()
		p.Send(sc.Input[0])
		// the serve loop is stuck writing the reply to the first request
		if !await("the serve loop's write of the first reply", func() bool { _, w, _ := p.Lib.Ops(); return w > w0 }, serveDone) {
			return
		}
		c.Count("conc_stalled_reply_write_was_blocked", 1)
		start, payload := appMsg("app-short-ctx")
		go func() {
			defer close(appDone)
			c.Guard(cc.Via, func() {
				sctx, scancel := context.WithTimeout(ctx, 15*time.Millisecond)
				defer scancel()
				if cc.Via == "SendElement" {
					p.S.SendElement(sctx, &sliceReader{t: payload}, start)
				} else {
					p.S.Send(sctx, &sliceReader{t: append(append([]xml.Token{start}, payload...), start.End())})
				}
				progress.Add(1)
			})
		}()
		// let the application's context expire while it queues for the output
		// stream, then let the peer read again
		time.Sleep(40 * time.Millisecond)
		p.Lib.StallWrites(false)
		progress.Add(1)
		for _, raw := range sc.Input[1:] {
			p.Send(raw)
		}
		closing()
	}

	both := make(chan struct{})
	go func() { <-serveDone; <-appDone; close(both) }()
	finished, quiescent := stall.AwaitQuiet(both, progress.Load, 3*time.Second, waitMax)
	if !finished {
		if quiescent {
			if parked := stall.Check(nil, 0); len(parked) > 0 {
				c.Violate(stall.Key(parked[0]), "concurrent scenario %s: the whole input and the closing tag were sent, nothing moves and %d library goroutine(s) stay parked, e.g.\n%s", cc.Kind, len(parked), parked[0].Stack)
				return
			}
		}
		c.Inconclusive("conc %s: Serve or the application did not return", cc.Kind)
		return
	}
	if serveErr != nil {
		c.Violate("conc:"+cc.Kind+":serve-ended", "concurrent scenario %s: well-formed input, programs that do not fail, the peer's closing tag at the end, and Serve returned %v\nwire: %s", cc.Kind, serveErr, p.Lib.Written())
	}
	c.Count("conc_requests_judged", len(st.exp))
	judge(c, sc, o, st, p.Lib.Written(), serveErr, ownRequest)
	for i := range st.exp {
		if !st.invoked[i] && sc.Mode != "mux-unreg" {
			c.Violate("conc:"+cc.Kind+":request-not-dispatched", "concurrent scenario %s: the peer's %s never reached the handler", cc.Kind, st.exp[i])
			break
		}
	}
	c.Sig("conc|%s|%s|%s|%s|n=%d", cc.Kind, cc.Consume, cc.Via, sc.Mode, len(st.exp))
}

var _ = core.Exploration
