package c07

import (
	"context"
	"encoding/xml"
	"fmt"
	"sync/atomic"
	"time"

	"mellium.im/xmlstream"
	"mellium.im/xmpp/jid"
	"mellium.im/xmpp/stanza"

	"mellium.im/xmpp/verifharness/core"
	"mellium.im/xmpp/verifharness/sess"
	"mellium.im/xmpp/verifharness/stall"
	"mellium.im/xmpp/verifharness/xmltree"
)

// The id-collision scenario.  Three actors: the serve goroutine (Serve with
// the usual handler), a requester goroutine (one of the request helpers with id
// X), and the case goroutine playing the peer:
//
//  1. wait until our request is on the wire (it is registered before it is written);
//  2. send a get/set IQ with the same id X from another entity, and a sentinel ping;
//  3. wait until the sentinel has been answered (the serve loop is past both);
//  4. send the real response to X and the closing tag; wait for both actors.
//
// All waits are bounded and only ever end in INCONCLUSIVE; the verdicts are
// logical: what is on the wire, whether the handler was given the request, and
// whether the requester returned before the response had been sent.

const waitMax = 20 * time.Second

type reqResult struct {
	name, typ  string // first token of the response handed to the requester
	err        error
	beforeResp bool // returned before the peer had sent the real response
	returned   bool
}

func runCollision(c *core.Case, sc Scenario) {
	col := sc.Collision
	p, st, outer, ok := build(c, sc)
	if !ok {
		return
	}
	o := p.Opts
	remote, err := jid.Parse(o.Remote)
	if err != nil {
		c.Inconclusive("collision: bad remote address %q: %v", o.Remote, err)
		return
	}
	c.Count("collision_cases", 1)
	c.Count("collision_via_"+col.Via, 1)
	c.Count("streams", 1)
	c.Count("mode_"+sc.Mode, 1)

	var progress atomic.Int64
	ctx, cancel := context.WithCancel(context.Background())
	defer func() {
		// whatever happened, leave no actor behind
		cancel()
		p.Peer.Close()
		p.Lib.Close()
	}()

	// ---- serve goroutine
	serveDone := make(chan struct{})
	var serveErr error
	go func() {
		defer close(serveDone)
		c.Guard("Serve", func() { serveErr = p.S.Serve(outer) })
		progress.Add(1)
	}()

	// ---- requester goroutine
	var respSent atomic.Bool
	reqDone := make(chan struct{})
	var res reqResult
	ping := func() xml.TokenReader {
		return xmlstream.Wrap(nil, xml.StartElement{Name: xml.Name{Space: "urn:xmpp:ping", Local: "ping"}})
	}
	go func() {
		defer close(reqDone)
		c.Guard(col.Via, func() {
			var resp xmlstream.TokenReadCloser
			var err error
			iq := stanza.IQ{ID: col.ID, Type: stanza.IQType(col.ReqType), To: remote}
			switch col.Via {
			case "SendIQ":
				resp, err = p.S.SendIQ(ctx, iq.Wrap(ping()))
			case "SendIQElement":
				resp, err = p.S.SendIQElement(ctx, ping(), iq)
			case "UnmarshalIQ":
				var v struct {
					XMLName xml.Name `xml:"urn:c07:pong pong"`
				}
				err = p.S.UnmarshalIQ(ctx, iq.Wrap(ping()), &v)
				if err == nil {
					res.name, res.typ = "iq", "result"
				}
			case "SendMessage":
				resp, err = p.S.SendMessageElement(ctx, xmlstream.Wrap(xmlstream.Token(xml.CharData("hi")), xml.StartElement{Name: xml.Name{Local: "body"}}),
					stanza.Message{ID: col.ID, Type: stanza.ChatMessage, To: remote})
			case "SendPresence":
				resp, err = p.S.SendPresenceElement(ctx, nil, stanza.Presence{ID: col.ID, To: remote})
			default:
				panic("unknown collision via " + col.Via)
			}
			res.beforeResp = !respSent.Load()
			res.err = err
			if resp != nil {
				if tok, _ := resp.Token(); tok != nil {
					if se, ok := tok.(xml.StartElement); ok {
						res.name, res.typ = se.Name.Local, attrOf(&se, "type")
					}
				}
				resp.Close()
			}
			res.returned = true
		})
		progress.Add(1)
	}()

	wireHas := func(f func(*xmltree.Node) bool) bool {
		for _, e := range xmltree.ParseStream(p.Lib.Written(), true).Elems {
			if f(e) {
				return true
			}
		}
		return false
	}
	// await polls cond; it gives up when an actor that is needed has ended or
	// the bound has passed.
	await := func(what string, cond func() bool, also ...<-chan struct{}) bool {
		deadline := time.Now().Add(waitMax)
		for {
			if cond() {
				return true
			}
			for _, ch := range also {
				select {
				case <-ch:
					return cond()
				default:
				}
			}
			if time.Now().After(deadline) {
				c.Inconclusive("collision: %s did not happen within %v", what, waitMax)
				return false
			}
			time.Sleep(200 * time.Microsecond)
		}
	}
	wantName := "iq"
	switch col.Via {
	case "SendMessage":
		wantName = "message"
	case "SendPresence":
		wantName = "presence"
	}
	isOwnRequest := func(e *xmltree.Node) bool {
		if e.Name.Local != wantName || e.Attr("id") != col.ID || e.HasAttr("hw") {
			return false
		}
		if wantName == "iq" {
			return e.Attr("type") == col.ReqType
		}
		return e.Attr("type") != "error"
	}

	// 1. our request is on the wire
	if !await("our own request appearing on the wire", func() bool { return wireHas(isOwnRequest) }, reqDone) {
		return
	}
	if !wireHas(isOwnRequest) {
		c.Inconclusive("collision: the requester returned (%v) without the request on the wire", res.err)
		return
	}
	// 2. the colliding request and the sentinel
	p.Send(st.input)
	progress.Add(1)
	// 3. barrier: the sentinel has been answered (or Serve has ended)
	sentinelAnswered := func() bool {
		return wireHas(func(e *xmltree.Node) bool { return isReplyIQ(e, o.NS(), sentinelID) })
	}
	if !await("the reply to the sentinel ping", sentinelAnswered, serveDone) {
		return
	}
	barrier := sentinelAnswered()
	// 4. the real response, the closing tag, the end of the input
	respSent.Store(true)
	from := xmlEsc(o.Remote)
	switch wantName {
	case "iq":
		p.Send(fmt.Sprintf("<iq type='result' id='%s' from='%s'><pong xmlns='urn:c07:pong'/></iq>", xmlEsc(col.ID), from))
	default:
		p.Send(fmt.Sprintf("<%s type='error' id='%s' from='%s'><error type='cancel'><service-unavailable xmlns='%s'/></error></%s>", wantName, xmlEsc(col.ID), from, nsStanzaErr, wantName))
	}
	p.ClosePeer()
	p.Peer.CloseWrite()
	progress.Add(1)

	both := make(chan struct{})
	go func() { <-serveDone; <-reqDone; close(both) }()
	finished, quiescent := stall.AwaitQuiet(both, progress.Load, 3*time.Second, waitMax)
	if !finished {
		if quiescent {
			if parked := stall.Check(nil, 0); len(parked) > 0 {
				c.Violate(stall.Key(parked[0]), "id collision via %s: after the response and the closing tag were sent nothing moves and %d library goroutine(s) stay parked, e.g.\n%s", col.Via, len(parked), parked[0].Stack)
				return
			}
		}
		c.Inconclusive("collision: Serve or the requester did not return after the response and the closing tag were sent")
		return
	}

	// ---- verdicts
	if !barrier {
		// Serve ended before the sentinel was answered (the programs of collision
		// cases return nil, so this is unexpected): the usual rule decides with
		// the exemption for a stream that ended with an error.
		c.Count("collision_serve_ended_before_barrier", 1)
		if serveErr == nil {
			c.Violate("collision:serve-ended-silently", "id collision via %s: Serve returned nil before the sentinel ping was answered\nwire: %s", col.Via, p.Lib.Written())
		}
		return
	}
	c.Count("collision_barrier_reached", 1)
	judge(c, sc, o, st, p.Lib.Written(), serveErr, isOwnRequest)

	if !st.invoked[0] {
		c.Violate("collision:request-not-dispatched", "id collision via %s: the peer's %s (id %q, same id as our pending request) never reached the handler although the serve loop went on to the sentinel ping; the requester got <%s type=%q> err=%v", col.Via, st.exp[0], col.ID, res.name, res.typ, res.err)
	} else {
		c.Count("collision_request_reached_handler", 1)
	}
	wantTyp := "result"
	if wantName != "iq" {
		wantTyp = "error"
	}
	switch {
	case !res.returned:
		// a panic in the helper: already reported by Guard
	case res.beforeResp:
		c.Violate("collision:requester-got-request", "id collision via %s: the requester returned (<%s type=%q>, err=%v) before the peer had sent the response to id %q: the peer's own request was taken for it", col.Via, res.name, res.typ, res.err, col.ID)
	case col.Via == "UnmarshalIQ" && res.err != nil, col.Via != "UnmarshalIQ" && (res.err != nil || res.name != wantName || res.typ != wantTyp):
		c.Violate("collision:requester-wrong-response", "id collision via %s: the requester got <%s type=%q> err=%v, the peer's response was <%s type=%q id=%q>", col.Via, res.name, res.typ, res.err, wantName, wantTyp, col.ID)
	default:
		c.Count("collision_requester_got_response", 1)
	}
	if st.extra > 0 {
		c.Count("collision_unexpected_dispatches", st.extra)
	}
	c.Sig("collision|%s|%s|s2s=%v|req=%s|in=%s|w=%s", col.Via, sc.Mode, sc.S2S, col.ReqType, st.exp[0].Attr("type"), kindSig(sc.Programs[0]))
}

func xmlEsc(s string) string { return esc(s) }

var _ = sess.NSClient
